//! C13 harness: generates abstract COLR paint graphs, compiles them to real COLR v1/v0 tables with
//! write-fonts + FontBuilder, runs skrifa `ColorGlyph::paint` with a recording `ColorPainter` under
//! several client answers of `paint_cached_color_glyph`, and records (graph, [(client mode, glyph id,
//! result class, structural callback stream)]) for the Coq model (coq/C13/Model.v `check_case`).
//! Implementation-only oracle (the property's own wording): the call returns within a time budget with a
//! bounded callback count, never panics, and whenever it reports success the callback stream is well
//! nested (every push_transform/push_clip*/push_layer popped exactly once, LIFO, layer modes matching),
//! both for a client that overrides `fill_glyph` and for one that uses the trait's default.
use read_fonts::types::{BoundingBox, F2Dot14, FWord, Fixed, GlyphId, GlyphId16, UfWord};
use read_fonts::FontRef;
use serde_json::json;
use skrifa::color::{Brush, ColorPainter, CompositeMode, PaintCachedColorGlyph, PaintError, Transform};
use skrifa::instance::LocationRef;
use skrifa::MetadataProvider;
use std::collections::HashMap;
use std::time::Instant;
use vh::*;
use write_fonts::tables::colr as w;
use write_fonts::tables::variations as wv;
use write_fonts::FontBuilder;

// ---------------------------------------------------------------- abstract graphs

#[derive(Clone, Debug, PartialEq, Eq, Hash)]
enum Node {
    /// compiled as a placeholder PaintSolid whose format byte is then overwritten with 0xFF
    Bad,
    Layers { start: u32, num: u8 },
    /// variant = how it is compiled (see `fill_emit`), salt makes the bytes unique
    Fill { variant: u8, salt: u16 },
    Glyph { gid: u16, child: usize },
    ColrGlyph { gid: u16 },
    /// fmt = COLR paint format 12..=31
    Transform { fmt: u8, salt: u16, child: usize },
    /// a transform paint with fixed, salt-free parameters (see `fixed_xf_paint`): identities of every
    /// transform family, halves of exactly cancelling pairs, a variable one cancelling at coords [1.0]
    FixedXf { kind: u8, child: usize },
    Composite { src: usize, mode: u8, backdrop: usize },
}

const N_FILL_VARIANTS: u8 = 20;
/// brush kind the fill variant must produce (None: nothing is drawn)
fn fill_emit(variant: u8) -> Option<u8> {
    match variant {
        0 | 1 => Some(0),         // Solid, VarSolid
        2 | 8 => Some(1),         // (Var)LinearGradient, two stops, non degenerate
        3 => Some(0),             // linear, p0 == p1, has stops: solid fallback
        4 | 5 | 6 => None,        // linear: empty line / degenerate+empty / single stop + repeat
        7 => Some(1),             // linear single stop + pad
        9 | 13 => Some(2),        // (Var)RadialGradient
        10 | 11 => None,          // radial empty / single stop + reflect
        12 => Some(2),            // radial single stop + pad
        14 | 19 => Some(3),       // (Var)SweepGradient
        15 | 16 | 17 => None,     // sweep empty / single stop repeat / equal angles repeat
        18 => Some(3),            // sweep equal angles pad
        _ => unreachable!(),
    }
}

#[derive(Clone, Debug, Default)]
struct Graph {
    nodes: Vec<Node>,
    intern: HashMap<Node, usize>,
    layers: Option<Vec<usize>>,
    base: Option<Vec<(u16, usize)>>,
    clips: Vec<(u16, u16)>,
    v0base: Option<Vec<(u16, u16, u16)>>,
    v0layers: Option<Vec<(u16, u16)>>,
    /// add an ItemVariationStore (one axis) so that Var* paints get non-zero deltas
    var_store: bool,
    /// clip box shape of ClipList entry k = (clip_salt + k) % N_CLIP_SHAPES (see `clip_box_for`)
    clip_salt: u32,
    /// paint at this entry of the fixed location list instead of a random one
    force_coords: Option<usize>,
    salt: u16,
    /// record-count patch applied to the compiled bytes (family `unsorted`), see `apply_count_patch`
    patch: u8,
}

impl Graph {
    fn add(&mut self, n: Node) -> usize {
        if let Some(i) = self.intern.get(&n) {
            return *i;
        }
        self.nodes.push(n.clone());
        self.intern.insert(n, self.nodes.len() - 1);
        self.nodes.len() - 1
    }
    fn next_salt(&mut self) -> u16 {
        self.salt += 1;
        self.salt
    }
    fn fill(&mut self, variant: u8) -> usize {
        let salt = self.next_salt();
        self.add(Node::Fill { variant, salt })
    }
    fn solid(&mut self) -> usize {
        self.fill(0)
    }
    fn xf(&mut self, fmt: u8, child: usize) -> usize {
        let salt = self.next_salt();
        self.add(Node::Transform { fmt, salt, child })
    }
    fn to_coq(&self) -> String {
        let nodes = clist(self.nodes.iter(), |n| match n {
            Node::Bad => "GBad".into(),
            Node::Layers { start, num } => format!("GLayers {} {}%nat", start, num),
            Node::Fill { variant, .. } => match fill_emit(*variant) {
                Some(k) => format!("GFill (Some {})", k),
                None => "GFill None".into(),
            },
            Node::Glyph { gid, child } => format!("GGlyph {} {}", gid, child),
            Node::ColrGlyph { gid } => format!("GColrGlyph {}", gid),
            Node::Transform { child, .. } | Node::FixedXf { child, .. } => format!("GTransform {}", child),
            Node::Composite { src, mode, backdrop } => format!("GComposite {} {} {}", src, mode, backdrop),
        });
        let layers = copt(self.layers.as_ref().map(|l| clist(l.iter(), |r| format!("{}", r))));
        // what the reader sees once the record counts are patched: count beyond the data = the list does not
        // parse (None / no clip), count 0 = empty list, count n-1 = prefix
        let mut m_base = self.base.clone();
        let mut m_clips = self.clips.clone();
        let mut m_v0b = self.v0base.clone();
        match self.patch {
            1 => m_base = None,
            2 => m_base = Some(vec![]),
            3 => m_clips = vec![],
            4 => m_clips = vec![],
            5 => m_v0b = None,
            6 => m_v0b = Some(vec![]),
            7 => {
                if let Some(b) = m_base.as_mut() {
                    b.pop();
                }
            }
            8 => {
                m_clips.pop();
            }
            _ => {}
        }
        let base = copt(m_base.as_ref().map(|l| clist(l.iter(), |(g, r)| format!("({},{})", g, r))));
        let clips = clist(m_clips.iter(), |(a, b)| format!("({},{})", a, b));
        let v0b = copt(m_v0b.as_ref().map(|l| clist(l.iter(), |(g, s, n)| format!("({},({},{}%nat))", g, s, n))));
        let v0l = copt(self.v0layers.as_ref().map(|l| clist(l.iter(), |(g, p)| format!("({},{})", g, p))));
        format!("mkG {} {} {} {} {} {}", nodes, layers, base, clips, v0b, v0l)
    }
    /// number of write-fonts objects the tree expansion of node i creates (sharing is duplicated)
    fn expanded_size(&self, i: usize, memo: &mut HashMap<usize, u64>) -> u64 {
        if let Some(v) = memo.get(&i) {
            return *v;
        }
        let v = match &self.nodes[i] {
            Node::Glyph { child, .. } | Node::Transform { child, .. } | Node::FixedXf { child, .. } => 1 + self.expanded_size(*child, memo),
            Node::Composite { src, backdrop, .. } => {
                1u64.saturating_add(self.expanded_size(*src, memo)).saturating_add(self.expanded_size(*backdrop, memo))
            }
            _ => 1,
        };
        memo.insert(i, v);
        v
    }
}

// ---------------------------------------------------------------- compilation to a real font

const BAD_PALETTE: u16 = 0xEEDD;

fn f2(v: f32) -> F2Dot14 {
    F2Dot14::from_f32(v)
}
fn fw(v: i32) -> FWord {
    FWord::new(v as i16)
}

fn color_line(stops: &[(f32, u16)], extend: w::Extend) -> w::ColorLine {
    w::ColorLine::new(extend, stops.len() as u16, stops.iter().map(|(o, p)| w::ColorStop::new(f2(*o), *p, f2(1.0))).collect())
}
fn var_color_line(stops: &[(f32, u16)], extend: w::Extend, vib: u32) -> w::VarColorLine {
    w::VarColorLine::new(extend, stops.len() as u16, stops.iter().map(|(o, p)| w::VarColorStop::new(f2(*o), *p, f2(1.0), vib)).collect())
}

const N_FIXED_XF: u8 = 18;
/// kinds 0..=11: the identity in every transform family (accumulated brush transform == Transform::default()
/// although brush_transform.is_some()); 12: variable translate that is the identity only at coords [1.0]
/// (base (-100, 100), deltas (+100, -100)); 13/14, 15/15, 16/17: halves of pairs whose product is exactly
/// the identity in f32.
fn fixed_xf_paint(kind: u8, c: w::Paint) -> w::Paint {
    use w::Paint as P;
    let one = f2(1.0);
    let zero = f2(0.0);
    const NOVAR: u32 = 0xFFFF_FFFF;
    match kind {
        0 => P::translate(c, fw(0), fw(0)),
        1 => P::scale(c, one, one),
        2 => P::scale_uniform(c, one),
        3 => P::rotate(c, zero),
        4 => P::skew(c, zero, zero),
        5 => P::transform(c, w::Affine2x3::new(Fixed::ONE, Fixed::ZERO, Fixed::ZERO, Fixed::ONE, Fixed::ZERO, Fixed::ZERO)),
        6 => P::scale_around_center(c, one, one, fw(70), fw(-9)),
        7 => P::scale_uniform_around_center(c, one, fw(70), fw(-9)),
        8 => P::rotate_around_center(c, zero, fw(70), fw(-9)),
        9 => P::skew_around_center(c, zero, zero, fw(70), fw(-9)),
        10 => P::var_translate(c, fw(0), fw(0), NOVAR),
        11 => P::var_transform(c, w::VarAffine2x3::new(Fixed::ONE, Fixed::ZERO, Fixed::ZERO, Fixed::ONE, Fixed::ZERO, Fixed::ZERO, NOVAR)),
        12 => P::var_translate(c, fw(-100), fw(100), 0),
        13 => P::translate(c, fw(37), fw(-12)),
        14 => P::translate(c, fw(-37), fw(12)),
        15 => P::scale(c, f2(-1.0), f2(-1.0)),
        16 => P::var_translate(c, fw(50), fw(8), NOVAR),
        17 => P::translate(c, fw(-50), fw(-8)),
        _ => unreachable!(),
    }
}

fn build_paint(g: &Graph, i: usize) -> w::Paint {
    use w::Extend::*;
    use w::Paint as P;
    // variation index base: in range of the delta sets, or the "no variation" sentinel
    let vib = |salt: u16| -> u32 {
        if salt % 3 == 0 {
            0xFFFF_FFFF
        } else {
            (salt % 5) as u32
        }
    };
    match &g.nodes[i] {
        Node::Bad => P::solid(BAD_PALETTE, f2(1.0)),
        Node::Layers { start, num } => P::colr_layers(*num, *start),
        Node::ColrGlyph { gid } => P::colr_glyph(GlyphId16::new(*gid)),
        Node::Glyph { gid, child } => P::glyph(build_paint(g, *child), GlyphId16::new(*gid)),
        Node::Composite { src, mode, backdrop } => {
            P::composite(build_paint(g, *src), CompositeMode::new(*mode), build_paint(g, *backdrop))
        }
        Node::Fill { variant, salt } => {
            let s = *salt as i32 % 20000;
            let p = *salt;
            let ext3 = [Pad, Repeat, Reflect][(*salt % 3) as usize];
            let two = [(0.0f32, p), (1.0f32, p)];
            let two_b = [(0.25f32, p), (0.75f32, p)];
            match variant {
                0 => P::solid(p, f2(1.0)),
                1 => P::var_solid(p, f2(0.5), vib(*salt)),
                2 => P::linear_gradient(color_line(if p % 2 == 0 { &two } else { &two_b }, ext3), fw(s), fw(0), fw(s + 1000), fw(0), fw(s), fw(1000)),
                3 => P::linear_gradient(color_line(&two, ext3), fw(s), fw(0), fw(s), fw(0), fw(s), fw(1000)),
                4 => P::linear_gradient(color_line(&[], ext3), fw(s), fw(0), fw(s + 1000), fw(0), fw(s), fw(1000)),
                5 => P::linear_gradient(color_line(&[], ext3), fw(s), fw(0), fw(s), fw(0), fw(s), fw(1000)),
                6 => P::linear_gradient(color_line(&[(0.5, p)], if p % 2 == 0 { Repeat } else { Reflect }), fw(s), fw(0), fw(s + 1000), fw(0), fw(s), fw(1000)),
                7 => P::linear_gradient(color_line(&[(0.5, p)], Pad), fw(s), fw(0), fw(s + 1000), fw(0), fw(s), fw(1000)),
                8 => P::var_linear_gradient(var_color_line(&two, ext3, vib(*salt)), fw(s), fw(0), fw(s + 1000), fw(0), fw(s), fw(1000), vib(*salt + 1)),
                9 => P::radial_gradient(color_line(if p % 2 == 0 { &two } else { &two_b }, ext3), fw(s), fw(0), UfWord::new(10), fw(s + 50), fw(7), UfWord::new(200)),
                10 => P::radial_gradient(color_line(&[], ext3), fw(s), fw(0), UfWord::new(10), fw(s + 50), fw(7), UfWord::new(200)),
                11 => P::radial_gradient(color_line(&[(0.5, p)], Reflect), fw(s), fw(0), UfWord::new(10), fw(s + 50), fw(7), UfWord::new(200)),
                12 => P::radial_gradient(color_line(&[(0.5, p)], Pad), fw(s), fw(0), UfWord::new(10), fw(s + 50), fw(7), UfWord::new(200)),
                13 => P::var_radial_gradient(var_color_line(&two, ext3, vib(*salt)), fw(s), fw(0), UfWord::new(10), fw(s + 50), fw(7), UfWord::new(200), vib(*salt + 1)),
                14 => P::sweep_gradient(color_line(if p % 2 == 0 { &two } else { &two_b }, ext3), fw(s), fw(3), f2(0.0), f2(1.0)),
                15 => P::sweep_gradient(color_line(&[], ext3), fw(s), fw(3), f2(0.0), f2(1.0)),
                16 => P::sweep_gradient(color_line(&[(0.5, p)], Repeat), fw(s), fw(3), f2(0.0), f2(1.0)),
                17 => P::sweep_gradient(color_line(&two, if p % 2 == 0 { Repeat } else { Reflect }), fw(s), fw(3), f2(0.5), f2(0.5)),
                18 => P::sweep_gradient(color_line(&two, Pad), fw(s), fw(3), f2(0.5), f2(0.5)),
                19 => P::var_sweep_gradient(var_color_line(&two, ext3, vib(*salt)), fw(s), fw(3), f2(0.0), f2(1.0), vib(*salt + 1)),
                _ => unreachable!(),
            }
        }
        Node::FixedXf { kind, child } => fixed_xf_paint(*kind, build_paint(g, *child)),
        Node::Transform { fmt, salt, child } => {
            let c = build_paint(g, *child);
            let s = *salt as i32 % 20000;
            let a = F2Dot14::from_bits((*salt % 16000) as i16);
            let b = f2(0.5);
            let v = vib(*salt);
            match fmt {
                12 => P::transform(c, w::Affine2x3::new(Fixed::ONE, Fixed::ZERO, Fixed::ZERO, Fixed::ONE, Fixed::from_i32(s), Fixed::ZERO)),
                13 => P::var_transform(c, w::VarAffine2x3::new(Fixed::ONE, Fixed::ZERO, Fixed::ZERO, Fixed::ONE, Fixed::from_i32(s), Fixed::ZERO, v)),
                14 => P::translate(c, fw(s), fw(1)),
                15 => P::var_translate(c, fw(s), fw(1), v),
                16 => P::scale(c, a, b),
                17 => P::var_scale(c, a, b, v),
                18 => P::scale_around_center(c, a, b, fw(s), fw(2)),
                19 => P::var_scale_around_center(c, a, b, fw(s), fw(2), v),
                20 => P::scale_uniform(c, a),
                21 => P::var_scale_uniform(c, a, v),
                22 => P::scale_uniform_around_center(c, a, fw(s), fw(2)),
                23 => P::var_scale_uniform_around_center(c, a, fw(s), fw(2), v),
                24 => P::rotate(c, a),
                25 => P::var_rotate(c, a, v),
                26 => P::rotate_around_center(c, a, fw(s), fw(2)),
                27 => P::var_rotate_around_center(c, a, fw(s), fw(2), v),
                28 => P::skew(c, a, b),
                29 => P::var_skew(c, a, b, v),
                30 => P::skew_around_center(c, a, b, fw(s), fw(2)),
                31 => P::var_skew_around_center(c, a, b, fw(s), fw(2), v),
                _ => unreachable!(),
            }
        }
    }
}

const N_CLIP_SHAPES: u32 = 6;
fn clip_shape(g: &Graph, k: usize) -> u32 {
    (g.clip_salt.wrapping_add(k as u32)) % N_CLIP_SHAPES
}
/// Clip boxes of every shape a hostile or variable font can have; the real code pushes (and pops)
/// the box whatever its shape.  0 regular, 1 zero area, 2 x-inverted, 3 y-inverted (static);
/// 4 variable, regular at the default location but x_min > x_max at coords [1.0] (deltas +100 / +50
/// on x_min 0 / x_max 40); 5 variable format without variation, inverted.
fn clip_box_for(shape: u32, k: i32) -> w::ClipBox {
    match shape {
        0 => w::ClipBox::format_1(fw(0), fw(0), fw(500 + k), fw(500)),
        1 => w::ClipBox::format_1(fw(k), fw(7), fw(k), fw(7)),
        2 => w::ClipBox::format_1(fw(500 + k), fw(0), fw(100), fw(500)),
        3 => w::ClipBox::format_1(fw(0), fw(500 + k), fw(500), fw(100)),
        4 => w::ClipBox::format_2(fw(0), fw(0), fw(40), fw(500 + k), 0),
        _ => w::ClipBox::format_2(fw(600 + k), fw(0), fw(100), fw(-500), 0xFFFF_FFFF),
    }
}

/// Compiles the graph to font bytes (a COLR-only font).  None if the graph cannot be expressed
/// (too large once sharing is expanded, or the Bad placeholder pattern is ambiguous).
fn compile(g: &Graph) -> Option<Vec<u8>> {
    let mut memo = HashMap::new();
    let mut total = 0u64;
    for r in g.layers.iter().flatten().chain(g.base.iter().flatten().map(|(_, r)| r)) {
        total = total.saturating_add(g.expanded_size(*r, &mut memo));
    }
    if total > 20_000 {
        return None;
    }
    let v0b = g.v0base.as_ref().map(|l| l.iter().map(|(gid, s, n)| w::BaseGlyph::new(GlyphId16::new(*gid), *s, *n)).collect::<Vec<_>>());
    let v0l = g.v0layers.as_ref().map(|l| l.iter().map(|(gid, p)| w::Layer::new(GlyphId16::new(*gid), *p)).collect::<Vec<_>>());
    let mut colr = w::Colr::new(v0b.as_ref().map(|l| l.len()).unwrap_or(0) as u16, v0b, v0l.clone(), v0l.as_ref().map(|l| l.len()).unwrap_or(0) as u16);
    let v1 = g.layers.is_some() || g.base.is_some() || !g.clips.is_empty();
    if v1 {
        if let Some(b) = &g.base {
            let recs: Vec<_> = b.iter().map(|(gid, r)| w::BaseGlyphPaint::new(GlyphId16::new(*gid), build_paint(g, *r))).collect();
            colr.base_glyph_list = Some(w::BaseGlyphList::new(recs.len() as u32, recs)).into();
        }
        if let Some(l) = &g.layers {
            let paints: Vec<_> = l.iter().map(|r| build_paint(g, *r)).collect();
            colr.layer_list = Some(w::LayerList::new(paints.len() as u32, paints)).into();
        }
        // always a ClipList in v1 tables (possibly empty): write-fonts' compute_version ignores
        // base_glyph_list and would otherwise emit a version 0 table without it (finding F-10)
        let clips: Vec<_> = g
            .clips
            .iter()
            .enumerate()
            .map(|(k, (a, b))| {
                let bx = clip_box_for(clip_shape(g, k), k as i32);
                w::Clip::new(GlyphId16::new(*a), GlyphId16::new(*b), bx)
            })
            .collect();
        colr.clip_list = Some(w::ClipList::new(1, clips.len() as u32, clips)).into();
        if g.var_store || (0..g.clips.len()).any(|k| clip_shape(g, k) == 4) || g.nodes.iter().any(|n| matches!(n, Node::FixedXf { kind: 12, .. })) {
            let regions = wv::VariationRegionList::new(1, vec![wv::VariationRegion::new(vec![wv::RegionAxisCoordinates::new(f2(0.0), f2(1.0), f2(1.0))])]);
            let data = wv::ItemVariationData::new(8, 0, vec![0], vec![100, 0x9C, 50, 7, 0xF0, 90, 1, 0x80]);
            colr.item_variation_store = Some(wv::ItemVariationStore::new(regions, vec![Some(data)])).into();
        }
    }
    let mut bytes = FontBuilder::new().add_table(&colr).ok()?.build();
    if g.nodes.iter().any(|n| *n == Node::Bad) {
        // placeholder PaintSolid: format 2, palette BAD_PALETTE, alpha 1.0, var-less: 02 EE DD 40 00
        let pat = [2u8, (BAD_PALETTE >> 8) as u8, BAD_PALETTE as u8, 0x40, 0x00];
        let hits: Vec<usize> = (0..bytes.len().saturating_sub(pat.len())).filter(|k| bytes[*k..*k + pat.len()] == pat).collect();
        if hits.len() != 1 {
            return None;
        }
        bytes[hits[0]] = 0xFF;
    }
    if g.patch != 0 {
        apply_count_patch(&mut bytes, g)?;
    }
    Some(bytes)
}

fn rd32(b: &[u8], at: usize) -> Option<usize> {
    Some(u32::from_be_bytes(b.get(at..at + 4)?.try_into().ok()?) as usize)
}
/// Record counts that disagree with the data (the records themselves stay in place):
/// 1 BaseGlyphList.numBaseGlyphPaintRecords = 0x10000000 (beyond the file), 2 = 0 with records present,
/// 3 ClipList.numClips = 0x10000000, 4 = 0, 5 numBaseGlyphRecords (v0) = 0xFFFF, 6 = 0,
/// 7 BaseGlyphList count = n-1, 8 ClipList count = n-1.
/// Also checks that write-fonts kept the (unsorted) record order; None if it did not.
fn apply_count_patch(bytes: &mut [u8], g: &Graph) -> Option<()> {
    let t = rd32(bytes, 12 + 8)?; // single table: COLR
    let put32 = |b: &mut [u8], at: usize, v: u32| b[at..at + 4].copy_from_slice(&v.to_be_bytes());
    let bl = t + rd32(bytes, t + 14)?;
    let cl = t + rd32(bytes, t + 22)?;
    let nb = rd32(bytes, bl)?;
    let nc = rd32(bytes, cl + 1)?;
    if nb != g.base.as_ref().map(|b| b.len()).unwrap_or(0) || nc != g.clips.len() {
        return None;
    }
    match g.patch {
        1 => put32(bytes, bl, 0x1000_0000),
        2 => put32(bytes, bl, 0),
        3 => put32(bytes, cl + 1, 0x1000_0000),
        4 => put32(bytes, cl + 1, 0),
        5 => bytes[t + 2..t + 4].copy_from_slice(&0xFFFFu16.to_be_bytes()),
        6 => bytes[t + 2..t + 4].copy_from_slice(&0u16.to_be_bytes()),
        7 => put32(bytes, bl, (nb as u32).saturating_sub(1)),
        8 => put32(bytes, cl + 1, (nc as u32).saturating_sub(1)),
        _ => {}
    }
    Some(())
}

/// true iff the compiled table lists base glyph / clip / v0 records in exactly the order of the graph
fn order_kept(bytes: &[u8], g: &Graph) -> bool {
    let Some(t) = rd32(bytes, 12 + 8) else { return false };
    let u16at = |at: usize| bytes.get(at..at + 2).map(|b| u16::from_be_bytes([b[0], b[1]]));
    let mut ok = true;
    if let Some(b) = &g.base {
        if let Some(off) = rd32(bytes, t + 14) {
            let bl = t + off;
            for (k, (gid, _)) in b.iter().enumerate() {
                ok &= u16at(bl + 4 + 6 * k) == Some(*gid);
            }
        }
    }
    if let Some(off) = rd32(bytes, t + 22) {
        let cl = t + off;
        for (k, (a, e)) in g.clips.iter().enumerate() {
            ok &= u16at(cl + 5 + 7 * k) == Some(*a) && u16at(cl + 5 + 7 * k + 2) == Some(*e);
        }
    }
    if let Some(v) = &g.v0base {
        if let Some(off) = rd32(bytes, t + 4) {
            for (k, (gid, s, n)) in v.iter().enumerate() {
                ok &= u16at(t + off + 6 * k) == Some(*gid) && u16at(t + off + 6 * k + 2) == Some(*s) && u16at(t + off + 6 * k + 4) == Some(*n);
            }
        }
    }
    ok
}

/// BaseGlyphList / baseGlyphRecords / ClipList that are UNSORTED, with duplicate glyph ids, overlapping /
/// nested / touching / inverted (start > end) clip ranges; `patch` = record-count disagreement (0 = none)
fn unsorted_graph(rng: &mut Rng, patch: u8, style: u32) -> Graph {
    let mut g = Graph::default();
    let nb = rng.range(2, 10) as usize;
    let mut base: Vec<(u16, usize)> = vec![];
    let mut layers = vec![];
    for k in 0..nb {
        let gid = rng.range(0, 9) as u16;
        let leaf = g.solid();
        let p = match rng.range(0, 6) {
            0 => leaf,
            1 => g.xf(14, leaf),
            2 => g.add(Node::ColrGlyph { gid: rng.range(0, 10) as u16 }),
            3 => g.add(Node::Glyph { gid: 20 + k as u16, child: leaf }),
            4 => {
                let c = g.add(Node::ColrGlyph { gid: rng.range(0, 10) as u16 });
                g.xf(16, c)
            }
            _ => {
                layers.push(leaf);
                let c = g.add(Node::ColrGlyph { gid: rng.range(0, 10) as u16 });
                layers.push(c);
                g.add(Node::Layers { start: (layers.len() - 2) as u32, num: 2 })
            }
        };
        base.push((gid, p));
    }
    let nc = rng.range(0, 7) as usize;
    let mut clips: Vec<(u16, u16)> = (0..nc)
        .map(|_| {
            let a = rng.range(0, 10) as u16;
            match rng.range(0, 5) {
                0 => (a, a),
                1 => (a, a + rng.range(0, 5) as u16),
                2 => (a + rng.range(1, 4) as u16, a), // start > end
                3 => (0, 9),                          // encloses everything (nested)
                _ => (a, a + 1),                      // touching / overlapping its neighbours
            }
        })
        .collect();
    match style % 4 {
        0 => {} // random order
        1 => {
            base.sort_by_key(|r| r.0); // sorted, duplicates adjacent
            clips.sort();
        }
        2 => {
            base.sort_by_key(|r| std::cmp::Reverse(r.0));
            clips.sort_by_key(|r| std::cmp::Reverse(*r));
        }
        _ => {
            // sorted but for one rotated element
            base.sort_by_key(|r| r.0);
            base.rotate_left(1);
            clips.sort();
            if !clips.is_empty() {
                clips.rotate_left(1);
            }
        }
    }
    g.base = Some(base);
    g.layers = Some(layers);
    g.clips = clips;
    g.clip_salt = rng.range(0, 6) as u32;
    if rng.chance(1, 2) || patch == 5 || patch == 6 {
        let nl = 4u16;
        g.v0layers = Some((0..nl).map(|k| (30 + k, k)).collect());
        let nv = rng.range(1, 7) as usize;
        let mut v: Vec<(u16, u16, u16)> = (0..nv).map(|_| (rng.range(0, 11) as u16, rng.range(0, 4) as u16, rng.range(0, 3) as u16)).collect();
        if style % 4 == 1 {
            v.sort();
        }
        g.v0base = Some(v);
    }
    g.patch = patch;
    g
}

// ---------------------------------------------------------------- recording client

#[derive(Clone, Debug, PartialEq, Eq)]
enum Ev {
    PushT,
    PopT,
    PushClipGlyph(u32),
    PushClipBox,
    PopClip,
    Fill(u8),
    FillGlyph(u32, bool, u8),
    PushLayer(u8),
    PopLayer(u8),
    Cached(u32),
}

fn ev_coq(e: &Ev) -> String {
    match e {
        Ev::PushT => "PushT".into(),
        Ev::PopT => "PopT".into(),
        Ev::PushClipGlyph(g) => format!("PushClipGlyph {}", g),
        Ev::PushClipBox => "PushClipBox".into(),
        Ev::PopClip => "PopClip".into(),
        Ev::Fill(k) => format!("Fill {}", k),
        Ev::FillGlyph(g, x, k) => format!("FillGlyph {} {} {}", g, cbool(*x), k),
        Ev::PushLayer(m) => format!("PushLayer {}", m),
        Ev::PopLayer(m) => format!("PopLayer {}", m),
        Ev::Cached(g) => format!("Cached {}", g),
    }
}

fn brush_kind(b: &Brush<'_>) -> u8 {
    match b {
        Brush::Solid { .. } => 0,
        Brush::LinearGradient { .. } => 1,
        Brush::RadialGradient { .. } => 2,
        Brush::SweepGradient { .. } => 3,
    }
}

/// Client painter.  `mode`: 0 = cache unimplemented, 1 = always drawn from cache, 2 = even glyph ids
/// are drawn from cache, 3 = the third and later requests fail with GlyphNotFound.
struct Rec {
    ev: Vec<Ev>,
    mode: u8,
    cached_calls: usize,
    cap: usize,
    /// fill_glyph calls whose brush transform is Some(identity)
    ident_brush: usize,
}

impl Rec {
    fn push(&mut self, e: Ev) {
        if self.ev.len() < self.cap {
            self.ev.push(e);
        } else {
            self.cap = 0; // overflow marker
        }
    }
    fn cached(&mut self, g: GlyphId) -> Result<PaintCachedColorGlyph, PaintError> {
        let before = self.cached_calls;
        self.cached_calls += 1;
        self.push(Ev::Cached(g.to_u32()));
        match self.mode {
            0 => Ok(PaintCachedColorGlyph::Unimplemented),
            1 => Ok(PaintCachedColorGlyph::Ok),
            2 => Ok(if g.to_u32() % 2 == 0 { PaintCachedColorGlyph::Ok } else { PaintCachedColorGlyph::Unimplemented }),
            _ => {
                if before >= 2 {
                    Err(PaintError::GlyphNotFound(g))
                } else {
                    Ok(PaintCachedColorGlyph::Unimplemented)
                }
            }
        }
    }
}

/// overrides fill_glyph and pop_layer_with_mode (records most)
struct RecOverride(Rec);
impl ColorPainter for RecOverride {
    fn push_transform(&mut self, _: Transform) {
        self.0.push(Ev::PushT)
    }
    fn pop_transform(&mut self) {
        self.0.push(Ev::PopT)
    }
    fn push_clip_glyph(&mut self, g: GlyphId) {
        self.0.push(Ev::PushClipGlyph(g.to_u32()))
    }
    fn push_clip_box(&mut self, _: BoundingBox<f32>) {
        self.0.push(Ev::PushClipBox)
    }
    fn pop_clip(&mut self) {
        self.0.push(Ev::PopClip)
    }
    fn fill(&mut self, b: Brush<'_>) {
        self.0.push(Ev::Fill(brush_kind(&b)))
    }
    fn fill_glyph(&mut self, g: GlyphId, t: Option<Transform>, b: Brush<'_>) {
        if t == Some(Transform::default()) {
            self.0.ident_brush += 1;
            IDENT_BRUSH.fetch_add(1, std::sync::atomic::Ordering::Relaxed);
        }
        self.0.push(Ev::FillGlyph(g.to_u32(), t.is_some(), brush_kind(&b)))
    }
    fn paint_cached_color_glyph(&mut self, g: GlyphId) -> Result<PaintCachedColorGlyph, PaintError> {
        self.0.cached(g)
    }
    fn push_layer(&mut self, m: CompositeMode) {
        self.0.push(Ev::PushLayer(m as u8))
    }
    fn pop_layer(&mut self) {
        self.0.push(Ev::PopLayer(255))
    }
    fn pop_layer_with_mode(&mut self, m: CompositeMode) {
        self.0.push(Ev::PopLayer(m as u8))
    }
}

/// implements only the required methods (default fill_glyph / pop_layer_with_mode)
struct RecDefault(Rec);
impl ColorPainter for RecDefault {
    fn push_transform(&mut self, _: Transform) {
        self.0.push(Ev::PushT)
    }
    fn pop_transform(&mut self) {
        self.0.push(Ev::PopT)
    }
    fn push_clip_glyph(&mut self, g: GlyphId) {
        self.0.push(Ev::PushClipGlyph(g.to_u32()))
    }
    fn push_clip_box(&mut self, _: BoundingBox<f32>) {
        self.0.push(Ev::PushClipBox)
    }
    fn pop_clip(&mut self) {
        self.0.push(Ev::PopClip)
    }
    fn fill(&mut self, b: Brush<'_>) {
        self.0.push(Ev::Fill(brush_kind(&b)))
    }
    fn paint_cached_color_glyph(&mut self, g: GlyphId) -> Result<PaintCachedColorGlyph, PaintError> {
        self.0.cached(g)
    }
    fn push_layer(&mut self, m: CompositeMode) {
        self.0.push(Ev::PushLayer(m as u8))
    }
    fn pop_layer(&mut self) {
        self.0.push(Ev::PopLayer(255))
    }
}

const EV_CAP: usize = 400_000;
static IDENT_BRUSH: std::sync::atomic::AtomicU64 = std::sync::atomic::AtomicU64::new(0);

/// the paint call in flight (start time, description): a watchdog thread turns a call that does not
/// return within PAINT_BUDGET_S into an oracle failure ("painting terminates") and ends the run,
/// instead of hanging the whole check (a non-terminating traversal cannot be interrupted in-process)
static IN_FLIGHT: std::sync::Mutex<Option<(Instant, String)>> = std::sync::Mutex::new(None);
const PAINT_BUDGET_S: f64 = 20.0;

fn start_watchdog(dir: std::path::PathBuf) {
    std::thread::spawn(move || loop {
        std::thread::sleep(std::time::Duration::from_millis(250));
        let cur = IN_FLIGHT.lock().unwrap().clone();
        if let Some((t0, what)) = cur {
            if t0.elapsed().as_secs_f64() > PAINT_BUDGET_S {
                let mut st = Stats::new();
                st.evaluations = 1;
                st.oracle_failure(json!({"key": format!("timeout-{:016x}", fnv(what.as_bytes())),
                    "why": format!("ColorGlyph::paint did not return within {} s (bounded termination fails)", PAINT_BUDGET_S),
                    "input": what}));
                st.v.insert("model_cases".into(), 0.into());
                st.v.insert("shards".into(), 0.into());
                // stale shards of an earlier run must not be evaluated against this aborted run
                if let Ok(rd) = std::fs::read_dir(&dir) {
                    for e in rd.flatten() {
                        if e.file_name().to_string_lossy().starts_with("cases_") {
                            let _ = std::fs::remove_file(e.path());
                        }
                    }
                }
                st.write(&dir, "aborted by the watchdog: one paint call exceeded the time budget");
                println!("watchdog: paint call exceeded {} s: {}", PAINT_BUDGET_S, what.chars().take(300).collect::<String>());
                std::process::exit(0);
            }
        }
    });
}

/// result class: 0 Ok, 1 ParseError, 2 GlyphNotFound, 3 PaintCycleDetected, 4 DepthLimitExceeded,
/// 5 no colour glyph for this id, 9 panic
fn run_paint(bytes: &[u8], gid: u32, mode: u8, default_fill_glyph: bool, coords: &[F2Dot14], what: &str) -> (u8, Vec<Ev>, bool, f64) {
    let t0 = Instant::now();
    *IN_FLIGHT.lock().unwrap() = Some((t0, format!("gid={} client_mode={} {}", gid, mode, what)));
    let bytes = bytes.to_vec();
    let coords = coords.to_vec();
    let r = catch(move || {
        let font = FontRef::new(&bytes).unwrap();
        let Some(glyph) = font.color_glyphs().get(GlyphId::new(gid)) else {
            return (5u8, vec![], false);
        };
        let rec = Rec { ev: vec![], mode, cached_calls: 0, cap: EV_CAP, ident_brush: 0 };
        let (res, rec) = if default_fill_glyph {
            let mut p = RecDefault(rec);
            let r = glyph.paint(LocationRef::new(&coords), &mut p);
            (r, p.0)
        } else {
            let mut p = RecOverride(rec);
            let r = glyph.paint(LocationRef::new(&coords), &mut p);
            (r, p.0)
        };
        let cls = match res {
            Ok(()) => 0,
            Err(PaintError::ParseError(_)) => 1,
            Err(PaintError::GlyphNotFound(_)) => 2,
            Err(PaintError::PaintCycleDetected) => 3,
            Err(PaintError::DepthLimitExceeded) => 4,
        };
        (cls, rec.ev, rec.cap == 0)
    });
    let dt = t0.elapsed().as_secs_f64();
    *IN_FLIGHT.lock().unwrap() = None;
    match r {
        Ok((c, e, o)) => (c, e, o, dt),
        Err(_) => (9, vec![], false, dt),
    }
}

/// shape of the root clip box the real code resolves for this glyph at this location (distribution only)
fn root_clip_shape(bytes: &[u8], gid: u32, coords: &[F2Dot14]) -> Option<&'static str> {
    let font = FontRef::new(bytes).ok()?;
    let glyph = font.color_glyphs().get(GlyphId::new(gid))?;
    let b = glyph.bounding_box(LocationRef::new(coords), skrifa::instance::Size::unscaled())?;
    Some(if b.x_min > b.x_max {
        "rootclip.x_inverted"
    } else if b.y_min > b.y_max {
        "rootclip.y_inverted"
    } else if b.x_min == b.x_max || b.y_min == b.y_max {
        "rootclip.zero_area"
    } else {
        "rootclip.regular"
    })
}

/// The property's nesting condition checked directly: returns Err(position) at the first pop that
/// does not match the innermost open push, Ok(open scopes left) otherwise.
fn dyck(ev: &[Ev]) -> Result<usize, usize> {
    #[derive(PartialEq)]
    enum S {
        T,
        C,
        L(u8),
    }
    let mut stk: Vec<S> = vec![];
    for (i, e) in ev.iter().enumerate() {
        match e {
            Ev::PushT => stk.push(S::T),
            Ev::PushClipGlyph(_) | Ev::PushClipBox => stk.push(S::C),
            Ev::PushLayer(m) => stk.push(S::L(*m)),
            Ev::PopT => {
                if stk.pop() != Some(S::T) {
                    return Err(i);
                }
            }
            Ev::PopClip => {
                if stk.pop() != Some(S::C) {
                    return Err(i);
                }
            }
            Ev::PopLayer(m) => match stk.pop() {
                Some(S::L(pm)) if *m == 255 || pm == *m => {}
                _ => return Err(i),
            },
            Ev::Fill(_) | Ev::FillGlyph(..) | Ev::Cached(_) => {}
        }
    }
    Ok(stk.len())
}

/// the trait's default fill_glyph / pop_layer_with_mode applied to a stream recorded by RecOverride
fn expand_default(ev: &[Ev]) -> Vec<Ev> {
    let mut out = vec![];
    for e in ev {
        match e {
            Ev::FillGlyph(g, xf, k) => {
                out.push(Ev::PushClipGlyph(*g));
                if *xf {
                    out.push(Ev::PushT);
                    out.push(Ev::Fill(*k));
                    out.push(Ev::PopT);
                } else {
                    out.push(Ev::Fill(*k));
                }
                out.push(Ev::PopClip);
            }
            Ev::PopLayer(_) => out.push(Ev::PopLayer(255)),
            e => out.push(e.clone()),
        }
    }
    out
}

// ---------------------------------------------------------------- generators

struct Gen<'a> {
    rng: &'a mut Rng,
    g: Graph,
    n_layers: u32,
    gids: Vec<u16>,
    /// probability weights tuned per family
    p_bad: u64,
}

const XF_FMTS: std::ops::RangeInclusive<u8> = 12..=31;

impl Gen<'_> {
    fn any_gid(&mut self) -> u16 {
        if self.gids.is_empty() || self.rng.chance(1, 8) {
            self.rng.range(0, 12) as u16
        } else {
            *self.rng.pick(&self.gids)
        }
    }
    fn leaf(&mut self) -> usize {
        match self.rng.below(10) {
            0..=4 => {
                let v = self.rng.below(N_FILL_VARIANTS as u64) as u8;
                self.g.fill(v)
            }
            5 | 6 => {
                // layer range: mostly valid, sometimes past the end / far out of range
                let nl = self.n_layers;
                let (start, num) = match self.rng.below(8) {
                    0 => (nl.saturating_sub(1), 3u8),
                    1 => (self.rng.pick(&[0xFFFF_FFFFu32, 0xFFFF_FF00, 70000, nl]).to_owned(), self.rng.range(0, 3) as u8),
                    2 => (self.rng.below(nl as u64 + 1) as u32, 0),
                    _ => {
                        let s = self.rng.below(nl.max(1) as u64) as u32;
                        (s, self.rng.range(1, 3) as u8)
                    }
                };
                self.g.add(Node::Layers { start, num })
            }
            7 | 8 => {
                let gid = self.any_gid();
                self.g.add(Node::ColrGlyph { gid })
            }
            _ => {
                if self.rng.chance(self.p_bad, 100) {
                    self.g.add(Node::Bad)
                } else {
                    self.g.solid()
                }
            }
        }
    }
    fn paint(&mut self, depth: u32, glyph_budget: &mut u32) -> usize {
        if depth == 0 || self.rng.chance(1, 5) {
            return self.leaf();
        }
        match self.rng.below(10) {
            0..=3 => {
                let c = self.paint(depth - 1, glyph_budget);
                if self.rng.chance(1, 3) {
                    // identity / exactly cancelling brush transforms
                    let kind = self.rng.below(N_FIXED_XF as u64) as u8;
                    let inner = self.g.add(Node::FixedXf { kind, child: c });
                    match kind {
                        13 => self.g.add(Node::FixedXf { kind: 14, child: inner }),
                        14 => self.g.add(Node::FixedXf { kind: 13, child: inner }),
                        15 => self.g.add(Node::FixedXf { kind: 15, child: inner }),
                        16 => self.g.add(Node::FixedXf { kind: 17, child: inner }),
                        17 => self.g.add(Node::FixedXf { kind: 16, child: inner }),
                        _ => inner,
                    }
                } else {
                    let fmt = self.rng.range(*XF_FMTS.start() as i64, *XF_FMTS.end() as i64) as u8;
                    self.g.xf(fmt, c)
                }
            }
            4..=6 if *glyph_budget > 0 => {
                *glyph_budget -= 1;
                let c = self.paint(depth - 1, glyph_budget);
                let gid = self.rng.range(0, 40) as u16;
                self.g.add(Node::Glyph { gid, child: c })
            }
            7 | 8 => {
                let b = self.paint(depth - 1, glyph_budget);
                let s = self.paint(depth - 1, glyph_budget);
                let mode = self.rng.below(28) as u8;
                self.g.add(Node::Composite { src: s, mode, backdrop: b })
            }
            _ => self.leaf(),
        }
    }
}

fn clip_ranges(rng: &mut Rng, gids: &[u16]) -> Vec<(u16, u16)> {
    let mut v: Vec<(u16, u16)> = vec![];
    let mut lo = 0u16;
    for _ in 0..rng.below(4) {
        let a = lo + rng.range(0, 4) as u16;
        let b = a + rng.range(0, 3) as u16;
        v.push((a, b));
        lo = b + 1;
    }
    if !gids.is_empty() && rng.chance(1, 3) {
        let g = *rng.pick(gids);
        if v.iter().all(|(a, b)| g < *a || g > *b) {
            v.push((g, g));
            v.sort();
            // keep disjoint
            v.dedup_by(|x, y| x.0 <= y.1);
        }
    }
    v
}

fn random_graph(rng: &mut Rng) -> Graph {
    let n_layers = rng.range(0, 6) as u32;
    let nb = rng.range(1, 4) as usize;
    let mut gids: Vec<u16> = (0..nb).map(|_| rng.range(0, 12) as u16).collect();
    gids.sort();
    gids.dedup();
    let p_bad = if rng.chance(1, 3) { 40 } else { 0 };
    let depth = rng.range(1, 6) as u32;
    let mut gen = Gen { rng, g: Graph::default(), n_layers, gids: gids.clone(), p_bad };
    let mut layers = vec![];
    for _ in 0..n_layers {
        let mut gb = 3;
        layers.push(gen.paint(depth, &mut gb));
    }
    let mut base = vec![];
    for g in &gids {
        let mut gb = 4;
        base.push((*g, gen.paint(depth, &mut gb)));
    }
    let mut g = gen.g;
    g.layers = if n_layers == 0 && rng.chance(1, 2) { None } else { Some(layers) };
    g.base = Some(base);
    g.clips = clip_ranges(rng, &gids);
    g.var_store = rng.chance(1, 2);
    g.clip_salt = rng.next_u32();
    if rng.chance(1, 4) {
        // a v0 part next to the v1 part
        let nl = rng.range(0, 4) as u16;
        g.v0layers = Some((0..nl).map(|k| (rng.range(0, 30) as u16, k)).collect());
        let mut b: Vec<(u16, u16, u16)> = (0..rng.range(1, 3)).map(|_| (rng.range(0, 14) as u16, rng.range(0, nl as i64) as u16, rng.range(0, 3) as u16)).collect();
        b.sort();
        b.dedup_by(|x, y| x.0 == y.0);
        g.v0base = Some(b);
    }
    g
}

fn v0_graph(rng: &mut Rng) -> Graph {
    let mut g = Graph::default();
    let nl = rng.range(0, 5) as u16;
    if rng.chance(7, 8) {
        g.v0layers = Some((0..nl).map(|k| (rng.range(0, 30) as u16, k)).collect());
    }
    let mut b: Vec<(u16, u16, u16)> = (0..rng.range(0, 4)).map(|_| (rng.range(0, 8) as u16, rng.range(0, nl as i64 + 1) as u16, rng.range(0, 4) as u16)).collect();
    b.sort();
    b.dedup_by(|x, y| x.0 == y.0);
    if rng.chance(7, 8) {
        g.v0base = Some(b);
    }
    g
}

/// edge kinds for structured chains / cycles
#[derive(Clone, Copy, Debug, PartialEq)]
enum Edge {
    Xf,
    Layer,
    ColrGlyph,
    CompB,
    CompS,
    Glyph,
}

/// Builds a path of `edges` starting at base glyph 0; the end of the path is `tail`:
/// None = a solid leaf, Some(k) = jump back to position k of the path (cycle; k-th element must be
/// reachable by index, i.e. we add a ColrLayers/ColrGlyph edge to it).
fn path_graph(rng: &mut Rng, edges: &[Edge], tail: Option<usize>, clip_on: &[u16]) -> Graph {
    // positions 0..=n ; position i's paint is reached from base glyph / layer entry / direct child.
    // We build from the end backwards. entry ids: layer index i and glyph id i are reserved for position i.
    let n = edges.len();
    let mut g = Graph::default();
    let mut layers: Vec<Option<usize>> = vec![None; n + 2];
    let mut base: Vec<(u16, usize)> = vec![];
    // paint at the end of the path
    let mut cur = match tail {
        None => g.solid(),
        Some(k) => {
            // refer to position k through its layer entry or its glyph entry, whichever exists
            // (position k is entered through edge k-1; position 0 through base glyph 0)
            if k == 0 || edges[k - 1] == Edge::ColrGlyph {
                g.add(Node::ColrGlyph { gid: k as u16 })
            } else {
                g.add(Node::Layers { start: k as u32, num: 1 })
            }
        }
    };
    for i in (0..n).rev() {
        // `cur` is the paint at position i+1; make the paint at position i with an edge to it
        cur = match edges[i] {
            Edge::Xf => {
                let fmt = rng.range(12, 31) as u8;
                g.xf(fmt, cur)
            }
            Edge::Glyph => g.add(Node::Glyph { gid: 100 + i as u16, child: cur }),
            Edge::CompB => {
                let s = g.solid();
                g.add(Node::Composite { src: s, mode: (i % 28) as u8, backdrop: cur })
            }
            Edge::CompS => {
                let b = g.solid();
                g.add(Node::Composite { src: cur, mode: (i % 28) as u8, backdrop: b })
            }
            Edge::Layer => {
                layers[i + 1] = Some(cur);
                g.add(Node::Layers { start: (i + 1) as u32, num: 1 })
            }
            Edge::ColrGlyph => {
                base.push(((i + 1) as u16, cur));
                g.add(Node::ColrGlyph { gid: (i + 1) as u16 })
            }
        };
    }
    base.push((0, cur));
    base.sort();
    let filler = g.solid();
    // trim the layer list after the last used entry (+1 spare)
    let last = layers.iter().rposition(|l| l.is_some()).map(|p| p + 1).unwrap_or(0);
    g.layers = Some(layers[..last].iter().map(|l| l.unwrap_or(filler)).collect());
    g.base = Some(base);
    g.clips = clip_on.iter().map(|c| (*c, *c)).collect();
    g.clip_salt = rng.next_u32();
    g.clips.sort();
    g.clips.dedup();
    g
}

fn main() {
    silence_panics();
    let args: Vec<String> = std::env::args().collect();
    let thorough = tier_is_thorough(&args);
    let seed = seed_from_env();
    let dir = out_dir(&args, "C13");
    let mut rng = Rng::new(seed);
    let mut st = Stats::new();
    start_watchdog(dir.clone());
    let mut cw = CaseWriter::new(
        &dir,
        "From Coq Require Import NArith List. Import ListNotations. Open Scope N_scope.\nFrom FV Require Import Lib.Cases C13.Model C13.Lookup.",
        "graph * list (N * N * (N * list cb))",
        "check_case2",
        if thorough { 120 } else { 60 },
    );
    let coords_sets: Vec<Vec<F2Dot14>> = vec![vec![], vec![f2(1.0)], vec![f2(0.5)], vec![f2(-1.0)], vec![f2(0.25), f2(-0.5)]];
    let mut max_dt = 0f64;
    let mut max_ev = 0usize;

    let mut run_graph = |g: &Graph, name: &str, gids: &[u32], modes: &[u8], rng: &mut Rng, st: &mut Stats, cw: &mut CaseWriter| {
        st.count(&format!("family.{}", name));
        let Some(bytes) = compile(g) else {
            st.count("skipped.uncompilable");
            return;
        };
        let coq_g = g.to_coq();
        let mut subs = vec![];
        for gid in gids {
            for mode in modes {
                let coords = match g.force_coords {
                    Some(k) => coords_sets[k % coords_sets.len()].clone(),
                    None => rng.pick(&coords_sets).clone(),
                };
                let (cls, ev, overflow, dt) = run_paint(&bytes, *gid, *mode, false, &coords, &coq_g);
                st.evaluations += 1;
                max_dt = max_dt.max(dt);
                max_ev = max_ev.max(ev.len());
                st.count(&format!("class.{}", cls));
                if *mode == modes[0] {
                    if let Some(k) = root_clip_shape(&bytes, *gid, &coords) {
                        st.count(k);
                        let entry = g.clips.iter().position(|(a, b)| *a as u32 <= *gid && *gid <= *b as u32);
                        if entry.map(|e| clip_shape(g, e)) == Some(4) {
                            st.count(&format!("{}.variable_box", k));
                        }
                        if !g.var_store && !coords.is_empty() {
                            st.count("rootclip.at_nondefault_location");
                        }
                    }
                }
                st.count(&format!("mode.{}", mode));
                let key = format!("{} gid={} mode={} coords={:?} graph={}", name, gid, mode, coords.iter().map(|c| c.to_bits()).collect::<Vec<_>>(), coq_g);
                let key_short = format!("{:016x}", fnv(key.as_bytes()));
                let fail = |why: &str, st: &mut Stats| {
                    st.oracle_failure(json!({"key": key_short, "why": why, "family": name, "gid": gid, "client_mode": mode, "class": cls, "graph": coq_g, "stream": ev.iter().map(ev_coq).collect::<Vec<_>>()}));
                };
                // --- implementation-only oracle
                if cls == 9 {
                    fail("ColorGlyph::paint panicked", st);
                }
                if dt > 5.0 || overflow {
                    fail("painting did not finish within the time / callback budget", st);
                }
                // the property constrains the stream only when painting reports success; on errors the
                // real code may skip a pop and then run an outer pop (counted, not a failure)
                match dyck(&ev) {
                    Err(pos) if cls == 0 => fail(&format!("success reported but callback {} pops what is not the innermost open push", pos), st),
                    Ok(open) if cls == 0 && open != 0 => fail(&format!("success reported with {} scopes left open", open), st),
                    Err(_) => st.count("err_ill_nested_stream"),
                    Ok(open) => {
                        if cls == 0 {
                            st.count("ok_balanced");
                        } else if open > 0 {
                            st.count("err_with_open_scopes");
                        }
                    }
                }
                // a client with the default fill_glyph sees the expansion of the same stream
                let (cls2, ev2, _, _) = run_paint(&bytes, *gid, *mode, true, &coords, &coq_g);
                if cls2 != cls || ev2 != expand_default(&ev) {
                    fail("default-fill_glyph client does not see the expansion of the overriding client's stream", st);
                }
                if cls2 == 0 && dyck(&ev2) != Ok(0) {
                    fail("default-fill_glyph client: success reported but stream not well nested", st);
                }
                // the default-fill_glyph client's own stream also goes to the model (client mode + 10) whenever
                // a fill_glyph occurred (otherwise it equals the other stream up to the pop_layer modes)
                if ev.iter().any(|e| matches!(e, Ev::FillGlyph(..))) {
                    st.count("fill_glyph_cases");
                    if ev.iter().any(|e| matches!(e, Ev::FillGlyph(_, true, _))) {
                        st.count("fill_glyph_cases.with_brush_transform");
                    }
                    if ev2.len() <= 600 {
                        subs.push(format!("({},{},({},{}))", *mode as u32 + 10, gid, cls2, clist(ev2.iter(), ev_coq)));
                    }
                }
                // --- distribution
                for e in &ev {
                    let k = match e {
                        Ev::PushT | Ev::PopT => "ev.transform",
                        Ev::PushClipGlyph(_) => "ev.clip_glyph",
                        Ev::PushClipBox => "ev.clip_box",
                        Ev::PopClip => "ev.pop_clip",
                        Ev::Fill(_) => "ev.fill",
                        Ev::FillGlyph(_, true, _) => "ev.fill_glyph_xf",
                        Ev::FillGlyph(_, false, _) => "ev.fill_glyph",
                        Ev::PushLayer(_) | Ev::PopLayer(_) => "ev.layer",
                        Ev::Cached(_) => "ev.cached",
                    };
                    st.count(k);
                }
                if ev.len() >= 3 || cls >= 3 {
                    st.nontrivial(&key);
                }
                if cls != 5 && ev.len() > 4 {
                    st.sample(json!({"family": name, "gid": gid, "client_mode": mode, "class": cls, "callbacks": ev.len(), "graph": coq_g.chars().take(300).collect::<String>()}));
                }
                // keep model streams small: long streams stay implementation-only
                if ev.len() <= 600 {
                    subs.push(format!("({},{},({},{}))", mode, gid, cls, clist(ev.iter(), ev_coq)));
                } else {
                    st.count("impl_only.long_stream");
                }
            }
        }
        if !subs.is_empty() {
            st.add("model_subcases", subs.len() as u64);
            cw.push(format!("({}, {})", coq_g, clist(subs.iter(), |s| s.clone())));
        }
    };

    // ---- 1. structured chains around the depth limit: length 60..=67, each edge kind and mixes
    let kinds = [Edge::Xf, Edge::Layer, Edge::ColrGlyph, Edge::CompB, Edge::CompS];
    let lens: Vec<usize> = if thorough { (58..=68).collect() } else { vec![61, 62, 63, 64, 65, 66] };
    for len in &lens {
        for k in kinds {
            let g = path_graph(&mut rng, &vec![k; *len], None, &[]);
            run_graph(&g, "chain", &[0], &[0, 1], &mut rng, &mut st, &mut cw);
        }
        for _ in 0..(if thorough { 8 } else { 3 }) {
            let edges: Vec<Edge> = (0..*len).map(|_| *rng.pick(&kinds)).collect();
            let clip: Vec<u16> = (0..3).map(|_| rng.range(0, *len as i64) as u16).collect();
            let g = path_graph(&mut rng, &edges, None, &clip);
            run_graph(&g, "chain_mixed", &[0], &[0, 1, 2, 3], &mut rng, &mut st, &mut cw);
        }
    }
    // short chains of every kind incl. nested PaintGlyph (exponential retry: keep <= 12)
    for len in 0..=12usize {
        for k in [Edge::Xf, Edge::Layer, Edge::ColrGlyph, Edge::CompB, Edge::CompS, Edge::Glyph] {
            let g = path_graph(&mut rng, &vec![k; len], None, &[0, 1]);
            run_graph(&g, "chain_short", &[0, 1, 2], &[0, 1, 2, 3], &mut rng, &mut st, &mut cw);
        }
    }
    // ---- 2. cycles: rho shapes (prefix p, cycle c) through layers / PaintColrGlyph / mixed
    let all = [Edge::Xf, Edge::Layer, Edge::ColrGlyph, Edge::CompB, Edge::CompS, Edge::Glyph];
    for p in 0..=4usize {
        for c in 1..=(if thorough { 12 } else { 7 }) {
            for variant in 0..4 {
                let mut edges: Vec<Edge> = vec![];
                let mut glyphs = 0;
                for i in 0..p + c {
                    let mut e = match variant {
                        0 => Edge::Layer,
                        1 => Edge::ColrGlyph,
                        2 => [Edge::Layer, Edge::ColrGlyph][i % 2],
                        _ => *rng.pick(&all),
                    };
                    if e == Edge::Glyph {
                        glyphs += 1;
                        if glyphs > 4 {
                            e = Edge::Xf;
                        }
                    }
                    edges.push(e);
                }
                // the jump target p must be reachable by index: force an index edge into it
                if p > 0 && !matches!(edges[p - 1], Edge::Layer | Edge::ColrGlyph) {
                    edges[p - 1] = if rng.chance(1, 2) { Edge::Layer } else { Edge::ColrGlyph };
                }
                let clip: Vec<u16> = if rng.chance(1, 2) { vec![rng.range(0, (p + c) as i64) as u16] } else { vec![] };
                let g = path_graph(&mut rng, &edges, Some(p), &clip);
                run_graph(&g, "cycle", &[0, p as u32], &[0, 1, 2, 3], &mut rng, &mut st, &mut cw);
            }
        }
    }
    // self-referential layer reached from a layer range that also has good layers before it
    {
        let mut g = Graph::default();
        let s0 = g.solid();
        let l1 = g.add(Node::Layers { start: 1, num: 1 });
        let root = g.add(Node::Layers { start: 0, num: 2 });
        g.layers = Some(vec![s0, l1]);
        g.base = Some(vec![(3, root)]);
        g.clips = vec![(3, 3)];
        g.clip_salt = 2;
        run_graph(&g, "self_layer", &[3], &[0, 1], &mut rng, &mut st, &mut cw);
    }
    // ---- 3. errors after a push (bad grandchild, missing glyph, missing layer) under every wrapper
    for wrap in [Edge::Xf, Edge::CompB, Edge::CompS, Edge::Glyph, Edge::Layer, Edge::ColrGlyph] {
        for inner in 0..5 {
            let mut g = Graph::default();
            // failing paint
            let f = match inner {
                0 => {
                    let b = g.add(Node::Bad);
                    g.xf(14, b)
                }
                1 => g.add(Node::ColrGlyph { gid: 999 }),
                2 => g.add(Node::Layers { start: 50, num: 2 }),
                3 => {
                    let b = g.add(Node::Bad);
                    let s = g.solid();
                    g.add(Node::Composite { src: b, mode: 5, backdrop: s })
                }
                _ => {
                    let b = g.add(Node::Bad);
                    g.add(Node::Glyph { gid: 9, child: b })
                }
            };
            let mid = g.xf(16, f);
            let mut layers = vec![];
            let mut base = vec![];
            let top = match wrap {
                Edge::Xf => g.xf(24, mid),
                Edge::CompB => {
                    let s = g.solid();
                    g.add(Node::Composite { src: s, mode: 7, backdrop: mid })
                }
                Edge::CompS => {
                    let s = g.solid();
                    g.add(Node::Composite { src: mid, mode: 7, backdrop: s })
                }
                Edge::Glyph => g.add(Node::Glyph { gid: 77, child: mid }),
                Edge::Layer => {
                    let s = g.solid();
                    layers = vec![s, mid];
                    g.add(Node::Layers { start: 0, num: 2 })
                }
                Edge::ColrGlyph => {
                    base.push((5u16, mid));
                    g.add(Node::ColrGlyph { gid: 5 })
                }
            };
            base.push((2, top));
            base.sort();
            g.layers = Some(layers);
            g.base = Some(base);
            g.clips = vec![(2, 5)];
            g.clip_salt = inner as u32 + 2;
            run_graph(&g, "error_after_push", &[2, 5], &[0, 1, 2, 3], &mut rng, &mut st, &mut cw);
        }
    }
    // ---- 4. every paint format once under a transform, a glyph and a composite
    for v in 0..N_FILL_VARIANTS {
        let mut g = Graph::default();
        let f = g.fill(v);
        let t = g.xf(12 + v % 20, f);
        let gl = g.add(Node::Glyph { gid: 50, child: t });
        let f2_ = g.fill(v);
        let c = g.add(Node::Composite { src: gl, mode: v, backdrop: f2_ });
        let f3 = g.fill(v);
        g.layers = Some(vec![f3, c]);
        let root = g.add(Node::Layers { start: 0, num: 2 });
        g.base = Some(vec![(1, root), (2, f), (3, gl)]);
        g.var_store = v % 2 == 0;
        run_graph(&g, "formats", &[1, 2, 3], &[0], &mut rng, &mut st, &mut cw);
    }
    for fmt in XF_FMTS {
        let mut g = Graph::default();
        let f = g.solid();
        let t = g.xf(fmt, f);
        let t2 = g.xf(fmt, t);
        let gl = g.add(Node::Glyph { gid: 50, child: t2 });
        g.base = Some(vec![(1, gl), (2, t2)]);
        g.layers = Some(vec![]);
        g.var_store = fmt % 2 == 1;
        run_graph(&g, "formats", &[1, 2], &[0], &mut rng, &mut st, &mut cw);
    }
    // wide layer ranges (num_layers up to 255) over few layers / past the end
    for (nl, start, num) in [(255usize, 0u32, 255u8), (10, 0, 255), (3, 1, 2), (3, 3, 0), (0, 0, 1)] {
        let mut g = Graph::default();
        let ls: Vec<usize> = (0..nl).map(|k| g.fill((k % N_FILL_VARIANTS as usize) as u8)).collect();
        g.layers = Some(ls);
        let root = g.add(Node::Layers { start, num });
        let gl = g.add(Node::Glyph { gid: 8, child: root });
        g.base = Some(vec![(1, root), (2, gl)]);
        run_graph(&g, "wide_layers", &[1, 2], &[0], &mut rng, &mut st, &mut cw);
    }
    // ---- clip boxes of every shape on the ROOT glyph and on nested PaintColrGlyph targets, at every location
    for shape in 0..N_CLIP_SHAPES {
        for loc in 0..5usize {
            let mut g = Graph::default();
            let leaf = g.solid();
            let t = g.xf(14, leaf);
            let inner = g.add(Node::ColrGlyph { gid: 2 });
            let gl = g.add(Node::Glyph { gid: 30, child: inner });
            let s2 = g.solid();
            let comp = g.add(Node::Composite { src: gl, mode: 4, backdrop: s2 });
            g.layers = Some(vec![inner, comp]);
            let root = g.add(Node::Layers { start: 0, num: 2 });
            // glyph 1: root with a clip box, reaches glyph 2 (clip box of the next shape) directly and under a PaintGlyph
            g.base = Some(vec![(1, root), (2, t), (3, leaf)]);
            g.clips = vec![(1, 1), (2, 2)];
            g.clip_salt = shape;
            g.force_coords = Some(loc);
            g.var_store = loc % 2 == 0;
            run_graph(&g, "clip_shapes", &[1, 2, 3], &[0, 1], &mut rng, &mut st, &mut cw);
        }
    }
    // ---- PaintGlyph subtrees on the optimised (fill_glyph) path whose accumulated brush transform is exactly the
    // identity / almost the identity: every fixed transform alone, stacked twice, as cancelling pairs in both
    // orders, and mixed with a salted transform; at every location; fills of every brush kind
    {
        let chains: Vec<Vec<u8>> = {
            let mut v: Vec<Vec<u8>> = (0..N_FIXED_XF).map(|k| vec![k]).collect();
            for k in 0..N_FIXED_XF {
                v.push(vec![k, k]);
            }
            for (a, b) in [(13u8, 14u8), (14, 13), (16, 17), (17, 16), (12, 0), (0, 12), (3, 8), (1, 6), (5, 11), (13, 17), (12, 12)] {
                v.push(vec![a, b]);
            }
            v.push(vec![13, 0, 14]);
            v.push(vec![15, 10, 15]);
            v.push(vec![13, 255, 14]); // 255 = a salted (non identity) transform in between
            v.push(vec![255]);
            v.push(vec![]);
            v
        };
        for (ci, chain) in chains.iter().enumerate() {
            for loc in 0..5usize {
                let mut g = Graph::default();
                let leaf = g.fill([0u8, 2, 9, 14, 7][(ci + loc) % 5]);
                let mut cur = leaf;
                for k in chain.iter().rev() {
                    cur = if *k == 255 { g.xf(14, cur) } else { g.add(Node::FixedXf { kind: *k, child: cur }) };
                }
                let gl = g.add(Node::Glyph { gid: 40 + ci as u16, child: cur });
                // the same glyph paint directly, under a layer range, under a composite and through PaintColrGlyph
                let s2 = g.solid();
                let comp = g.add(Node::Composite { src: gl, mode: 9, backdrop: s2 });
                let cg = g.add(Node::ColrGlyph { gid: 1 });
                g.layers = Some(vec![gl, comp, cg]);
                let root = g.add(Node::Layers { start: 0, num: 3 });
                g.base = Some(vec![(1, gl), (2, root), (3, cur)]);
                g.force_coords = Some(loc);
                g.var_store = loc % 2 == 1;
                run_graph(&g, "identity_brush", &[1, 2, 3], &[0], &mut rng, &mut st, &mut cw);
            }
        }
    }
    // ---- 5. random graphs and v0 tables
    let n_random = if thorough { 8000 } else { 900 };
    for i in 0..n_random {
        let g = random_graph(&mut rng);
        let mut gids: Vec<u32> = g.base.iter().flatten().map(|(g, _)| *g as u32).collect();
        gids.push(rng.range(0, 14) as u32);
        if i % 16 == 0 {
            gids.push(*rng.pick(&[65535u32, 65536, 70000, 0xFFFF_FFFF]));
        }
        gids.sort();
        gids.dedup();
        let modes: &[u8] = if i % 2 == 0 { &[0, 1] } else { &[2, 3] };
        run_graph(&g, "random", &gids, modes, &mut rng, &mut st, &mut cw);
    }
    // ---- 6. unsorted / duplicate / overlapping lookup tables and record counts that disagree with the data
    for i in 0..(if thorough { 1500u32 } else { 180 }) {
        let patch = if i % 3 == 2 { 1 + ((i / 3) % 8) as u8 } else { 0 };
        let g = unsorted_graph(&mut rng, patch, i / 2);
        if let Some(b) = { let mut g0 = g.clone(); g0.patch = 0; compile(&g0) } {
            if !order_kept(&b, &g) {
                st.count("unsorted.order_not_kept_by_write_fonts");
                continue;
            }
        }
        let sorted = g.base.iter().flatten().zip(g.base.iter().flatten().skip(1)).all(|(a, b)| a.0 < b.0);
        st.count(if sorted { "unsorted.base_list_happens_to_be_strictly_sorted" } else { "unsorted.base_list_unsorted_or_dup" });
        st.count(&format!("unsorted.patch.{}", patch));
        let gids: Vec<u32> = (0..=12).collect();
        run_graph(&g, "unsorted", &gids, &[0, 1], &mut rng, &mut st, &mut cw);
    }
    for _ in 0..(if thorough { 300 } else { 40 }) {
        let g = v0_graph(&mut rng);
        run_graph(&g, "v0", &[0, 1, 2, 3, 4, 5, 6, 7, 65536], &[0], &mut rng, &mut st, &mut cw);
    }

    // ---- F-6 probe (implementation only, NOT an oracle failure: bounded, as the property demands):
    // k nested PaintGlyph over a clip-producing leaf are traversed 2^k times
    let mut probe = vec![];
    for k in [10usize, 12, 14, 16] {
        let g = path_graph(&mut rng, &vec![Edge::Glyph; k], None, &[]);
        // make the innermost collector fail: leaf = composite
        if let Some(bytes) = compile(&g) {
            let (cls, ev, _, dt) = run_paint(&bytes, 0, 0, false, &[], "f6 probe");
            probe.push(json!({"nested_paint_glyph": k, "class": cls, "callbacks": ev.len(), "seconds": dt}));
        }
    }
    st.v.insert("f6_nested_paintglyph_probe".into(), probe.into());

    let shards = cw.finish();
    st.v.insert("shards".into(), shards.into());
    st.v.insert("model_cases".into(), (*st.counters.get("model_subcases").unwrap_or(&0)).into());
    st.v.insert("fill_glyph_calls_with_identity_brush_transform".into(), IDENT_BRUSH.load(std::sync::atomic::Ordering::Relaxed).into());
    st.v.insert("max_paint_seconds".into(), max_dt.into());
    st.v.insert("max_callbacks".into(), (max_ev as u64).into());
    st.write(&dir, "abstract paint graphs (chains of 61..66 edges of every edge kind, rho-shaped cycles through layers/PaintColrGlyph, errors after a push under every wrapper, all 32 paint formats, wide/out-of-range layer ranges, random graphs, v0 tables) compiled with write-fonts and painted under 4 client cache behaviours at random variation locations; non-trivial = >= 3 callbacks or a cycle/depth error (distinct by graph, glyph, mode, location)");
    println!("graphs={} subcases={} shards={} oracle_failures={} max_dt={:.3}s max_ev={}", cw.len(), st.counters.get("model_subcases").unwrap_or(&0), shards, st.oracle_failures.len(), max_dt, max_ev);
}
