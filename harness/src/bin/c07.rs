//! C07 harness: determinism of compilation on the REAL code.
//!
//! A fixed-by-seed set of jobs (generated object DAGs incl. ones that take the space-assignment /
//! duplication path, real GPOS/GSUB/GDEF/gvar/name tables converted from font-test-data fonts, big
//! synthetic GPOS tables that force subtable splitting and extension promotion, an
//! ItemVariationStore built through VariationStoreBuilder, FontBuilder::build, klippa
//! subsetting) is compiled (a) once as reference, (b) again after random prefixes of unrelated
//! compilations (which burn ids of the process-global ObjectId counter), (c) on 1..16 threads with
//! randomised start barriers, same and different jobs concurrently, (d) in fresh child processes
//! (this binary re-executed with the `child` sub-command, so std's HashMap RandomState differs).
//! Every output is hashed; any disagreement is an oracle failure.
//!
//! Shards: generated DAGs on the basic path, real bytes obtained after id burns, checked by
//! `check_case_ids` (coq/C05/Model.v): the model run with three different id streams must give
//! the real bytes each time.
#![allow(dead_code)]
#[path = "c05.rs"]
mod c05gen;
use c05gen::{case_term, compile, gen_random, gen_straddle, gen_two_spaces, gen_wide, corpus, Dag, Outcome};
use serde_json::json;
use std::collections::BTreeMap;
use std::sync::{Arc, Barrier};
use vh::*;
use write_fonts::from_obj::ToOwnedTable;
use write_fonts::read::{FontRef, TableProvider};
use write_fonts::{dump_table, FontBuilder};

#[derive(Clone)]
enum Job {
    Dag(Dag),
    /// (font index, table kind)
    RealTable(usize, &'static str),
    BigGpos(u16, u16, u16),
    SplitGpos(u16, u16),
    Ivs(u64),
    Gvar(u64),
    BuildFont(usize),
    Subset(usize, u32),
    /// layout builders that collect into hash containers (kind, variant)
    Builder(&'static str, u32),
    /// real GSUB: big single-subst lookups pairwise sharing a coverage, all promoted to extensions:
    /// several 32-bit spaces overflow in the same isolation round
    SharedCovGsub(u16),
    /// overflowing GSUB/GPOS whose lookups fall into groups of EQUAL promotion score (ties), the
    /// "layers full" cut-off of select_promotions_hb inside a tied group
    TiedPromo(PromoSpec),
    /// variable GPOS through the public builders: every value / anchor carries deltas over its own
    /// regions (heterogeneous, in its own order), all builders share ONE VariationStoreBuilder;
    /// output = ItemVariationStore bytes + remapped GPOS bytes   (kind, variant)
    VarBuilder(&'static str, u32),
    /// gvar whose glyphs carry several DISTINCT private point-number sets used equally often and of equal packed
    /// size (2- and 3-way ties in compute_shared_points), explicit required/optional flags   (seed)
    GvarTies(u64),
    /// the same kind of ties arising naturally: deltas of symmetric outlines run through iup_delta_optimize  (seed)
    GvarIup(u64),
    /// the SIBLING of a job: same shapes / sizes / layout, a few different content values (salt 1)
    Sib(Box<Job>),
    /// a font file (font-test-data font `fi`, or its same-length sibling with a few content bytes of table `kind`
    /// changed) processed by `op`: "subset" (klippa::subset_font asking for the code points the edit touches),
    /// "fontbuilder" (write-fonts: recompiled cmap/name/OS2/GPOS/GSUB + copied tables), "tables" (to_owned_table + dump_table)
    BufFont { fi: usize, kind: &'static str, sib: bool, op: &'static str },
    /// IFT client: table-keyed patch applied to a base font whose patched tables carry content `variant`
    Ift(u8),
}

const SIB_KINDS: [&str; 5] = ["cmap", "hmtx", "OS/2", "name", "head"];
const FONT_OPS: [&str; 3] = ["subset", "fontbuilder", "tables"];

/// (offset, length) of table `tag` in an sfnt
fn find_table(font: &[u8], tag: &[u8; 4]) -> Option<(usize, usize)> {
    let n = u16::from_be_bytes([*font.get(4)?, *font.get(5)?]) as usize;
    for i in 0..n {
        let r = font.get(12 + 16 * i..28 + 16 * i)?;
        if &r[0..4] == tag {
            let off = u32::from_be_bytes([r[8], r[9], r[10], r[11]]) as usize;
            let len = u32::from_be_bytes([r[12], r[13], r[14], r[15]]) as usize;
            if off + len <= font.len() {
                return Some((off, len));
            }
        }
    }
    None
}

/// a SIBLING of `font`: identical length and table layout, a few content bytes of one table changed.
/// Returns the sibling and the code points whose mapping the edit touches (cmap edits: the first code point of up to
/// three segments / groups is unmapped in the sibling).
fn sibling_font(font: &[u8], kind: &str) -> Option<(Vec<u8>, Vec<u32>)> {
    let mut out = font.to_vec();
    let mut touched = vec![];
    let rd16 = |b: &[u8], o: usize| -> Option<usize> { Some(u16::from_be_bytes([*b.get(o)?, *b.get(o + 1)?]) as usize) };
    let rd32 = |b: &[u8], o: usize| -> Option<usize> { Some(u32::from_be_bytes([*b.get(o)?, *b.get(o + 1)?, *b.get(o + 2)?, *b.get(o + 3)?]) as usize) };
    match kind {
        "cmap" => {
            let (off, len) = find_table(font, b"cmap")?;
            let t = font.get(off..off + len)?;
            let n = rd16(t, 2)?;
            let mut seen = vec![];
            for i in 0..n {
                let so = rd32(t, 4 + 8 * i + 4)?;
                if seen.contains(&so) {
                    continue;
                }
                seen.push(so);
                match rd16(t, so)? {
                    4 => {
                        let segs = rd16(t, so + 6)? / 2;
                        let (ends, starts, ranges) = (so + 14, so + 16 + 2 * segs, so + 16 + 6 * segs);
                        let mut edits = 0;
                        for sgi in 0..segs {
                            let (st, en, ro) = (rd16(t, starts + 2 * sgi)?, rd16(t, ends + 2 * sgi)?, rd16(t, ranges + 2 * sgi)?);
                            if st < en && en != 0xffff && ro == 0 && edits < 3 {
                                // startCode += 1, idDelta -= 1 would keep the other mappings; we keep idDelta, so the
                                // remaining code points of the segment keep their glyphs and `st` becomes unmapped
                                out[off + starts + 2 * sgi..off + starts + 2 * sgi + 2].copy_from_slice(&((st + 1) as u16).to_be_bytes());
                                touched.push(st as u32);
                                edits += 1;
                            }
                        }
                    }
                    12 => {
                        let groups = rd32(t, so + 12)?;
                        let mut edits = 0;
                        for gi in 0..groups {
                            let g = so + 16 + 12 * gi;
                            let (st, en, gid) = (rd32(t, g)?, rd32(t, g + 4)?, rd32(t, g + 8)?);
                            if st < en && edits < 3 {
                                out[off + g..off + g + 4].copy_from_slice(&((st + 1) as u32).to_be_bytes());
                                out[off + g + 8..off + g + 12].copy_from_slice(&((gid + 1) as u32).to_be_bytes());
                                touched.push(st as u32);
                                edits += 1;
                            }
                        }
                    }
                    _ => {}
                }
            }
        }
        "hmtx" => {
            let (off, len) = find_table(font, b"hmtx")?;
            if len < 4 {
                return None;
            }
            let adv = rd16(font, off)?;
            out[off..off + 2].copy_from_slice(&(if adv < 0xffff { adv + 1 } else { adv - 1 } as u16).to_be_bytes());
        }
        "OS/2" => {
            let (off, len) = find_table(font, b"OS/2")?;
            if len < 4 {
                return None;
            }
            out[off + 3] ^= 1; // xAvgCharWidth
        }
        "name" => {
            let (off, len) = find_table(font, b"name")?;
            let t = font.get(off..off + len)?;
            let (count, storage) = (rd16(t, 2)?, rd16(t, 4)?);
            let mut done = false;
            for i in 0..count {
                let r = 6 + 12 * i;
                let (platform, l, o) = (rd16(t, r)?, rd16(t, r + 8)?, rd16(t, r + 10)?);
                if platform == 3 && l >= 2 && !done {
                    // UTF-16BE: bump the first ASCII letter
                    for c in (0..l).step_by(2) {
                        let p = storage + o + c;
                        if p + 1 < len && t[p] == 0 && (b'a'..b'y').contains(&t[p + 1]) {
                            out[off + p + 1] += 1;
                            done = true;
                            break;
                        }
                    }
                }
            }
            if !done {
                return None;
            }
        }
        "head" => {
            let (off, len) = find_table(font, b"head")?;
            if len < 36 {
                return None;
            }
            out[off + 27] ^= 1; // `created`, low byte
        }
        _ => return None,
    }
    if out == font {
        return None;
    }
    Some((out, touched))
}

/// code points a BufFont job asks for (a function of font and kind only: the same for a font and its sibling)
fn buf_unicodes(fi: usize, kind: &str) -> Vec<u32> {
    let mut u = vec![0x20u32, 0x41, 0x61, 0x627];
    if let Some((_, touched)) = sibling_font(fonts()[fi].1, kind) {
        u.extend(touched);
    }
    u
}

/// the work of a BufFont job on font bytes living wherever the caller put them
fn font_op(data: &[u8], op: &str, unicodes: &[u32]) -> Vec<u8> {
    let font = match FontRef::new(data) {
        Ok(f) => f,
        Err(e) => return err_bytes("fontref", e),
    };
    match op {
        "subset" => {
            use klippa::{subset_font, Plan, SubsetFlags};
            use write_fonts::read::collections::IntSet;
            let mut gids: IntSet<write_fonts::types::GlyphId> = IntSet::empty();
            gids.insert(write_fonts::types::GlyphId::new(1));
            let mut us: IntSet<u32> = IntSet::empty();
            for c in unicodes {
                us.insert(*c);
            }
            let empty_tags: IntSet<write_fonts::types::Tag> = IntSet::empty();
            let mut all_tags: IntSet<write_fonts::types::Tag> = IntSet::empty();
            all_tags.invert();
            let mut name_ids: IntSet<write_fonts::types::NameId> = IntSet::empty();
            for i in 0..7u16 {
                name_ids.insert(write_fonts::types::NameId::new(i));
            }
            let mut langs: IntSet<u16> = IntSet::empty();
            langs.insert(0x0409);
            let plan = Plan::new(&gids, &us, &font, SubsetFlags::default(), &empty_tags, &all_tags, &all_tags, &name_ids, &langs);
            subset_font(&font, &plan).unwrap_or_else(|e| err_bytes("subset", format!("{e:?}")))
        }
        "fontbuilder" => {
            let mut b = FontBuilder::new();
            macro_rules! recompile {
                ($get:ident, $ty:ty) => {
                    if let Ok(t) = font.$get() {
                        let o: $ty = t.to_owned_table();
                        let _ = b.add_table(&o);
                    }
                };
            }
            recompile!(cmap, write_fonts::tables::cmap::Cmap);
            recompile!(name, write_fonts::tables::name::Name);
            recompile!(os2, write_fonts::tables::os2::Os2);
            recompile!(head, write_fonts::tables::head::Head);
            recompile!(gpos, write_fonts::tables::gpos::Gpos);
            recompile!(gsub, write_fonts::tables::gsub::Gsub);
            b.copy_missing_tables(font);
            b.build()
        }
        _ => {
            let mut out = vec![];
            macro_rules! conv {
                ($get:ident, $ty:ty) => {
                    match font.$get() {
                        Ok(t) => {
                            let o: $ty = t.to_owned_table();
                            out.extend(dump_table(&o).unwrap_or_else(|e| err_bytes(stringify!($get), e)));
                        }
                        Err(_) => out.extend_from_slice(b"ABSENT"),
                    }
                    out.push(b'|');
                };
            }
            conv!(cmap, write_fonts::tables::cmap::Cmap);
            conv!(name, write_fonts::tables::name::Name);
            conv!(os2, write_fonts::tables::os2::Os2);
            conv!(head, write_fonts::tables::head::Head);
            conv!(gdef, write_fonts::tables::gdef::Gdef);
            if let Some((o, l)) = find_table(data, b"hmtx") {
                out.extend_from_slice(&data[o..o + l.min(64)]);
            }
            out
        }
    }
}

/// IFT client on a base font built around font-test-data's table-keyed mapping + patch; the patched tables carry
/// content `variant` (same lengths). Identity-framing decoder (output = dictionary ++ stream) so that the base
/// table content flows into the result.
fn ift_font(variant: u8) -> Vec<u8> {
    use write_fonts::types::Tag;
    let mut b = FontBuilder::new();
    let t1: Vec<u8> = b"abcdef
".iter().map(|c| if *c == b'f' { c + variant } else { *c }).collect();
    let t2: Vec<u8> = b"foobar
".iter().map(|c| if *c == b'r' { c + variant } else { *c }).collect();
    b.add_raw(Tag::new(b"IFT "), font_test_data::ift::table_keyed_format2().as_slice().to_vec());
    b.add_raw(Tag::new(b"tab1"), t1.clone());
    b.add_raw(Tag::new(b"tab2"), t2.clone());
    b.add_raw(Tag::new(b"tab4"), t1);
    b.add_raw(Tag::new(b"tab5"), t2);
    b.build()
}
struct FramingDecoder;
impl shared_brotli_patch_decoder::SharedBrotliDecoder for FramingDecoder {
    fn decode(&self, encoded: &[u8], dict: Option<&[u8]>, max: usize) -> Result<Vec<u8>, shared_brotli_patch_decoder::decode_error::DecodeError> {
        let mut out = dict.map(|d| d.to_vec()).unwrap_or_default();
        out.extend_from_slice(encoded);
        out.truncate(max);
        Ok(out)
    }
}
fn ift_op(data: &[u8]) -> Vec<u8> {
    use incremental_font_transfer::patch_group::{PatchGroup, UriStatus};
    use incremental_font_transfer::patchmap::SubsetDefinition;
    let font = match FontRef::new(data) {
        Ok(f) => f,
        Err(e) => return err_bytes("fontref", e),
    };
    let s = SubsetDefinition::codepoints([5].into_iter().collect());
    let g = match PatchGroup::select_next_patches(font, &s) {
        Ok(g) => g,
        Err(e) => return err_bytes("ift-select", e),
    };
    let mut out: Vec<u8> = g.uris().collect::<Vec<_>>().join(",").into_bytes();
    let patch = font_test_data::ift::table_keyed_patch().as_slice().to_vec();
    let mut data: std::collections::HashMap<String, UriStatus> = g.uris().map(|u| (u.to_string(), UriStatus::Pending(patch.clone()))).collect();
    out.push(b'|');
    match g.apply_next_patches_with_decoder(&mut data, &FramingDecoder) {
        Ok(f) => out.extend(f),
        Err(e) => out.extend(err_bytes("ift-apply", format!("{e:?}"))),
    }
    out
}

/// one lookup = list of subtables (first glyph, number of glyphs, glyph stride)
#[derive(Clone, Debug, PartialEq)]
struct PromoSpec {
    gpos: bool,
    salt: u16,
    pattern: u8,
    lookups: Vec<Vec<(u16, u16, u16)>>,
}

impl PromoSpec {
    fn name(&self) -> String {
        format!("tiedpromo:{}:p{}:{}lk:{:08x}", if self.gpos { "gpos" } else { "gsub" }, self.pattern, self.lookups.len(), fnv(format!("{self:?}").as_bytes()) as u32)
    }
    fn glyphs(&self, k: usize, j: usize) -> impl Iterator<Item = write_fonts::types::GlyphId16> {
        let (first, n, stride) = self.lookups[k][j];
        (0..n).map(move |i| write_fonts::types::GlyphId16::new(first + i * stride))
    }
    fn payload(&self, k: usize, j: usize, i: u16) -> u16 {
        // distinct per (lookup, subtable): nothing is deduplicated between lookups
        ((k as u32 * 977 + j as u32 * 131 + self.salt as u32 + i as u32 * 3) % 64_000) as u16 + 1
    }
    fn gsub_subtable(&self, k: usize, j: usize) -> write_fonts::tables::gsub::SingleSubst {
        let n = self.lookups[k][j].1;
        let coverage = self.glyphs(k, j).collect();
        let subs = (0..n).map(|i| write_fonts::types::GlyphId16::new(self.payload(k, j, i))).collect();
        write_fonts::tables::gsub::SingleSubst::format_2(coverage, subs)
    }
    fn gpos_subtable(&self, k: usize, j: usize) -> write_fonts::tables::gpos::SinglePos {
        use write_fonts::tables::gpos::{SinglePos, ValueRecord};
        let n = self.lookups[k][j].1;
        let coverage = self.glyphs(k, j).collect();
        let vals = (0..n).map(|i| ValueRecord::new().with_x_advance((self.payload(k, j, i) % 30_000) as i16)).collect();
        SinglePos::format_2(coverage, vals)
    }
    /// the whole table
    fn compile(&self) -> Vec<u8> {
        use write_fonts::tables::layout::{Lookup, LookupFlag, LookupList};
        if self.gpos {
            use write_fonts::tables::gpos::{Gpos, PositionLookup};
            let lookups = (0..self.lookups.len())
                .map(|k| PositionLookup::Single(Lookup::new(LookupFlag::empty(), (0..self.lookups[k].len()).map(|j| self.gpos_subtable(k, j)).collect())))
                .collect();
            dump_table(&Gpos::new(Default::default(), Default::default(), LookupList::new(lookups))).unwrap_or_else(|e| err_bytes("tiedpromo", e))
        } else {
            use write_fonts::tables::gsub::{Gsub, SubstitutionLookup};
            let lookups = (0..self.lookups.len())
                .map(|k| SubstitutionLookup::Single(Lookup::new(LookupFlag::empty(), (0..self.lookups[k].len()).map(|j| self.gsub_subtable(k, j)).collect())))
                .collect();
            dump_table(&Gsub::new(Default::default(), Default::default(), LookupList::new(lookups))).unwrap_or_else(|e| err_bytes("tiedpromo", e))
        }
    }
    /// per lookup (subtable_count, subgraph_size, lookup_size, children_size) as select_promotions_hb sees them:
    /// lookup object = 6 + 2*count bytes; a subtable object = 6 (GSUB single format 2) / 8 (GPOS single format 2,
    /// one value field) + 2n bytes; subtable + its coverage = the compiled size of that subtable alone
    /// (coverages of one lookup are distinct objects: the generator gives them distinct glyph sets)
    fn sizes(&self) -> Vec<(u64, u64, u64, u64)> {
        (0..self.lookups.len())
            .map(|k| {
                let count = self.lookups[k].len() as u64;
                let lookup_size = 6 + 2 * count;
                let mut children = 0u64;
                let mut below = 0u64;
                for j in 0..self.lookups[k].len() {
                    let n = self.lookups[k][j].1 as u64;
                    children += if self.gpos { 8 + 2 * n } else { 6 + 2 * n };
                    below += if self.gpos { dump_table(&self.gpos_subtable(k, j)).unwrap().len() } else { dump_table(&self.gsub_subtable(k, j)).unwrap().len() } as u64;
                }
                (count, lookup_size + below, lookup_size, children)
            })
            .collect()
    }
    /// which lookups of the compiled table are extension lookups
    fn promoted(&self, bytes: &[u8]) -> Option<Vec<bool>> {
        use write_fonts::read::FontRead;
        if self.gpos {
            use write_fonts::read::tables::gpos::{Gpos, PositionLookup};
            let t = Gpos::read(bytes.into()).ok()?;
            let l = t.lookup_list().ok()?;
            l.lookups().iter().map(|x| x.ok().map(|x| matches!(x, PositionLookup::Extension(_)))).collect()
        } else {
            use write_fonts::read::tables::gsub::{Gsub, SubstitutionLookup};
            let t = Gsub::read(bytes.into()).ok()?;
            let l = t.lookup_list().ok()?;
            l.lookups().iter().map(|x| x.ok().map(|x| matches!(x, SubstitutionLookup::Extension(_)))).collect()
        }
    }
}

/// overflowing layout table with tied promotion scores. Patterns: 0 one group of identical-size lookups;
/// 1 a few small distinct lookups + a tied group; 2 two tied groups (two-subtable lookups / one-subtable lookups);
/// 3 tied group with range coverages (different subtable/coverage ratio) + a tied group with array coverages;
/// 4 all sizes distinct (control: no ties)
fn gen_promo(rng: &mut Rng) -> PromoSpec {
    let gpos = rng.chance(1, 3);
    let pattern = rng.below(5) as u8;
    let n = 1200 + rng.below(2400) as u16; // glyphs per subtable: 5..15 KB with its coverage
    let mut lookups: Vec<Vec<(u16, u16, u16)>> = vec![];
    let group = |lookups: &mut Vec<Vec<(u16, u16, u16)>>, members: usize, subtables: usize, n: u16, stride: u16| {
        for _ in 0..members {
            let k = lookups.len() as u16;
            lookups.push((0..subtables as u16).map(|j| (1 + 3 * k + 7 * j, n, stride)).collect());
        }
    };
    match pattern {
        0 => group(&mut lookups, 6 + rng.below(7) as usize, 1, n, 2),
        1 => {
            for _ in 0..1 + rng.below(3) {
                let small = 100 + rng.below(900) as u16 + lookups.len() as u16;
                group(&mut lookups, 1, 1, small, 2);
            }
            group(&mut lookups, 5 + rng.below(6) as usize, 1, n, 2);
        }
        2 => {
            group(&mut lookups, 2 + rng.below(4) as usize, 2, n / 2, 2);
            group(&mut lookups, 3 + rng.below(5) as usize, 1, n, 2);
        }
        3 => {
            group(&mut lookups, 2 + rng.below(4) as usize, 1, 2 * n, 1);
            group(&mut lookups, 3 + rng.below(5) as usize, 1, n, 3);
        }
        _ => {
            for i in 0..7 + rng.below(5) as u16 {
                group(&mut lookups, 1, 1, n + 5 * i, 2);
            }
        }
    }
    // make sure the table overflows (a layout table packs without promotion as long as the subtable objects
    // alone stay below 64 KiB: lookups, subtables and coverages are laid out layer by layer): grow the last group
    let approx = |l: &Vec<Vec<(u16, u16, u16)>>| -> usize { l.iter().flatten().map(|(_, n, _)| 2 * *n as usize + 8).sum() };
    while approx(&lookups) < 70_000 + 4_000 * (pattern as usize % 3) {
        let last = lookups.last().unwrap().clone();
        let k = lookups.len() as u16;
        lookups.push(last.iter().enumerate().map(|(j, (_, n, s))| (1 + 3 * k + 7 * j as u16, *n + if pattern == 4 { 5 * k } else { 0 }, *s)).collect());
    }
    // lookup-list order (= id order) interleaves the groups
    rng.shuffle(&mut lookups);
    PromoSpec { gpos, salt: rng.below(5000) as u16, pattern, lookups }
}

/// Coq term `CPromo (PCase ...)` + (cut inside a tied group?) for a compiled promo table
fn promo_case(spec: &PromoSpec, bytes: &[u8]) -> Option<(String, bool)> {
    let promoted = spec.promoted(bytes)?;
    let sizes = spec.sizes();
    if promoted.len() != sizes.len() {
        return None;
    }
    let list_size = 2 + 2 * sizes.len();
    let mut tie_cut = false;
    for a in 0..sizes.len() {
        for b in 0..sizes.len() {
            if (sizes[a].0, sizes[a].1) == (sizes[b].0, sizes[b].1) && promoted[a] != promoted[b] {
                tie_cut = true;
            }
        }
    }
    let lks = clist(sizes.iter().enumerate(), |(i, (count, subgraph, size, children))| {
        // graph.rs LookupSize::sort_key
        let key = ((*count as usize as f64 / *subgraph as usize as f64) * 1e9) as u64;
        format!("mkLk {} {} {} {} {} {}", 10 + 3 * i, key, count, subgraph, size, children)
    });
    let obs = czlist(promoted.iter().enumerate().filter(|(_, p)| **p).map(|(i, _)| (10 + 3 * i) as i128));
    Some((format!("CPromo (PCase {} {} {})", list_size, lks, obs), tie_cut))
}

/// jobs whose code paths iterate freshly created hash containers: repeated >= 32 times in one process
fn hash_sensitive(j: &Job) -> bool {
    match j {
        Job::Builder(..) | Job::VarBuilder(..) | Job::TiedPromo(_) | Job::SharedCovGsub(_) | Job::Ivs(_) | Job::Gvar(_) | Job::GvarTies(_) | Job::GvarIup(_) | Job::BigGpos(..) | Job::SplitGpos(..) => true,
        Job::Sib(j) => !matches!(**j, Job::Dag(_)) && hash_sensitive(j),
        Job::Dag(d) => d.has_width(4) && d.nodes.len() <= 12 && d.nodes[0].iter().filter(|i| matches!(i, c05gen::Item::Link(4, _))).count() >= 4,
        _ => false,
    }
}

fn builder_job(kind: &str, v: u32) -> Vec<u8> {
    use write_fonts::read::collections::IntSet;
    use write_fonts::tables::gpos::builders::{
        AnchorBuilder, CursivePosBuilder, MarkToBaseBuilder, MarkToLigBuilder, MarkToMarkBuilder, PairPosBuilder,
        SinglePosBuilder, ValueRecordBuilder,
    };
    use write_fonts::tables::gpos::{Gpos, PositionLookup};
    use write_fonts::tables::layout::builders::{Builder, ClassDefBuilder, CoverageTableBuilder};
    use write_fonts::tables::layout::{FeatureList, Lookup, LookupFlag, LookupList, ScriptList};
    use write_fonts::tables::variations::ivs_builder::VariationStoreBuilder;
    use write_fonts::types::GlyphId16;
    let g = GlyphId16::new;
    let gset = |it: &mut dyn Iterator<Item = u16>| -> IntSet<GlyphId16> {
        let mut s = IntSet::empty();
        for x in it {
            s.insert(g(x));
        }
        s
    };
    let mut vs = VariationStoreBuilder::new(0);
    let gpos_of = |lookups: Vec<PositionLookup>| -> Vec<u8> {
        let t = Gpos::new(ScriptList::default(), FeatureList::default(), LookupList::new(lookups));
        dump_table(&t).unwrap_or_else(|e| err_bytes("builder", e))
    };
    match kind {
        // equal-sized subtables whose coverages are runs of consecutive glyph ids (range coverages)
        "singlepos_runs" => {
            let runs: &[(u16, u16, i16)] = match v {
                0 => &[(10, 19, 5), (40, 49, -7)],
                1 => &[(10, 19, 5), (40, 49, -7), (70, 79, 11), (100, 109, -13), (200, 211, 17), (300, 309, 19)],
                _ => &[(1000, 1031, 1), (5, 36, 2), (500, 531, 3), (100, 131, 4), (300, 331, 5), (2000, 2031, 6), (700, 731, 7), (900, 931, 8)],
            };
            let mut b = SinglePosBuilder::default();
            for (a, z, adv) in runs {
                for gid in *a..=*z {
                    b.insert(g(gid), ValueRecordBuilder::new().with_x_advance(*adv));
                }
            }
            gpos_of(vec![PositionLookup::Single(Lookup::new(LookupFlag::empty(), b.build(&mut vs)))])
        }
        // equal-sized subtables with scattered (glyph-array) coverages and mixed value formats
        "singlepos_mixed" => {
            let mut b = SinglePosBuilder::default();
            for k in 0..8u16 {
                for j in 0..6u16 {
                    let gid = 7 + k * 3 + j * 101 + (v as u16) * 2;
                    let rec = match k % 4 {
                        0 => ValueRecordBuilder::new().with_x_advance(k as i16 + 1),
                        1 => ValueRecordBuilder::new().with_y_advance(k as i16 + 1),
                        2 => ValueRecordBuilder::new().with_x_placement(k as i16 + 1),
                        _ => ValueRecordBuilder::new().with_x_placement(1).with_x_advance(k as i16),
                    };
                    b.insert(g(gid), rec);
                }
            }
            gpos_of(vec![PositionLookup::Single(Lookup::new(LookupFlag::empty(), b.build(&mut vs)))])
        }
        // several value-format groups of equal size; glyph pairs and class pairs
        "pairpos" => {
            let mut b = PairPosBuilder::default();
            for k in 0..6u16 {
                for j in 0..5u16 {
                    let (r1, r2) = match k % 3 {
                        0 => (ValueRecordBuilder::new().with_x_advance(j as i16 + 1), ValueRecordBuilder::new()),
                        1 => (ValueRecordBuilder::new().with_y_advance(j as i16 + 1), ValueRecordBuilder::new()),
                        _ => (ValueRecordBuilder::new().with_x_advance(3), ValueRecordBuilder::new().with_x_placement(j as i16 + 1)),
                    };
                    b.insert_pair(g(20 + k * 10 + v as u16), r1, g(300 + j * 7 + k), r2);
                }
            }
            for k in 0..5u16 {
                let c1 = gset(&mut (0..4u16).map(|j| 1000 + k * 20 + j));
                for j in 0..3u16 {
                    let c2 = gset(&mut (0..3u16).map(|i| 2000 + j * 10 + i));
                    let r1 = if k % 2 == 0 { ValueRecordBuilder::new().with_x_advance((k + j) as i16 + 1) } else { ValueRecordBuilder::new().with_y_advance((k + j) as i16 + 1) };
                    b.insert_classes(c1.clone(), r1, c2, ValueRecordBuilder::new());
                }
            }
            gpos_of(vec![PositionLookup::Pair(Lookup::new(LookupFlag::empty(), b.build(&mut vs)))])
        }
        "marktobase" => {
            let mut b = MarkToBaseBuilder::default();
            let classes = ["top", "bottom", "ogonek", "ring", "horn", "cedilla"];
            for (ci, c) in classes.iter().enumerate() {
                for j in 0..4u16 {
                    let _ = b.insert_mark(g(400 + ci as u16 * 10 + j), c, AnchorBuilder::new(j as i16, ci as i16 * 10));
                }
            }
            for bg in 0..12u16 {
                for (ci, c) in classes.iter().enumerate() {
                    if (bg as usize + ci + v as usize) % 3 != 0 {
                        b.insert_base(g(30 + bg * 2), c, AnchorBuilder::new(100 + bg as i16, ci as i16));
                    }
                }
            }
            gpos_of(vec![PositionLookup::MarkToBase(Lookup::new(LookupFlag::empty(), b.build(&mut vs)))])
        }
        "marktomark" => {
            let mut b = MarkToMarkBuilder::default();
            let classes = ["top", "bottom", "side", "above2", "below2"];
            for (ci, c) in classes.iter().enumerate() {
                for j in 0..3u16 {
                    let _ = b.insert_mark1(g(400 + ci as u16 * 10 + j), c, AnchorBuilder::new(j as i16, ci as i16));
                }
            }
            for m2 in 0..9u16 {
                for (ci, c) in classes.iter().enumerate() {
                    if (m2 as usize + ci + v as usize) % 2 == 0 {
                        b.insert_mark2(g(600 + m2), c, AnchorBuilder::new(m2 as i16, ci as i16 + 5));
                    }
                }
            }
            gpos_of(vec![PositionLookup::MarkToMark(Lookup::new(LookupFlag::empty(), b.build(&mut vs)))])
        }
        "marktolig" => {
            let mut b = MarkToLigBuilder::default();
            let classes = ["top", "bottom", "mid", "hook"];
            for (ci, c) in classes.iter().enumerate() {
                for j in 0..3u16 {
                    let _ = b.insert_mark(g(400 + ci as u16 * 10 + j), c, AnchorBuilder::new(j as i16, ci as i16));
                }
            }
            for lg in 0..8u16 {
                for (ci, c) in classes.iter().enumerate() {
                    let comps = (0..3).map(|k| if (k + ci + lg as usize + v as usize) % 3 == 0 { None } else { Some(AnchorBuilder::new(k as i16 * 10, lg as i16)) }).collect();
                    b.insert_ligature(g(800 + lg), c, comps);
                }
            }
            gpos_of(vec![PositionLookup::MarkToLig(Lookup::new(LookupFlag::empty(), b.build(&mut vs)))])
        }
        "cursive" => {
            let mut b = CursivePosBuilder::default();
            for k in 0..20u16 {
                let e = if k % 3 == 0 { None } else { Some(AnchorBuilder::new(k as i16, 1)) };
                let x = if k % 4 == 0 { None } else { Some(AnchorBuilder::new(2, k as i16 + v as i16)) };
                b.insert(g(50 + k * 3), e, x);
            }
            gpos_of(vec![PositionLookup::Cursive(Lookup::new(LookupFlag::empty(), b.build(&mut vs)))])
        }
        // equal-sized classes: the class ids depend on the builder's ordering
        "classdef" => {
            let mut b = if v % 2 == 0 { ClassDefBuilder::new() } else { ClassDefBuilder::new_using_class_0() };
            for k in 0..10u16 {
                let cls = gset(&mut (0..4u16).map(|j| 100 + ((k * 37) % 10) * 50 + j * 3));
                b.checked_add(cls);
            }
            let (cd, map) = b.build_with_mapping();
            let mut out = dump_table(&cd).unwrap_or_else(|e| err_bytes("classdef", e));
            let mut m: Vec<(Vec<u16>, u16)> = map.into_iter().map(|(s, id)| (s.iter().map(|x| x.to_u16()).collect(), id)).collect();
            m.sort();
            for (s, id) in m {
                out.extend_from_slice(&s[0].to_be_bytes());
                out.extend_from_slice(&id.to_be_bytes());
            }
            out
        }
        "coverage" => {
            let mut b = CoverageTableBuilder::from_glyphs((0..40u32).map(|k| g(((k * 7919 + v * 13) % 997) as u16)).collect());
            let mut out = vec![];
            for k in [5u16, 900, 17, 400] {
                out.extend_from_slice(&b.add(g(k)).to_be_bytes());
            }
            out.extend(dump_table(&b.build()).unwrap_or_else(|e| err_bytes("coverage", e)));
            out
        }
        _ => unreachable!(),
    }
}

const VAR_KINDS: [&str; 9] = ["singlepos", "pairglyphs", "pairclasses", "pairmixed", "cursive", "marktobase", "marktomark", "marktolig", "gpos_all"];

/// variable GPOS through the public builders. Every value / anchor gets deltas over 1..3 regions drawn
/// (by a per-job generator, i.e. a function of the job alone) from 10 shared + 6 builder-private regions, in its
/// own order, so the first-seen region numbering of the shared VariationStoreBuilder depends on the order in which the
/// builders visit their contents.
fn var_builder_job(kind: &str, v: u32, salt: i16) -> Vec<u8> {
    use write_fonts::read::collections::IntSet;
    use write_fonts::tables::gpos::builders::{
        AnchorBuilder, CursivePosBuilder, MarkToBaseBuilder, MarkToLigBuilder, MarkToMarkBuilder, PairPosBuilder, SinglePosBuilder,
        ValueRecordBuilder,
    };
    use write_fonts::tables::gpos::{Gpos, PositionLookup};
    use write_fonts::tables::layout::builders::Builder;
    use write_fonts::tables::layout::{FeatureList, Lookup, LookupFlag, LookupList, ScriptList};
    use write_fonts::tables::variations::ivs_builder::{RemapVariationIndices, VariationStoreBuilder};
    use write_fonts::tables::variations::{RegionAxisCoordinates, VariationRegion};
    use write_fonts::types::{F2Dot14, GlyphId16};
    let g = GlyphId16::new;
    let mut rng = Rng::new(0x7661_7262 ^ ((v as u64) << 20) ^ fnv(kind.as_bytes()));
    // 10 regions shared by all builders + 6 private regions per builder site (so that every builder, whatever ran
    // before it on the shared store, is the first to mention some regions)
    const SHARED: usize = 10;
    const PRIVATE: usize = 6;
    let pool: Vec<VariationRegion> = (0..SHARED + 7 * PRIVATE)
        .map(|i| {
            let mk = |s: f32, p: f32, e: f32| RegionAxisCoordinates { start_coord: F2Dot14::from_f32(s), peak_coord: F2Dot14::from_f32(p), end_coord: F2Dot14::from_f32(e) };
            VariationRegion::new(vec![mk(0.0, 0.125 * (1 + i % 8) as f32, 1.0), if i < 8 { mk(0.0, 0.0, 0.0) } else { mk(0.0, 0.125 * (i / 8) as f32, 1.0) }])
        })
        .collect();
    // heterogeneity: variant 0 = each value varies in ONE of the site's private regions; others = 1..3 regions of
    // shared + private in random order
    fn deltas(rng: &mut Rng, pool: &[VariationRegion], site: usize, v: u32) -> Vec<(VariationRegion, i16)> {
        let k = if v == 0 { 1 } else { 1 + rng.below(3) as usize };
        let mut idx: Vec<usize> = (SHARED + site * PRIVATE..SHARED + (site + 1) * PRIVATE).collect();
        if v != 0 {
            idx.extend(0..SHARED);
        }
        rng.shuffle(&mut idx);
        idx.into_iter().take(k).map(|i| (pool[i].clone(), 1 + rng.below(90) as i16 - 45)).map(|(r, d)| (r, if d == 0 { 7 } else { d })).collect()
    }
    // sibling: every delta one further away from zero (never zero: the delta sets keep their shape)
    let sd = move |d: Vec<(VariationRegion, i16)>| -> Vec<(VariationRegion, i16)> { d.into_iter().map(|(r, x)| (r, x + x.signum() * salt)).collect() };
    let gset = |it: &mut dyn Iterator<Item = u16>| -> IntSet<GlyphId16> {
        let mut s = IntSet::empty();
        for x in it {
            s.insert(g(x));
        }
        s
    };
    let mut vs = VariationStoreBuilder::new(2);
    let mut lookups: Vec<PositionLookup> = vec![];
    let all = kind == "gpos_all";
    if all || kind == "singlepos" {
        let mut b = SinglePosBuilder::default();
        for k in 0..18u16 {
            let mut r = ValueRecordBuilder::new().with_x_advance(10 + k as i16);
            if k % 3 != 2 {
                r = r.with_x_advance_device(sd(deltas(&mut rng, &pool, 0, v)));
            }
            if k % 4 == 1 {
                r = r.with_y_placement(3).with_y_placement_device(sd(deltas(&mut rng, &pool, 0, v)));
            }
            b.insert(g(900 - 13 * k), r);
        }
        lookups.push(PositionLookup::Single(Lookup::new(LookupFlag::empty(), b.build(&mut vs))));
    }
    if all || kind == "pairglyphs" || kind == "pairclasses" || kind == "pairmixed" {
        let mut b = PairPosBuilder::default();
        if kind != "pairclasses" {
            for k in 0..8u16 {
                for j in 0..3u16 {
                    let r1 = ValueRecordBuilder::new().with_x_advance(-(k as i16) - 1).with_x_advance_device(sd(deltas(&mut rng, &pool, 1, v)));
                    let r2 = if (k + j) % 3 == 0 { ValueRecordBuilder::new().with_x_placement(2).with_x_placement_device(sd(deltas(&mut rng, &pool, 1, v))) } else { ValueRecordBuilder::new() };
                    b.insert_pair(g(700 - 31 * k), r1, g(40 + 5 * j + k), r2);
                }
            }
        }
        if kind != "pairglyphs" {
            // several first classes of different sizes (class ids are not in glyph order), several second classes;
            // a second batch of classes overlapping the first forces a second class-pair subtable
            let n1 = 5 + (v as u16 % 3);
            for k in 0..n1 {
                let c1 = gset(&mut (0..=(k * 7) % 5).map(|i| 1000 + k * 10 + i));
                for j in 0..3u16 {
                    if (k + j) % 4 == 3 {
                        continue;
                    }
                    let c2 = gset(&mut (0..=(j % 2)).map(|i| 2000 + j * 10 + i));
                    let r1 = ValueRecordBuilder::new().with_x_advance(-10 - k as i16).with_x_advance_device(sd(deltas(&mut rng, &pool, 2, v)));
                    let r2 = if j == 1 { ValueRecordBuilder::new().with_x_advance(1).with_x_advance_device(sd(deltas(&mut rng, &pool, 2, v))) } else { ValueRecordBuilder::new() };
                    b.insert_classes(c1.clone(), r1, c2, r2);
                }
            }
            for k in 0..4u16 {
                let c1 = gset(&mut [1000 + k * 10, 1100 + k].into_iter());
                let c2 = gset(&mut [2000u16, 2050 + k].into_iter());
                b.insert_classes(c1, ValueRecordBuilder::new().with_x_advance(5).with_x_advance_device(sd(deltas(&mut rng, &pool, 2, v))), c2, ValueRecordBuilder::new());
            }
        }
        lookups.push(PositionLookup::Pair(Lookup::new(LookupFlag::empty(), b.build(&mut vs))));
    }
    let anchor = |rng: &mut Rng, site: usize, x: i16, y: i16| -> AnchorBuilder {
        let a = AnchorBuilder::new(x, y);
        match rng.below(4) {
            0 => a,
            1 => a.with_x_device(sd(deltas(rng, &pool, site, v))),
            2 => a.with_y_device(sd(deltas(rng, &pool, site, v))),
            _ => a.with_x_device(sd(deltas(rng, &pool, site, v))).with_y_device(sd(deltas(rng, &pool, site, v))),
        }
    };
    if all || kind == "cursive" {
        let mut b = CursivePosBuilder::default();
        for k in 0..14u16 {
            let e = if k % 3 == 0 { None } else { Some(anchor(&mut rng, 3, k as i16, 1)) };
            let x = if k % 4 == 0 { None } else { Some(anchor(&mut rng, 3, 2, k as i16)) };
            b.insert(g(3000 - k * 17), e, x);
        }
        lookups.push(PositionLookup::Cursive(Lookup::new(LookupFlag::empty(), b.build(&mut vs))));
    }
    if all || kind == "marktobase" {
        let mut b = MarkToBaseBuilder::default();
        let classes = ["top", "bottom", "ogonek", "ring", "horn", "cedilla"];
        for (ci, c) in classes.iter().enumerate() {
            for j in 0..3u16 {
                let _ = b.insert_mark(g(4400 - ci as u16 * 10 - j), c, anchor(&mut rng, 4, j as i16, ci as i16 * 10));
            }
        }
        for bg in 0..8u16 {
            for (ci, c) in classes.iter().enumerate().rev() {
                if (bg as usize + ci) % 3 != 0 {
                    b.insert_base(g(4030 + bg * 2), c, anchor(&mut rng, 4, 100 + bg as i16, ci as i16));
                }
            }
        }
        lookups.push(PositionLookup::MarkToBase(Lookup::new(LookupFlag::empty(), b.build(&mut vs))));
    }
    if all || kind == "marktomark" {
        let mut b = MarkToMarkBuilder::default();
        let classes = ["top", "bottom", "side", "above2", "below2"];
        for (ci, c) in classes.iter().enumerate() {
            for j in 0..3u16 {
                let _ = b.insert_mark1(g(5400 - ci as u16 * 10 - j), c, anchor(&mut rng, 5, j as i16, ci as i16));
            }
        }
        for m2 in 0..7u16 {
            for (ci, c) in classes.iter().enumerate().rev() {
                if (m2 as usize + ci) % 2 == 0 {
                    b.insert_mark2(g(5600 + m2), c, anchor(&mut rng, 5, m2 as i16, ci as i16 + 5));
                }
            }
        }
        lookups.push(PositionLookup::MarkToMark(Lookup::new(LookupFlag::empty(), b.build(&mut vs))));
    }
    if all || kind == "marktolig" {
        let mut b = MarkToLigBuilder::default();
        let classes = ["top", "bottom", "mid", "hook"];
        for (ci, c) in classes.iter().enumerate() {
            for j in 0..3u16 {
                let _ = b.insert_mark(g(6400 - ci as u16 * 10 - j), c, anchor(&mut rng, 6, j as i16, ci as i16));
            }
        }
        for lg in 0..6u16 {
            for (ci, c) in classes.iter().enumerate().rev() {
                let comps = (0..3).map(|k| if (k + ci + lg as usize) % 3 == 0 { None } else { Some(anchor(&mut rng, 6, k as i16 * 10, lg as i16)) }).collect();
                b.insert_ligature(g(6800 + lg), c, comps);
            }
        }
        lookups.push(PositionLookup::MarkToLig(Lookup::new(LookupFlag::empty(), b.build(&mut vs))));
    }
    let mut gpos = Gpos::new(ScriptList::default(), FeatureList::default(), LookupList::new(lookups));
    let (ivs, remap) = vs.build();
    gpos.remap_variation_indices(&remap);
    let mut out = dump_table(&ivs).unwrap_or_else(|e| err_bytes("varbuilder-ivs", e));
    out.extend_from_slice(b"|GPOS|");
    out.extend(dump_table(&gpos).unwrap_or_else(|e| err_bytes("varbuilder", e)));
    out
}

/// the point-number sets of one glyph's tuples as compute_shared_points sees them (indices of the required deltas;
/// None = all / no point required, i.e. `PackedPointNumbers::All`), for the coverage statistics only:
/// does the glyph have >= 2 distinct explicit sets with the same use count (>= 2) and the same cardinality
/// (= same packed size, all point numbers < 256), and is that count the maximum saving?
fn point_set_tie(tuples: &[Vec<write_fonts::tables::gvar::GlyphDelta>]) -> usize {
    let mut counts: Vec<(Vec<usize>, usize)> = vec![];
    for t in tuples {
        let set: Vec<usize> = t.iter().enumerate().filter(|(_, d)| d.required).map(|(i, _)| i).collect();
        if set.is_empty() || set.len() == t.len() {
            continue;
        }
        match counts.iter_mut().find(|(s, _)| *s == set) {
            Some(e) => e.1 += 1,
            None => counts.push((set, 1)),
        }
    }
    let best = counts.iter().filter(|(_, c)| *c > 1).map(|(s, c)| (c - 1) * (s.len() + 2)).max().unwrap_or(0);
    if best == 0 {
        return 0;
    }
    counts.iter().filter(|(s, c)| *c > 1 && (c - 1) * (s.len() + 2) == best).count()
}

fn gvar_bytes(glyphs: Vec<write_fonts::tables::gvar::GlyphVariations>) -> Vec<u8> {
    match write_fonts::tables::gvar::Gvar::new(glyphs, 2) {
        Ok(t) => dump_table(&t).unwrap_or_else(|e| err_bytes("gvar", e)),
        Err(e) => err_bytes("gvar-new", format!("{e:?}")),
    }
}

/// distinct (x, y) peaks: tuple k of a glyph varies in region k
fn gvar_tents(k: usize) -> Vec<write_fonts::tables::gvar::Tent> {
    use write_fonts::tables::gvar::Tent;
    use write_fonts::types::F2Dot14;
    let peaks = [-1.0f32, -0.5, 0.25, 0.5, 1.0];
    vec![Tent::new(F2Dot14::from_f32(peaks[k % 5]), None), Tent::new(F2Dot14::from_f32(peaks[(k / 5) % 5]), None)]
}

/// explicit ties: m (2..3) distinct point sets of equal cardinality, each used r (2..3) times, tuples interleaved;
/// plus controls (one set strictly more frequent, sets of different size, an all-points tuple).
/// Returns the glyphs and the number of glyphs whose best candidates tie (2-way, 3-way).
fn gvar_ties_glyphs(seed: u64, salt: i16) -> (Vec<write_fonts::tables::gvar::GlyphVariations>, [usize; 4]) {
    use write_fonts::tables::gvar::{GlyphDelta, GlyphDeltas, GlyphVariations};
    use write_fonts::types::GlyphId;
    let mut rng = Rng::new(seed ^ 0x6776_7469_6573);
    let mut glyphs = vec![];
    let mut ties = [0usize; 4];
    for gid in 0..48u32 {
        let npts = 8 + rng.below(10) as usize;
        let card = 2 + rng.below(3) as usize;
        let m = 2 + rng.below(2) as usize;
        let r = 2 + rng.below(2) as usize;
        // m distinct sets of `card` points
        let mut sets: Vec<Vec<usize>> = vec![];
        while sets.len() < m {
            let mut idx: Vec<usize> = (0..npts).collect();
            rng.shuffle(&mut idx);
            let mut set: Vec<usize> = idx.into_iter().take(card).collect();
            set.sort();
            if !sets.contains(&set) {
                sets.push(set);
            }
        }
        let mut uses: Vec<usize> = (0..m).flat_map(|i| std::iter::repeat(i).take(r)).collect();
        match gid % 6 {
            // controls
            3 => uses.push(0),                       // set 0 strictly more frequent
            4 => sets[1].push(npts - 1), // (usually) makes set 1 larger than the others
            _ => {}
        }
        sets[1].sort();
        sets[1].dedup();
        rng.shuffle(&mut uses);
        let mut tuples: Vec<Vec<GlyphDelta>> = uses
            .iter()
            .enumerate()
            .map(|(k, si)| (0..npts).map(|i| if sets[*si].contains(&i) { GlyphDelta::required(3 + k as i16 + i as i16 + salt, -(k as i16) - 2 * i as i16) } else { GlyphDelta::optional(0, 0) }).collect())
            .collect();
        if gid % 6 == 5 {
            tuples.push((0..npts).map(|i| GlyphDelta::required(i as i16, 1)).collect());
        }
        ties[point_set_tie(&tuples).min(3)] += 1;
        let vars = tuples.into_iter().enumerate().map(|(k, d)| GlyphDeltas::new(gvar_tents(k), d)).collect();
        glyphs.push(GlyphVariations::new(GlyphId::new(gid), vars));
    }
    (glyphs, ties)
}

/// ties arising from IUP: an outline of 2..3 congruent rectangles; a master either stretches ONE of the rectangles
/// (its right edge moves, the left one stays) or moves one of them; two masters per rectangle. iup_delta_optimize
/// decides which deltas are required, so the tuples of different rectangles get different, equally large point sets.
fn gvar_iup_glyphs(seed: u64, salt: i16) -> (Vec<write_fonts::tables::gvar::GlyphVariations>, [usize; 4]) {
    use kurbo::{Point, Vec2};
    use write_fonts::tables::gvar::iup::iup_delta_optimize;
    use write_fonts::tables::gvar::{GlyphDelta, GlyphDeltas, GlyphVariations};
    use write_fonts::types::GlyphId;
    let mut rng = Rng::new(seed ^ 0x6776_6975_70);
    let mut glyphs = vec![];
    let mut ties = [0usize; 4];
    for gid in 0..40u32 {
        let nrect = 2 + rng.below(2) as usize;
        let per = 4 + 2 * rng.below(3) as usize; // points per contour: 4 (rectangle), 6, 8 (extra on-edge points)
        let (w, h) = (100.0 + 10.0 * rng.below(5) as f64, 200.0 + 20.0 * rng.below(4) as f64);
        let mut coords = vec![];
        let mut ends = vec![];
        for c in 0..nrect {
            let x0 = 50.0 + c as f64 * (w + 60.0);
            let extra = (per - 4) / 2;
            // bottom edge left->right with `extra` inner points, then top edge right->left
            for i in 0..=extra + 1 {
                coords.push(Point::new(x0 + w * i as f64 / (extra + 1) as f64, 0.0));
            }
            for i in 0..=extra + 1 {
                coords.push(Point::new(x0 + w - w * i as f64 / (extra + 1) as f64, h));
            }
            ends.push(coords.len() - 1);
        }
        let n_real = coords.len();
        for px in [0.0, 600.0, 0.0, 0.0] {
            coords.push(Point::new(px, 0.0));
        }
        let masters_per_rect = 2 + rng.below(2) as usize;
        let mut order: Vec<(usize, usize)> = (0..nrect).flat_map(|c| (0..masters_per_rect).map(move |k| (c, k))).collect();
        rng.shuffle(&mut order);
        let stretch = rng.chance(2, 3);
        let mut tuples: Vec<Vec<GlyphDelta>> = vec![];
        for (c, k) in order {
            let amount = 10.0 + 7.0 * k as f64 + salt as f64;
            let mut deltas = vec![Vec2::ZERO; coords.len()];
            for i in 0..n_real {
                if i / per == c {
                    let x0 = 50.0 + c as f64 * (w + 60.0);
                    let rel = (coords[i].x - x0) / w;
                    deltas[i] = if stretch { Vec2::new((amount * rel).round(), 0.0) } else { Vec2::new(amount, if coords[i].y > 0.0 { amount } else { 0.0 }) };
                }
            }
            match iup_delta_optimize(deltas, coords.clone(), 0.5, &ends) {
                Ok(d) => tuples.push(d),
                Err(_) => {}
            }
        }
        ties[point_set_tie(&tuples).min(3)] += 1;
        let vars = tuples.into_iter().enumerate().map(|(k, d)| GlyphDeltas::new(gvar_tents(k), d)).collect();
        glyphs.push(GlyphVariations::new(GlyphId::new(gid), vars));
    }
    (glyphs, ties)
}

/// packed point numbers at `d[0..]`: (None = all points | Some(numbers), bytes consumed)
fn parse_packed_points(d: &[u8]) -> Option<(Option<Vec<u16>>, usize)> {
    let mut i = 0;
    let b0 = *d.get(i)? as usize;
    i += 1;
    let count = if b0 & 0x80 != 0 {
        let b1 = *d.get(i)? as usize;
        i += 1;
        ((b0 & 0x7f) << 8) | b1
    } else {
        b0
    };
    if count == 0 {
        return Some((None, i));
    }
    let mut pts = Vec::with_capacity(count);
    let mut last = 0u16;
    while pts.len() < count {
        let c = *d.get(i)?;
        i += 1;
        let run = (c & 0x7f) as usize + 1;
        for _ in 0..run {
            let delta = if c & 0x80 != 0 {
                let v = u16::from_be_bytes([*d.get(i)?, *d.get(i + 1)?]);
                i += 2;
                v
            } else {
                let v = *d.get(i)? as u16;
                i += 1;
                v
            };
            last = last.wrapping_add(delta);
            pts.push(last);
        }
    }
    if pts.len() != count {
        return None;
    }
    Some((Some(pts), i))
}

/// per glyph of a compiled gvar table: every tuple's point packing (+ packed size) and the glyph's shared point numbers,
/// read from the bytes (a tuple without private point numbers uses the shared ones). Coq terms `CShared (SCase ..)`.
fn gvar_shared_cases(t: &[u8]) -> Option<Vec<(String, usize, bool)>> {
    let u16at = |o: usize| -> Option<usize> { Some(u16::from_be_bytes([*t.get(o)?, *t.get(o + 1)?]) as usize) };
    let u32at = |o: usize| -> Option<usize> { Some(u32::from_be_bytes([*t.get(o)?, *t.get(o + 1)?, *t.get(o + 2)?, *t.get(o + 3)?]) as usize) };
    let axis_count = u16at(4)?;
    let glyph_count = u16at(12)?;
    let long = u16at(14)? & 1 != 0;
    let array = u32at(16)?;
    let off = |i: usize| -> Option<usize> { if long { u32at(20 + 4 * i) } else { Some(u16at(20 + 2 * i)? * 2) } };
    let pts_term = |p: &Option<Vec<u16>>| match p {
        None => "None".to_string(),
        Some(v) => format!("(Some {})", czlist(v.iter().map(|x| *x as i128))),
    };
    let mut out = vec![];
    for g in 0..glyph_count {
        let (a, b) = (array + off(g)?, array + off(g + 1)?);
        if b <= a {
            continue;
        }
        let d = t.get(a..b)?;
        let g16 = |o: usize| -> Option<usize> { Some(u16::from_be_bytes([*d.get(o)?, *d.get(o + 1)?]) as usize) };
        let tvc = g16(0)?;
        let ntuples = tvc & 0x0fff;
        let mut data = g16(2)?;
        let shared = if tvc & 0x8000 != 0 {
            let (p, n) = parse_packed_points(d.get(data..)?)?;
            data += n;
            Some((p, n))
        } else {
            None
        };
        let mut h = 4;
        let mut tuples = vec![];
        for _ in 0..ntuples {
            let size = g16(h)?;
            let idx = g16(h + 2)?;
            h += 4;
            if idx & 0x8000 != 0 {
                h += 2 * axis_count;
            }
            if idx & 0x4000 != 0 {
                h += 4 * axis_count;
            }
            if idx & 0x2000 != 0 {
                tuples.push(parse_packed_points(d.get(data..)?)?);
            } else {
                tuples.push(shared.clone()?);
            }
            data += size;
        }
        let mut distinct: Vec<&Option<Vec<u16>>> = vec![];
        for (p, _) in &tuples {
            if !distinct.contains(&p) {
                distinct.push(p);
            }
        }
        let term = format!(
            "CShared (SCase {} {})",
            clist(tuples.iter(), |(p, n)| format!("({}, {})", pts_term(p), n)),
            match &shared {
                None => "None".to_string(),
                Some((p, _)) => format!("(Some {})", pts_term(p)),
            }
        );
        out.push((term, distinct.len(), shared.is_some()));
    }
    Some(out)
}

fn shared_cov_gsub(pairs: u16) -> Vec<u8> {
    use write_fonts::tables::gsub::{Gsub, SingleSubst, SubstitutionLookup};
    use write_fonts::tables::layout::{CoverageTable, Lookup, LookupFlag, LookupList};
    use write_fonts::types::GlyphId16;
    let big = |n: u16, delta: u16| -> SubstitutionLookup {
        let coverage: CoverageTable = (0..n).map(|i| GlyphId16::new(2 * i + 1)).collect();
        let subs = (0..n).map(|i| GlyphId16::new(2 * i + 1 + delta)).collect();
        SubstitutionLookup::Single(Lookup::new(LookupFlag::empty(), vec![SingleSubst::format_2(coverage, subs)]))
    };
    let mut lookups = vec![];
    for p in 0..pairs {
        let n = 16_420 - 20 * p;
        lookups.push(big(n, 1 + 4 * p));
        lookups.push(big(n, 3 + 4 * p));
    }
    let t = Gsub::new(Default::default(), Default::default(), LookupList::new(lookups));
    dump_table(&t).unwrap_or_else(|e| err_bytes("sharedcov", e))
}

fn fonts() -> Vec<(&'static str, &'static [u8])> {
    vec![
        ("vazirmatn_var", font_test_data::VAZIRMATN_VAR),
        ("noto_serif_display", font_test_data::NOTO_SERIF_DISPLAY_TRIMMED),
        ("cantarell_vf", font_test_data::CANTARELL_VF_TRIMMED),
        ("tinos_subset", font_test_data::TINOS_SUBSET),
        ("simple_glyf", font_test_data::SIMPLE_GLYF),
    ]
}

fn big_pair_pos(lo: u16, hi: u16, width: u16) -> write_fonts::tables::gpos::PositionLookup {
    use write_fonts::tables::{gpos, layout};
    use write_fonts::types::GlyphId16;
    let coverage = (lo..hi).map(GlyphId16::new).collect();
    let pair_sets = (lo..hi)
        .map(|id| {
            let value_rec = gpos::ValueRecord::new().with_x_advance(id as _);
            gpos::PairSet::new(
                (id..id + width)
                    .map(|id2| gpos::PairValueRecord::new(GlyphId16::new(id2), value_rec.clone(), gpos::ValueRecord::default()))
                    .collect(),
            )
        })
        .collect::<Vec<_>>();
    gpos::PositionLookup::Pair(layout::Lookup::new(layout::LookupFlag::empty(), vec![gpos::PairPos::format_1(coverage, pair_sets)]))
}

fn err_bytes(tag: &str, e: impl std::fmt::Display) -> Vec<u8> {
    format!("ERR:{tag}:{e}").into_bytes()
}

fn run_job(job: &Job) -> Result<Vec<u8>, String> {
    run_job_salted(job, 0)
}

/// sibling of a DAG: every literal / run byte xor 1 (same sizes, same equalities between nodes)
fn dag_sibling(d: &Dag) -> Dag {
    Dag {
        nodes: d
            .nodes
            .iter()
            .map(|n| {
                n.iter()
                    .map(|it| match it {
                        c05gen::Item::Run(b, k) => c05gen::Item::Run(b ^ 1, *k),
                        c05gen::Item::Lit(l) => c05gen::Item::Lit(l.iter().map(|b| b ^ 1).collect()),
                        c05gen::Item::Link(a, b) => c05gen::Item::Link(*a, *b),
                    })
                    .collect()
            })
            .collect(),
    }
}

/// `salt` 0 = the job itself, 1 = its sibling (same shapes, different content values)
fn run_job_salted(job: &Job, salt: i16) -> Result<Vec<u8>, String> {
    let job = job.clone();
    catch(std::panic::AssertUnwindSafe(move || match &job {
        Job::Sib(inner) => match run_job_salted(inner, 1) {
            Ok(b) => b,
            Err(p) => panic!("{}", p),
        },
        Job::BufFont { fi, kind, sib, op } => {
            let data: Vec<u8> = if *sib { sibling_font(fonts()[*fi].1, kind).map(|x| x.0).unwrap_or_default() } else { fonts()[*fi].1.to_vec() };
            font_op(&data, op, &buf_unicodes(*fi, kind))
        }
        Job::Ift(variant) => ift_op(&ift_font(*variant)),
        Job::Dag(d) if salt != 0 => match compile(&dag_sibling(d)) {
            Outcome::Bytes(b) => b,
            Outcome::PackingFailed => b"ERR:PackingFailed".to_vec(),
            Outcome::OtherErr(e) => err_bytes("other", e),
            Outcome::Panic(p) => panic!("{}", p),
        },
        Job::Dag(d) => match compile(d) {
            Outcome::Bytes(b) => b,
            Outcome::PackingFailed => b"ERR:PackingFailed".to_vec(),
            Outcome::OtherErr(e) => err_bytes("other", e),
            Outcome::Panic(p) => panic!("{}", p),
        },
        Job::RealTable(fi, kind) => {
            let font = FontRef::new(fonts()[*fi].1).unwrap();
            macro_rules! conv {
                ($get:ident, $ty:ty) => {
                    match font.$get() {
                        Ok(t) => {
                            let o: $ty = t.to_owned_table();
                            dump_table(&o).unwrap_or_else(|e| err_bytes(kind, e))
                        }
                        Err(_) => b"ABSENT".to_vec(),
                    }
                };
            }
            match *kind {
                "GPOS" => conv!(gpos, write_fonts::tables::gpos::Gpos),
                "GSUB" => conv!(gsub, write_fonts::tables::gsub::Gsub),
                "GDEF" => conv!(gdef, write_fonts::tables::gdef::Gdef),
                "name" => conv!(name, write_fonts::tables::name::Name),
                "cmap" => conv!(cmap, write_fonts::tables::cmap::Cmap),
                "HVAR" => conv!(hvar, write_fonts::tables::hvar::Hvar),
                "fvar" => conv!(fvar, write_fonts::tables::fvar::Fvar),
                _ => unreachable!(),
            }
        }
        Job::BigGpos(n, lo, width) => {
            use write_fonts::tables::{gpos, layout};
            let lookups = (0..*n).map(|k| big_pair_pos(lo + 100 * k, lo + 100 * k + 19 + k, *width)).collect();
            let table = gpos::Gpos::new(Default::default(), Default::default(), layout::LookupList::new(lookups));
            dump_table(&table).unwrap_or_else(|e| err_bytes("biggpos", e))
        }
        Job::SplitGpos(g, w) => {
            use write_fonts::tables::{gpos, layout};
            let table = gpos::Gpos::new(Default::default(), Default::default(), layout::LookupList::new(vec![big_pair_pos(1, 1 + *g, *w)]));
            dump_table(&table).unwrap_or_else(|e| err_bytes("splitgpos", e))
        }
        Job::Ivs(seed) => {
            use write_fonts::tables::variations::ivs_builder::VariationStoreBuilder;
            use write_fonts::tables::variations::{RegionAxisCoordinates, VariationRegion};
            use write_fonts::types::F2Dot14;
            let mut rng = Rng::new(*seed);
            let mut b = VariationStoreBuilder::new(2);
            let regions: Vec<VariationRegion> = (0..12)
                .map(|i| {
                    let mk = |p: f32| RegionAxisCoordinates {
                        start_coord: F2Dot14::from_f32(0.0),
                        peak_coord: F2Dot14::from_f32(p),
                        end_coord: F2Dot14::from_f32(1.0),
                    };
                    VariationRegion::new(vec![mk((i % 4) as f32 * 0.25 + 0.25), mk((i / 4) as f32 * 0.25 + 0.25)])
                })
                .collect();
            let mut ids = vec![];
            for _ in 0..300 {
                let k = 1 + rng.below(5) as usize;
                let mut ds = vec![];
                for _ in 0..k {
                    let r = regions[rng.below(12) as usize].clone();
                    let v = *rng.pick(&[0i32, 1, -1, 5, 127, 128, -129, 300, 40000]);
                    let v = v + v.signum() * salt as i32;
                    if !ds.iter().any(|(x, _): &(VariationRegion, i32)| *x == r) {
                        ds.push((r, v));
                    }
                }
                ids.push(b.add_deltas(ds));
            }
            let (store, remap) = b.build();
            let mut out = dump_table(&store).unwrap_or_else(|e| err_bytes("ivs", e));
            for id in ids {
                let v = remap.get(id).unwrap();
                out.extend_from_slice(&v.delta_set_outer_index.to_be_bytes());
                out.extend_from_slice(&v.delta_set_inner_index.to_be_bytes());
            }
            out
        }
        Job::Gvar(seed) => {
            use write_fonts::tables::gvar::{GlyphDelta, GlyphDeltas, GlyphVariations, Gvar, Tent};
            use write_fonts::types::{F2Dot14, GlyphId};
            let mut rng = Rng::new(*seed ^ 0x67766172);
            let peaks = [0.25f32, 0.5, 1.0, -1.0, -0.5];
            let mut glyphs = vec![];
            for g in 0..60u32 {
                let npts = 3 + (g % 5) as usize;
                let mut vars = vec![];
                let mut used = vec![];
                for _ in 0..(1 + rng.below(3)) {
                    let p = (*rng.pick(&peaks), *rng.pick(&peaks));
                    if used.contains(&p) {
                        continue;
                    }
                    used.push(p);
                    let tents = vec![Tent::new(F2Dot14::from_f32(p.0), None), Tent::new(F2Dot14::from_f32(p.1), None)];
                    // a few shared delta shapes so that shared tuples / points get exercised
                    let shape = rng.below(4) as i16;
                    let deltas = (0..npts).map(|i| {
                        if (i as i16 + shape) % 3 == 0 { GlyphDelta::optional(0, 0) } else { GlyphDelta::required(shape * 10 + i as i16 + salt, -(i as i16)) }
                    }).collect();
                    vars.push(GlyphDeltas::new(tents, deltas));
                }
                glyphs.push(GlyphVariations::new(GlyphId::new(g), vars));
            }
            match Gvar::new(glyphs, 2) {
                Ok(t) => dump_table(&t).unwrap_or_else(|e| err_bytes("gvar", e)),
                Err(e) => err_bytes("gvar-new", format!("{e:?}")),
            }
        }
        Job::GvarTies(seed) => gvar_bytes(gvar_ties_glyphs(*seed, salt).0),
        Job::GvarIup(seed) => gvar_bytes(gvar_iup_glyphs(*seed, salt).0),
        Job::BuildFont(fi) => {
            let font = FontRef::new(fonts()[*fi].1).unwrap();
            let mut b = FontBuilder::new();
            // recompile the layout tables, copy the rest
            if let Ok(t) = font.gpos() {
                let o: write_fonts::tables::gpos::Gpos = t.to_owned_table();
                let _ = b.add_table(&o);
            }
            if let Ok(t) = font.gsub() {
                let o: write_fonts::tables::gsub::Gsub = t.to_owned_table();
                let _ = b.add_table(&o);
            }
            if let Ok(t) = font.name() {
                let o: write_fonts::tables::name::Name = t.to_owned_table();
                let _ = b.add_table(&o);
            }
            b.copy_missing_tables(font);
            b.build()
        }
        Job::Builder(kind, v) => builder_job(kind, *v),
        Job::SharedCovGsub(pairs) => shared_cov_gsub(*pairs),
        Job::TiedPromo(spec) => PromoSpec { salt: spec.salt + salt as u16, ..spec.clone() }.compile(),
        Job::VarBuilder(kind, v) => var_builder_job(kind, *v, salt),
        Job::Subset(fi, pick) => {
            use klippa::{subset_font, Plan, SubsetFlags};
            use write_fonts::read::collections::IntSet;
            let font = FontRef::new(fonts()[*fi].1).unwrap();
            let ng = font.maxp().map(|m| m.num_glyphs()).unwrap_or(1) as u32;
            let mut gids: IntSet<write_fonts::types::GlyphId> = IntSet::empty();
            let mut rng = Rng::new(*pick as u64);
            for _ in 0..(1 + *pick % 7) {
                gids.insert(write_fonts::types::GlyphId::new(rng.below(ng as u64) as u32));
            }
            let mut unicodes: IntSet<u32> = IntSet::empty();
            for c in [0x41u32, 0x61, 0x20, 0x627, 0x644] {
                if rng.chance(1, 2) {
                    unicodes.insert(c);
                }
            }
            let empty_tags: IntSet<write_fonts::types::Tag> = IntSet::empty();
            let mut all_tags: IntSet<write_fonts::types::Tag> = IntSet::empty();
            all_tags.invert();
            let mut name_ids: IntSet<write_fonts::types::NameId> = IntSet::empty();
            for i in 0..7u16 {
                name_ids.insert(write_fonts::types::NameId::new(i));
            }
            let mut langs: IntSet<u16> = IntSet::empty();
            langs.insert(0x0409);
            let plan = Plan::new(&gids, &unicodes, &font, SubsetFlags::default(), &empty_tags, &all_tags, &all_tags, &name_ids, &langs);
            subset_font(&font, &plan).unwrap_or_else(|e| err_bytes("subset", format!("{e:?}")))
        }
    }))
}

fn job_name(j: &Job) -> String {
    match j {
        Job::Dag(d) => d.key(),
        Job::RealTable(f, k) => format!("table:{}:{}", fonts()[*f].0, k),
        Job::BigGpos(n, lo, w) => format!("biggpos:{n}:{lo}:{w}"),
        Job::SplitGpos(g, w) => format!("splitgpos:{g}:{w}"),
        Job::Ivs(s) => format!("ivs:{s}"),
        Job::Gvar(s) => format!("gvar:{s}"),
        Job::GvarTies(s) => format!("gvarties:{s}"),
        Job::GvarIup(s) => format!("gvariup:{s}"),
        Job::Sib(j) => format!("sib:{}", job_name(j)),
        Job::BufFont { fi, kind, sib, op } => format!("buffont:{}:{}:{}:{}", fonts()[*fi].0, kind, if *sib { "B" } else { "A" }, op),
        Job::Ift(v) => format!("ift:{v}"),
        Job::BuildFont(f) => format!("fontbuilder:{}", fonts()[*f].0),
        Job::Subset(f, p) => format!("subset:{}:{}", fonts()[*f].0, p),
        Job::Builder(k, v) => format!("builder:{k}:{v}"),
        Job::SharedCovGsub(p) => format!("sharedcovgsub:{p}"),
        Job::TiedPromo(spec) => spec.name(),
        Job::VarBuilder(k, v) => format!("varbuilder:{k}:{v}"),
    }
}

fn digest(r: &Result<Vec<u8>, String>) -> String {
    match r {
        Ok(b) => format!("{:016x}:{}", fnv(b), b.len()),
        Err(p) => format!("PANIC:{}", p.chars().take(60).collect::<String>()),
    }
}

/// deterministic (by seed) job list; `thorough` only adds more of the same
fn make_jobs(seed: u64, thorough: bool) -> Vec<Job> {
    let mut rng = Rng::new(seed ^ 0xC07);
    let mut jobs = vec![];
    for d in corpus() {
        jobs.push(Job::Dag(d));
    }
    let n = if thorough { 160 } else { 50 };
    for _ in 0..n {
        jobs.push(Job::Dag(gen_wide(&mut rng)));
    }
    for _ in 0..n {
        let k = 3 + rng.below(7) as usize;
        let (bb, mix, lab) = (1 + rng.below(3) as usize, rng.below(4) as u32, rng.chance(3, 4));
        let d = gen_random(&mut rng, k, bb, mix, lab);
        if d.expansion() < 500 && d.expansion_bytes() < 2_000_000 {
            jobs.push(Job::Dag(d));
        }
    }
    for _ in 0..n / 2 {
        jobs.push(Job::Dag(gen_straddle(&mut rng)));
    }
    for fi in 0..fonts().len() {
        for k in ["GPOS", "GSUB", "GDEF", "name", "cmap", "HVAR", "fvar"] {
            jobs.push(Job::RealTable(fi, k));
        }
        jobs.push(Job::BuildFont(fi));
        for p in 0..(if thorough { 6 } else { 2 }) {
            jobs.push(Job::Subset(fi, 11 + 7 * p));
        }
    }
    for k in ["singlepos_runs", "singlepos_mixed", "pairpos", "marktobase", "marktomark", "marktolig", "cursive", "classdef", "coverage"] {
        for v in 0..3 {
            jobs.push(Job::Builder(k, v));
        }
    }
    for k in VAR_KINDS {
        for v in 0..(if thorough { 4 } else { 2 }) {
            jobs.push(Job::VarBuilder(k, v));
        }
    }
    // promotion under ties: own generator stream so that the rest of the job list is unchanged
    let mut prng = Rng::new(seed ^ 0x7075_726f_6d6f);
    let mut seen_patterns = [0u32; 5];
    let want = if thorough { 4 } else { 2 };
    let mut guard = 0;
    while seen_patterns.iter().any(|c| *c < want) && guard < 400 {
        guard += 1;
        let spec = gen_promo(&mut prng);
        if seen_patterns[spec.pattern as usize] < want {
            seen_patterns[spec.pattern as usize] += 1;
            jobs.push(Job::TiedPromo(spec));
        }
    }
    jobs.push(Job::SharedCovGsub(2)); // two two-root spaces overflowing in the same round
    if thorough {
        jobs.push(Job::SharedCovGsub(3));
    }
    for _ in 0..(if thorough { 12 } else { 4 }) {
        jobs.push(Job::Dag(gen_two_spaces(&mut rng)));
    }
    jobs.push(Job::BigGpos(6, 1, 165)); // extension promotion (as in graph.rs tests)
    jobs.push(Job::BigGpos(1, 1, 400));
    jobs.push(Job::SplitGpos(120, 200)); // one oversized PairPos subtable: splitting
    jobs.push(Job::SplitGpos(300, 100));
    jobs.push(Job::BigGpos(3, 50, 300));
    jobs.push(Job::Gvar(1));
    jobs.push(Job::Gvar(2));
    for k in 0..(if thorough { 6 } else { 3 }) {
        jobs.push(Job::GvarTies(1 + k));
        jobs.push(Job::GvarIup(1 + k));
    }
    jobs.push(Job::Ivs(1));
    jobs.push(Job::Ivs(2));
    // round 5: siblings (same shapes / sizes, different content values) of the value-carrying job families
    let sibs: Vec<Job> = jobs
        .iter()
        .enumerate()
        .filter(|(i, j)| match j {
            Job::Ivs(_) | Job::Gvar(_) | Job::GvarTies(_) | Job::GvarIup(_) | Job::VarBuilder(..) | Job::TiedPromo(_) => true,
            Job::Dag(_) => i % 4 == 0,
            _ => false,
        })
        .map(|(_, j)| Job::Sib(Box::new(j.clone())))
        .collect();
    jobs.extend(sibs);
    // font files and their same-length siblings (one table's content edited), three consumers each
    for fi in 0..fonts().len() {
        for kind in SIB_KINDS {
            if sibling_font(fonts()[fi].1, kind).is_none() {
                continue;
            }
            for op in FONT_OPS {
                jobs.push(Job::BufFont { fi, kind, sib: false, op });
                jobs.push(Job::BufFont { fi, kind, sib: true, op });
            }
        }
    }
    jobs.push(Job::Ift(0));
    jobs.push(Job::Ift(1));
    jobs
}

/// unrelated compilations: burn `k` ids of the global counter (each new object draws one)
fn burn(rng: &mut Rng, k: usize) {
    for _ in 0..k {
        let salt = rng.next_u64().to_be_bytes().to_vec();
        let d = Dag { nodes: vec![vec![c05gen::Item::Lit(salt.clone()), c05gen::Item::Link(2, 1)], vec![c05gen::Item::Lit(salt)]] };
        let _ = compile(&d);
    }
}

fn child_main(args: &[String]) {
    // c07 child <seed> <thorough 0/1> <burn> : print "<index> <digest>" for every job
    let seed: u64 = args[2].parse().unwrap();
    let thorough = args[3] == "1";
    let burn_n: usize = args[4].parse().unwrap();
    let stride: usize = args[5].parse().unwrap();
    let jobs = make_jobs(seed, thorough);
    let mut rng = Rng::new(seed ^ burn_n as u64);
    burn(&mut rng, burn_n);
    // children walk the job list in a different order (stride coprime to len) to vary history
    let n = jobs.len();
    let mut i = burn_n % n;
    for _ in 0..n {
        println!("{} {}", i, digest(&run_job(&jobs[i])));
        i = (i + stride) % n;
    }
}

fn main() {
    silence_panics();
    let args: Vec<String> = std::env::args().collect();
    if args.len() > 1 && args[1] == "child" {
        return child_main(&args);
    }
    let thorough = tier_is_thorough(&args);
    let seed = seed_from_env();
    let dir = out_dir(&args, "C07");
    let mut rng = Rng::new(seed);
    let mut st = Stats::new();
    let mut cw = CaseWriter::new(
        &dir,
        "From Coq Require Import ZArith List. Import ListNotations. Open Scope Z_scope.\nFrom FV Require Import Lib.Cases C05.Model C07.SharedPtsModel C07.PromoteModel.",
        "c07_case",
        "check_case7",
        if thorough { 120 } else { 60 },
    );

    let jobs = Arc::new(make_jobs(seed, thorough));
    let n = jobs.len();
    // (a) reference
    let reference: Arc<Vec<String>> = Arc::new(jobs.iter().map(|j| digest(&run_job(j))).collect());
    st.evaluations += n as u64;
    for (j, r) in jobs.iter().zip(reference.iter()) {
        let cls = job_name(j);
        let cls = if cls.starts_with("dag-") { "dag".to_string() } else { cls.split(':').next().unwrap().to_string() };
        st.count(&format!("jobs.{cls}"));
        if let Ok(b) = run_job(j) {
            if b.starts_with(b"ERR:") { st.count(&format!("jobs.{cls}.result_is_error")); }
            else if b == b"ABSENT" { st.count(&format!("jobs.{cls}.absent")); }
            else { st.count(&format!("jobs.{cls}.bytes")); }
        }
        if r.starts_with("PANIC") {
            st.count("jobs.reference_panics");
            let key = if r.contains("cycle or something") { "panic:cycle-or-something".to_string() } else { format!("panic:{}", job_name(j)) };
            st.oracle_failure(json!({"key": key, "job": job_name(j), "what": "compilation panics (no bytes)", "digest": r}));
        }
        st.nontrivial(&job_name(j));
    }
    for j in jobs.iter() {
        let (kind, t) = match j {
            Job::GvarTies(s) => ("gvarties", gvar_ties_glyphs(*s, 0).1),
            Job::GvarIup(s) => ("gvariup", gvar_iup_glyphs(*s, 0).1),
            _ => continue,
        };
        st.add(&format!("{kind}.glyphs_no_shared_candidate"), t[0] as u64);
        st.add(&format!("{kind}.glyphs_unique_best_point_set"), t[1] as u64);
        st.add(&format!("{kind}.glyphs_2way_tied_point_sets"), t[2] as u64);
        st.add(&format!("{kind}.glyphs_3way_tied_point_sets"), t[3] as u64);
    }
    let mut disagreements: BTreeMap<String, Vec<String>> = BTreeMap::new();
    let mut note = |name: String, how: String, dis: &mut BTreeMap<String, Vec<String>>| {
        dis.entry(name).or_default().push(how);
    };

    // (b) repeat after unrelated prior work
    let rounds = if thorough { 6 } else { 3 };
    for round in 0..rounds {
        let k = rng.below(40) as usize;
        burn(&mut rng, k);
        let mut idx: Vec<usize> = (0..n).collect();
        rng.shuffle(&mut idx);
        for i in idx {
            if rng.chance(1, 3) {
                let kk = 1 + rng.below(5) as usize;
                burn(&mut rng, kk);
            }
            let d = digest(&run_job(&jobs[i]));
            st.evaluations += 1;
            st.count("experiment.repeat_after_history");
            if d != reference[i] {
                note(job_name(&jobs[i]), format!("repeat round {round}: {} vs reference {}", d, reference[i]), &mut disagreements);
            }
        }
    }

    // (b2) hash-sensitive jobs (builders and packer paths that create hash containers per call: std RandomState
    //      differs per container instance): >= 32 repetitions each in this process
    for i in 0..n {
        if !hash_sensitive(&jobs[i]) {
            continue;
        }
        st.count("experiment.hash_sensitive_jobs");
        for rep in 0..32 {
            let d = digest(&run_job(&jobs[i]));
            st.evaluations += 1;
            st.count("experiment.repeat32");
            if d != reference[i] {
                note(job_name(&jobs[i]), format!("repetition {rep} in one process: {} vs reference {}", d, reference[i]), &mut disagreements);
                break;
            }
        }
    }

    // (c) threads with randomised start barriers
    for &t in &[1usize, 2, 3, 4, 8, 16] {
        let reps = if thorough { 4 } else { 2 };
        for rep in 0..reps {
            let barrier = Arc::new(Barrier::new(t));
            // half of the rounds: every thread compiles the SAME jobs; otherwise disjoint/different ones
            let same = rep % 2 == 0 || t == 1;
            let per_thread = if thorough { n } else { (n / 2).max(20).min(n) };
            let mut handles = vec![];
            for ti in 0..t {
                let jobs = jobs.clone();
                let reference = reference.clone();
                let barrier = barrier.clone();
                let mut trng = Rng::new(seed ^ ((t as u64) << 32) ^ ((rep as u64) << 16) ^ if same { 0 } else { ti as u64 + 1 });
                let jitter = rng.below(2000);
                handles.push(std::thread::spawn(move || {
                    let mut bad = vec![];
                    let mut count = 0u64;
                    barrier.wait();
                    // randomised start: spin a little
                    let mut x = 0u64;
                    for q in 0..jitter * 50 {
                        x = x.wrapping_add(q).rotate_left(3);
                    }
                    std::hint::black_box(x);
                    let mut idx: Vec<usize> = (0..jobs.len()).collect();
                    trng.shuffle(&mut idx);
                    for &i in idx.iter().take(per_thread) {
                        let d = digest(&run_job(&jobs[i]));
                        count += 1;
                        if d != reference[i] {
                            bad.push((i, d));
                        }
                    }
                    (bad, count)
                }));
            }
            for h in handles {
                let (bad, count) = h.join().unwrap();
                st.evaluations += count;
                st.add(&format!("experiment.threads_{t}"), count);
                for (i, d) in bad {
                    note(job_name(&jobs[i]), format!("{t} threads: {} vs reference {}", d, reference[i]), &mut disagreements);
                }
            }
        }
    }

    // (d) fresh child processes (different HashMap RandomState, different history)
    let exe = std::env::current_exe().unwrap();
    let children = if thorough { 6 } else { 3 };
    for c in 0..children {
        let burn_n = [0usize, 17, 250, 3, 1000, 64][c % 6];
        let stride = [1usize, 7, 11, 13, 17, 19][c % 6];
        let stride = if n % stride == 0 { 1 } else { stride };
        let out = std::process::Command::new(&exe)
            .args(["child", &seed.to_string(), if thorough { "1" } else { "0" }, &burn_n.to_string(), &stride.to_string()])
            .output()
            .expect("spawn child");
        let text = String::from_utf8_lossy(&out.stdout);
        let mut seen = 0;
        for line in text.lines() {
            let mut it = line.splitn(2, ' ');
            let i: usize = it.next().unwrap().parse().unwrap();
            let d = it.next().unwrap_or("");
            seen += 1;
            st.evaluations += 1;
            st.count("experiment.child_process");
            if d != reference[i] {
                note(job_name(&jobs[i]), format!("child process {c} (burn {burn_n}): {} vs reference {}", d, reference[i]), &mut disagreements);
            }
        }
        if seen != n {
            note("child".into(), format!("child process {c} reported {seen} of {n} jobs; status {:?}", out.status), &mut disagreements);
        }
    }

    // (e) NEAR-IDENTICAL prior work in the SAME REUSED BUFFER: font A is loaded into a Vec and processed, the very same
    //     Vec is overwritten in place with the same-length sibling B (same address, same length, a few content bytes
    //     differ) and processed, and back; then a dropped-and-reallocated buffer of the same size (the allocator usually
    //     hands the block out again). Every result must equal the reference of that (font, op) — which was also
    //     obtained in fresh child processes in (d). Run on this thread and on a fresh thread.
    {
        let index: std::collections::HashMap<String, usize> = jobs.iter().enumerate().map(|(i, j)| (job_name(j), i)).collect();
        let run_buffers = |jobs: &[Job], reference: &[String]| -> (Vec<(usize, String)>, u64, u64) {
            let mut bad = vec![];
            let (mut count, mut same_addr) = (0u64, 0u64);
            let mut check = |data: &[u8], fi: usize, kind: &'static str, sib: bool, how: &str| {
                let unicodes = buf_unicodes(fi, kind);
                for op in FONT_OPS {
                    let name = job_name(&Job::BufFont { fi, kind, sib, op });
                    let Some(&i) = index.get(&name) else { continue };
                    let d = digest(&catch(std::panic::AssertUnwindSafe(|| font_op(data, op, &unicodes))));
                    count += 1;
                    if d != reference[i] {
                        bad.push((i, format!("{how}: {d}")));
                    }
                }
            };
            for fi in 0..fonts().len() {
                for kind in SIB_KINDS {
                    let a = fonts()[fi].1;
                    let Some((b, _)) = sibling_font(a, kind) else { continue };
                    // one buffer, overwritten in place; both orders, each starting in its own buffer (the second one is
                    // allocated while the first is still alive, so it is a different block: whatever a cache keyed by
                    // address remembered about the first buffer does not apply to it)
                    let mut buf: Vec<u8> = a.to_vec();
                    for (step, sib) in [false, true, false, true, true, false].into_iter().enumerate() {
                        buf.copy_from_slice(if sib { &b } else { a });
                        check(&buf, fi, kind, sib, &format!("same buffer overwritten in place (A first), step {step} ({})", if sib { "B after A" } else { "A after B" }));
                    }
                    let mut buf2: Vec<u8> = b.clone();
                    for (step, sib) in [true, false, true, false, false, true].into_iter().enumerate() {
                        buf2.copy_from_slice(if sib { &b } else { a });
                        check(&buf2, fi, kind, sib, &format!("same buffer overwritten in place (B first), step {step} ({})", if sib { "B after A" } else { "A after B" }));
                    }
                    drop(buf2);
                    // dropped and reallocated blocks of the same size
                    let mut last_addr = buf.as_ptr() as usize;
                    drop(buf);
                    for (step, sib) in [true, false, true, false].into_iter().enumerate() {
                        let fresh: Vec<u8> = if sib { b.clone() } else { a.to_vec() };
                        if fresh.as_ptr() as usize == last_addr {
                            same_addr += 1;
                        }
                        last_addr = fresh.as_ptr() as usize;
                        check(&fresh, fi, kind, sib, &format!("reallocated buffer of the same size, step {step}"));
                        drop(fresh);
                    }
                }
            }
            // IFT client, same pattern
            let (fa, fb) = (ift_font(0), ift_font(1));
            if fa.len() == fb.len() {
                for order in [[0u8, 1, 0, 1, 1, 0], [1, 0, 1, 0, 0, 1]] {
                    let mut buf = fa.clone();
                    for (step, v) in order.into_iter().enumerate() {
                        buf.copy_from_slice(if v == 1 { &fb } else { &fa });
                        if let Some(&i) = index.get(&format!("ift:{v}")) {
                            let d = digest(&catch(std::panic::AssertUnwindSafe(|| ift_op(&buf))));
                            count += 1;
                            if d != reference[i] {
                                bad.push((i, format!("IFT base overwritten in place, step {step}: {d}")));
                            }
                        }
                    }
                }
            }
            let _ = jobs;
            (bad, count, same_addr)
        };
        let (mut bad, mut count, mut same_addr) = run_buffers(&jobs, &reference);
        // and on a fresh thread (its thread-locals start empty, its allocations come from another arena)
        let (bad2, count2, same2) = std::thread::scope(|sc| sc.spawn(|| run_buffers(&jobs, &reference)).join().unwrap());
        bad.extend(bad2);
        count += count2;
        same_addr += same2;
        st.evaluations += count;
        st.add("experiment.same_buffer_sibling", count);
        st.add("experiment.same_buffer_realloc_same_address", same_addr);
        for (i, how) in bad {
            note(job_name(&jobs[i]), format!("{how} vs reference {}", reference[i]), &mut disagreements);
        }
    }

    // (e2) the sibling of a job immediately before it on the same thread (and the reverse)
    {
        let index: std::collections::HashMap<String, usize> = jobs.iter().enumerate().map(|(i, j)| (job_name(j), i)).collect();
        for (si, j) in jobs.iter().enumerate() {
            let Job::Sib(inner) = j else { continue };
            let Some(&ii) = index.get(&job_name(inner)) else { continue };
            for (first, second) in [(si, ii), (ii, si), (si, ii)] {
                let _ = run_job(&jobs[first]);
                let d = digest(&run_job(&jobs[second]));
                st.evaluations += 2;
                st.count("experiment.sibling_immediately_before");
                if d != reference[second] {
                    note(job_name(&jobs[second]), format!("right after its sibling {}: {} vs reference {}", job_name(&jobs[first]), d, reference[second]), &mut disagreements);
                }
            }
        }
    }

    for (name, hows) in &disagreements {
        let class = name.split(':').next().unwrap_or("dag").to_string();
        st.oracle_failure(json!({"key": format!("nondeterministic:{}", if class.starts_with("dag-") { name.clone() } else { name.clone() }), "job": name, "disagreements": hows.iter().take(4).collect::<Vec<_>>(), "n": hows.len()}));
    }
    st.v.insert("jobs".into(), n.into());
    st.sample(json!({"jobs": n, "reference_sample": jobs.iter().zip(reference.iter()).rev().take(6).map(|(j, r)| format!("{} -> {}", job_name(j), r)).collect::<Vec<_>>()}));

    // shards: basic-path DAGs, real bytes obtained after random id burns; the model is evaluated with
    // three different id streams and must reproduce the real bytes each time
    let ncases = if thorough { 1500 } else { 340 };
    let mut seen = std::collections::HashSet::new();
    let mut base_guess: u64 = 1;
    for k in 0..ncases {
        let d = match k % 4 {
            0 => gen_straddle(&mut rng),
            1 => {
                let nn = 2 + rng.below(6) as usize;
                let (mix, lab) = (rng.below(3) as u32, rng.chance(3, 4));
                gen_random(&mut rng, nn, 0, mix, lab)
            }
            2 => {
                let nn = 2 + rng.below(5) as usize;
                let (mix, lab) = (rng.below(4) as u32, rng.chance(9, 10));
                gen_random(&mut rng, nn, 1, mix, lab)
            }
            _ => if k % 16 == 3 { gen_two_spaces(&mut rng) } else { gen_wide(&mut rng) },
        };
        if d.expansion() > 300 || (d.expansion_bytes() > 400_000 && k % 16 != 3) || d.misuse_width() {
            continue;
        }
        burn(&mut rng, (k % 5) as usize);
        let out = compile(&d);
        let out2 = compile(&d);
        st.evaluations += 2;
        if out != out2 {
            st.oracle_failure(json!({"key": format!("nondeterministic:{}", d.key()), "job": d.canon(), "what": "two consecutive compilations differ"}));
        }
        if seen.insert(d.canon()) {
            base_guess = base_guess.wrapping_mul(31).wrapping_add(k as u64) % 1_000_000;
            if let Some(t) = case_term(&d, base_guess, 1 + (k as u64 % 3), &out) {
                cw.push(format!("CDag {t}"));
            }
        }
    }

    // promotion choice under ties: generated overflowing GSUB/GPOS tables (own stream); compiled twice after id
    // burns (implementation-only oracle: identical bytes), the set of extension lookups read back from the real
    // bytes must be the one the model of get_promotable_subtables + select_promotions_hb predicts
    let mut prng = Rng::new(seed ^ 0x70726f6d6f32);
    for k in 0..(if thorough { 160 } else { 40 }) {
        let spec = gen_promo(&mut prng);
        burn(&mut rng, (k % 4) as usize);
        let a = catch(std::panic::AssertUnwindSafe(|| spec.compile()));
        burn(&mut rng, 1 + (k % 3) as usize);
        let b = catch(std::panic::AssertUnwindSafe(|| spec.compile()));
        st.evaluations += 2;
        st.count(&format!("promo.pattern_{}", spec.pattern));
        st.count(if spec.gpos { "promo.gpos" } else { "promo.gsub" });
        if a != b {
            st.oracle_failure(json!({"key": format!("nondeterministic:{}", spec.name()), "job": format!("{spec:?}"), "what": "two consecutive compilations differ",
                "promoted": [a.as_ref().ok().and_then(|x| spec.promoted(x)), b.as_ref().ok().and_then(|x| spec.promoted(x))]}));
        }
        match &a {
            Ok(bytes) if !bytes.starts_with(b"ERR:") => match promo_case(&spec, bytes) {
                Some((t, tie_cut)) => {
                    st.count("promo.model_cases");
                    if tie_cut {
                        st.count("promo.cutoff_inside_tied_group");
                    }
                    let np = spec.promoted(bytes).map(|p| p.iter().filter(|x| **x).count()).unwrap_or(0);
                    st.count(if np == 0 { "promo.none_promoted" } else if np == spec.lookups.len() { "promo.all_promoted" } else { "promo.some_promoted" });
                    st.nontrivial(&spec.name());
                    cw.push(t);
                }
                None => st.count("promo.unreadable"),
            },
            Ok(_) => st.count("promo.packing_failed"),
            Err(p) => {
                st.count("promo.panic");
                st.oracle_failure(json!({"key": format!("panic:{}", spec.name()), "job": format!("{spec:?}"), "what": "compilation panics", "panic": p}));
            }
        }
    }

    // gvar shared point numbers: every glyph of the gvar jobs' reference output is a model case (the model of
    // compute_shared_points must pick the shared set found in the real bytes)
    for j in jobs.iter() {
        let bytes = match j {
            Job::Gvar(_) | Job::GvarTies(_) | Job::GvarIup(_) => match run_job(j) {
                Ok(b) if !b.starts_with(b"ERR:") => b,
                _ => continue,
            },
            _ => continue,
        };
        st.evaluations += 1;
        match gvar_shared_cases(&bytes) {
            Some(cases) => {
                for (term, distinct, has_shared) in cases {
                    st.count("sharedpts.model_cases");
                    st.count(if has_shared { "sharedpts.glyph_has_shared_points" } else { "sharedpts.glyph_without_shared_points" });
                    st.count(&format!("sharedpts.distinct_packings_{}", distinct.min(4)));
                    cw.push(term);
                }
            }
            None => {
                st.count("sharedpts.unparsable");
                st.oracle_failure(json!({"key": format!("gvar-unparsable:{}", job_name(j)), "job": job_name(j), "what": "compiled gvar table cannot be walked (glyph variation data / packed point numbers)"}));
            }
        }
    }

    let shards = cw.finish();
    st.v.insert("shards".into(), shards.into());
    st.v.insert("model_cases".into(), cw.len().into());
    st.write(&dir, "jobs = generated object DAGs (incl. space assignment/duplication path), real GPOS/GSUB/GDEF/gvar/name/cmap/HVAR/fvar tables of 5 test fonts, synthetic GPOS forcing splitting/promotion, overflowing GSUB/GPOS with equal-score lookups (promotion cut-off inside a tie; promoted set also predicted by the Coq model of select_promotions_hb), variable GPOS through the public builders sharing one VariationStoreBuilder (heterogeneous regions per value), gvar with 2-/3-way tied private point sets (explicit and IUP-derived; shared point numbers read back from the bytes and predicted by the Coq model of compute_shared_points), VariationStoreBuilder, FontBuilder::build, klippa::subset_font, sibling jobs (same shapes, different values) and same-length sibling fonts processed from one reused buffer overwritten in place / reallocated (klippa subset, FontBuilder, table conversion, IFT table-keyed patch); each compiled as reference, after random unrelated compilations, on 1/2/3/4/8/16 threads with randomised start, and in fresh child processes; non-trivial = distinct job");
    println!("jobs={} cases={} shards={} oracle_failures={} disagreements={}", n, cw.len(), shards, st.oracle_failures.len(), disagreements.len());
}
