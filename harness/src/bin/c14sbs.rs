//! C14 (codec half) harness: the sparse-bit-set encoder and decoder of read-fonts
//! (collections/int_set/{sparse_bit_set,input_bit_stream,output_bit_stream}.rs) run on generated
//! sets (all four branch factors + the automatic choice) and on arbitrary / mutated byte strings
//! with (bias, max) pairs.  Every observation is recorded as a Coq term for coq/C14/SbsModel.v
//! (`check_case`); the implementation-only oracle checks the round trip, the absence of panics and
//! agreement with a Rust transcription of the IFT specification's decoding algorithm.
use read_fonts::collections::int_set::sparse_bit_set::to_sparse_bit_set_with_bf;
use read_fonts::collections::IntSet;
use serde_json::json;
use std::collections::VecDeque;
use vh::*;

type Ranges = Vec<(u64, u64)>;

fn set_from_ranges(rs: &Ranges) -> IntSet<u32> {
    let mut s = IntSet::<u32>::empty();
    for (a, b) in rs {
        s.insert_range(*a as u32..=*b as u32);
    }
    s
}
fn ranges_of(s: &IntSet<u32>) -> Ranges {
    s.iter_ranges().map(|r| (*r.start() as u64, *r.end() as u64)).collect()
}
fn canon(mut rs: Ranges) -> Ranges {
    rs.retain(|r| r.0 <= r.1);
    rs.sort();
    let mut out: Ranges = vec![];
    for (a, b) in rs {
        match out.last_mut() {
            Some(l) if a <= l.1 + 1 => l.1 = l.1.max(b),
            _ => out.push((a, b)),
        }
    }
    out
}
fn cranges(rs: &Ranges) -> String {
    clist(rs.iter(), |r| format!("({}, {})", r.0, r.1))
}
fn count(rs: &Ranges) -> u64 {
    rs.iter().map(|r| r.1 - r.0 + 1).sum()
}

#[derive(Debug, Clone, PartialEq)]
enum Dec {
    Ok(Ranges, Vec<u8>),
    Err,
    Panic(String),
}

fn real_decode(data: &[u8], bias: u32, max: u32) -> Dec {
    let d = data.to_vec();
    match catch(move || {
        IntSet::<u32>::from_sparse_bit_set_bounded(&d, bias, max).map(|(s, rest)| (ranges_of(&s), rest.to_vec()))
    }) {
        Ok(Ok((r, rest))) => Dec::Ok(r, rest),
        Ok(Err(_)) => Dec::Err,
        Err(p) => Dec::Panic(p),
    }
}

fn real_encode(bf: u8, rs: &Ranges) -> Result<Vec<u8>, String> {
    let set = set_from_ranges(rs);
    catch(move || match bf {
        0 => set.to_sparse_bit_set(),
        2 => to_sparse_bit_set_with_bf::<2>(&set),
        4 => to_sparse_bit_set_with_bf::<4>(&set),
        8 => to_sparse_bit_set_with_bf::<8>(&set),
        32 => to_sparse_bit_set_with_bf::<32>(&set),
        _ => unreachable!(),
    })
}

/// The IFT specification's decoding algorithm, transcribed from the specification text (bit string,
/// FIFO of (start, depth) tuples).  Returns (member ranges unclipped, bytes consumed incl. header,
/// #filled nodes, #nodes) or None for an invalid encoding.
struct SpecOut {
    ranges: Vec<(u128, u128)>,
    consumed: usize,
    filled: u64,
    nodes: u64,
}
fn spec_decode(data: &[u8]) -> Option<SpecOut> {
    let (o, valid) = spec_decode_partial(data);
    valid.then_some(o)
}
/// (what was decoded before the algorithm stopped, whether it ended without error)
fn spec_decode_partial(data: &[u8]) -> (SpecOut, bool) {
    let Some(&header) = data.first() else {
        return (SpecOut { ranges: vec![], consumed: 0, filled: 0, nodes: 0 }, false);
    };
    let b: u128 = [2u128, 4, 8, 32][(header & 3) as usize];
    let h = ((header >> 2) & 31) as u32;
    let mut out = SpecOut { ranges: vec![], consumed: 1, filled: 0, nodes: 0 };
    if h == 0 {
        return (out, true);
    }
    let mut bits: VecDeque<bool> = VecDeque::new();
    for byte in &data[1..] {
        for k in 0..8 {
            bits.push_back((byte >> k) & 1 == 1);
        }
    }
    let total_bits = bits.len();
    let mut q: VecDeque<(u128, u32)> = VecDeque::new();
    q.push_back((0, 1));
    while let Some((start, depth)) = q.pop_front() {
        if (bits.len() as u128) < b {
            return (out, false);
        }
        let v: Vec<bool> = (0..b).map(|_| bits.pop_front().unwrap()).collect();
        out.nodes += 1;
        if v.iter().all(|x| !*x) {
            out.filled += 1;
            out.ranges.push((start, start.saturating_add(spow(b, h - depth + 1) - 1)));
            continue;
        }
        for (i, vi) in v.iter().enumerate() {
            if *vi {
                if depth == h {
                    out.ranges.push((start.saturating_add(i as u128), start.saturating_add(i as u128)));
                } else {
                    q.push_back((start.saturating_add((i as u128).saturating_mul(spow(b, h - depth))), depth + 1));
                }
            }
        }
    }
    let used = total_bits - bits.len();
    out.consumed = 1 + (used + 7) / 8;
    (out, true)
}
/// b^e, saturating (only reachable for heights the implementation does not support)
fn spow(b: u128, e: u32) -> u128 {
    b.checked_pow(e).unwrap_or(u128::MAX / 4)
}
fn spec_clip(rs: &[(u128, u128)], bias: u32, max: u32) -> Ranges {
    let mut out = vec![];
    for (a, b) in rs {
        let lo = a.saturating_add(bias as u128);
        let hi = b.saturating_add(bias as u128).min(max as u128);
        if lo <= hi {
            out.push((lo as u64, hi as u64));
        }
    }
    canon(out)
}
fn max_height(header: u8) -> u8 {
    [31, 16, 11, 7][(header & 3) as usize]
}

struct Ctx {
    st: Stats,
    cw: CaseWriter,
    big: bool, // current case too large for the Coq shards (implementation-only)
}

impl Ctx {
    /// One decoder observation: real decoder, Coq case, oracle against the spec transcription.
    fn dec_case(&mut self, data: &[u8], bias: u32, mut max: u32, tag: &str) -> Dec {
        let spec = spec_decode(data);
        let supported = data.first().map(|h| ((h >> 2) & 31) <= max_height(*h)).unwrap_or(true);
        // keep the real BitSet small: a filled node near the root would allocate 2^23 pages
        if supported {
            if count(&spec_clip(&spec_decode_partial(data).0.ranges, bias, max)) > (1 << 21) {
                max = max.min(bias.saturating_add(1 << 19));
                self.st.count("dec.max_clamped_for_memory");
            }
        }
        let res = real_decode(data, bias, max);
        self.st.evaluations += 1;
        self.st.count(&format!("dec.{}", tag));
        let key = format!("dec {:?} bias={} max={}", data, bias, max);
        match &res {
            Dec::Panic(p) => {
                self.st.count("dec.result.panic");
                self.st.oracle_failure(json!({"key": key, "what": "decoder panicked", "panic": p}));
            }
            Dec::Err => {
                self.st.count("dec.result.err");
                if supported && spec.is_some() {
                    self.st.oracle_failure(json!({"key": key, "what": "decoder rejects an encoding the specification's algorithm accepts"}));
                }
                if !supported {
                    self.st.count("dec.height_unsupported");
                }
            }
            Dec::Ok(rs, rest) => {
                self.st.count("dec.result.ok");
                match &spec {
                    None => self.st.oracle_failure(json!({"key": key, "what": "decoder accepts an encoding the specification's algorithm rejects"})),
                    Some(s) => {
                        let exp = spec_clip(&s.ranges, bias, max);
                        if &exp != rs {
                            self.st.oracle_failure(json!({"key": key, "what": "members differ from the specification's algorithm", "impl": format!("{:?}", rs), "spec": format!("{:?}", exp)}));
                        }
                        if data.len() - rest.len() != s.consumed || rest[..] != data[s.consumed..] {
                            self.st.oracle_failure(json!({"key": key, "what": "unread remainder differs from the specification's algorithm", "impl_rest_len": rest.len(), "spec_consumed": s.consumed}));
                        }
                        if s.filled > 0 {
                            self.st.count("dec.has_filled_node");
                        }
                        if count(&canon(s.ranges.iter().map(|r| (r.0.min(u64::MAX as u128) as u64, r.1.min(u64::MAX as u128) as u64)).collect())) != count(&exp) {
                            self.st.count("dec.some_member_clipped");
                        }
                        if !rest.is_empty() {
                            self.st.count("dec.nonempty_remainder");
                        }
                        if !rs.is_empty() {
                            self.st.nontrivial(&key);
                        }
                    }
                }
            }
        }
        if !self.big && data.len() <= 400 {
            let (cls, rs, rest) = match &res {
                Dec::Ok(r, rest) => (0, r.clone(), rest.clone()),
                Dec::Err => (1, vec![], vec![]),
                Dec::Panic(_) => (2, vec![], vec![]),
            };
            if rs.len() <= 600 {
                self.cw.push(format!("CDec {} {} {} {} {} {}", cbytes(data), bias, max, cls, cranges(&rs), cbytes(&rest)));
            }
        }
        self.st.sample(json!({"data": data, "bias": bias, "max": max, "impl": format!("{:?}", res).chars().take(200).collect::<String>()}));
        res
    }

    /// One encoder observation + round trip through the real decoder.
    fn enc_case(&mut self, bf: u8, rs: &Ranges, rng: &mut Rng, tag: &str) -> Option<Vec<u8>> {
        let res = real_encode(bf, rs);
        self.st.evaluations += 1;
        self.st.count(&format!("enc.bf{}.{}", bf, tag));
        let key = format!("enc bf={} set={:?}", bf, rs);
        let n = count(rs);
        if !self.big && n <= 300 {
            match &res {
                Ok(b) => self.cw.push(format!("CEnc {} {} false {}", bf, cranges(rs), cbytes(b))),
                Err(_) => self.cw.push(format!("CEnc {} {} true []", bf, cranges(rs))),
            };
        }
        let bytes = match res {
            Err(p) => {
                self.st.oracle_failure(json!({"key": key, "what": "encoder panicked", "panic": p}));
                return None;
            }
            Ok(b) => b,
        };
        // round trip (the property's first clause), directly on the implementation
        match real_decode(&bytes, 0, u32::MAX) {
            Dec::Ok(back, rest) => {
                if &back != rs || !rest.is_empty() {
                    self.st.oracle_failure(json!({"key": key, "what": "decode(encode(S)) != (S, [])", "bytes": bytes, "back": format!("{:?}", back).chars().take(300).collect::<String>(), "rest": rest}));
                }
            }
            other => self.st.oracle_failure(json!({"key": key, "what": "decode(encode(S)) fails", "bytes": bytes, "impl": format!("{:?}", other)})),
        }
        if n > 1 {
            self.st.nontrivial(&key);
        }
        let hdr = bytes[0];
        self.st.count(&format!("enc.out_bf{}", [2, 4, 8, 32][(hdr & 3) as usize]));
        if bf == 2 && hdr & 3 == 1 {
            self.st.count("enc.bf2_upgraded_to_4");
        }
        // the same bytes through the recorded decoder path, with trailing data and bias/max pairs
        self.dec_case(&bytes, 0, u32::MAX, "encoded");
        if rng.chance(1, 2) {
            let mut with_tail = bytes.clone();
            let nt = rng.range(1, 5) as usize;
            with_tail.extend(rng.bytes(nt));
            let (bias, max) = bias_max(rng, rs);
            self.dec_case(&with_tail, bias, max, "encoded_tail_bias_max");
        }
        Some(bytes)
    }
}

/// (bias, max) pairs: extremes, and boundaries around members of the set (early termination)
fn bias_max(rng: &mut Rng, members: &Ranges) -> (u32, u32) {
    let m = if members.is_empty() {
        rng.next_u32() as u64
    } else {
        let r = members[rng.below(members.len() as u64) as usize];
        if rng.chance(1, 2) { r.0 } else { r.1 }
    };
    let bias: u32 = match rng.below(8) {
        0 | 1 | 2 => 0,
        3 => 1,
        4 => rng.below(1000) as u32,
        5 => 1 << 31,
        6 => u32::MAX - rng.below(3) as u32,
        _ => rng.next_u32(),
    };
    let t = m + bias as u64;
    let max: u32 = match rng.below(10) {
        0 => u32::MAX,
        1 => 0,
        2 => bias,
        3 => bias.wrapping_sub(1),
        4 => t.min(u32::MAX as u64) as u32,
        5 => t.saturating_sub(1).min(u32::MAX as u64) as u32,
        6 => (t + 1).min(u32::MAX as u64) as u32,
        7 => rng.next_u32(),
        8 => (t + rng.below(70)).min(u32::MAX as u64) as u32,
        _ => u32::MAX - rng.below(2) as u32,
    };
    (bias, max)
}

fn pow(b: u64, e: u32) -> u64 {
    b.pow(e)
}

/// Structured sets as canonical range lists.
fn gen_set(rng: &mut Rng, limit_members: u64) -> (Ranges, &'static str) {
    let kind = rng.below(7);
    let scale: u64 = *rng.pick(&[16u64, 64, 300, 1024, 70_000, 1 << 24, 1 << 31, 1 << 32]);
    let mut rs: Ranges = vec![];
    let tag;
    match kind {
        0 => {
            tag = "sparse";
            for _ in 0..rng.range(1, 40) {
                let v = rng.below(scale);
                rs.push((v, v));
            }
        }
        1 => {
            tag = "dense_runs";
            let mut budget = limit_members;
            for _ in 0..rng.range(1, 6) {
                let len = rng.range(1, 90).min(budget as i64).max(1) as u64;
                budget = budget.saturating_sub(len);
                let a = rng.below(scale);
                let b = (a + len - 1).min(u32::MAX as u64);
                rs.push((a, b));
            }
        }
        2 | 3 => {
            tag = "filled_subtrees";
            // aligned completely filled subtrees for some branch factor, plus stragglers
            let bf = *rng.pick(&[2u64, 4, 8, 32]);
            let mut budget = limit_members;
            for _ in 0..rng.range(1, 4) {
                let mut lvl = rng.range(1, 5) as u32;
                while lvl > 1 && pow(bf, lvl) > budget.max(bf) {
                    lvl -= 1;
                }
                let size = pow(bf, lvl);
                budget = budget.saturating_sub(size);
                let slots = (1u64 << 32) / size;
                let k = if rng.chance(1, 4) { slots - 1 } else if rng.chance(1, 3) { 0 } else { rng.below(slots.min(scale.max(size) / size + 1)) };
                rs.push((k * size, (k + 1) * size - 1));
            }
            for _ in 0..rng.below(4) {
                let v = rng.below(scale);
                rs.push((v, v));
            }
        }
        4 => {
            tag = "extremes";
            for v in [0u64, 1, u32::MAX as u64, u32::MAX as u64 - 1, 1 << 31, (1 << 31) - 1] {
                if rng.chance(1, 3) {
                    rs.push((v, v));
                }
            }
            if rs.is_empty() {
                rs.push((u32::MAX as u64, u32::MAX as u64));
            }
        }
        5 => {
            tag = "near_power";
            // values around powers of the branch factors (tree height boundaries)
            for _ in 0..rng.range(1, 4) {
                let bf = *rng.pick(&[2u64, 4, 8, 32]);
                let e = rng.range(1, 32) as u32;
                let p = (bf as u128).checked_pow(e).unwrap_or(1u128 << 32).min(1u128 << 32) as i128;
                let v = (p + rng.range(-2, 1) as i128).clamp(0, u32::MAX as i128) as u64;
                rs.push((v, v));
            }
        }
        _ => {
            tag = "almost_filled";
            // a filled subtree with one hole
            let bf = *rng.pick(&[2u64, 4, 8, 32]);
            let lvl = if bf == 32 { rng.range(1, 2) } else { rng.range(1, 4) } as u32;
            let size = pow(bf, lvl);
            let k = rng.below(((1u64 << 32) / size).min(scale / size + 1));
            let hole = k * size + rng.below(size);
            if hole > k * size {
                rs.push((k * size, hole - 1));
            }
            if hole < (k + 1) * size - 1 {
                rs.push((hole + 1, (k + 1) * size - 1));
            }
        }
    }
    (canon(rs), tag)
}

fn gen_bytes(rng: &mut Rng) -> Vec<u8> {
    let bfc = rng.below(4) as u8;
    let maxh = [31u8, 16, 11, 7][bfc as usize];
    let h: u8 = match rng.below(10) {
        0 => 0,
        1 | 2 | 3 => rng.range(1, 3) as u8,
        4 | 5 => rng.range(1, maxh as i64) as u8,
        6 => maxh,
        7 => (maxh + 1).min(31),
        8 => rng.below(32) as u8,
        _ => rng.range(1, 5) as u8,
    };
    let mut v = vec![bfc | (h << 2) | if rng.chance(1, 10) { 0x80 } else { 0 }];
    let n = match rng.below(6) {
        0 => rng.below(4),
        1 | 2 => rng.below(12),
        _ => rng.below(48),
    } as usize;
    let style = rng.below(4);
    for _ in 0..n {
        let b = match style {
            0 => rng.next_u64() as u8,
            1 => (rng.next_u64() & rng.next_u64() & rng.next_u64()) as u8, // sparse bits
            2 => if rng.chance(1, 3) { 0 } else { rng.next_u64() as u8 }, // zero bytes: filled nodes
            _ => (rng.next_u64() | rng.next_u64()) as u8,                  // dense bits
        };
        v.push(b);
    }
    v
}

fn mutate(rng: &mut Rng, bytes: &[u8]) -> Vec<u8> {
    let mut v = bytes.to_vec();
    match rng.below(7) {
        0 => {
            let n = rng.below(v.len() as u64 + 1) as usize;
            v.truncate(n);
        }
        1 => {
            let nt = rng.range(1, 6) as usize;
            v.extend(rng.bytes(nt))
        }
        2 if !v.is_empty() => {
            let i = rng.below(v.len() as u64) as usize;
            v[i] ^= 1 << rng.below(8);
        }
        3 if v.len() > 1 => {
            let i = 1 + rng.below(v.len() as u64 - 1) as usize;
            v[i] = 0;
        }
        4 if !v.is_empty() => {
            let h = (v[0] >> 2) & 31;
            let nh = if rng.chance(1, 2) { h.saturating_sub(1) } else { (h + 1).min(31) };
            v[0] = (v[0] & 0x83) | (nh << 2);
        }
        5 if !v.is_empty() => v[0] = (v[0] & !3) | rng.below(4) as u8,
        _ if v.len() > 1 => {
            let i = 1 + rng.below(v.len() as u64 - 1) as usize;
            let m = if rng.chance(1, 2) { 0x0f } else { 0xf0 };
            v[i] &= m;
        }
        _ => v.push(0),
    }
    v
}

fn main() {
    if std::env::var("C14S_DEBUG").is_err() { silence_panics(); }
    let args: Vec<String> = std::env::args().collect();
    let thorough = tier_is_thorough(&args);
    let seed = seed_from_env();
    let dir = out_dir(&args, "C14S");
    let mut rng = Rng::new(seed);
    let cw = CaseWriter::new(
        &dir,
        "From Coq Require Import ZArith List. Import ListNotations. Open Scope Z_scope.\nFrom FV Require Import Lib.Cases C14.SbsModel.",
        "case",
        "check_case",
        400,
    );
    let mut cx = Ctx { st: Stats::new(), cw, big: false };

    // ---- fixed corner cases ----
    let fixed_sets: Vec<Ranges> = vec![
        vec![],
        vec![(0, 0)],
        vec![(u32::MAX as u64, u32::MAX as u64)],
        vec![(0, 0), (u32::MAX as u64, u32::MAX as u64)],
        vec![(0, 1)],
        vec![(0, 3)],
        vec![(0, 7)],
        vec![(0, 31)],
        vec![(0, 1023)],
        vec![(0, 255)],
        vec![(256, 511), (4096, 4159)],
        vec![(u32::MAX as u64 - 31, u32::MAX as u64)],
        vec![(u32::MAX as u64 - 1023, u32::MAX as u64)],
        vec![((1 << 31) - 1, 1 << 31)],
        vec![(2, 2), (33, 33), (323, 323)],
        vec![(0, 17)],
        vec![(1, 1), (3, 3), (5, 5), (7, 7)],
    ];
    for rs in &fixed_sets {
        for bf in [2u8, 4, 8, 32, 0] {
            cx.enc_case(bf, rs, &mut rng, "fixed");
        }
    }
    for d in [
        vec![],
        vec![0u8],
        vec![0x80],
        vec![0b0000_1101, 0b0000_0011, 0b0011_0001],
        vec![0b0000_1110, 0b0010_0001, 0b0001_0001, 0b0000_0001, 0b0000_0100, 0b0000_0010, 0b0000_1000],
        vec![0b0100_0001, 0],          // BF4 H16 root filled (whole u32 range)
        vec![0b0010_1110, 0],          // BF8 H11 root filled (2^33 values)
        vec![0b0001_1111, 0, 0, 0, 0], // BF32 H7 root filled (2^35 values)
        vec![0b0111_1100, 0],          // BF2 H31 root filled
        vec![0b0001_1111, 0, 0, 0],    // BF32 truncated node
        vec![0b0010_0011],             // BF32 H8 unsupported
    ] {
        for (bias, max) in [(0u32, u32::MAX), (0, 0), (5, 4), (u32::MAX, u32::MAX), (1 << 31, u32::MAX), (7, 1000), (0, 1 << 20)] {
            cx.dec_case(&d, bias, max, "fixed");
        }
    }

    // ---- generated sets through the encoder (all BFs + auto), then the decoder ----
    let n_sets = if thorough { 4000 } else { 330 };
    let mut encoded: Vec<(Vec<u8>, Ranges)> = vec![];
    for _ in 0..n_sets {
        let lim = if rng.chance(1, 6) { 1024 } else { 280 };
        let (rs, tag) = gen_set(&mut rng, lim);
        for bf in [2u8, 4, 8, 32, 0] {
            if let Some(b) = cx.enc_case(bf, &rs, &mut rng, tag) {
                if b.len() <= 300 {
                    encoded.push((b, rs.clone()));
                }
            }
        }
    }

    // ---- arbitrary byte strings x (bias, max) ----
    let n_arb = if thorough { 30_000 } else { 1500 };
    for _ in 0..n_arb {
        let d = gen_bytes(&mut rng);
        let first = cx.dec_case(&d, 0, u32::MAX, "arbitrary");
        let members = if let Dec::Ok(r, _) = &first { r.clone() } else { vec![] };
        for _ in 0..2 {
            let (bias, max) = bias_max(&mut rng, &members);
            cx.dec_case(&d, bias, max, "arbitrary_bias_max");
        }
    }

    // ---- mutated valid encodings ----
    let n_mut = if thorough { 30_000 } else { 1200 };
    for _ in 0..n_mut {
        if encoded.is_empty() {
            break;
        }
        let (b, rs) = rng.pick(&encoded).clone();
        let mut d = mutate(&mut rng, &b);
        if rng.chance(1, 4) {
            d = mutate(&mut rng, &d);
        }
        let (bias, max) = if rng.chance(1, 3) { (0, u32::MAX) } else { bias_max(&mut rng, &rs) };
        cx.dec_case(&d, bias, max, "mutated");
    }

    // ---- implementation-only: larger sets (too big for the Coq shards) ----
    cx.big = true;
    let n_big = if thorough { 400 } else { 40 };
    for _ in 0..n_big {
        let (mut rs, tag) = gen_set(&mut rng, 1 << 16);
        // add a long sparse tail
        for _ in 0..rng.below(3000) {
            let v = rng.below(1 << 20);
            rs.push((v, v));
        }
        let rs = canon(rs);
        for bf in [2u8, 4, 8, 32, 0] {
            cx.enc_case(bf, &rs, &mut rng, tag);
        }
    }
    for _ in 0..(if thorough { 3000 } else { 200 }) {
        let mut d = gen_bytes(&mut rng);
        let nt = rng.below(2000) as usize;
        d.extend(rng.bytes(nt));
        let (bias, max) = bias_max(&mut rng, &vec![]);
        cx.dec_case(&d, bias, max, "arbitrary_long");
    }

    let shards = cx.cw.finish();
    cx.st.v.insert("shards".into(), shards.into());
    cx.st.v.insert("model_cases".into(), cx.cw.len().into());
    cx.st.write(&dir, "sets: sparse / dense runs / aligned completely filled subtrees (all BFs) / extremes 0 and 2^32-1 / values around BF^k / filled subtree with a hole, each through to_sparse_bit_set_with_bf::<2|4|8|32> and to_sparse_bit_set then the decoder; byte strings: random with structured headers (all BFs, heights 0..31 incl. unsupported, reserved bit), zero-byte rich (filled nodes), and mutated valid encodings (truncate, append, bit flip, zeroed byte, header height/BF change), each with (bias, max) pairs at extremes and at +-1 around decoded members; non-trivial = non-empty decoded set / set with > 1 member (distinct by input)");
    println!("cases={} shards={} oracle_failures={}", cx.cw.len(), shards, cx.st.oracle_failures.len());
}
