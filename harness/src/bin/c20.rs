//! C20 harness — "no arithmetic overflow or debug-assertion failure is reachable from font data".
//!
//! (a) correspondence: every kernel modelled in coq/C20/Model.v is run on boundary-dense + random
//!     operands through the verification hooks / public API; "panicked" vs the value is compared
//!     with the model's None / Some by coqc.
//! (b) strict-profile search (implementation only): synthetic TrueType fonts whose fpgm / prep /
//!     glyph programs push extreme operands into every arithmetic / rounding / delta / move
//!     instruction, drawn hinted at several ppem; value-extreme field mutations of the font-test-data
//!     fonts followed by the skrifa draw / metrics / paint APIs, klippa Plan+subset and IFT selection.
//!     Panic payloads are classified; only overflow / negate / shift / assertion payloads are C20
//!     oracle failures, keyed by the source site taken from `PanicInfo::location()`.
//! (c) a lexical census of arithmetic expressions in the anchored files (coverage gap as a number).
use font_types::{F26Dot6, F2Dot14, Fixed};
use read_fonts::{FontData, FontRead, FontRef, TableProvider};
use serde_json::json;
use skrifa::instance::{LocationRef, Size};
use skrifa::outline::{DrawSettings, Engine, HintingInstance, HintingOptions, OutlinePen, SmoothMode, Target};
use skrifa::{GlyphId, MetadataProvider};
use std::cell::RefCell;
use std::collections::BTreeMap;
use vh::*;

// ------------------------------------------------------------------------------------------------
// panic capture with source location
// ------------------------------------------------------------------------------------------------
thread_local! {
    static LAST_LOC: RefCell<Option<String>> = const { RefCell::new(None) };
}

fn install_hook() {
    std::panic::set_hook(Box::new(|info| {
        let loc = info.location().map(|l| {
            let f = l.file();
            // /repo/... or a private mutate copy .../repo/...
            let f = match f.find("/repo/") {
                Some(i) => &f[i + 6..],
                None => f,
            };
            // std locations: keep only the tail below library/
            let f = match f.find("/library/") {
                Some(i) => &f[i + 1..],
                None => f,
            };
            let mut loc = format!("{}:{}", f, l.line());
            if f.starts_with("library/") {
                // a std function with inherited overflow checks (abs, pow, ...): name the first caller frame that
                // belongs to the code under test (symbols only: the harness is built without debug info)
                let bt = std::backtrace::Backtrace::force_capture().to_string();
                for line in bt.lines() {
                    let t = line.trim();
                    let name = t.split_once(": ").map(|x| x.1).unwrap_or(t);
                    if ["skrifa::", "read_fonts::", "font_types::", "klippa::", "incremental_font_transfer::", "write_fonts::"].iter().any(|c| name.starts_with(c)) {
                        // drop the hash suffix
                        let name = name.rsplit_once("::h").map(|x| x.0).unwrap_or(name);
                        loc = format!("{} in {}", loc, name);
                        break;
                    }
                }
            }
            loc
        });
        LAST_LOC.with(|c| *c.borrow_mut() = loc);
    }));
}

#[derive(Clone, Debug)]
struct Trap {
    msg: String,
    loc: String,
}

fn catch_loc<T>(f: impl FnOnce() -> T + std::panic::UnwindSafe) -> Result<T, Trap> {
    LAST_LOC.with(|c| *c.borrow_mut() = None);
    match catch(f) {
        Ok(v) => Ok(v),
        Err(msg) => {
            let loc = LAST_LOC.with(|c| c.borrow_mut().take()).unwrap_or_else(|| "?".into());
            Err(Trap { msg, loc })
        }
    }
}

#[derive(Clone, Copy, PartialEq, Eq, Debug)]
enum Kind {
    Overflow,
    Assert,
    Other,
}

fn classify(msg: &str) -> Kind {
    // arithmetic traps: overflow / negate / shift checks and the division checks (a zero divisor panics in
    // every profile; it is the same class of defect: arithmetic on a font-controlled quantity left unguarded)
    if msg.starts_with("attempt to") && (msg.contains("with overflow") || msg.contains("divide by zero") || msg.contains("divisor of zero")) {
        Kind::Overflow
    } else if msg.contains("assertion") || msg.contains("debug_assert") {
        Kind::Assert
    } else {
        Kind::Other
    }
}

// ------------------------------------------------------------------------------------------------
// tiny sfnt assembler (everything by hand so that any field can take any value)
// ------------------------------------------------------------------------------------------------
fn be16(v: &mut Vec<u8>, x: u16) {
    v.extend_from_slice(&x.to_be_bytes());
}
fn be32(v: &mut Vec<u8>, x: u32) {
    v.extend_from_slice(&x.to_be_bytes());
}
fn bei16(v: &mut Vec<u8>, x: i16) {
    v.extend_from_slice(&x.to_be_bytes());
}

fn sfnt(tables: &[(&[u8; 4], Vec<u8>)]) -> Vec<u8> {
    let mut tabs: Vec<(&[u8; 4], &Vec<u8>)> = tables.iter().map(|(t, d)| (*t, d)).collect();
    tabs.sort_by_key(|(t, _)| **t);
    let n = tabs.len() as u16;
    let mut out = vec![];
    be32(&mut out, 0x00010000);
    be16(&mut out, n);
    let mut sr = 1u16;
    let mut es = 0u16;
    while sr * 2 <= n {
        sr *= 2;
        es += 1;
    }
    be16(&mut out, sr * 16);
    be16(&mut out, es);
    be16(&mut out, n * 16 - sr * 16);
    let mut off = 12 + 16 * tabs.len();
    let mut body = vec![];
    for (t, d) in &tabs {
        out.extend_from_slice(*t);
        be32(&mut out, 0);
        be32(&mut out, off as u32);
        be32(&mut out, d.len() as u32);
        body.extend_from_slice(d);
        while body.len() % 4 != 0 {
            body.push(0);
        }
        off = 12 + 16 * tabs.len() + body.len();
    }
    out.extend_from_slice(&body);
    out
}

#[derive(Clone, Debug)]
struct TtSpec {
    upem: u16,
    /// glyph 0 (simple): points (x, y, on_curve) in one contour, and its program
    pts: Vec<(i16, i16)>,
    glyph_prog: Vec<u8>,
    /// glyph 1: composite of glyph 0 with a 2x2 transform + offsets and its own program
    comp_xform: [i16; 4],
    comp_off: (i16, i16),
    comp_prog: Vec<u8>,
    cvt: Vec<i16>,
    fpgm: Vec<u8>,
    prep: Vec<u8>,
    advance: u16,
    lsb: i16,
    max_twilight: u16,
    max_stack: u16,
    max_storage: u16,
    hhea_asc: i16,
    hhea_desc: i16,
}

impl Default for TtSpec {
    fn default() -> Self {
        TtSpec {
            upem: 1000,
            pts: vec![(0, 0), (500, 0), (500, 700), (0, 700)],
            glyph_prog: vec![],
            comp_xform: [0x4000, 0, 0, 0x4000],
            comp_off: (0, 0),
            comp_prog: vec![],
            cvt: vec![0, 100, -100, 700, 32767, -32768, 1, -1],
            fpgm: vec![],
            prep: vec![],
            advance: 600,
            lsb: 0,
            max_twilight: 8,
            max_stack: 64,
            max_storage: 8,
            hhea_asc: 800,
            hhea_desc: -200,
        }
    }
}

fn build_tt(s: &TtSpec) -> Vec<u8> {
    // glyf
    let mut g0 = vec![];
    if !s.pts.is_empty() {
        bei16(&mut g0, 1);
        let (mut x0, mut y0, mut x1, mut y1) = (i16::MAX, i16::MAX, i16::MIN, i16::MIN);
        for (x, y) in &s.pts {
            x0 = x0.min(*x);
            y0 = y0.min(*y);
            x1 = x1.max(*x);
            y1 = y1.max(*y);
        }
        for v in [x0, y0, x1, y1] {
            bei16(&mut g0, v);
        }
        be16(&mut g0, s.pts.len() as u16 - 1);
        be16(&mut g0, s.glyph_prog.len() as u16);
        g0.extend_from_slice(&s.glyph_prog);
        for _ in &s.pts {
            g0.push(0x01); // on curve, long x, long y
        }
        let mut px = 0i16;
        for (x, _) in &s.pts {
            bei16(&mut g0, x.wrapping_sub(px));
            px = *x;
        }
        let mut py = 0i16;
        for (_, y) in &s.pts {
            bei16(&mut g0, y.wrapping_sub(py));
            py = *y;
        }
        while g0.len() % 4 != 0 {
            g0.push(0);
        }
    }
    let mut g1 = vec![];
    bei16(&mut g1, -1);
    for v in [0i16, 0, 500, 700] {
        bei16(&mut g1, v);
    }
    // ARG_1_AND_2_ARE_WORDS | ARGS_ARE_XY_VALUES | WE_HAVE_A_TWO_BY_TWO | WE_HAVE_INSTRUCTIONS
    let flags: u16 = 0x0001 | 0x0002 | 0x0080 | if s.comp_prog.is_empty() { 0 } else { 0x0100 };
    be16(&mut g1, flags);
    be16(&mut g1, 0);
    bei16(&mut g1, s.comp_off.0);
    bei16(&mut g1, s.comp_off.1);
    for v in s.comp_xform {
        bei16(&mut g1, v);
    }
    if !s.comp_prog.is_empty() {
        be16(&mut g1, s.comp_prog.len() as u16);
        g1.extend_from_slice(&s.comp_prog);
    }
    while g1.len() % 4 != 0 {
        g1.push(0);
    }
    let mut loca = vec![];
    be32(&mut loca, 0);
    be32(&mut loca, g0.len() as u32);
    be32(&mut loca, (g0.len() + g1.len()) as u32);
    let mut glyf = g0;
    glyf.extend_from_slice(&g1);
    // head
    let mut head = vec![];
    be32(&mut head, 0x00010000);
    be32(&mut head, 0x00010000);
    be32(&mut head, 0);
    be32(&mut head, 0x5F0F3CF5);
    be16(&mut head, 0x000B);
    be16(&mut head, s.upem);
    head.extend_from_slice(&[0; 16]);
    for v in [0i16, 0, 500, 700] {
        bei16(&mut head, v);
    }
    be16(&mut head, 0);
    be16(&mut head, 6);
    bei16(&mut head, 2);
    bei16(&mut head, 1); // long loca
    bei16(&mut head, 0);
    // maxp 1.0
    let mut maxp = vec![];
    be32(&mut maxp, 0x00010000);
    be16(&mut maxp, 2);
    be16(&mut maxp, s.pts.len() as u16);
    be16(&mut maxp, 1);
    be16(&mut maxp, s.pts.len() as u16);
    be16(&mut maxp, 1);
    be16(&mut maxp, 2);
    be16(&mut maxp, s.max_twilight);
    be16(&mut maxp, s.max_storage);
    be16(&mut maxp, 8);
    be16(&mut maxp, 2);
    be16(&mut maxp, s.max_stack);
    be16(&mut maxp, 4096);
    be16(&mut maxp, 1);
    be16(&mut maxp, 1);
    // hhea
    let mut hhea = vec![];
    be32(&mut hhea, 0x00010000);
    bei16(&mut hhea, s.hhea_asc);
    bei16(&mut hhea, s.hhea_desc);
    bei16(&mut hhea, 0);
    be16(&mut hhea, s.advance);
    hhea.extend_from_slice(&[0; 22]);
    be16(&mut hhea, 2);
    let mut hmtx = vec![];
    for _ in 0..2 {
        be16(&mut hmtx, s.advance);
        bei16(&mut hmtx, s.lsb);
    }
    let mut cvt = vec![];
    for v in &s.cvt {
        bei16(&mut cvt, *v);
    }
    let mut tables: Vec<(&[u8; 4], Vec<u8>)> = vec![
        (b"head", head),
        (b"maxp", maxp),
        (b"hhea", hhea),
        (b"hmtx", hmtx),
        (b"loca", loca),
        (b"glyf", glyf),
    ];
    if !s.cvt.is_empty() {
        tables.push((b"cvt ", cvt));
    }
    if !s.fpgm.is_empty() {
        tables.push((b"fpgm", s.fpgm.clone()));
    }
    if !s.prep.is_empty() || s.fpgm.is_empty() {
        // keep a (possibly trivial) prep so that the interpreter is preferred
        let mut p = s.prep.clone();
        if p.is_empty() {
            p.push(0x4F); // DEBUG: no-op
        }
        tables.push((b"prep", p));
    }
    sfnt(&tables)
}

// ---- bytecode assembler ----
const MUL: u8 = 0x63;
const ADD: u8 = 0x60;
fn pushw(p: &mut Vec<u8>, v: i16) {
    p.push(0xB8);
    p.extend_from_slice(&v.to_be_bytes());
}
/// push an arbitrary i32 using only PUSHW, MUL (= a*b/64, exact here) and the wrapping ADD
fn push_any(p: &mut Vec<u8>, v: i32) {
    if v >= i16::MIN as i32 && v <= i16::MAX as i32 {
        pushw(p, v as i16);
        return;
    }
    let lo = v as i16;
    let hi = (v.wrapping_sub(lo as i32) >> 16) as i16;
    pushw(p, hi);
    pushw(p, 16384);
    pushw(p, 16384);
    p.push(MUL); // 2^28/64 = 2^22
    p.push(MUL); // hi * 2^22 / 64 = hi << 16
    if lo != 0 {
        pushw(p, lo);
        p.push(ADD);
    }
}

#[derive(Default)]
struct Pts(Vec<(f32, f32)>);
impl OutlinePen for Pts {
    fn move_to(&mut self, x: f32, y: f32) {
        self.0.push((x, y));
    }
    fn line_to(&mut self, x: f32, y: f32) {
        self.0.push((x, y));
    }
    fn quad_to(&mut self, a: f32, b: f32, x: f32, y: f32) {
        self.0.push((a, b));
        self.0.push((x, y));
    }
    fn curve_to(&mut self, a: f32, b: f32, c: f32, d: f32, x: f32, y: f32) {
        self.0.push((a, b));
        self.0.push((c, d));
        self.0.push((x, y));
    }
    fn close(&mut self) {}
}

fn target_of(k: u8) -> Target {
    match k % 4 {
        0 => Target::Mono,
        1 => Target::Smooth { mode: SmoothMode::Normal, symmetric_rendering: true, preserve_linear_metrics: false },
        2 => Target::Smooth { mode: SmoothMode::Light, symmetric_rendering: false, preserve_linear_metrics: true },
        _ => Target::Smooth { mode: SmoothMode::Lcd, symmetric_rendering: true, preserve_linear_metrics: false },
    }
}

/// Draw glyph `gid` hinted with the interpreter. Returns the pen points (or an error string).
fn draw_hinted(bytes: &[u8], gid: u32, ppem: f32, target: u8, pedantic: bool) -> Result<Vec<(f32, f32)>, String> {
    let font = FontRef::new(bytes).map_err(|e| format!("{e}"))?;
    let outlines = font.outline_glyphs();
    let opts = HintingOptions { engine: Engine::Interpreter, target: target_of(target) };
    let inst = HintingInstance::new(&outlines, Size::new(ppem), LocationRef::default(), opts).map_err(|e| format!("inst: {e}"))?;
    let g = outlines.get(GlyphId::new(gid)).ok_or("no glyph")?;
    let mut pen = Pts::default();
    g.draw(DrawSettings::hinted(&inst, pedantic), &mut pen).map_err(|e| format!("draw: {e}"))?;
    Ok(pen.0)
}

// ------------------------------------------------------------------------------------------------
// (a) correspondence
// ------------------------------------------------------------------------------------------------
fn round_mode(i: i64) -> skrifa::verif::RoundMode {
    use skrifa::verif::RoundMode::*;
    match i {
        0 => Grid,
        1 => HalfGrid,
        2 => DoubleGrid,
        3 => DownToGrid,
        4 => UpToGrid,
        5 => Off,
        6 => Super,
        _ => Super45,
    }
}

/// SROUND/S45ROUND sel; ROUND[00] d observed through the real interpreter: the rounded value is
/// written to point 0's x coordinate with SCFS (x axis, Mono target) and read back from the pen.
fn sround_program(grid: i64, sel: i64, d: i64) -> Vec<u8> {
    let mut p = vec![0x01]; // SVTCA[x]
    pushw(&mut p, 0); // point 0 for SCFS
    pushw(&mut p, sel as i16);
    p.push(if grid == 0x4000 { 0x76 } else { 0x77 });
    push_any(&mut p, d as i32);
    p.push(0x68); // ROUND[00]
    p.push(0x48); // SCFS
    p
}

/// `a [b] OP` executed by the real interpreter; the result is written to point 0's x (SCFS) and read
/// back from the pen. None = the value is too large to be read back exactly through f32.
fn interp_arith(opc: i64, a: i64, b: i64, unary: bool) -> Result<Option<Vec<i64>>, Trap> {
    let mut p = vec![0x01]; // SVTCA[x]
    pushw(&mut p, 0);
    push_any(&mut p, a as i32);
    if !unary {
        push_any(&mut p, b as i32);
    }
    p.push(opc as u8);
    p.push(0x48); // SCFS
    let spec = TtSpec { glyph_prog: p, pts: vec![(0, 0), (500, 0), (500, 700)], ..Default::default() };
    let bytes = build_tt(&spec);
    match catch_loc(move || draw_hinted(&bytes, 0, 1000.0, 0, true))? {
        Ok(pts) => {
            let x = (pts[0].0 as f64 * 64.0).round() as i64;
            Ok(if x.abs() < (1 << 23) { Some(vec![x]) } else { None })
        }
        // pedantic: a HintError (DIV by zero) aborts the draw
        Err(_) => Ok(Some(vec![-1])),
    }
}

/// CVT entry 0 = `v`, scaled for (ppem, upem), read back with RCVT + SCFS
fn interp_cvt(v: i64, ppem: i64, upem: i64) -> Result<Option<Vec<i64>>, Trap> {
    let mut p = vec![0x01];
    pushw(&mut p, 0);
    pushw(&mut p, 0);
    p.push(0x45); // RCVT
    p.push(0x48); // SCFS
    let spec = TtSpec { glyph_prog: p, pts: vec![(0, 0), (500, 0), (500, 700)], cvt: vec![v as i16], upem: upem as u16, ..Default::default() };
    let bytes = build_tt(&spec);
    match catch_loc(move || draw_hinted(&bytes, 0, ppem as f32, 0, true))? {
        Ok(pts) => {
            let x = (pts[0].0 as f64 * 64.0).round() as i64;
            Ok(if x.abs() < (1 << 23) { Some(vec![x]) } else { None })
        }
        Err(_) => Ok(None),
    }
}

fn run_op(op: i64, a: &[i64]) -> Result<Vec<i64>, Trap> {
    use skrifa::verif::math;
    let a = a.to_vec();
    catch_loc(move || {
        let i = |k: usize| a[k] as i32;
        let fx = |k: usize| Fixed::from_bits(a[k] as i32);
        match op {
            1 => vec![math::floor(i(0)) as i64],
            2 => vec![math::round(i(0)) as i64],
            3 => vec![math::ceil(i(0)) as i64],
            4 => vec![math::round_pad(i(0), i(1)) as i64],
            5 => vec![math::mul(i(0), i(1)) as i64],
            6 => vec![math::div(i(0), i(1)) as i64],
            7 => vec![math::mul_div(i(0), i(1), i(2)) as i64],
            8 => vec![math::mul_div_no_round(i(0), i(1), i(2)) as i64],
            9 => vec![math::mul14(i(0), i(1)) as i64],
            10 => {
                let _ = math::normalize14(i(0), i(1));
                vec![0]
            }
            11 => {
                let rs = skrifa::verif::RoundState { mode: round_mode(a[0]), threshold: i(1), phase: i(2), period: i(3) };
                vec![rs.round(F26Dot6::from_bits(i(4))).to_bits() as i64]
            }
            20 => vec![(-fx(0)).to_bits() as i64],
            21 => vec![fx(0).abs().to_bits() as i64],
            22 => vec![fx(0).fract().to_bits() as i64],
            23 => vec![Fixed::from_i32(i(0)).to_bits() as i64],
            24 => vec![fx(0).to_i32() as i64],
            25 => vec![fx(0).to_f26dot6().to_bits() as i64],
            26 => vec![fx(0).to_f2dot14().to_bits() as i64],
            27 => vec![F2Dot14::from_bits(a[0] as i16).to_fixed().to_bits() as i64],
            28 => vec![F2Dot14::from_bits(a[0] as i16).abs().to_bits() as i64],
            29 => vec![F26Dot6::from_i32(i(0)).to_bits() as i64],
            30 => vec![F26Dot6::from_bits(i(0)).to_i32() as i64],
            31 => vec![F26Dot6::from_bits(i(0)).fract().to_bits() as i64],
            32 => vec![F2Dot14::from_bits(a[0] as i16).fract().to_bits() as i64],
            33 => {
                let mut x = fx(0);
                x += fx(1);
                let mut y = F26Dot6::from_bits(i(0));
                y += F26Dot6::from_bits(i(1));
                assert_eq!(x.to_bits(), y.to_bits());
                vec![x.to_bits() as i64]
            }
            34 => {
                let mut x = fx(0);
                x -= fx(1);
                let mut y = F26Dot6::from_bits(i(0));
                y -= F26Dot6::from_bits(i(1));
                assert_eq!(x.to_bits(), y.to_bits());
                vec![x.to_bits() as i64]
            }
            35 => {
                let mut x = F2Dot14::from_bits(a[0] as i16);
                x += F2Dot14::from_bits(a[1] as i16);
                vec![x.to_bits() as i64]
            }
            50 => {
                let d = read_fonts::tables::gvar::GlyphDelta { position: 0, x_delta: i(0), y_delta: i(1) };
                let p = d.apply_scalar::<Fixed>(fx(2));
                vec![p.x.to_bits() as i64, p.y.to_bits() as i64]
            }
            51 => {
                let d = read_fonts::tables::cvar::CvtDelta { position: 0, value: i(0) };
                vec![d.apply_scalar(fx(1)).to_bits() as i64]
            }
            52 => {
                let mut b = vec![];
                be16(&mut b, 12);
                be16(&mut b, 0);
                be32(&mut b, 28);
                be32(&mut b, 0);
                be32(&mut b, 1);
                be32(&mut b, a[1] as u32);
                be32(&mut b, a[2] as u32);
                be32(&mut b, a[3] as u32);
                let t = read_fonts::tables::cmap::Cmap12::read(FontData::new(&b)).unwrap();
                match t.map_codepoint(a[0] as u32) {
                    Some(g) => vec![g.to_u32() as i64],
                    None => vec![-1],
                }
            }
            53 => {
                let (n, m, gid) = (a[0] as usize, a[1] as usize, a[2] as u32);
                let mut b = vec![];
                for k in 0..n {
                    be16(&mut b, k as u16);
                    bei16(&mut b, k as i16);
                }
                for j in 0..m {
                    bei16(&mut b, 1000 + j as i16);
                }
                let t = read_fonts::tables::hmtx::Hmtx::read(FontData::new(&b), n as u16, (n + m) as u16).unwrap();
                vec![t.advance(GlyphId::new(gid)).map(|v| v as i64).unwrap_or(-1), t.side_bearing(GlyphId::new(gid)).map(|v| v as i64).unwrap_or(-1)]
            }
            54 => {
                // [bf, height, bias, maxv, path...]: one node per level (only the path child set), then a filled node
                let (bf, height, bias, maxv) = (a[0] as u32, a[1] as u32, a[2] as u32, a[3] as u32);
                let mut nodes: Vec<u32> = a[4..].iter().map(|i| 1u32 << (*i as u32)).collect();
                nodes.push(0);
                let stream = sbs_stream(bf, height, &nodes);
                match read_fonts::collections::IntSet::<u32>::from_sparse_bit_set_bounded(&stream, bias, maxv) {
                    Ok((set, _)) => match (set.first(), set.last()) {
                        (Some(f), Some(l)) => vec![f as i64, l as i64],
                        _ => vec![-1],
                    },
                    Err(_) => vec![-2],
                }
            }
            55 => {
                let mut b = vec![];
                be16(&mut b, 2);
                be16(&mut b, 1);
                be16(&mut b, a[0] as u16);
                be16(&mut b, a[1] as u16);
                be16(&mut b, a[2] as u16);
                let c = read_fonts::tables::layout::CoverageTable::read(FontData::new(&b)).unwrap();
                vec![c.get(GlyphId::new(a[3] as u32)).map(|v| v as i64).unwrap_or(-1)]
            }
            56 => {
                // Device with exactly value_count words; a[2] = values per word (8 / 4 / 2, 0 = other format)
                let (ss, es, per) = (a[0] as u16, a[1] as u16, a[2] as usize);
                let fmt: u16 = match per {
                    8 => 1,
                    4 => 2,
                    2 => 3,
                    _ => 0x7000,
                };
                let n = (es as usize + 1).saturating_sub(ss as usize);
                let words = if per == 0 { 0 } else { n.div_ceil(per) };
                let mut b = vec![];
                be16(&mut b, ss);
                be16(&mut b, es);
                be16(&mut b, fmt);
                b.resize(6 + 2 * words + 2, 0x55);
                match read_fonts::tables::layout::DeviceOrVariationIndex::read(FontData::new(&b)).unwrap() {
                    read_fonts::tables::layout::DeviceOrVariationIndex::Device(d) => vec![d.iter().count() as i64],
                    _ => vec![0],
                }
            }
            57 => {
                let (off, len, datalen) = (a[0] as u32, a[1] as u32, a[2] as usize);
                let mut t = vec![];
                be16(&mut t, 0);
                be32(&mut t, 10);
                be32(&mut t, 0);
                be16(&mut t, 1);
                be16(&mut t, 0);
                be16(&mut t, 0);
                be32(&mut t, off);
                be32(&mut t, len);
                // the document list's data runs from offset 10 to the end of the table: pad to `datalen`
                t.resize(10 + datalen.max(14), 0);
                let svg = read_fonts::tables::svg::Svg::read(FontData::new(&t)).unwrap();
                match svg.glyph_data(GlyphId::new(0)).unwrap() {
                    Some(d) => vec![d.len() as i64],
                    None => vec![-1],
                }
            }
            58 => {
                // a[3]: 0 = CFF Index1 (u16 count), 1 = CFF2 Index2 (u32 count); well-formed INDEX with one-byte objects
                let (index, count, off_size, cff2) = (a[0] as u64 as usize, a[1] as usize, a[2] as usize, a[3] != 0);
                let mut b = vec![];
                if cff2 {
                    be32(&mut b, count as u32);
                } else {
                    be16(&mut b, count as u16);
                }
                b.push(off_size as u8);
                for k in 0..=count {
                    b.extend_from_slice(&((k + 1) as u32).to_be_bytes()[4 - off_size..]);
                }
                b.extend(std::iter::repeat(11u8).take(count + 1));
                let ok = if cff2 {
                    read_fonts::tables::postscript::Index2::read(FontData::new(&b)).unwrap().get(index).is_ok()
                } else {
                    read_fonts::tables::postscript::Index1::read(FontData::new(&b)).unwrap().get(index).is_ok()
                };
                vec![ok as i64]
            }
            40 => {
                use read_fonts::tables::glyf::PointCoord;
                vec![<i32 as PointCoord>::midpoint(i(0), i(1)) as i64]
            }
            41 => {
                let mut b = vec![];
                be16(&mut b, 1);
                be16(&mut b, 0);
                be16(&mut b, 16);
                be16(&mut b, 2);
                be16(&mut b, 1);
                be16(&mut b, 20);
                be16(&mut b, 0);
                be16(&mut b, 8);
                b.extend_from_slice(b"wght");
                for k in 0..3 {
                    be32(&mut b, a[k] as i32 as u32);
                }
                be16(&mut b, 0);
                be16(&mut b, 256);
                let fvar = read_fonts::tables::fvar::Fvar::read(FontData::new(&b)).unwrap();
                let axes = fvar.axes().unwrap();
                vec![axes[0].normalize(fx(3)).to_bits() as i64]
            }
            42 => {
                let mut b = vec![];
                let n = (a.len() - 1) / 2;
                be16(&mut b, n as u16);
                for k in 0..2 * n {
                    bei16(&mut b, a[1 + k] as i16);
                }
                let sm = read_fonts::tables::avar::SegmentMaps::read(FontData::new(&b)).unwrap();
                vec![sm.apply(fx(0)).to_bits() as i64]
            }
            43 => {
                let (cp, sx2, n, ng) = (a[0], a[1], a[2] as usize, a[3] as usize);
                let r = &a[4..];
                let mut b = vec![];
                be16(&mut b, 4);
                be16(&mut b, 0);
                be16(&mut b, 0);
                be16(&mut b, sx2 as u16);
                be16(&mut b, 0);
                be16(&mut b, 0);
                be16(&mut b, 0);
                for k in 0..n {
                    be16(&mut b, r[n + k] as u16); // end codes
                }
                be16(&mut b, 0);
                for k in 0..n {
                    be16(&mut b, r[k] as u16); // start codes
                }
                for k in 0..n {
                    bei16(&mut b, r[2 * n + k] as i16);
                }
                for k in 0..n {
                    be16(&mut b, r[3 * n + k] as u16);
                }
                for k in 0..ng {
                    be16(&mut b, r[4 * n + k] as u16);
                }
                let l = b.len() as u16;
                b[2..4].copy_from_slice(&l.to_be_bytes());
                let t = read_fonts::tables::cmap::Cmap4::read(FontData::new(&b)).unwrap();
                match t.map_codepoint(cp as u32) {
                    Some(g) => vec![g.to_u32() as i64],
                    None => vec![-1],
                }
            }
            44 => {
                let bytes: Vec<u8> = a.iter().map(|x| *x as u8).collect();
                vec![read_fonts::tables::compute_checksum(&bytes) as i64]
            }
            45 => {
                // Index1 { count, off_size, offsets[(count + 1) * off_size], data[..] }
                let (count, one, off_size) = (a[0], a[1], a[2]);
                assert_eq!(one, 1);
                let mut b = vec![];
                be16(&mut b, count as u16);
                b.push(off_size as u8);
                b.resize(3 + ((count + 1) * off_size) as usize + 1, 1);
                let t = read_fonts::tables::postscript::Index1::read(FontData::new(&b)).unwrap();
                vec![t.offsets().len() as i64]
            }
            46 => {
                let sx2 = a[0];
                let mut b = vec![];
                be16(&mut b, 4);
                be16(&mut b, 0);
                be16(&mut b, 0);
                be16(&mut b, sx2 as u16);
                b.resize(14 + 2 + 4 * (sx2 as usize / 2) * 2 + 4, 0);
                let t = read_fonts::tables::cmap::Cmap4::read(FontData::new(&b)).unwrap();
                vec![t.start_code().len() as i64]
            }
            47 => {
                let (num_glyphs, n_hm) = (a[0] as u16, a[1] as u16);
                let b = vec![0u8; 4 * n_hm as usize + 2 * (num_glyphs as usize) + 8];
                let t = read_fonts::tables::hmtx::Hmtx::read(FontData::new(&b), n_hm, num_glyphs).unwrap();
                vec![t.left_side_bearings().len() as i64]
            }
            48 => {
                let gc = a[0] as u16;
                assert_eq!(a[1], 1);
                let mut b = vec![];
                be16(&mut b, 1);
                be16(&mut b, 0);
                be16(&mut b, 0);
                be16(&mut b, 0);
                be32(&mut b, 20);
                be16(&mut b, gc);
                be16(&mut b, 0);
                be32(&mut b, 0);
                b.resize(20 + 2 * (gc as usize + 1) + 4, 0);
                let t = read_fonts::tables::gvar::Gvar::read(FontData::new(&b)).unwrap();
                vec![t.glyph_variation_data_offsets().len() as i64]
            }
            _ => unreachable!(),
        }
    })
}

fn ext32() -> Vec<i64> {
    let mut v: Vec<i64> = boundary_i32().into_iter().map(|x| x as i64).collect();
    for d in [16i64, 31, 32, 33, 62, 63, 64, 65, 127, 128, 255, 256, 272, 511, 512] {
        v.push(i32::MAX as i64 - d);
        v.push(i32::MIN as i64 + d);
    }
    v.sort();
    v.dedup();
    v
}

struct Corr<'a> {
    st: &'a mut Stats,
    cw: &'a mut CaseWriter,
    kernel_traps: BTreeMap<String, serde_json::Value>,
}

impl Corr<'_> {
    fn emit_res(&mut self, op: i64, a: Vec<i64>, res: Result<Vec<i64>, Trap>) {
        self.st.evaluations += 1;
        self.st.count(&format!("op{:02}", op));
        match &res {
            Err(t) => {
                self.st.count(&format!("op{:02}.panic", op));
                let k = format!("{}:{}", t.loc, t.msg);
                self.kernel_traps.entry(k).or_insert_with(|| json!({"op": op, "args": a, "site": t.loc, "message": t.msg}));
            }
            Ok(_) => {}
        }
        let resv = res.as_ref().map(|v| v.clone()).unwrap_or_default();
        let canon = format!("{} {:?}", op, a);
        if a.iter().any(|v| v.abs() > 1) {
            self.st.nontrivial(&canon);
        }
        self.st.sample(json!({"op":op,"args":a,"impl":format!("{:?}", res.as_ref().map_err(|t| t.msg.clone()))}));
        self.cw.push(format!("({}, {}, {})", op, czlist(a.iter().map(|v| *v as i128)), czlist(resv.iter().map(|v| *v as i128))));
    }
    fn emit(&mut self, op: i64, a: Vec<i64>) {
        let res = run_op(op, &a);
        self.emit_res(op, a, res);
    }
}

fn correspondence(st: &mut Stats, cw: &mut CaseWriter, rng: &mut Rng, thorough: bool) -> BTreeMap<String, serde_json::Value> {
    let mut c = Corr { st, cw, kernel_traps: BTreeMap::new() };
    let g = ext32();
    let r32 = |rng: &mut Rng, g: &Vec<i64>| -> i64 {
        if rng.chance(1, 2) {
            *rng.pick(g)
        } else {
            rng.next_u32() as i32 as i64
        }
    };
    let nr = if thorough { 4000 } else { 700 };
    // unary math + Fixed
    for op in [1i64, 2, 3, 20, 21, 22, 23, 24, 25, 26, 29, 30, 31] {
        for x in &g {
            c.emit(op, vec![*x]);
        }
        for _ in 0..nr / 10 {
            c.emit(op, vec![rng.next_u32() as i32 as i64]);
        }
    }
    for op in [27i64, 28, 32] {
        for x in g.iter().filter(|x| **x >= -32768 && **x <= 32767) {
            c.emit(op, vec![*x]);
        }
    }
    // binary
    let sub: Vec<i64> = g.iter().cloned().step_by(if thorough { 5 } else { 11 }).chain([i32::MIN as i64, i32::MAX as i64, 0, 1, -1, 64, -64, 32, 33554432, -33554432]).collect();
    for op in [5i64, 6, 9, 40] {
        for a in &sub {
            for b in &sub {
                if rng.chance(1, 3) {
                    c.emit(op, vec![*a, *b]);
                }
            }
        }
        for _ in 0..nr / 4 {
            let v = vec![r32(rng, &g), r32(rng, &g)];
            c.emit(op, v);
        }
    }
    // round_pad (n arbitrary, incl. 0 and negatives) and normalize14
    for _ in 0..nr {
        let n = if rng.chance(2, 3) { *rng.pick(&[1i64, 2, 16, 32, 64, 0, -1, -2, 3, 128]) } else { r32(rng, &g) };
        c.emit(4, vec![r32(rng, &g), n]);
    }
    for x in [i32::MAX as i64, i32::MAX as i64 - 16, i32::MAX as i64 - 15, i32::MIN as i64, 0, -1] {
        for n in [32i64, 1, 0, i32::MIN as i64, i32::MAX as i64, -1] {
            c.emit(4, vec![x, n]);
        }
    }
    for _ in 0..nr {
        let v = if rng.chance(1, 2) { vec![r32(rng, &g), r32(rng, &g)] } else { vec![rng.range(-32768, 32767), rng.range(-32768, 32767)] };
        c.emit(10, v);
    }
    for a in [i32::MIN as i64, i32::MAX as i64, 0, 1, -1, 16384, -16384, -32768, 32767] {
        for b in [i32::MIN as i64, i32::MAX as i64, 0, 1, -1, 16384, -16384, -32768, 32767] {
            c.emit(10, vec![a, b]);
        }
    }
    // ternary
    let sub3: Vec<i64> = g.iter().cloned().step_by(if thorough { 23 } else { 41 }).chain([i32::MIN as i64, i32::MAX as i64, 0, 1, -1, 64, -64, 33554432, -33554432]).collect();
    for op in [7i64, 8] {
        for a in &sub3 {
            for b in &sub3 {
                for d in &sub3 {
                    if rng.chance(1, 3) {
                        c.emit(op, vec![*a, *b, *d]);
                    }
                }
            }
        }
        for _ in 0..nr {
            let v = vec![r32(rng, &g), r32(rng, &g), r32(rng, &g)];
            c.emit(op, v);
        }
        // the shapes the interpreter uses: DIV = mul_div_no_round(a, 64, b), MUL = mul_div(a, b, 64)
        for _ in 0..nr {
            let (x, y) = (r32(rng, &g), r32(rng, &g));
            c.emit(op, if op == 8 { vec![x, 64, y] } else { vec![x, y, 64] });
        }
    }
    // RoundState::round: every mode, arbitrary and interpreter-reachable (threshold, phase, period)
    let reach: Vec<(i64, i64, i64, i64)> = {
        // (mode, threshold, phase, period) as produced by super_round for every selector byte
        let mut v = vec![];
        for (mode, grid) in [(6i64, 0x4000i64), (7, 0x2D41)] {
            for sel in 0..256i64 {
                let period = match sel & 0xC0 {
                    0 => grid / 2,
                    0x40 => grid,
                    0x80 => grid * 2,
                    _ => grid,
                };
                let phase = match sel & 0x30 {
                    0 => 0,
                    0x10 => period / 4,
                    0x20 => period / 2,
                    _ => period * 3 / 4,
                };
                let threshold = if sel & 0x0F == 0 { period - 1 } else { ((sel & 0x0F) - 4) * period / 8 };
                v.push((mode, threshold >> 8, phase >> 8, period >> 8));
            }
        }
        v.sort();
        v.dedup();
        v
    };
    c.st.v.insert("round_reachable_param_tuples".into(), reach.len().into());
    for mode in 0..6i64 {
        for d in &g {
            c.emit(11, vec![mode, 0, 0, 64, *d]);
        }
    }
    for (m, t, ph, pe) in &reach {
        for d in [0i64, 1, -1, 31, 32, 33, 64, -64, 1000, -1000, i32::MAX as i64, i32::MIN as i64, i32::MAX as i64 - 63, i32::MAX as i64 - 64, i32::MAX as i64 - 272, i32::MIN as i64 + 1, i32::MIN as i64 + 272] {
            c.emit(11, vec![*m, *t, *ph, *pe, d]);
        }
        c.emit(11, vec![*m, *t, *ph, *pe, r32(rng, &g)]);
    }
    for _ in 0..nr * 2 {
        let m = rng.range(0, 7);
        let small = |rng: &mut Rng| -> i64 {
            if rng.chance(3, 4) {
                rng.range(-300, 300)
            } else {
                rng.next_u32() as i32 as i64
            }
        };
        let pe = if rng.chance(1, 6) { *rng.pick(&[0i64, -1, 1, i32::MIN as i64]) } else { small(rng) };
        let v = vec![m, small(rng), small(rng), pe, r32(rng, &g)];
        c.emit(11, v);
    }
    // SROUND / S45ROUND + ROUND through the real interpreter (op 12)
    {
        let mut sels: Vec<i64> = (0..256).step_by(if thorough { 1 } else { 5 }).collect();
        sels.extend([0x00, 0x4F, 0x8F, 0xCF, 0x7F, 0xFF, 0x31]);
        for grid in [0x4000i64, 0x2D41] {
            for sel in &sels {
                for d in [0i64, 31, 32, 33, 100, -100, -31, -33, 4000, -4000, 8388000, -8388000, i32::MAX as i64, i32::MIN as i64, i32::MAX as i64 - 300, i32::MIN as i64 + 300] {
                    if !rng.chance(1, if thorough { 1 } else { 3 }) {
                        continue;
                    }
                    let prog = sround_program(grid, *sel, d);
                    let spec = TtSpec { glyph_prog: prog, pts: vec![(0, 0), (500, 0), (500, 700)], ..Default::default() };
                    let bytes = build_tt(&spec);
                    let res = catch_loc(move || draw_hinted(&bytes, 0, 1000.0, 0, false));
                    match res {
                        Err(t) => c.emit_res(12, vec![grid, *sel, d], Err(t)),
                        Ok(Ok(p)) => {
                            // point 0's x coordinate in 26.6
                            let x = (p[0].0 as f64 * 64.0).round() as i64;
                            if x.abs() < (1 << 23) {
                                c.emit_res(12, vec![grid, *sel, d], Ok(vec![x]));
                            } else {
                                c.st.count("op12.value_too_large_for_f32_skipped");
                            }
                        }
                        Ok(Err(e)) => {
                            c.st.count(&format!("op12.hint_error:{}", e));
                        }
                    }
                }
            }
        }
    }
    // the `…_trap_refuted` / `…_ok` witnesses of coq/C20/Examples.v, replayed on the real code
    let (mx, mn) = (i32::MAX as i64, i32::MIN as i64);
    for (op, a) in [
        (2i64, vec![mx]), (2, vec![2147483616]), (2, vec![2147483615]), (3, vec![2147483585]), (4, vec![2147483632, 32]),
        (8, vec![mn, 64, 1]), (8, vec![1, 64, mn]), (8, vec![-33554432, 64, 1]), (8, vec![-6127, 15026, 2276]),
        (11, vec![0, 0, 0, 64, mx]), (11, vec![0, 0, 0, 64, mn]), (11, vec![1, 0, 0, 64, mn]), (11, vec![2, 0, 0, 64, mx]),
        (11, vec![2, 0, 0, 64, mn]), (11, vec![3, 0, 0, 64, mn]), (11, vec![4, 0, 0, 64, mx]), (11, vec![4, 0, 0, 64, mn]),
        (11, vec![6, 88, 0, 64, mx]), (11, vec![6, 0, 0, 64, mn]), (11, vec![7, 62, 0, 45, mx]), (11, vec![6, 0, 0, mn, 0]), (11, vec![7, 0, 0, 0, 5]),
        (11, vec![6, 32, 0, 64, 100]), (20, vec![mn]), (21, vec![mn]), (28, vec![-32768]),
        (41, vec![100 << 16, 400 << 16, 900 << 16, 250 << 16]), (41, vec![mn, mx, mx, mn]),
        (42, vec![16384, -16384, -16384, 0, 0, 8192, 4096, 16384, 16384]),
        (43, vec![66, 4, 2, 3, 65, 65535, 70, 65535, 0, 1, 4, 0, 10, 11, 12]),
        (44, vec![0, 1, 2, 3, 255, 255, 255, 255, 9]),
    ] {
        c.emit(op, a);
    }
    for (g, sel, d) in [(0x4000i64, 79i64, mx), (0x4000, 68, mn), (0x2D41, 79, mx), (0x4000, 72, 100)] {
        let spec = TtSpec { glyph_prog: sround_program(g, sel, d), pts: vec![(0, 0), (500, 0), (500, 700)], ..Default::default() };
        let bytes = build_tt(&spec);
        match catch_loc(move || draw_hinted(&bytes, 0, 1000.0, 0, false)) {
            Err(t) => c.emit_res(12, vec![g, sel, d], Err(t)),
            Ok(Ok(p)) => c.emit_res(12, vec![g, sel, d], Ok(vec![(p[0].0 as f64 * 64.0).round() as i64])),
            Ok(Err(_)) => {}
        }
    }
    // gvar / cvar delta * scalar, cmap12 single group, hmtx index arithmetic
    for _ in 0..nr / 2 {
        let d = |rng: &mut Rng| if rng.chance(1, 2) { *rng.pick(&[32767i64, -32768, 0, 1, -1, 65535, -65536, mx, mn]) } else { rng.range(-40000, 40000) };
        let sc = if rng.chance(1, 2) { *rng.pick(&[65536i64, -65536, 32768, 0, 1, mx, mn, 16384]) } else { rng.range(-70000, 70000) };
        let v = vec![d(rng), d(rng), sc];
        c.emit(50, v);
        let v = vec![d(rng), sc];
        c.emit(51, v);
        let u = |rng: &mut Rng| if rng.chance(1, 2) { *rng.pick(&[0i64, 1, 0xFFFF, 0x10000, 0x10FFFF, 0xFFFFFFFF, 0xFFFFFFFE, 0x7FFFFFFF, 0x80000000]) } else { rng.range(0, 300) };
        let v = vec![u(rng), u(rng), u(rng), u(rng)];
        c.emit(52, v);
        let v = vec![rng.range(0, 4), rng.range(0, 4), if rng.chance(1, 4) { *rng.pick(&[65535i64, 0xFFFFFF, 0xFFFFFFFF, 100]) } else { rng.range(0, 9) }];
        c.emit(53, v);
    }
    // sparse bit set: filled node at every depth / first-last-random child, x bias x limit.  The limit is kept at
    // the IFT value 0x10FFFF (or below) unless the tree covers at most 2^20 values (see gen_structured).
    for bf in [2u32, 4, 8, 32] {
        let mh = sbs_max_height(bf);
        let lg = bf.trailing_zeros();
        for height in [1u32, 2, 3, mh / 2, mh - 1, mh] {
            for _ in 0..(if thorough { 40 } else { 12 }) {
                let rl = rng.range(0, height as i64 - 1).max(0) as u32;
                let plen = (*rng.pick(&[0u32, 0, 1, 2, height.saturating_sub(1), rl])).min(height - 1);
                let path: Vec<i64> = (0..plen).map(|_| match rng.range(0, 3) { 0 => 0, 1 => bf as i64 - 1, _ => rng.range(0, bf as i64 - 1) }).collect();
                let bias = pick_bias(rng);
                let small_tree = lg * height <= 20;
                let maxv = if small_tree { *rng.pick(&[u32::MAX, u32::MAX - 1, 0x10FFFF, 0, 1, 0xFFFF]) } else { *rng.pick(&[0x10FFFFu32, 0x10FFFF, 0xFFFF, 0, 1, 0xFFFFF]) };
                let mut v = vec![bf as i64, height as i64, bias as i64, maxv as i64];
                v.extend(path);
                c.emit(54, v);
            }
        }
    }
    // Coverage format 2 `get`, Device `iter`, Svg `glyph_data` index arithmetic
    for _ in 0..nr / 2 {
        let u = |rng: &mut Rng| if rng.chance(1, 2) { *rng.pick(&[0i64, 1, 10, 20, 0x7FFF, 0x8000, 0xFFFE, 0xFFFF]) } else { rng.range(0, 40) };
        let (sg, eg, sc) = (u(rng), u(rng), u(rng));
        let gid = if rng.chance(1, 2) { sg + rng.range(0, 3) } else { u(rng) };
        c.emit(55, vec![sg, eg, sc, gid.min(0x1FFFF)]);
        let d = |rng: &mut Rng| if rng.chance(1, 2) { *rng.pick(&[0i64, 1, 8, 9, 12, 0xFFFF, 0xFFFE, 0x8000]) } else { rng.range(0, 40) };
        let v = vec![d(rng), d(rng), *rng.pick(&[8i64, 4, 2, 0])];
        c.emit(56, v);
        let o = |rng: &mut Rng| if rng.chance(1, 2) { *rng.pick(&[0i64, 1, 14, 20, 0x7FFFFFFF, 0x80000000, 0xFFFFFFFF, 0xFFFF0000, 0xFFFFFFFE]) } else { rng.range(0, 40) };
        let v = vec![o(rng), o(rng), rng.range(14, 60)];
        c.emit(57, v);
    }
    for v in [vec![10i64, 20, 0xFFFF, 11], vec![10, 20, 0xFFF5, 20], vec![0, 0xFFFF, 1, 0xFFFF]] {
        c.emit(55, v);
    }
    for v in [vec![12i64, 8, 8], vec![0, 0xFFFF, 2], vec![0xFFFF, 0, 4], vec![0, 0xFFFF, 8]] {
        c.emit(56, v);
    }
    for v in [vec![0xFFFFFFFFi64, 0xFFFF0000, 20], vec![0xFFFFFFFF, 1, 20], vec![14, 6, 20]] {
        c.emit(57, v);
    }
    // CFF / CFF2 INDEX object lookup at the boundary indices (the model is format independent: args[3] is not passed to it)
    for cff2 in [0i64, 1] {
        for count in [1i64, 2, 5, 200] {
            for off_size in [1i64, 2, 3, 4] {
                if off_size == 1 && count > 100 {
                    continue;
                }
                for index in [0i64, 1, count - 1, count, count + 1, 107, -1, -2, i64::MAX, i64::MIN] {
                    let res = run_op(58, &[index, count, off_size, cff2]);
                    // usize::MAX etc. are passed to the model as unsigned 64-bit values
                    let ix = index as u64 as i128;
                    c.st.evaluations += 1;
                    c.st.count("op58");
                    let resv = res.as_ref().map(|v| v.clone()).unwrap_or_default();
                    if let Err(t) = &res {
                        c.kernel_traps.entry(format!("{}:{}", t.loc, t.msg)).or_insert_with(|| json!({"op": 58, "args": [index, count, off_size, cff2], "site": t.loc, "message": t.msg}));
                    }
                    c.cw.push(format!("(58, {}, {})", czlist([ix, count as i128, off_size as i128]), czlist(resv.iter().map(|v| *v as i128))));
                }
            }
        }
    }
    // += / -= of the fixed types
    for op in [33i64, 34] {
        for a in &sub {
            for b in &sub {
                if rng.chance(1, 4) {
                    c.emit(op, vec![*a, *b]);
                }
            }
        }
        c.emit(op, vec![mx, 1]);
        c.emit(op, vec![mn, 1]);
        c.emit(op, vec![mn, -1]);
        c.emit(op, vec![mx, mx]);
    }
    for (a, b) in [(32767i64, 1i64), (-32768, -1), (32767, 32767), (-32768, -32768), (100, -200), (16384, 16384)] {
        c.emit(35, vec![a, b]);
    }
    // the ten arithmetic instructions through the real interpreter (op 13)
    {
        let small: Vec<i64> = vec![0, 1, -1, 63, 64, 65, -64, 100, -100, 4096, -4097, 32767, -32768, 100000, -100000, 1 << 22, -(1 << 22)];
        let big: Vec<i64> = vec![mx, mn, mx - 1, mn + 1, 1 << 30, -(1 << 30), 1 << 25, -(1 << 25), 0x7FFF0000];
        for (opc, unary) in [(0x60i64, false), (0x61, false), (0x62, false), (0x63, false), (0x64, true), (0x65, true), (0x66, true), (0x67, true), (0x8B, false), (0x8C, false)] {
            let n = if thorough { 160 } else { 50 };
            for _ in 0..n {
                let a = if rng.chance(2, 3) { *rng.pick(&small) } else { *rng.pick(&big) };
                let b = if unary { 0 } else if rng.chance(2, 3) { *rng.pick(&small) } else { *rng.pick(&big) };
                match interp_arith(opc, a, b, unary) {
                    Err(t) => c.emit_res(13, vec![opc, a, b], Err(t)),
                    // DIV by zero is a HintError (the pedantic draw fails): [-1], as the model's Some None
                    Ok(Some(v)) => c.emit_res(13, vec![opc, a, b], Ok(v)),
                    Ok(None) => c.st.count("op13.value_too_large_for_f32_skipped"),
                }
            }
        }
        // scaled CVT (op 14)
        for v in [0i64, 1, -1, 100, -100, 700, 32767, -32768, 16384, 12345] {
            for (ppem, upem) in [(16i64, 1000i64), (1000, 1000), (11, 2048), (64, 16), (8, 16384), (200, 1000), (1, 1000), (100, 65535)] {
                match interp_cvt(v, ppem, upem) {
                    Err(t) => c.emit_res(14, vec![v, ppem, upem], Err(t)),
                    Ok(Some(x)) => c.emit_res(14, vec![v, ppem, upem], Ok(x)),
                    Ok(None) => c.st.count("op14.skipped"),
                }
            }
        }
    }
    // fvar normalize
    let fx_vals: Vec<i64> = vec![0, 65536, -65536, 100 << 16, 400 << 16, 900 << 16, i32::MIN as i64, i32::MAX as i64, 1, -1, i32::MIN as i64 + 1, i32::MAX as i64 - 1, 32768, -32768];
    for _ in 0..nr * 2 {
        let mut p = |rng: &mut Rng| -> i64 {
            if rng.chance(2, 3) {
                *rng.pick(&fx_vals)
            } else {
                rng.next_u32() as i32 as i64
            }
        };
        let v = vec![p(rng), p(rng), p(rng), p(rng)];
        c.emit(41, v);
    }
    c.emit(41, vec![100 << 16, 400 << 16, 900 << 16, 250 << 16]);
    c.emit(41, vec![i32::MIN as i64, i32::MAX as i64, i32::MAX as i64, i32::MIN as i64]);
    c.emit(41, vec![i32::MAX as i64, 0, i32::MIN as i64, 5]);
    // avar apply
    for _ in 0..nr {
        let n = rng.range(0, 5) as usize;
        let mut v = vec![];
        let coord = if rng.chance(1, 2) { rng.range(-70000, 70000) } else { r32(rng, &g) };
        v.push(coord);
        let mut from: Vec<i64> = (0..n).map(|_| if rng.chance(1, 3) { *rng.pick(&[-32768i64, 32767, -16384, 0, 16384]) } else { rng.range(-32768, 32767) }).collect();
        if rng.chance(3, 4) {
            from.sort();
        }
        for f in from {
            v.push(f);
            v.push(if rng.chance(1, 3) { *rng.pick(&[-32768i64, 32767, -16384, 0, 16384]) } else { rng.range(-32768, 32767) });
        }
        c.emit(42, v);
    }
    // cmap4
    for _ in 0..nr {
        let n = rng.range(1, 5) as usize;
        let ng = rng.range(0, 6) as usize;
        let mut codes: Vec<i64> = (0..2 * n).map(|_| if rng.chance(1, 4) { *rng.pick(&[0i64, 1, 0xFFFF, 0xFFFE, 0x8000]) } else { rng.range(0, 300) }).collect();
        if rng.chance(4, 5) {
            codes.sort();
        }
        let starts: Vec<i64> = (0..n).map(|k| codes[2 * k]).collect();
        let ends: Vec<i64> = (0..n).map(|k| codes[2 * k + 1]).collect();
        let deltas: Vec<i64> = (0..n).map(|_| if rng.chance(1, 3) { *rng.pick(&[-32768i64, 32767, -1, 1]) } else { rng.range(-300, 300) }).collect();
        let ros: Vec<i64> = (0..n).map(|k| if rng.chance(1, 2) { 0 } else if rng.chance(1, 4) { *rng.pick(&[0xFFFFi64, 0xFFFE, 1, 2]) } else { 2 * (n - k) as i64 + 2 * rng.range(0, 3) }).collect();
        let gids: Vec<i64> = (0..ng).map(|_| if rng.chance(1, 4) { *rng.pick(&[0i64, 0xFFFF, 0x8000]) } else { rng.range(0, 50) }).collect();
        let cp = if rng.chance(1, 5) { *rng.pick(&[0i64, 0xFFFF, 0x10000, 0x10FFFF, 0xFFFE]) } else if rng.chance(1, 2) { *rng.pick(&codes) + rng.range(-1, 1).max(-*rng.pick(&codes)) } else { rng.range(0, 310) };
        let sx2 = 2 * n as i64 + if rng.chance(1, 6) { 1 } else { 0 };
        let mut v = vec![cp, sx2, n as i64, ng as i64];
        v.extend(starts);
        v.extend(ends);
        v.extend(deltas);
        v.extend(ros);
        v.extend(gids);
        c.emit(43, v);
    }
    // checksum
    for _ in 0..nr / 2 {
        let n = rng.range(0, 23) as usize;
        let v: Vec<i64> = (0..n).map(|_| if rng.chance(1, 2) { 255 } else { rng.range(0, 255) }).collect();
        c.emit(44, v);
    }
    // count transforms through the generated readers that use them
    for _ in 0..nr / 4 {
        c.emit(45, vec![*rng.pick(&[0i64, 1, 2, 255, 256, 300, 1000]), 1, *rng.pick(&[0i64, 1, 2, 3, 4, 255])]);
        c.emit(46, vec![*rng.pick(&[0i64, 1, 2, 3, 4, 5, 100, 101, 65535, 65534])]);
        c.emit(47, vec![*rng.pick(&[0i64, 1, 2, 100, 65535]), *rng.pick(&[0i64, 1, 2, 100, 101, 65535])]);
        c.emit(48, vec![*rng.pick(&[0i64, 1, 2, 100, 65535, 65534]), 1]);
    }
    c.kernel_traps
}


// ------------------------------------------------------------------------------------------------
// (b1) generated-bytecode search
// ------------------------------------------------------------------------------------------------
#[derive(Clone, Copy, PartialEq)]
enum K {
    V, // arbitrary value (extremes)
    P, // point index
    C, // cvt index
    S, // storage index
    Z, // zone 0/1
    N, // small count
    B, // selector byte
    D, // DELTAP/DELTAC exception argument: (ppem - delta_base) << 4 | step
}

const OPS: &[(u8, &str, &[K])] = &[
    (0x0A, "SPVFS", &[K::V, K::V]),
    (0x0B, "SFVFS", &[K::V, K::V]),
    (0x06, "SPVTL0", &[K::P, K::P]),
    (0x07, "SPVTL1", &[K::P, K::P]),
    (0x08, "SFVTL0", &[K::P, K::P]),
    (0x09, "SFVTL1", &[K::P, K::P]),
    (0x86, "SDPVTL0", &[K::P, K::P]),
    (0x87, "SDPVTL1", &[K::P, K::P]),
    (0x0F, "ISECT", &[K::P, K::P, K::P, K::P, K::P]),
    (0x10, "SRP0", &[K::P]),
    (0x11, "SRP1", &[K::P]),
    (0x12, "SRP2", &[K::P]),
    (0x17, "SLOOP", &[K::V]),
    (0x1A, "SMD", &[K::V]),
    (0x1D, "SCVTCI", &[K::V]),
    (0x1E, "SSWCI", &[K::V]),
    (0x1F, "SSW", &[K::V]),
    (0x27, "ALIGNPTS", &[K::P, K::P]),
    (0x29, "UTP", &[K::P]),
    (0x2E, "MDAP0", &[K::P]),
    (0x2F, "MDAP1", &[K::P]),
    (0x30, "IUP0", &[]),
    (0x31, "IUP1", &[]),
    (0x32, "SHP0", &[K::P]),
    (0x33, "SHP1", &[K::P]),
    (0x34, "SHC0", &[K::N]),
    (0x35, "SHC1", &[K::N]),
    (0x36, "SHZ0", &[K::Z]),
    (0x37, "SHZ1", &[K::Z]),
    (0x38, "SHPIX", &[K::P, K::V]),
    (0x39, "IP", &[K::P]),
    (0x3A, "MSIRP0", &[K::P, K::V]),
    (0x3B, "MSIRP1", &[K::P, K::V]),
    (0x3C, "ALIGNRP", &[K::P]),
    (0x3E, "MIAP0", &[K::P, K::C]),
    (0x3F, "MIAP1", &[K::P, K::C]),
    (0x42, "WS", &[K::S, K::V]),
    (0x43, "RS", &[K::S]),
    (0x44, "WCVTP", &[K::C, K::V]),
    (0x45, "RCVT", &[K::C]),
    (0x70, "WCVTF", &[K::C, K::V]),
    (0x46, "GC0", &[K::P]),
    (0x47, "GC1", &[K::P]),
    (0x48, "SCFS", &[K::P, K::V]),
    (0x49, "MD0", &[K::P, K::P]),
    (0x4A, "MD1", &[K::P, K::P]),
    (0x4B, "MPPEM", &[]),
    (0x4C, "MPS", &[]),
    (0x50, "LT", &[K::V, K::V]),
    (0x52, "GT", &[K::V, K::V]),
    (0x56, "ODD", &[K::V]),
    (0x57, "EVEN", &[K::V]),
    (0x5D, "DELTAP1", &[K::D, K::P, K::D, K::P, K::N]),
    (0x71, "DELTAP2", &[K::D, K::P, K::N]),
    (0x72, "DELTAP3", &[K::D, K::P, K::N]),
    (0x73, "DELTAC1", &[K::D, K::C, K::D, K::C, K::N]),
    (0x74, "DELTAC2", &[K::D, K::C, K::N]),
    (0x75, "DELTAC3", &[K::D, K::C, K::N]),
    (0x5E, "SDB", &[K::V]),
    (0x5F, "SDS", &[K::N]),
    (0x60, "ADD", &[K::V, K::V]),
    (0x61, "SUB", &[K::V, K::V]),
    (0x62, "DIV", &[K::V, K::V]),
    (0x63, "MUL", &[K::V, K::V]),
    (0x64, "ABS", &[K::V]),
    (0x65, "NEG", &[K::V]),
    (0x66, "FLOOR", &[K::V]),
    (0x67, "CEILING", &[K::V]),
    (0x68, "ROUND0", &[K::V]),
    (0x69, "ROUND1", &[K::V]),
    (0x6A, "ROUND2", &[K::V]),
    (0x6C, "NROUND0", &[K::V]),
    (0x6D, "NROUND1", &[K::V]),
    (0x76, "SROUND", &[K::B]),
    (0x77, "S45ROUND", &[K::B]),
    (0x80, "FLIPPT", &[K::P]),
    (0x81, "FLIPRGON", &[K::P, K::P]),
    (0x82, "FLIPRGOFF", &[K::P, K::P]),
    (0x85, "SCANCTRL", &[K::V]),
    (0x8D, "SCANTYPE", &[K::V]),
    (0x8E, "INSTCTRL", &[K::V, K::V]),
    (0x88, "GETINFO", &[K::V]),
    (0x8A, "ROLL", &[K::V, K::V, K::V]),
    (0x8B, "MAX", &[K::V, K::V]),
    (0x8C, "MIN", &[K::V, K::V]),
    (0x91, "GETVARIATION", &[]),
    (0x25, "CINDEX", &[K::V, K::V]),
    (0x26, "MINDEX", &[K::V, K::V]),
    (0x1C, "JMPR", &[K::V]),
    (0x78, "JROT", &[K::V, K::V]),
    (0x79, "JROF", &[K::V, K::V]),
    (0x2A, "LOOPCALL", &[K::V, K::N]),
    (0x2B, "CALL", &[K::V]),
    (0xC0, "MDRP", &[K::P]),
    (0xE0, "MIRP", &[K::P, K::V]),
];

const VEXT: &[i32] = &[
    0, 1, -1, 2, 3, 31, 32, 33, 63, 64, 65, -64, 255, 256, 16384, -16384, 11585, 32767, -32768, 65536, -65536,
    i32::MIN, i32::MIN + 1, i32::MIN + 63, i32::MAX, i32::MAX - 1, i32::MAX - 15, i32::MAX - 31, i32::MAX - 62, i32::MAX - 63,
    1 << 25, -(1 << 25), 1 << 30, -(1 << 30), 0x7FFF0000, 0x40000000 - 1, 0x00FFFFFF,
];

fn pick_operand(rng: &mut Rng, k: K) -> i32 {
    match k {
        K::V => {
            if rng.chance(5, 6) {
                *rng.pick(VEXT)
            } else {
                rng.next_u32() as i32
            }
        }
        K::P => {
            if rng.chance(9, 10) {
                rng.range(0, 7) as i32
            } else {
                *rng.pick(&[8, 9, 100, -1, i32::MAX, i32::MIN, 65535])
            }
        }
        K::C => {
            if rng.chance(9, 10) {
                rng.range(0, 7) as i32
            } else {
                *rng.pick(&[8, 100, -1, i32::MAX, i32::MIN, -2])
            }
        }
        K::S => {
            if rng.chance(9, 10) {
                rng.range(0, 7) as i32
            } else {
                *rng.pick(&[8, -1, i32::MAX, i32::MIN])
            }
        }
        K::Z => {
            if rng.chance(9, 10) {
                rng.range(0, 1) as i32
            } else {
                *rng.pick(&[2, -1, i32::MAX, i32::MIN])
            }
        }
        K::N => {
            if rng.chance(9, 10) {
                rng.range(0, 3) as i32
            } else {
                *rng.pick(&[6, 7, -1, i32::MAX, i32::MIN, 65535, 65536])
            }
        }
        K::B => rng.range(0, 255) as i32,
        K::D => {
            // default delta_base 9: ppem 16 -> high nibble 7, ppem 11 -> 2, ppem 8 unreachable; also after SDB
            match rng.range(0, 5) {
                0 | 1 => 0x70 | rng.range(0, 15) as i32,
                2 => 0x20 | rng.range(0, 15) as i32,
                3 => rng.range(0, 255) as i32,
                4 => rng.range(0, 15) as i32,
                _ => *rng.pick(VEXT),
            }
        }
    }
}

/// one instruction with its operands, as bytes + text
fn gen_instr(rng: &mut Rng, only: Option<usize>) -> (Vec<u8>, String) {
    let (op, name, kinds) = OPS[only.unwrap_or_else(|| rng.below(OPS.len() as u64) as usize)];
    let mut p = vec![];
    let mut txt = String::new();
    for k in kinds.iter() {
        let v = pick_operand(rng, *k);
        push_any(&mut p, v);
        txt.push_str(&format!("{} ", v));
    }
    // MDRP / MIRP flag bits
    let opc = if op == 0xC0 || op == 0xE0 { op + rng.range(0, 31) as u8 } else { op };
    p.push(opc);
    txt.push_str(&format!("{}[{:#04x}]", name, opc));
    (p, txt)
}

/// state-setting prologue chunks
fn gen_setup(rng: &mut Rng) -> Vec<(Vec<u8>, String)> {
    let mut out: Vec<(Vec<u8>, String)> = vec![];
    let mut one = |bytes: Vec<u8>, t: String| out.push((bytes, t));
    if rng.chance(1, 2) {
        let o = rng.range(0, 5) as u8;
        one(vec![o], format!("SVTCA[{o}]"));
    }
    if rng.chance(1, 4) {
        let mut p = vec![];
        let (x, y) = (*rng.pick(&[0x4000i32, 0, 1, -0x4000, 11585, -11585, 0x7FFF, -0x8000, 3]), *rng.pick(&[0x4000i32, 0, 1, -0x4000, 11585, -11585, 0x7FFF, -0x8000, 3]));
        push_any(&mut p, x);
        push_any(&mut p, y);
        let o = if rng.chance(1, 2) { 0x0A } else { 0x0B };
        p.push(o);
        one(p, format!("{x} {y} {}", if o == 0x0A { "SPVFS" } else { "SFVFS" }));
    }
    if rng.chance(1, 3) {
        let z = rng.range(0, 1) as i32;
        let o = 0x13 + rng.range(0, 3) as u8;
        let mut p = vec![];
        push_any(&mut p, z);
        p.push(o);
        one(p, format!("{z} SZP[{o:#04x}]"));
    }
    if rng.chance(1, 2) {
        match rng.range(0, 7) {
            0 => one(vec![0x18], "RTG".into()),
            1 => one(vec![0x19], "RTHG".into()),
            2 => one(vec![0x3D], "RTDG".into()),
            3 => one(vec![0x7D], "RDTG".into()),
            4 => one(vec![0x7C], "RUTG".into()),
            5 => one(vec![0x7A], "ROFF".into()),
            k => {
                let sel = rng.range(0, 255) as i32;
                let mut p = vec![];
                push_any(&mut p, sel);
                p.push(if k == 6 { 0x76 } else { 0x77 });
                one(p, format!("{sel} {}", if k == 6 { "SROUND" } else { "S45ROUND" }));
            }
        }
    }
    for (o, n) in [(0x1Au8, "SMD"), (0x1D, "SCVTCI"), (0x1E, "SSWCI"), (0x1F, "SSW")] {
        if rng.chance(1, 6) {
            let v = pick_operand(rng, K::V);
            let mut p = vec![];
            push_any(&mut p, v);
            p.push(o);
            one(p, format!("{v} {n}"));
        }
    }
    // place points / cvt at extreme values
    let nmove = if rng.chance(1, 2) { rng.range(0, 3) } else { 0 };
    for _ in 0..nmove {
        let pt = rng.range(0, 4) as i32;
        let v = pick_operand(rng, K::V);
        let mut p = vec![];
        push_any(&mut p, pt);
        push_any(&mut p, v);
        p.push(0x48);
        one(p, format!("{pt} {v} SCFS"));
    }
    if rng.chance(1, 4) {
        let c = rng.range(0, 4) as i32;
        let v = pick_operand(rng, K::V);
        let mut p = vec![];
        push_any(&mut p, c);
        push_any(&mut p, v);
        p.push(0x44);
        one(p, format!("{c} {v} WCVTP"));
    }
    for o in [0x10u8, 0x11, 0x12] {
        if rng.chance(1, 5) {
            let pt = rng.range(0, 4) as i32;
            let mut p = vec![];
            push_any(&mut p, pt);
            p.push(o);
            one(p, format!("{pt} SRP[{o:#04x}]"));
        }
    }
    if rng.chance(1, 8) {
        let n = rng.range(1, 3) as i32;
        let mut p = vec![];
        push_any(&mut p, n);
        p.push(0x17);
        one(p, format!("{n} SLOOP"));
    }
    if rng.chance(1, 8) {
        one(vec![if rng.chance(1, 2) { 0x4D } else { 0x4E }], "FLIPON/OFF".into());
    }
    if rng.chance(1, 6) {
        // delta shift / delta base, valid and invalid
        let n = *rng.pick(&[0i32, 1, 3, 6, 7, -1, -2, -10, 65536 + 3, i32::MIN, i32::MAX, 65535]);
        let mut p = vec![];
        push_any(&mut p, n);
        p.push(0x5F);
        one(p, format!("{n} SDS"));
    }
    if rng.chance(1, 8) {
        let n = *rng.pick(&[0i32, 9, 16, 8, 1, -1, 65535, 65536 + 16, i32::MAX, i32::MIN]);
        let mut p = vec![];
        push_any(&mut p, n);
        p.push(0x5E);
        one(p, format!("{n} SDB"));
    }
    out
}

#[derive(Clone)]
struct BcCase {
    chunks: Vec<(Vec<u8>, String)>,
    place: u8, // 0 glyph program, 1 prep, 2 fpgm, 3 composite program
    pts: Vec<(i16, i16)>,
    upem: u16,
    ppem: f32,
    target: u8,
    pedantic: bool,
    cvt: Vec<i16>,
    comp_xform: [i16; 4],
    comp_off: (i16, i16),
}

impl BcCase {
    fn program(&self) -> Vec<u8> {
        self.chunks.iter().flat_map(|(b, _)| b.iter().cloned()).collect()
    }
    fn spec(&self) -> TtSpec {
        let mut s = TtSpec { upem: self.upem, pts: self.pts.clone(), cvt: self.cvt.clone(), comp_xform: self.comp_xform, comp_off: self.comp_off, ..Default::default() };
        // function 0: a small body reached by CALL / LOOPCALL
        let mut f = vec![];
        pushw(&mut f, 0);
        f.push(0x2C); // FDEF
        f.push(0x20); // DUP
        f.push(0x21); // POP
        f.push(0x2D); // ENDF
        match self.place {
            0 => {
                s.fpgm = f;
                s.glyph_prog = self.program();
            }
            1 => {
                s.fpgm = f;
                s.prep = self.program();
            }
            2 => {
                f.extend(self.program());
                s.fpgm = f;
            }
            _ => {
                s.fpgm = f;
                s.comp_prog = self.program();
            }
        }
        s
    }
    fn gid(&self) -> u32 {
        if self.place == 3 {
            1
        } else {
            0
        }
    }
    fn run(&self) -> Result<(), Trap> {
        let bytes = build_tt(&self.spec());
        let (gid, ppem, target, ped) = (self.gid(), self.ppem, self.target, self.pedantic);
        catch_loc(move || {
            let _ = draw_hinted(&bytes, gid, ppem, target, ped);
        })
    }
    fn describe(&self) -> serde_json::Value {
        json!({
            "kind": "truetype-bytecode",
            "program_in": (["glyph 0 instructions", "prep", "fpgm", "composite glyph 1 instructions"][self.place as usize]),
            "program": self.chunks.iter().map(|(_, t)| t.clone()).collect::<Vec<_>>().join(" ; "),
            "program_hex": self.program().iter().map(|b| format!("{:02x}", b)).collect::<String>(),
            "glyph0_points": self.pts, "unitsPerEm": self.upem, "ppem": self.ppem,
            "target": format!("{:?}", target_of(self.target)), "pedantic": self.pedantic,
            "cvt": self.cvt, "component_transform_f2dot14": self.comp_xform, "component_offset": [self.comp_off.0, self.comp_off.1],
            "draw": format!("HintingInstance::new(Size::new({}), Engine::Interpreter) + draw glyph {}", self.ppem, self.gid()),
        })
    }
}

fn gen_bc_case(rng: &mut Rng, idx: u64) -> BcCase {
    let mut chunks = vec![];
    // the first pass over the op table is systematic: one instruction, no prologue
    let systematic = (idx as usize) < OPS.len() * 40;
    if !systematic || rng.chance(1, 3) {
        chunks.extend(gen_setup(rng));
    }
    let only = if systematic { Some(idx as usize % OPS.len()) } else { None };
    let n = if systematic || rng.chance(2, 3) { 1 } else { rng.range(2, 4) };
    for k in 0..n {
        chunks.push(gen_instr(rng, if k == 0 { only } else { None }));
    }
    let extreme_geom = rng.chance(1, 8);
    let pts = if rng.chance(1, 5) {
        (0..rng.range(1, 6)).map(|_| (*rng.pick(&[i16::MIN, i16::MAX, 0, -1, 1, 16384]), *rng.pick(&[i16::MIN, i16::MAX, 0, -1, 1, 16384]))).collect()
    } else {
        vec![(0, 0), (500, 0), (500, 700), (250, 900), (0, 700)]
    };
    let xf = |rng: &mut Rng| *rng.pick(&[0x4000i16, 0, i16::MIN, i16::MAX, -0x4000, 1]);
    BcCase {
        chunks,
        place: if systematic { (idx as usize / OPS.len() % 4) as u8 } else { *rng.pick(&[0u8, 0, 0, 0, 1, 1, 2, 3]) },
        pts,
        upem: if extreme_geom { *rng.pick(&[16u16, 1, 0, 17, 16384, 65535, 1000]) } else { 1000 },
        ppem: if extreme_geom { *rng.pick(&[1.0f32, 65535.0, 1.0e9, 0.0, 0.01, 33554432.0]) } else { *rng.pick(&[8.0f32, 16.0, 1000.0, 11.5]) },
        target: rng.range(0, 3) as u8,
        pedantic: rng.chance(1, 3),
        cvt: if rng.chance(1, 4) { (0..8).map(|_| *rng.pick(&[i16::MIN, i16::MAX, 0, 1, -1])).collect() } else { vec![0, 100, -100, 700, 32767, -32768, 1, -1] },
        comp_xform: if rng.chance(1, 4) { [xf(rng), xf(rng), xf(rng), xf(rng)] } else { [0x4000, 0, 0, 0x4000] },
        comp_off: if rng.chance(1, 4) { (*rng.pick(&[i16::MIN, i16::MAX, 0]), *rng.pick(&[i16::MIN, i16::MAX, 0])) } else { (0, 0) },
    }
}

/// greedy reduction: drop prologue chunks / reset geometry while the same site still traps
fn reduce_bc(c: &BcCase, key: &str) -> BcCase {
    let same = |c: &BcCase| matches!(c.run(), Err(t) if site_key(&t) == key);
    let mut cur = c.clone();
    let mut changed = true;
    while changed {
        changed = false;
        let mut i = 0;
        while i < cur.chunks.len() && cur.chunks.len() > 1 {
            let mut t = cur.clone();
            t.chunks.remove(i);
            if same(&t) {
                cur = t;
                changed = true;
            } else {
                i += 1;
            }
        }
    }
    let d = TtSpec::default();
    let tries: Vec<Box<dyn Fn(&mut BcCase)>> = vec![
        Box::new(|t| t.pts = vec![(0, 0), (500, 0), (500, 700), (250, 900), (0, 700)]),
        Box::new(|t| t.upem = 1000),
        Box::new(|t| t.ppem = 16.0),
        Box::new(move |t| t.cvt = d.cvt.clone()),
        Box::new(|t| t.comp_xform = [0x4000, 0, 0, 0x4000]),
        Box::new(|t| t.comp_off = (0, 0)),
        Box::new(|t| t.pedantic = false),
        Box::new(|t| t.target = 0),
        Box::new(|t| t.place = 0),
    ];
    for f in tries {
        let mut t = cur.clone();
        f(&mut t);
        if same(&t) {
            cur = t;
        }
    }
    cur
}

fn site_key(t: &Trap) -> String {
    format!("{}:{}", t.loc, t.msg)
}

// ------------------------------------------------------------------------------------------------
// (b2) value-extreme field mutations of the test fonts + API battery
// ------------------------------------------------------------------------------------------------
fn table_dir(b: &[u8]) -> Vec<([u8; 4], usize, usize)> {
    let mut v = vec![];
    if b.len() < 12 {
        return v;
    }
    let n = u16::from_be_bytes([b[4], b[5]]) as usize;
    for i in 0..n {
        let r = 12 + 16 * i;
        if r + 16 > b.len() {
            break;
        }
        let tag = [b[r], b[r + 1], b[r + 2], b[r + 3]];
        let off = u32::from_be_bytes([b[r + 8], b[r + 9], b[r + 10], b[r + 11]]) as usize;
        let len = u32::from_be_bytes([b[r + 12], b[r + 13], b[r + 14], b[r + 15]]) as usize;
        if off <= b.len() && len <= b.len() - off {
            v.push((tag, off, len));
        }
    }
    v
}

const E16: &[u16] = &[0, 1, 2, 0x7FFF, 0x8000, 0x8001, 0xFFFF, 0xFFFE, 0x4000, 0xC000, 16, 15, 17];
const E32: &[u32] = &[0, 1, 0x7FFFFFFF, 0x80000000, 0x80000001, 0xFFFFFFFF, 0xFFFFFFFE, 0xFFFFFFFD, 0xFFFFFFFC, 0x00010000, 0xFFFF0000, 0x7FFF0000, 0x00FFFFFF];

#[derive(Clone)]
struct Mutation {
    font: usize,
    edits: Vec<(String, usize, Vec<u8>)>, // (table tag + rel offset text, abs offset, bytes)
}

fn gen_mutation(rng: &mut Rng, fonts: &[(&'static str, Vec<u8>)]) -> Mutation {
    // one case in seven goes to a glyph-keyed IFT base (patch application is the deepest path and needs the most tries)
    let gk: Vec<usize> = fonts.iter().enumerate().filter(|(_, f)| f.0.contains("glyph_keyed")).map(|(i, _)| i).collect();
    let fi = if !gk.is_empty() && rng.chance(1, 7) { *rng.pick(&gk) } else { rng.below(fonts.len() as u64) as usize };
    let b = &fonts[fi].1;
    let dir = table_dir(b);
    let mut edits = vec![];
    let find = |t: &[u8; 4]| dir.iter().find(|(tag, _, _)| tag == t).cloned();
    // targeted fields
    if rng.chance(1, 3) {
        if let Some((_, off, len)) = find(b"head") {
            if len >= 54 {
                let v = *rng.pick(&[0u16, 1, 15, 16, 17, 64, 16384, 16385, 32768, 65535]);
                edits.push(("head+18 unitsPerEm".to_string(), off + 18, v.to_be_bytes().to_vec()));
            }
        }
    }
    if rng.chance(1, 6) {
        if let Some((_, off, len)) = find(b"fvar") {
            // first axis record: min / default / max
            if len >= 16 + 20 {
                let ao = u16::from_be_bytes([b[off + 4], b[off + 5]]) as usize;
                if ao + 20 <= len {
                    for k in 0..3 {
                        if rng.chance(2, 3) {
                            let v = *rng.pick(E32);
                            edits.push((format!("fvar+{} axis0.{}", ao + 4 + 4 * k, ["min", "default", "max"][k]), off + ao + 4 + 4 * k, v.to_be_bytes().to_vec()));
                        }
                    }
                }
            }
        }
    }
    if rng.chance(1, 6) {
        if let Some((_, off, len)) = find(b"cvt ") {
            for k in 0..len / 2 {
                if rng.chance(1, 2) {
                    let v = *rng.pick(&[0x7FFFu16, 0x8000]);
                    edits.push((format!("cvt +{}", 2 * k), off + 2 * k, v.to_be_bytes().to_vec()));
                }
            }
        }
    }
    // variable COLR: VarIndexBase-like longs close to u32::MAX anywhere in the table
    if fonts[fi].0.contains("COLR") && rng.chance(1, 3) {
        if let Some((_, off, len)) = find(b"COLR") {
            for _ in 0..rng.range(1, 3) {
                if len > 8 {
                    let rel = rng.below((len - 4) as u64) as usize;
                    // near u32::MAX (index-map branch) and near every 16-bit boundary (the branch without a
                    // DeltaSetIndexMap truncates the index to the inner u16)
                    let v = *rng.pick(&[0xFFFFFFFEu32, 0xFFFFFFFD, 0xFFFFFFFC, 0xFFFFFFFB, 0xFFFFFFF0, 0x0000FFFF, 0x0000FFFE, 0x0000FFFD, 0x0000FFFC, 0x00010000, 0x0001FFFF, 0x0001FFFD, 0x7FFFFFFF, 0x8000FFFE, 0]);
                    edits.push((format!("COLR+{}", rel), off + rel, v.to_be_bytes().to_vec()));
                }
            }
        }
    }
    // glyph-keyed IFT bases: non-monotonic glyph data offsets (loca / gvar offsets)
    if fonts[fi].0.contains("glyph_keyed") && rng.chance(1, 2) {
        if let (Some((_, hoff, hlen)), Some((_, off, len))) = (find(b"head"), find(b"loca")) {
            let long = hlen >= 52 && b[hoff + 51] != 0;
            let w = if long { 4 } else { 2 };
            for _ in 0..rng.range(1, 2) {
                let k = rng.range(0, 16.min((len / w) as i64 - 1).max(0)) as usize;
                let v: u32 = *rng.pick(&[0u32, 1, 2, 0xFFFF, 0xFFFFFFFF, 0x7FFF, 0x8000]);
                let bytes = if long { v.to_be_bytes().to_vec() } else { (v as u16).to_be_bytes().to_vec() };
                edits.push((format!("loca+{} (entry {})", k * w, k), off + k * w, bytes));
            }
        }
        if let Some((at, osz, count)) = charstrings_index_pos(b) {
            // structural damage to the CharStrings INDEX offsets: first > second, dips, equal runs, first != 1, last < previous
            if (1..=4).contains(&osz) {
                for _ in 0..rng.range(1, 2) {
                    let k = if rng.chance(1, 3) { 0 } else if rng.chance(1, 6) { count } else { rng.range(0, 8.min(count as i64)) as usize };
                    let cur = |k: usize| -> u32 { let mut v = 0u32; for i in 0..osz { v = (v << 8) | b[at + k * osz + i] as u32; } v };
                    let prev = if k > 0 { cur(k - 1) } else { 1 };
                    let next = if k < count { cur(k + 1) } else { prev };
                    let v: u32 = *rng.pick(&[0u32, 1, 2, prev, prev.wrapping_sub(1), next, next.wrapping_add(1), next.wrapping_add(40), 0xFFFF, 0xFFFFFF, 0xFFFFFFFF, cur(k).wrapping_add(1)]);
                    if at + (k + 1) * osz <= b.len() {
                        edits.push((format!("CharStrings INDEX offset[{}] (absolute file offset {})", k, at + k * osz), at + k * osz, v.to_be_bytes()[4 - osz..].to_vec()));
                    }
                }
            }
        }
        if rng.chance(1, 3) {
            if let Some((_, off, len)) = find(b"gvar") {
                // glyph variation data offsets start at 20
                let k = rng.range(0, 16) as usize;
                if 20 + 2 * k + 2 <= len {
                    let v = *rng.pick(&[0u16, 1, 0xFFFF, 0x7FFF]);
                    edits.push((format!("gvar+{} (offset {})", 20 + 2 * k, k), off + 20 + 2 * k, v.to_be_bytes().to_vec()));
                }
            }
        }
    }
    // generic pokes in the tables that feed arithmetic
    const TABS: &[&[u8; 4]] = &[b"head", b"hhea", b"OS/2", b"hmtx", b"glyf", b"glyf", b"glyf", b"loca", b"maxp", b"cvt ", b"fvar", b"avar", b"gvar", b"gvar", b"HVAR", b"MVAR", b"cvar", b"COLR", b"COLR", b"COLR", b"CPAL", b"post", b"cmap", b"cmap", b"CFF ", b"CFF2", b"GDEF", b"GSUB", b"GPOS", b"vhea", b"vmtx", b"VORG", b"VVAR", b"hdmx", b"EBLC", b"CBLC", b"sbix", b"prep", b"fpgm", b"name", b"STAT", b"kern", b"IFT ", b"IFT ", b"IFT ", b"IFT ", b"IFT ", b"IFT "];
    let n = if edits.is_empty() { rng.range(1, 4) } else { rng.range(0, 2) };
    for _ in 0..n {
        let mut tries = 0;
        loop {
            tries += 1;
            if tries > 20 {
                break;
            }
            let t = *rng.pick(TABS);
            if let Some((tag, off, len)) = find(t) {
                if len < 4 {
                    continue;
                }
                let w = *rng.pick(&[1usize, 2, 2, 2, 2, 4]);
                let rel = (rng.below((len - w + 1) as u64) as usize) & !(if w >= 2 && rng.chance(7, 8) { 1 } else { 0 });
                let bytes = match w {
                    1 => vec![*rng.pick(&[0u8, 1, 0x7F, 0x80, 0xFF])],
                    2 => rng.pick(E16).to_be_bytes().to_vec(),
                    _ => rng.pick(E32).to_be_bytes().to_vec(),
                };
                edits.push((format!("{}+{}", String::from_utf8_lossy(&tag), rel), off + rel, bytes));
                break;
            }
        }
    }
    Mutation { font: fi, edits }
}

fn apply_mutation(fonts: &[(&'static str, Vec<u8>)], m: &Mutation) -> Vec<u8> {
    let mut b = fonts[m.font].1.clone();
    for (_, off, bytes) in &m.edits {
        if off + bytes.len() <= b.len() {
            b[*off..off + bytes.len()].copy_from_slice(bytes);
        }
    }
    b
}

struct NopPen;
impl OutlinePen for NopPen {
    fn move_to(&mut self, _: f32, _: f32) {}
    fn line_to(&mut self, _: f32, _: f32) {}
    fn quad_to(&mut self, _: f32, _: f32, _: f32, _: f32) {}
    fn curve_to(&mut self, _: f32, _: f32, _: f32, _: f32, _: f32, _: f32) {}
    fn close(&mut self) {}
}

struct NopPainter;
impl skrifa::color::ColorPainter for NopPainter {
    fn push_transform(&mut self, _: skrifa::color::Transform) {}
    fn pop_transform(&mut self) {}
    fn push_clip_glyph(&mut self, _: GlyphId) {}
    fn push_clip_box(&mut self, _: read_fonts::types::BoundingBox<f32>) {}
    fn pop_clip(&mut self) {}
    fn fill(&mut self, _: skrifa::color::Brush<'_>) {}
    fn push_layer(&mut self, _: skrifa::color::CompositeMode) {}
    fn pop_layer(&mut self) {}
}

const API_NAMES: &[&str] = &[
    "metrics", "glyph_metrics", "charmap", "draw_unhinted", "draw_hinted_interpreter", "draw_autohint", "color_paint",
    "names_attrs", "klippa_subset", "ift_select", "draw_harfbuzz_style", "bitmap_tables", "ift_apply", "bitmap_strikes", "sparse_bit_set", "layout_parse_anywhere", "svg_and_misc_lookups", "postscript_index",
];

/// Runs API number `api` on the font bytes; all randomness from (sel).
fn run_api(bytes: &[u8], api: usize, sel: u64) -> Result<(), Trap> {
    let bytes = bytes.to_vec();
    catch_loc(move || {
        let mut rng = Rng::new(sel);
        if api == 14 {
            // not a font: [bias u32][max_value u32][sparse bit set stream] (the IFT codepoint-set decoder)
            if bytes.len() >= 8 {
                let bias = u32::from_be_bytes([bytes[0], bytes[1], bytes[2], bytes[3]]);
                let maxv = u32::from_be_bytes([bytes[4], bytes[5], bytes[6], bytes[7]]);
                if let Ok((set, _rest)) = read_fonts::collections::IntSet::<u32>::from_sparse_bit_set_bounded(&bytes[8..], bias, maxv) {
                    let _ = (set.first(), set.last(), set.iter_ranges().take(64).count());
                }
                if maxv == u32::MAX && bias == 0 {
                    let _ = read_fonts::collections::IntSet::<u32>::from_sparse_bit_set(&bytes[8..]);
                }
            }
            return;
        }
        if api == 17 {
            // not a font: a CFF / CFF2 INDEX blob; object lookups at the boundary indices
            use read_fonts::tables::postscript::{Index1, Index2};
            let idx = |count: usize| -> Vec<usize> {
                vec![0, 1, count.wrapping_sub(1), count, count.wrapping_add(1), usize::MAX - 1, usize::MAX, 107, 1131, 32768, usize::MAX / 2]
            };
            if let Ok(ix) = Index1::read(FontData::new(&bytes)) {
                for i in idx(ix.count() as usize) {
                    let _ = ix.get_offset(i);
                    let _ = ix.get(i);
                }
            }
            if let Ok(ix) = Index2::read(FontData::new(&bytes)) {
                for i in idx(ix.count() as usize) {
                    let _ = ix.get_offset(i);
                    let _ = ix.get(i);
                }
            }
            return;
        }
        let Ok(font) = FontRef::new(&bytes) else { return };
        let ng = font.maxp().map(|m| m.num_glyphs()).unwrap_or(0) as u32;
        let gids: Vec<u32> = {
            let mut v = vec![0u32, 1, 2, 3];
            for _ in 0..4 {
                v.push(rng.below(ng.max(1) as u64) as u32);
            }
            v.push(ng.saturating_sub(1));
            v.push(ng);
            v.push(65535);
            v
        };
        let sizes = [Size::unscaled(), Size::new(16.0), Size::new(1.0), Size::new(65535.0), Size::new(1.0e9), Size::new(0.0), Size::new(11.3), Size::new(8.0), Size::new(64.0), Size::new(1000.0)];
        let size = sizes[rng.below(sizes.len() as u64) as usize];
        let axes = font.axes();
        let loc = {
            let vals = [f32::MIN, -1.0e9, -40000.0, -1.0, 0.0, 1.0, 100.0, 400.0, 900.0, 40000.0, 1.0e9, f32::MAX, f32::NAN, f32::INFINITY];
            let settings: Vec<(skrifa::Tag, f32)> = axes.iter().map(|a| (a.tag(), if rng.chance(1, 3) { a.default_value() } else { vals[rng.below(vals.len() as u64) as usize] })).collect();
            axes.location(settings)
        };
        let use_loc = rng.chance(2, 3);
        let lref = if use_loc { LocationRef::from(&loc) } else { LocationRef::default() };
        match api {
            0 => {
                for s in sizes {
                    let m = font.metrics(s, lref);
                    let _ = (m.ascent, m.underline, m.bounds);
                }
            }
            1 => {
                let gm = font.glyph_metrics(size, lref);
                for g in &gids {
                    let _ = gm.advance_width(GlyphId::new(*g));
                    let _ = gm.left_side_bearing(GlyphId::new(*g));
                    let _ = gm.bounds(GlyphId::new(*g));
                }
            }
            2 => {
                let cm = font.charmap();
                for (i, _) in cm.mappings().enumerate() {
                    if i > 3000 {
                        break;
                    }
                }
                for (i, _) in cm.variant_mappings().enumerate() {
                    if i > 3000 {
                        break;
                    }
                }
                for c in [0u32, 0x20, 0x41, 0xFFFF, 0x10000, 0x10FFFF, 0xE000, 0x4E00] {
                    let _ = cm.map(c);
                    let _ = cm.map_variant(c, 0xFE00u32);
                }
            }
            3 | 10 => {
                let o = font.outline_glyphs();
                for g in &gids {
                    if let Some(gl) = o.get(GlyphId::new(*g)) {
                        let mut st = DrawSettings::unhinted(size, lref);
                        if api == 10 {
                            st = st.with_path_style(skrifa::outline::pen::PathStyle::HarfBuzz);
                        }
                        let _ = gl.draw(st, &mut NopPen);
                    }
                }
            }
            4 => {
                let o = font.outline_glyphs();
                let opts = HintingOptions { engine: Engine::Interpreter, target: target_of(rng.range(0, 3) as u8) };
                if let Ok(inst) = HintingInstance::new(&o, size, lref, opts) {
                    let ped = rng.chance(1, 3);
                    for g in &gids {
                        if let Some(gl) = o.get(GlyphId::new(*g)) {
                            let _ = gl.draw(DrawSettings::hinted(&inst, ped), &mut NopPen);
                        }
                    }
                }
            }
            5 => {
                if std::env::var("C20_TRACE").is_ok() {
                    eprintln!("AUTOHINT size={:?} use_loc={} gids={:?}", size, use_loc, gids);
                }
                let o = font.outline_glyphs();
                let engine = if rng.chance(1, 4) { Engine::AutoFallback } else { Engine::Auto(None) };
                let opts = HintingOptions { engine, target: target_of(rng.range(0, 3) as u8) };
                let gids: Vec<u32> = if ng <= 64 { (0..ng).chain([ng, 65535]).collect() } else { gids.clone() };
                if let Ok(inst) = HintingInstance::new(&o, size, lref, opts) {
                    for g in &gids {
                        if let Some(gl) = o.get(GlyphId::new(*g)) {
                            if std::env::var("C20_TRACE").is_ok() {
                                eprintln!("AUTOHINT draw gid {}", g);
                            }
                            let _ = gl.draw(DrawSettings::hinted(&inst, false), &mut NopPen);
                        }
                    }
                }
            }
            6 => {
                let cg = font.color_glyphs();
                let all: Vec<u32> = if font.colr().is_ok() { (0..ng.min(400)).collect() } else { vec![] };
                for g in gids.iter().chain(all.iter()) {
                    if let Some(gl) = cg.get(GlyphId::new(*g)) {
                        let _ = gl.bounding_box(lref, size);
                        let _ = gl.paint(lref, &mut NopPainter);
                    }
                }
            }
            7 => {
                let _ = font.attributes();
                for ni in font.named_instances().iter() {
                    let _ = ni.location();
                    let _ = ni.user_coords().count();
                }
                for id in [1u16, 2, 4, 6, 256, 65535] {
                    for s in font.localized_strings(skrifa::string::StringId::new(id)) {
                        let _ = s.chars().count();
                    }
                }
                let gn = font.glyph_names();
                for g in &gids {
                    let _ = gn.get(GlyphId::new(*g));
                }
                for a in axes.iter() {
                    for v in [f32::MIN, -1.0, 0.0, 1.0, f32::MAX] {
                        let _ = a.normalize(v);
                    }
                }
            }
            8 => {
                use klippa::{subset_font, Plan, SubsetFlags};
                use read_fonts::collections::IntSet;
                let mut g = IntSet::<GlyphId>::empty();
                for x in &gids {
                    g.insert(GlyphId::new(*x));
                }
                let mut unis = IntSet::<u32>::empty();
                if rng.chance(1, 2) {
                    unis.insert_range(0x20..=0x7E);
                    unis.insert(0x4E00);
                }
                let mut drop = IntSet::<skrifa::Tag>::empty();
                for t in [b"morx", b"kern", b"DSIG", b"EBDT", b"EBLC"] {
                    drop.insert(skrifa::Tag::new(t));
                }
                let mut scripts = IntSet::<skrifa::Tag>::empty();
                scripts.invert();
                let mut feats = IntSet::<skrifa::Tag>::empty();
                feats.extend(klippa::DEFAULT_LAYOUT_FEATURES.iter().copied());
                let mut name_ids = IntSet::<read_fonts::types::NameId>::empty();
                name_ids.insert_range(read_fonts::types::NameId::from(0)..=read_fonts::types::NameId::from(6));
                let mut langs = IntSet::<u16>::empty();
                langs.insert(0x0409);
                let flags = *rng.pick(&[0u16, 1, 2, 0x10, 0x200, 0x3FF]);
                let plan = Plan::new(&g, &unis, &font, SubsetFlags::from(flags), &drop, &scripts, &feats, &name_ids, &langs);
                let _ = subset_font(&font, &plan);
            }
            9 => {
                use incremental_font_transfer::patch_group::PatchGroup;
                use incremental_font_transfer::patchmap::{intersecting_patches, SubsetDefinition};
                use read_fonts::collections::IntSet;
                let d = if rng.chance(1, 2) {
                    SubsetDefinition::all()
                } else {
                    let mut cps = IntSet::<u32>::empty();
                    cps.insert_range(0..=0x100);
                    cps.insert(0x10FFFF);
                    SubsetDefinition::codepoints(cps)
                };
                let _ = intersecting_patches(&font, &d);
                let _ = PatchGroup::select_next_patches(font.clone(), &d).map(|g| g.uris().count());
            }
            12 => {
                use incremental_font_transfer::patch_group::{PatchGroup, UriStatus};
                use incremental_font_transfer::patchmap::SubsetDefinition;
                use read_fonts::collections::IntSet;
                let d = if rng.chance(1, 2) {
                    SubsetDefinition::all()
                } else {
                    let mut cps = IntSet::<u32>::empty();
                    cps.insert_range(0..=0x100);
                    SubsetDefinition::codepoints(cps)
                };
                if let Ok(g) = PatchGroup::select_next_patches(font.clone(), &d) {
                    let uris: Vec<String> = g.uris().map(|s| s.to_string()).collect();
                    let mut map = std::collections::HashMap::new();
                    for u in uris {
                        let glyph_keyed = ng > 4; // only the bigger IFT bases (SIMPLE_GLYF has 3 glyphs) carry the glyph-keyed map
                        let k = if glyph_keyed { 2 + rng.below(5) } else if rng.chance(1, 2) { rng.below(2) } else { 2 + rng.below(5) };
                        let mut pbytes = if glyph_keyed && rng.chance(2, 3) {
                            // a glyph-keyed patch generated for the tables this base actually has, with a random glyph id
                            // set (so that any run of neighbouring glyphs can be the retained / replaced one)
                            let mut tags: Vec<[u8; 4]> = vec![];
                            for t in [b"glyf", b"gvar", b"CFF ", b"CFF2"] {
                                if font.table_data(skrifa::Tag::new(t)).is_some() && (tags.is_empty() || rng.chance(1, 2)) {
                                    tags.push(*t);
                                }
                            }
                            let mut gl: Vec<u32> = (0..ng.min(24)).filter(|_| rng.chance(1, 4)).collect();
                            if gl.is_empty() {
                                gl.push(rng.below(ng.max(1) as u64) as u32);
                            }
                            if rng.chance(1, 8) {
                                gl.push(ng + rng.range(0, 2) as u32);
                            }
                            gen_glyph_keyed_patch(&mut rng, &tags, &gl)
                        } else {
                            ift_patch_pool(k as usize)
                        };
                        for _ in 0..rng.range(0, 3) {
                            if pbytes.len() > 24 {
                                let w = *rng.pick(&[1usize, 2, 4]);
                                let at = 8 + rng.below((pbytes.len() - 8 - w) as u64) as usize;
                                let v: Vec<u8> = match w {
                                    1 => vec![*rng.pick(&[0u8, 1, 0x7F, 0x80, 0xFF])],
                                    2 => rng.pick(E16).to_be_bytes().to_vec(),
                                    _ => rng.pick(E32).to_be_bytes().to_vec(),
                                };
                                pbytes[at..at + w].copy_from_slice(&v);
                            }
                        }
                        map.insert(u, UriStatus::Pending(pbytes));
                    }
                    let r = g.apply_next_patches_with_decoder(&mut map, &LenientDecoder);
                    if std::env::var("C20_TRACE").is_ok() {
                        eprintln!("IFTAPPLY {:?}", r.as_ref().map(|v| v.len()));
                    }
                }
            }
            13 => {
                let all: Vec<u32> = gids.iter().cloned().chain(0..ng.min(64)).collect();
                if let (Ok(loc_t), Ok(dat)) = (font.cblc(), font.cbdt()) {
                    for size in loc_t.bitmap_sizes() {
                        let _ = (size.ppem_x(), size.ppem_y(), size.hori.ascender(), size.vert.descender());
                        for g in &all {
                            if let Ok(l) = size.location(loc_t.offset_data(), GlyphId::new(*g)) {
                                let _ = dat.data(&l);
                            }
                        }
                    }
                }
                if let (Ok(loc_t), Ok(dat)) = (font.eblc(), font.ebdt()) {
                    for size in loc_t.bitmap_sizes() {
                        for g in &all {
                            if let Ok(l) = size.location(loc_t.offset_data(), GlyphId::new(*g)) {
                                let _ = dat.data(&l);
                            }
                        }
                    }
                }
                if let Ok(sbix) = font.sbix() {
                    for strike in sbix.strikes().iter().flatten() {
                        for g in &all {
                            let _ = strike.glyph_data(GlyphId::new(*g));
                        }
                    }
                }
            }
            15 => {
                // Coverage / ClassDef / Device / Anchor readers applied at every even offset of the layout tables
                // (every offset is reachable for a hostile font: offsets are font data), a fresh catch per offset.
                use read_fonts::tables::gpos::AnchorTable;
                use read_fonts::tables::layout::{ClassDef, CoverageTable, DeviceOrVariationIndex};
                use read_fonts::collections::IntSet;
                let mut first_trap: Option<Box<dyn std::any::Any + Send>> = None;
                let mut set = IntSet::<GlyphId>::empty();
                for g in &gids {
                    set.insert(GlyphId::new(*g));
                }
                set.insert_range(GlyphId::new(10)..=GlyphId::new(12));
                for tag in [b"GDEF", b"GPOS", b"GSUB", b"BASE", b"JSTF", b"MATH"] {
                    let Some(data) = font.table_data(skrifa::Tag::new(tag)) else { continue };
                    let b = data.as_bytes();
                    let n_all = b.len() / 2;
                    let n_off = n_all.min(400);
                    let start = if n_all > 0 { rng.below(n_all as u64) as usize } else { 0 };
                    for k in 0..n_off {
                        let off = 2 * ((start + k) % n_all);
                        let Some(d) = data.split_off(off) else { continue };
                        let u = |i: usize| b.get(off + i).map(|x| (*x as u32) << 8).unwrap_or(0) | b.get(off + i + 1).map(|x| *x as u32).unwrap_or(0);
                        let probe: Vec<u32> = vec![0, 1, 2, 0xFFFF, 0xFFFE, ng.saturating_sub(1), u(2), u(4), u(6), u(6).wrapping_sub(1), u(4).wrapping_add(1), u(10), u(12)];
                        let set = &set;
                        let r = std::panic::catch_unwind(std::panic::AssertUnwindSafe(|| {
                            if let Ok(c) = CoverageTable::read(d) {
                                for g in &probe {
                                    let _ = c.get(GlyphId::new(*g));
                                }
                                let _ = c.iter().take(70000).count();
                                let _ = c.intersects(set);
                                let _ = match &c {
                                    CoverageTable::Format1(t) => t.population(),
                                    CoverageTable::Format2(t) => t.population(),
                                };
                            }
                            if let Ok(c) = ClassDef::read(d) {
                                for g in &probe {
                                    let _ = c.get(read_fonts::types::GlyphId16::new(*g as u16));
                                }
                                let _ = c.iter().take(70000).count();
                                let _ = c.population();
                            }
                            if let Ok(DeviceOrVariationIndex::Device(dev)) = DeviceOrVariationIndex::read(d) {
                                let _ = dev.iter().take(70000).count();
                            }
                            if let Ok(AnchorTable::Format3(a)) = AnchorTable::read(d) {
                                for dv in [a.x_device(), a.y_device()].into_iter().flatten().flatten() {
                                    if let DeviceOrVariationIndex::Device(dev) = dv {
                                        let _ = dev.iter().take(70000).count();
                                    }
                                }
                            }
                        }));
                        if let Err(e) = r {
                            if first_trap.is_none() {
                                first_trap = Some(e);
                            }
                            break;
                        }
                    }
                }
                if let Some(e) = first_trap {
                    std::panic::resume_unwind(e);
                }
            }
            16 => {
                // SVG documents for every glyph, plus the remaining per-glyph lookups of read-fonts' hand-written tables
                let all: Vec<u32> = gids.iter().cloned().chain(0..ng.min(300)).collect();
                if let Ok(svg) = font.svg() {
                    for g in all.iter().chain([0xFFFFu32, 0xFFFE, 0x10000].iter()) {
                        let _ = svg.glyph_data(GlyphId::new(*g));
                    }
                }
                if let Ok(t) = font.vmtx() {
                    for g in &all {
                        let _ = (t.advance(GlyphId::new(*g)), t.side_bearing(GlyphId::new(*g)));
                    }
                }
                if let Ok(t) = font.hmtx() {
                    for g in &all {
                        let _ = (t.advance(GlyphId::new(*g)), t.side_bearing(GlyphId::new(*g)));
                    }
                }
                if let Ok(t) = font.vvar() {
                    for g in &all {
                        let _ = t.advance_height_delta(GlyphId::new(*g), loc.coords());
                        let _ = t.tsb_delta(GlyphId::new(*g), loc.coords());
                        let _ = t.v_org_delta(GlyphId::new(*g), loc.coords());
                    }
                }
                if let Ok(t) = font.mvar() {
                    for tag in [b"hasc", b"hdsc", b"xhgt", b"undo", b"strs"] {
                        let _ = t.metric_delta(skrifa::Tag::new(tag), loc.coords());
                    }
                }
                if let (Ok(loca), Ok(glyf)) = (font.loca(None), font.glyf()) {
                    for g in &all {
                        if let Ok(Some(gl)) = loca.get_glyf(GlyphId::new(*g), &glyf) {
                            match gl {
                                read_fonts::tables::glyf::Glyph::Simple(s) => {
                                    let _ = s.points().take(70000).count();
                                    let _ = s.num_points();
                                }
                                read_fonts::tables::glyf::Glyph::Composite(c) => {
                                    let _ = c.components().take(1000).count();
                                    let _ = c.instructions();
                                }
                            }
                        }
                    }
                }
                if let Ok(gvar) = font.gvar() {
                    for g in &all {
                        if let Ok(Some(vd)) = gvar.glyph_variation_data(GlyphId::new(*g)) {
                            for (t, _) in vd.active_tuples_at(loc.coords()).take(64) {
                                let _ = t.deltas().take(70000).count();
                            }
                        }
                    }
                }
                if let Ok(name) = font.name() {
                    for r in name.name_record().iter().take(200) {
                        if let Ok(s) = r.string(name.string_data()) {
                            let _ = s.chars().take(1000).count();
                        }
                    }
                }
                if let Ok(post) = font.post() {
                    for g in &all {
                        let _ = post.glyph_name(read_fonts::types::GlyphId16::new(*g as u16));
                    }
                }
                if let Ok(colr) = font.colr() {
                    for g in all.iter().chain([0xFFFFu32, 0x10000].iter()) {
                        let _ = colr.v0_base_glyph(GlyphId::new(*g));
                        let _ = colr.v1_base_glyph(GlyphId::new(*g));
                        let _ = colr.v1_clip_box(GlyphId::new(*g));
                    }
                    for i in [0usize, 1, 2, 100, 0xFFFF, 0xFFFFFFFF, usize::MAX] {
                        let _ = colr.v1_layer(i);
                    }
                }
                if let Ok(loca) = font.loca(None) {
                    for i in all.iter().map(|g| *g as usize).chain([usize::MAX, 0xFFFF, 0x10000]) {
                        let _ = loca.get_raw(i);
                    }
                    if let (Ok(gvar), Ok(glyf)) = (font.gvar(), font.glyf()) {
                        for g in &all {
                            let _ = gvar.phantom_point_deltas(&glyf, &loca, loc.coords(), GlyphId::new(*g));
                        }
                    }
                }
                {
                    use read_fonts::tables::variations::DeltaSetIndex;
                    let stores = [font.hvar().ok().and_then(|t| t.item_variation_store().ok()), font.mvar().ok().and_then(|t| t.item_variation_store().and_then(|s| s.ok())), font.colr().ok().and_then(|t| t.item_variation_store().and_then(|s| s.ok()))];
                    for store in stores.into_iter().flatten() {
                        for (o, i) in [(0u16, 0u16), (0, 1), (1, 0), (0, 0xFFFF), (0xFFFF, 0), (0xFFFF, 0xFFFF), (0, 100)] {
                            let _ = store.compute_delta(DeltaSetIndex { outer: o, inner: i }, loc.coords());
                            let _ = store.compute_float_delta(DeltaSetIndex { outer: o, inner: i }, loc.coords());
                        }
                    }
                }
                if let Ok(name) = font.name() {
                    if let Some(recs) = name.lang_tag_record() {
                        for r in recs.iter().take(50) {
                            let _ = r.lang_tag(name.string_data()).map(|s| s.chars().take(100).count());
                        }
                    }
                }
                if let Some(Ok(ift)) = font.data_for_tag(skrifa::Tag::new(b"IFT ")).map(read_fonts::tables::ift::Ift::read) {
                    if let read_fonts::tables::ift::Ift::Format1(m) = ift {
                        let _ = m.entry_count();
                        for i in [0u16, 1, 7, 8, 299, 400, 0xFFFF, 0xFFF8] {
                            let _ = m.is_entry_applied(i);
                        }
                    }
                }
            }
            _ => {
                if let Ok(t) = font.hdmx() {
                    let _ = t.record_for_size(16);
                }
                if let Ok(t) = font.vorg() {
                    for g in &gids {
                        let _ = t.vertical_origin_y(GlyphId::new(*g));
                    }
                }
                if let Ok(t) = font.post() {
                    for g in &gids {
                        let _ = t.glyph_name(read_fonts::types::GlyphId16::new(*g as u16));
                    }
                }
                if let (Ok(hvar), true) = (font.hvar(), true) {
                    for g in &gids {
                        let _ = hvar.advance_width_delta(GlyphId::new(*g), loc.coords());
                        let _ = hvar.lsb_delta(GlyphId::new(*g), loc.coords());
                    }
                }
            }
        }
    })
}

/// brotli if the stream decodes, otherwise the bytes as they are (so that hand-made glyph-keyed payloads work)
struct LenientDecoder;
impl shared_brotli_patch_decoder::SharedBrotliDecoder for LenientDecoder {
    fn decode(&self, encoded: &[u8], dict: Option<&[u8]>, max: usize) -> Result<Vec<u8>, shared_brotli_patch_decoder::decode_error::DecodeError> {
        match shared_brotli_patch_decoder::BuiltInBrotliDecoder.decode(encoded, dict, max) {
            Ok(v) => Ok(v),
            Err(e) => {
                if encoded.len() <= max {
                    Ok(encoded.to_vec())
                } else {
                    Err(e)
                }
            }
        }
    }
}

/// glyph-keyed patch ("ifgk", compat id 1,2,3,4, uncompressed payload accepted by LenientDecoder)
fn gen_glyph_keyed_patch(rng: &mut Rng, tags: &[[u8; 4]], gids: &[u32]) -> Vec<u8> {
    let mut payload = vec![];
    be32(&mut payload, gids.len() as u32);
    payload.push(tags.len() as u8);
    for g in gids {
        be16(&mut payload, *g as u16);
    }
    for t in tags {
        payload.extend_from_slice(t);
    }
    let n = gids.len() * tags.len();
    let data_start = payload.len() + 4 * (n + 1);
    let mut off = data_start as u32;
    let mut datas = vec![];
    for _ in 0..n {
        be32(&mut payload, off);
        let len = rng.range(0, 6) as usize;
        let d: Vec<u8> = (0..len).map(|_| if rng.chance(1, 2) { 14 } else { rng.next_u32() as u8 }).collect();
        off += d.len() as u32;
        datas.push(d);
    }
    be32(&mut payload, off);
    for d in datas {
        payload.extend(d);
    }
    let mut v = vec![];
    v.extend_from_slice(b"ifgk");
    be32(&mut v, 0);
    v.push(0);
    for k in [1u32, 2, 3, 4] {
        be32(&mut v, k);
    }
    be32(&mut v, payload.len() as u32);
    v.extend(payload);
    v
}

/// (absolute offset of the offsets array, offSize, count) of the CharStrings INDEX of a CFF / CFF2 font
fn charstrings_index_pos(bytes: &[u8]) -> Option<(usize, usize, usize)> {
    use read_fonts::tables::postscript::dict::{entries, Entry};
    let font = FontRef::new(bytes).ok()?;
    let dir = table_dir(bytes);
    if let Ok(cff) = font.cff() {
        let (_, toff, _) = dir.iter().find(|(t, _, _)| t == b"CFF ")?;
        let top = cff.top_dicts().get(0).ok()?;
        let cs = entries(top, None).filter_map(|e| e.ok()).find_map(|e| if let Entry::CharstringsOffset(o) = e { Some(o) } else { None })?;
        let at = toff + cs;
        let count = u16::from_be_bytes([*bytes.get(at)?, *bytes.get(at + 1)?]) as usize;
        return Some((at + 3, *bytes.get(at + 2)? as usize, count));
    }
    if let Ok(cff2) = font.cff2() {
        let (_, toff, _) = dir.iter().find(|(t, _, _)| t == b"CFF2")?;
        let cs = entries(cff2.top_dict_data(), None).filter_map(|e| e.ok()).find_map(|e| if let Entry::CharstringsOffset(o) = e { Some(o) } else { None })?;
        let at = toff + cs;
        let count = u32::from_be_bytes([*bytes.get(at)?, *bytes.get(at + 1)?, *bytes.get(at + 2)?, *bytes.get(at + 3)?]) as usize;
        return Some((at + 5, *bytes.get(at + 4)? as usize, count));
    }
    None
}

fn ift_patch_pool(k: usize) -> Vec<u8> {
    use font_test_data::ift as t;
    let gk = |payload: font_test_data::bebuffer::BeBuffer, compat: bool| -> Vec<u8> {
        let mut h = t::glyph_keyed_patch_header();
        h.write_at("max_uncompressed_length", payload.as_slice().len() as u32);
        if compat {
            h.write_at("compatibility_id", 1u32);
        }
        let mut v = h.as_slice().to_vec();
        if compat {
            // compat id (1,2,3,4) as used by the format 2 test maps
            v[9..25].copy_from_slice(&[0, 0, 0, 1, 0, 0, 0, 2, 0, 0, 0, 3, 0, 0, 0, 4]);
        }
        v.extend_from_slice(payload.as_slice());
        v
    };
    match k {
        0 => t::table_keyed_patch().as_slice().to_vec(),
        1 => t::noop_table_keyed_patch().as_slice().to_vec(),
        2 => gk(t::glyf_u16_glyph_patches(), true),
        3 => gk(t::glyf_u24_glyph_patches(), true),
        4 => gk(t::glyf_and_gvar_u16_glyph_patches(), true),
        5 => gk(t::glyf_u16_glyph_patches_2(), true),
        _ => gk(t::noop_glyf_glyph_patches(), true),
    }
}

fn load_fonts() -> Vec<(&'static str, Vec<u8>)> {
    use font_test_data as d;
    let mut v: Vec<(&'static str, Vec<u8>)> = vec![
        ("SIMPLE_GLYF", d::SIMPLE_GLYF.to_vec()),
        ("VAZIRMATN_VAR", d::VAZIRMATN_VAR.to_vec()),
        ("CANTARELL_VF_TRIMMED", d::CANTARELL_VF_TRIMMED.to_vec()),
        ("NOTO_SERIF_DISPLAY_TRIMMED", d::NOTO_SERIF_DISPLAY_TRIMMED.to_vec()),
        ("COLRV0V1", d::COLRV0V1.to_vec()),
        ("COLRV0V1_VARIABLE", d::COLRV0V1_VARIABLE.to_vec()),
        ("COLRV1_NO_CLIPLIST", d::COLRV1_NO_CLIPLIST.to_vec()),
        ("COLR_GRADIENT_RECT", d::COLR_GRADIENT_RECT.to_vec()),
        ("CVAR", d::CVAR.to_vec()),
        ("GLYF_COMPONENTS", d::GLYF_COMPONENTS.to_vec()),
        ("TTHINT_SUBSET", d::TTHINT_SUBSET.to_vec()),
        ("TINOS_SUBSET", d::TINOS_SUBSET.to_vec()),
        ("AHEM", d::AHEM.to_vec()),
        ("AVAR2_CHECKER", d::AVAR2_CHECKER.to_vec()),
        ("MATERIAL_SYMBOLS_SUBSET", d::MATERIAL_SYMBOLS_SUBSET.to_vec()),
        ("MATERIAL_ICONS_SUBSET", d::MATERIAL_ICONS_SUBSET.to_vec()),
        ("NOTOSERIFHEBREW_AUTOHINT_METRICS", d::NOTOSERIFHEBREW_AUTOHINT_METRICS.to_vec()),
        ("NOTOSERIF_AUTOHINT_SHAPING", d::NOTOSERIF_AUTOHINT_SHAPING.to_vec()),
        ("AUTOHINT_CMAP", d::AUTOHINT_CMAP.to_vec()),
        ("STARTING_OFF_CURVE", d::STARTING_OFF_CURVE.to_vec()),
        ("MOSTLY_OFF_CURVE", d::MOSTLY_OFF_CURVE.to_vec()),
        ("INTERPOLATE_THIS", d::INTERPOLATE_THIS.to_vec()),
        ("CUBIC_GLYF", d::CUBIC_GLYF.to_vec()),
        ("HVAR_WITH_TRUNCATED_ADVANCE_INDEX_MAP", d::HVAR_WITH_TRUNCATED_ADVANCE_INDEX_MAP.to_vec()),
        ("VORG", d::VORG.to_vec()),
        ("CMAP12_FONT1", d::CMAP12_FONT1.to_vec()),
        ("CMAP14_FONT1", d::CMAP14_FONT1.to_vec()),
        ("CMAP4_SYMBOL_PUA", d::CMAP4_SYMBOL_PUA.to_vec()),
        ("EMBEDDED_BITMAPS", d::EMBEDDED_BITMAPS.to_vec()),
        ("CBDT", d::CBDT.to_vec()),
        ("CHARSTRING_PATH_OPS", d::CHARSTRING_PATH_OPS.to_vec()),
    ];
    // both branches of the COLR variation-index lookup: the variable COLR fonts as they are (with a DeltaSetIndexMap)
    // and with varIndexMapOffset nulled (COLR v1 header offset 26), keeping the ItemVariationStore
    for (name, base) in [("COLRV0V1_VARIABLE:no_var_index_map", d::COLRV0V1_VARIABLE)] {
        let mut b = base.to_vec();
        if let Some((_, off, len)) = table_dir(&b).into_iter().find(|(t, _, _)| t == b"COLR") {
            if len >= 34 && u16::from_be_bytes([b[off], b[off + 1]]) >= 1 {
                b[off + 26..off + 30].copy_from_slice(&[0; 4]);
                v.push((name, b));
            }
        }
    }
    // IFT-carrying fonts: SIMPLE_GLYF + an `IFT ` / `IFTX` table from font-test-data's builders
    let base = FontRef::new(d::SIMPLE_GLYF).unwrap();
    for (name, ift) in [
        ("IFT:simple_format1", d::ift::simple_format1()),
        ("IFT:u16_entries_format1", d::ift::u16_entries_format1()),
        ("IFT:feature_map_format1", d::ift::feature_map_format1()),
        ("IFT:codepoints_only_format2", d::ift::codepoints_only_format2()),
        ("IFT:features_and_design_space_format2", d::ift::features_and_design_space_format2()),
        ("IFT:child_indices_format2", d::ift::child_indices_format2()),
        ("IFT:custom_ids_format2", d::ift::custom_ids_format2()),
        ("IFT:string_ids_format2", d::ift::string_ids_format2()),
        ("IFT:table_keyed_format2", d::ift::table_keyed_format2()),
    ] {
        let mut tabs: Vec<([u8; 4], Vec<u8>)> = vec![];
        for (tag, off, len) in table_dir(d::SIMPLE_GLYF) {
            tabs.push((tag, d::SIMPLE_GLYF[off..off + len].to_vec()));
        }
        let _ = &base;
        tabs.push((*b"IFT ", ift.as_slice().to_vec()));
        let refs: Vec<(&[u8; 4], Vec<u8>)> = tabs.iter().map(|(t, b)| (t, b.clone())).collect();
        v.push((name, sfnt(&refs)));
    }
    // table-keyed patch target (tables tab1/tab2 as in the crate's own tests) and a glyph-keyed map on a bigger font
    {
        let mut tabs: Vec<([u8; 4], Vec<u8>)> = vec![];
        for (tag, off, len) in table_dir(d::SIMPLE_GLYF) {
            tabs.push((tag, d::SIMPLE_GLYF[off..off + len].to_vec()));
        }
        tabs.push((*b"tab1", b"abcdef\n".to_vec()));
        tabs.push((*b"tab2", b"foobar\n".to_vec()));
        tabs.push((*b"IFT ", d::ift::table_keyed_format2().as_slice().to_vec()));
        let refs: Vec<(&[u8; 4], Vec<u8>)> = tabs.iter().map(|(t, b)| (t, b.clone())).collect();
        v.push(("IFT:table_keyed_format2+tab1+tab2", sfnt(&refs)));
        for (name, base) in [
            ("IFT:glyph_keyed_map_on_NOTO_SERIF_DISPLAY_TRIMMED", d::NOTO_SERIF_DISPLAY_TRIMMED),
            ("IFT:glyph_keyed_map_on_HVAR_WITH_TRUNCATED_ADVANCE_INDEX_MAP", d::HVAR_WITH_TRUNCATED_ADVANCE_INDEX_MAP),
            ("IFT:glyph_keyed_map_on_CANTARELL_VF_TRIMMED", d::CANTARELL_VF_TRIMMED),
        ] {
            let mut tabs: Vec<([u8; 4], Vec<u8>)> = vec![];
            for (tag, off, len) in table_dir(base) {
                tabs.push((tag, base[off..off + len].to_vec()));
            }
            // CFF / CFF2 bases need the CharStrings INDEX offset in the patch map (field flags bit 0 / bit 1)
            let cs = charstrings_index_pos(base).and_then(|(at, _, _)| {
                let dir = table_dir(base);
                if let Some((_, toff, _)) = dir.iter().find(|(t, _, _)| t == b"CFF ") {
                    Some((1u8, (at - 3 - toff) as u32))
                } else {
                    dir.iter().find(|(t, _, _)| t == b"CFF2").map(|(_, toff, _)| (2u8, (at - 5 - toff) as u32))
                }
            });
            let map_bytes = if let Some((flag, cs_off)) = cs {
                let mut m = d::ift::format2_with_one_charstrings_offset();
                m.write_at("field_flags", flag);
                m.write_at("charstrings_offset", cs_off);
                m.as_slice().to_vec()
            } else {
                let mut map = d::ift::table_keyed_format2();
                map.write_at("encoding", 3u8); // glyph keyed
                map.as_slice().to_vec()
            };
            tabs.push((*b"IFT ", map_bytes));
            let refs: Vec<(&[u8; 4], Vec<u8>)> = tabs.iter().map(|(t, b)| (t, b.clone())).collect();
            v.push((name, sfnt(&refs)));
        }
    }
    v
}

// ------------------------------------------------------------------------------------------------
// (b3) structured extreme-value fonts: IFT format-1 feature maps with huge counts, a variable TrueType
//      font with extreme gvar deltas, a CFF font whose charstrings carry extreme operands
// ------------------------------------------------------------------------------------------------
fn simple_glyf_tables() -> Vec<([u8; 4], Vec<u8>)> {
    let b = font_test_data::SIMPLE_GLYF;
    table_dir(b).into_iter().map(|(t, o, l)| (t, b[o..o + l].to_vec())).collect()
}

/// IFT patch map format 1 built by hand; `recs` = (tag, first_new_entry_index, entry_map_count)
fn build_ift_format1(max_entry: u16, max_glyph_entry: u16, recs: &[([u8; 4], u16, u16)], entry_fill: &[(u16, u16)], pad_to_counts: bool) -> Vec<u8> {
    let mut t = vec![1u8];
    be32(&mut t, 0);
    for k in [1u32, 2, 3, 4] {
        be32(&mut t, k);
    }
    be16(&mut t, max_entry);
    be16(&mut t, max_glyph_entry);
    t.extend_from_slice(&[0, 0, 3]); // glyph count (u24) = SIMPLE_GLYF's maxp.numGlyphs
    let off_pos = t.len();
    be32(&mut t, 0);
    be32(&mut t, 0);
    let bitmap = (max_entry as usize + 8) / 8;
    t.extend(std::iter::repeat(0u8).take(bitmap));
    be16(&mut t, 8);
    t.extend_from_slice(&[b'A', b'B', b'C', b'D', b'E', b'F', 0xc9, 0xa4]);
    t.push(3);
    let gm = t.len() as u32;
    be16(&mut t, 2);
    for e in [max_glyph_entry] {
        if max_glyph_entry < 256 {
            t.push(e as u8);
        } else {
            be16(&mut t, e);
        }
    }
    let fm = t.len() as u32;
    t[off_pos..off_pos + 4].copy_from_slice(&gm.to_be_bytes());
    t[off_pos + 4..off_pos + 8].copy_from_slice(&fm.to_be_bytes());
    be16(&mut t, recs.len() as u16);
    for (tag, first, count) in recs {
        t.extend_from_slice(tag);
        be16(&mut t, *first);
        be16(&mut t, *count);
    }
    let total: usize = if pad_to_counts { recs.iter().map(|r| r.2 as usize).sum() } else { entry_fill.len() };
    for k in 0..total {
        let (f, l) = entry_fill.get(k).copied().unwrap_or((0, 0));
        if max_entry < 256 {
            t.push(f as u8);
            t.push(l as u8);
        } else {
            be16(&mut t, f);
            be16(&mut t, l);
        }
    }
    t
}

/// minimal CFF1 table with two glyphs (.notdef = endchar, glyph 1 = `cs`)
fn build_cff(cs: &[u8], private: &[u8], gsubrs: &[Vec<u8>], lsubrs: &[Vec<u8>]) -> Vec<u8> {
    fn index(items: &[&[u8]]) -> Vec<u8> {
        let mut v = vec![];
        be16(&mut v, items.len() as u16);
        if items.is_empty() {
            return v;
        }
        v.push(4);
        let mut off = 1u32;
        be32(&mut v, off);
        for it in items {
            off += it.len() as u32;
            be32(&mut v, off);
        }
        for it in items {
            v.extend_from_slice(it);
        }
        v
    }
    fn int5(v: &mut Vec<u8>, x: i32) {
        v.push(29);
        v.extend_from_slice(&x.to_be_bytes());
    }
    let header = vec![1u8, 0, 4, 4];
    let name = index(&[b"A"]);
    let strings = index(&[]);
    let gsubrs = index(&gsubrs.iter().map(|v| v.as_slice()).collect::<Vec<_>>());
    // local subrs: Private DICT gets `Subrs` (op 19) = offset from the start of the Private DICT
    let mut private = private.to_vec();
    if !lsubrs.is_empty() {
        let off = private.len() + 6;
        int5(&mut private, off as i32);
        private.push(19);
    }
    let lsubrs_index = if lsubrs.is_empty() { vec![] } else { index(&lsubrs.iter().map(|v| v.as_slice()).collect::<Vec<_>>()) };
    let private = &private[..];
    let charstrings = index(&[&[14u8], cs]);
    // top dict: CharStrings (17), Private (18) with 5-byte operands => fixed size 5+1 + 10+1 = 17
    let top_len = 17usize;
    let top_index_len = 2 + 1 + 8 + top_len;
    let cs_off = header.len() + name.len() + top_index_len + strings.len() + gsubrs.len();
    let priv_off = cs_off + charstrings.len();
    let mut top = vec![];
    int5(&mut top, cs_off as i32);
    top.push(17);
    int5(&mut top, private.len() as i32);
    int5(&mut top, priv_off as i32);
    top.push(18);
    assert_eq!(top.len(), top_len);
    let top_index = index(&[&top]);
    assert_eq!(top_index.len(), top_index_len);
    let mut t = header;
    t.extend(name);
    t.extend(top_index);
    t.extend(strings);
    t.extend(gsubrs);
    t.extend(charstrings);
    t.extend_from_slice(private);
    t.extend(lsubrs_index);
    t
}

/// minimal CFF2 table: one font dict, two glyphs (empty, `cs`), global + local subr INDEXes
fn build_cff2(cs: &[u8], private: &[u8], gsubrs: &[Vec<u8>], lsubrs: &[Vec<u8>]) -> Vec<u8> {
    fn index2(items: &[&[u8]]) -> Vec<u8> {
        let mut v = vec![];
        be32(&mut v, items.len() as u32);
        if items.is_empty() {
            return v;
        }
        v.push(4);
        let mut off = 1u32;
        be32(&mut v, off);
        for it in items {
            off += it.len() as u32;
            be32(&mut v, off);
        }
        for it in items {
            v.extend_from_slice(it);
        }
        v
    }
    fn int5(v: &mut Vec<u8>, x: i32) {
        v.push(29);
        v.extend_from_slice(&x.to_be_bytes());
    }
    let gs = index2(&gsubrs.iter().map(|v| v.as_slice()).collect::<Vec<_>>());
    let charstrings = index2(&[&[], cs]);
    let mut private = private.to_vec();
    if !lsubrs.is_empty() {
        let off = private.len() + 6;
        int5(&mut private, off as i32);
        private.push(19);
    }
    let ls = if lsubrs.is_empty() { vec![] } else { index2(&lsubrs.iter().map(|v| v.as_slice()).collect::<Vec<_>>()) };
    // top dict: CharStrings (17), FDArray (12 36): 6 + 7 = 13 bytes
    let top_len = 13usize;
    let cs_off = 5 + top_len + gs.len();
    let fd_dict_len = 11usize; // size offset Private(18)
    let fda_len = 4 + 1 + 8 + fd_dict_len;
    let fda_off = cs_off + charstrings.len();
    let priv_off = fda_off + fda_len;
    let mut top = vec![];
    int5(&mut top, cs_off as i32);
    top.push(17);
    int5(&mut top, fda_off as i32);
    top.extend_from_slice(&[12, 36]);
    assert_eq!(top.len(), top_len);
    let mut fd = vec![];
    int5(&mut fd, private.len() as i32);
    int5(&mut fd, priv_off as i32);
    fd.push(18);
    assert_eq!(fd.len(), fd_dict_len);
    let fda = index2(&[&fd]);
    assert_eq!(fda.len(), fda_len);
    let mut t = vec![2u8, 0, 5];
    be16(&mut t, top_len as u16);
    t.extend(top);
    t.extend(gs);
    t.extend(charstrings);
    t.extend(fda);
    t.extend(private);
    t.extend(ls);
    t
}

fn build_cff_font(cs: &[u8], private: &[u8], upem: u16, cff2: bool, gsubrs: &[Vec<u8>], lsubrs: &[Vec<u8>]) -> Vec<u8> {
    let mut head = vec![];
    be32(&mut head, 0x00010000);
    be32(&mut head, 0x00010000);
    be32(&mut head, 0);
    be32(&mut head, 0x5F0F3CF5);
    be16(&mut head, 0x000B);
    be16(&mut head, upem);
    head.extend_from_slice(&[0; 16]);
    for v in [0i16, 0, 500, 700] {
        bei16(&mut head, v);
    }
    be16(&mut head, 0);
    be16(&mut head, 6);
    bei16(&mut head, 2);
    bei16(&mut head, 0);
    bei16(&mut head, 0);
    let mut maxp = vec![];
    be32(&mut maxp, 0x00005000);
    be16(&mut maxp, 2);
    let mut hhea = vec![];
    be32(&mut hhea, 0x00010000);
    bei16(&mut hhea, 800);
    bei16(&mut hhea, -200);
    bei16(&mut hhea, 0);
    be16(&mut hhea, 600);
    hhea.extend_from_slice(&[0; 22]);
    be16(&mut hhea, 2);
    let mut hmtx = vec![];
    for _ in 0..2 {
        be16(&mut hmtx, 600);
        bei16(&mut hmtx, 0);
    }
    let mut f = sfnt(&[(b"head", head), (b"maxp", maxp), (b"hhea", hhea), (b"hmtx", hmtx), if cff2 { (b"CFF2", build_cff2(cs, private, gsubrs, lsubrs)) } else { (b"CFF ", build_cff(cs, private, gsubrs, lsubrs)) }]);
    f[0..4].copy_from_slice(b"OTTO");
    f
}

/// random Type 2 charstring with extreme operands; returns (bytes, text)
fn gen_charstring(rng: &mut Rng, n_gsubrs: i32, n_lsubrs: i32) -> (Vec<u8>, String) {
    let mut cs = vec![];
    let mut txt = String::new();
    let num = |cs: &mut Vec<u8>, txt: &mut String, rng: &mut Rng| {
        match rng.range(0, 9) {
            0..=3 => {
                let v = *rng.pick(&[32767i16, -32768, 32766, -32767, 16384, 1, -1, 0, 255, 1000]);
                cs.push(28);
                cs.extend_from_slice(&v.to_be_bytes());
                txt.push_str(&format!("{v} "));
            }
            4..=6 => {
                let v = *rng.pick(&[0x7FFFFFFFi32, i32::MIN, 0x7FFF0000, -0x7FFF0000, 0x7FFFFFFE, 0x00010000, 1, -1, 0x40000000, 0x3FFFFFFF]);
                cs.push(255);
                cs.extend_from_slice(&v.to_be_bytes());
                txt.push_str(&format!("{v}/65536 "));
            }
            _ => {
                let v = rng.range(-107, 107);
                cs.push((v + 139) as u8);
                txt.push_str(&format!("{v} "));
            }
        }
    };
    // (operator bytes, name, operand count choices)
    let ops: &[(&[u8], &str, &[usize])] = &[
        (&[21], "rmoveto", &[2, 3]),
        (&[22], "hmoveto", &[1, 2]),
        (&[4], "vmoveto", &[1, 2]),
        (&[5], "rlineto", &[2, 4, 6]),
        (&[6], "hlineto", &[1, 2, 3, 4]),
        (&[7], "vlineto", &[1, 2, 3, 4]),
        (&[8], "rrcurveto", &[6, 12]),
        (&[27], "hhcurveto", &[4, 5, 8]),
        (&[26], "vvcurveto", &[4, 5, 8]),
        (&[31], "hvcurveto", &[4, 5, 8, 9]),
        (&[30], "vhcurveto", &[4, 5, 8, 9]),
        (&[24], "rcurveline", &[8]),
        (&[25], "rlinecurve", &[8]),
        (&[12, 35], "flex", &[13]),
        (&[12, 34], "hflex", &[7]),
        (&[12, 36], "hflex1", &[9]),
        (&[12, 37], "flex1", &[11]),
        (&[1], "hstem", &[2, 4, 3]),
        (&[3], "vstem", &[2, 4, 3]),
        (&[18], "hstemhm", &[2, 4]),
        (&[23], "vstemhm", &[2, 4]),
        (&[10], "callsubr", &[1]),
        (&[29], "callgsubr", &[1]),
    ];
    let n = rng.range(1, 6);
    for _ in 0..n {
        let (bytes, name, counts) = ops[rng.below(ops.len() as u64) as usize];
        let c = *rng.pick(counts);
        if name == "callsubr" || name == "callgsubr" {
            // subroutine numbers at the bias boundaries of every bias class and at the ends of the INDEX
            let count = if name == "callsubr" { n_lsubrs } else { n_gsubrs };
            let bias = *rng.pick(&[107i32, 107, 1131, 32768]);
            let v = *rng.pick(&[-(bias + 2), -(bias + 1), -bias, -bias + 1, count - bias - 1, count - bias, count - bias + 1, 0, i32::MIN, i32::MAX, -32768, 32767]);
            if v >= -32768 && v <= 32767 {
                cs.push(28);
                cs.extend_from_slice(&(v as i16).to_be_bytes());
                txt.push_str(&format!("{v} "));
            } else {
                cs.push(255);
                cs.extend_from_slice(&v.to_be_bytes());
                txt.push_str(&format!("{v}/65536 "));
            }
        } else {
            for _ in 0..c {
                num(&mut cs, &mut txt, rng);
            }
        }
        cs.extend_from_slice(bytes);
        txt.push_str(name);
        txt.push_str(" ; ");
    }
    cs.push(14);
    txt.push_str("endchar");
    (cs, txt)
}

/// glyph-0 points + gvar with extreme deltas on top of the synthetic TrueType font
fn build_var_tt(rng: &mut Rng) -> (Vec<u8>, serde_json::Value) {
    use write_fonts::tables::gvar::{GlyphDelta, GlyphDeltas, GlyphVariations, Gvar, Tent};
    let ext = [i16::MAX, i16::MIN, 0, 1, -1, 16384, -16384, 32766];
    let spec = TtSpec {
        pts: if rng.chance(1, 2) { vec![(0, 0), (500, 0), (500, 700), (250, 900), (0, 700)] } else { (0..5).map(|_| (*rng.pick(&ext), *rng.pick(&ext))).collect() },
        upem: *rng.pick(&[1000u16, 1000, 16, 1, 65535, 16384]),
        glyph_prog: if rng.chance(1, 3) { vec![0x31, 0x30] } else { vec![] }, // IUP[x], IUP[y]
        comp_off: if rng.chance(1, 3) { (*rng.pick(&ext), *rng.pick(&ext)) } else { (0, 0) },
        advance: *rng.pick(&[600u16, 65535, 0, 32768]),
        lsb: *rng.pick(&[0i16, i16::MIN, i16::MAX]),
        ..Default::default()
    };
    let base = build_tt(&spec);
    let ntup = rng.range(1, 4);
    let mut desc = vec![];
    let mut mk = |npoints: usize, rng: &mut Rng, desc: &mut Vec<String>| -> Vec<GlyphDeltas> {
        (0..ntup)
            .map(|_| {
                let peak = *rng.pick(&[1.0f32, -1.0, 0.5, -0.5, 1.0]);
                let inter = if rng.chance(1, 4) { Some((F2Dot14::from_f32(peak.min(0.0) * 0.5), F2Dot14::from_f32(if peak > 0.0 { 1.0 } else { 0.0 }))) } else { None };
                let deltas: Vec<GlyphDelta> = (0..npoints + 4)
                    .map(|_| {
                        let (x, y) = (*rng.pick(&ext), *rng.pick(&ext));
                        if rng.chance(3, 4) {
                            GlyphDelta::required(x, y)
                        } else {
                            GlyphDelta::optional(x, y)
                        }
                    })
                    .collect();
                desc.push(format!("peak {peak} {:?}", deltas.iter().map(|d| (d.x, d.y, d.required)).collect::<Vec<_>>()));
                GlyphDeltas::new(vec![Tent::new(F2Dot14::from_f32(peak), inter)], deltas)
            })
            .collect()
    };
    let v0 = mk(spec.pts.len(), rng, &mut desc);
    let v1 = mk(1, rng, &mut desc);
    let gvar = Gvar::new(vec![GlyphVariations::new(GlyphId::new(0), v0), GlyphVariations::new(GlyphId::new(1), v1)], 1);
    let gvar_bytes = gvar.ok().and_then(|g| write_fonts::dump_table(&g).ok()).unwrap_or_default();
    let mut fvar = vec![];
    be16(&mut fvar, 1);
    be16(&mut fvar, 0);
    be16(&mut fvar, 16);
    be16(&mut fvar, 2);
    be16(&mut fvar, 1);
    be16(&mut fvar, 20);
    be16(&mut fvar, 0);
    be16(&mut fvar, 8);
    fvar.extend_from_slice(b"wght");
    for v in [100i32 << 16, 400 << 16, 900 << 16] {
        be32(&mut fvar, v as u32);
    }
    be16(&mut fvar, 0);
    be16(&mut fvar, 256);
    let mut tabs: Vec<([u8; 4], Vec<u8>)> = table_dir(&base).into_iter().map(|(t, o, l)| (t, base[o..o + l].to_vec())).collect();
    tabs.push((*b"fvar", fvar));
    if !gvar_bytes.is_empty() {
        tabs.push((*b"gvar", gvar_bytes));
    }
    // cvar: 1..3 tuples, every CVT entry gets an extreme delta in each (accumulated in 16.16 when the interpreter is set up)
    let ncvt = spec.cvt.len();
    let mut cvar_desc = vec![];
    if ncvt > 0 && ncvt <= 64 && rng.chance(2, 3) {
        let nt = rng.range(1, 3) as usize;
        let mut headers = vec![];
        let mut data = vec![];
        for _ in 0..nt {
            let peak = *rng.pick(&[0x4000i16, 0x4000, -0x4000, 0x2000]);
            let mut td = vec![0u8, 0x40 | (ncvt as u8 - 1)];
            let mut ds = vec![];
            for _ in 0..ncvt {
                let d = *rng.pick(&ext);
                ds.push(d);
                bei16(&mut td, d);
            }
            be16(&mut headers, td.len() as u16);
            be16(&mut headers, 0x8000 | 0x2000);
            bei16(&mut headers, peak);
            data.extend(td);
            cvar_desc.push(format!("peak {} deltas {:?}", peak as f32 / 16384.0, ds));
        }
        let mut cvar = vec![];
        be16(&mut cvar, 1);
        be16(&mut cvar, 0);
        be16(&mut cvar, nt as u16);
        be16(&mut cvar, 8 + headers.len() as u16);
        cvar.extend(headers);
        cvar.extend(data);
        tabs.push((*b"cvar", cvar));
    }
    let refs: Vec<(&[u8; 4], Vec<u8>)> = tabs.iter().map(|(t, b)| (t, b.clone())).collect();
    (sfnt(&refs), json!({"kind": "variable-truetype", "glyph0_points": spec.pts, "unitsPerEm": spec.upem, "component_offset": [spec.comp_off.0, spec.comp_off.1], "advance": spec.advance, "lsb": spec.lsb, "gvar_tuples (glyph 0 then composite glyph 1; x, y, required)": desc, "cvt": spec.cvt, "cvar_tuples": cvar_desc, "fvar": "wght 100/400/900"}))
}

/// Packs sparse-bit-set nodes (BFS order) after the header byte. bf = 2 | 4 | 8 | 32.
fn sbs_stream(bf: u32, height: u32, nodes: &[u32]) -> Vec<u8> {
    let code = match bf {
        2 => 0u8,
        4 => 1,
        8 => 2,
        _ => 3,
    };
    let mut out = vec![code | ((height as u8 & 31) << 2)];
    match bf {
        2 | 4 => {
            let mut cur = 0u8;
            let mut sub = 0u32;
            for n in nodes {
                cur |= ((*n & ((1 << bf) - 1)) as u8) << sub;
                sub += bf;
                if sub == 8 {
                    out.push(cur);
                    cur = 0;
                    sub = 0;
                }
            }
            if sub != 0 {
                out.push(cur);
            }
        }
        8 => out.extend(nodes.iter().map(|n| *n as u8)),
        _ => {
            for n in nodes {
                out.extend_from_slice(&n.to_le_bytes());
            }
        }
    }
    out
}

fn sbs_max_height(bf: u32) -> u32 {
    match bf {
        2 => 31,
        4 => 16,
        8 => 11,
        _ => 7,
    }
}

/// A random sparse tree, level by level (at most 3 live nodes per level so that the maximum heights are
/// reachable): every node is filled (0), first child only, last child only, first + last, or random bits.
fn gen_sbs(rng: &mut Rng) -> (Vec<u8>, String) {
    let bf = *rng.pick(&[2u32, 4, 8, 32]);
    let mh = sbs_max_height(bf);
    let rh = rng.range(0, mh as i64) as u32;
    let height = *rng.pick(&[0u32, 1, 2, 3, mh - 1, mh, mh, mh, mh + 1, rh]);
    let mut nodes: Vec<u32> = vec![];
    let mut live = 1usize;
    let mut txt = String::new();
    for depth in 1..=height.min(31) {
        let mut next = 0usize;
        for _ in 0..live {
            let full: u32 = if bf == 32 { u32::MAX } else { (1 << bf) - 1 };
            let bits = match rng.range(0, 9) {
                0 | 1 => 0,
                2 | 3 => 1u32 << (bf - 1),
                4 => 1,
                5 => 1 | (1 << (bf - 1)),
                6 => full,
                _ => rng.next_u32() & full,
            };
            nodes.push(bits);
            txt.push_str(&format!("{:x} ", bits));
            if bits != 0 && depth < height {
                next += bits.count_ones() as usize;
            }
        }
        txt.push_str("| ");
        // keep the tree sparse: the decoder expects `next` nodes on the next level; cap by truncation
        // (a truncated stream is a decoding error, which is fine)
        live = next.min(3);
        if live == 0 {
            break;
        }
    }
    if rng.chance(1, 10) {
        nodes.truncate(nodes.len() / 2);
    }
    (sbs_stream(bf, height, &nodes), format!("bf {bf} height {height} nodes(BFS, hex) {txt}"))
}

fn pick_bias(rng: &mut Rng) -> u32 {
    match rng.range(0, 5) {
        0 => 0,
        1 => *rng.pick(&[1u32, 2, 0x20, 0xFF, 0xFFFF, 0xFFFFFF, 0x10FFFF]),
        2 => u32::MAX - rng.range(0, 4) as u32,
        3 => rng.range(0, 0x2000) as u32,
        4 => *rng.pick(&[0x7FFFFFFFu32, 0x80000000, 0xFFFF0000]),
        _ => rng.next_u32(),
    }
}

/// (script name, standard characters, blue-zone characters) for every auto-hinter script class, parsed from
/// skrifa/generated/generated_autohint_styles.rs of the tree under test
fn autohint_scripts() -> Vec<(String, Vec<u32>, Vec<u32>)> {
    let repo = std::env::var("FV_REPO").unwrap_or_else(|_| "/repo".into());
    let src = std::fs::read_to_string(format!("{repo}/skrifa/generated/generated_autohint_styles.rs")).unwrap_or_default();
    let mut out = vec![];
    for block in src.split("ScriptClass {").skip(1) {
        let q = |key: &str| -> Option<String> {
            let i = block.find(key)?;
            let r = &block[i + key.len()..];
            let a = r.find('"')?;
            let b = r[a + 1..].find('"')?;
            Some(r[a + 1..a + 1 + b].to_string())
        };
        let (Some(name), Some(std)) = (q("name:"), q("std_chars:")) else { continue };
        let firsts = |s: &str| -> Vec<u32> { s.split(' ').filter_map(|c| c.chars().next()).map(|c| c as u32).collect() };
        let mut blues = vec![];
        if let Some(i) = block.find("blues: &[") {
            let r = &block[i..block[i..].find("],").map(|e| i + e).unwrap_or(block.len())];
            for part in r.split("(\"").skip(1) {
                if let Some(e) = part.find('"') {
                    blues.extend(firsts(&part[..e]));
                }
            }
        }
        blues.sort();
        blues.dedup();
        out.push((name, firsts(&std), blues));
    }
    if out.is_empty() {
        out.push(("Latin".into(), vec!['o' as u32, 'O' as u32, '0' as u32], "THEZOCQSLUfijkdbhuvxzoescnrpqgy".chars().map(|c| c as u32).collect()));
    }
    out
}

/// One glyph (list of contours, all points on-curve) from a small shape grammar, sized for `u` units per em.
fn gen_shape(rng: &mut Rng, u: i32) -> (Vec<Vec<(i16, i16)>>, &'static str) {
    let c = |v: i32| v.clamp(-32768, 32767) as i16;
    let ys = [-(u / 5), 0, u / 2, u * 7 / 10, u, 1, -1];
    let (y0, y1) = {
        let a = *rng.pick(&ys);
        let b = *rng.pick(&ys);
        (a.min(b), a.max(b))
    };
    let w = *rng.pick(&[0, 1, 2, u / 25, u / 10, u / 2, 30000, u / 2048 * 8, 8]);
    let x0 = *rng.pick(&[0, u / 20, u / 4, -u / 10]);
    let rect = |x0: i32, y0: i32, x1: i32, y1: i32| vec![(c(x0), c(y0)), (c(x0), c(y1)), (c(x1), c(y1)), (c(x1), c(y0))];
    match rng.range(0, 12) {
        0 => (vec![], "empty"),
        1 => (vec![vec![(c(x0), c(y0))]], "single point"),
        2 => (vec![vec![(c(x0), c(y0)), (c(x0 + w), c(y1))]], "two-point contour"),
        3 | 4 => (vec![rect(x0, y0, x0 + w, y1)], "rectangle (one stem)"),
        5 => {
            let t = (u / 12).max(1);
            let mut inner = rect(x0 + t, y0 + t, x0 + u / 2 - t, y1 - t);
            inner.reverse();
            (vec![rect(x0, y0, x0 + u / 2, y1), inner], "ring (outer + inner rectangle)")
        }
        6 => {
            let (cx, cy, r) = (x0 + u / 4, (y0 + y1) / 2, (u / 4).max(2));
            (vec![vec![(c(cx), c(cy - r)), (c(cx - r), c(cy)), (c(cx), c(cy + r)), (c(cx + r), c(cy))]], "diamond (no horizontal or vertical edge)")
        }
        7 => (vec![vec![(c(x0), c(y0)), (c(x0 + u / 4), c(y1)), (c(x0 + u / 2), c(y0 + 1))]], "triangle"),
        8 => {
            let t = (u / 12).max(1);
            (vec![rect(x0, y0, x0 + t, y1), rect(x0 + u / 3, y0, x0 + u / 3 + t, y1), rect(x0 + t, (y0 + y1) / 2, x0 + u / 3, (y0 + y1) / 2 + t)], "H (two stems + bar)")
        }
        9 => {
            let t = (u / 12).max(1);
            (vec![rect(x0, y0, x0 + t, y1), rect(x0 + t, y0, x0 + u / 3, y0 + t), rect(x0 + t, y1 - t, x0 + u / 3, y1), rect(x0 + t, (y0 + y1) / 2, x0 + u / 4, (y0 + y1) / 2 + t)], "E (stem + three bars)")
        }
        10 => (vec![rect(-32768, -32768, 32767, 32767)], "rectangle at the coordinate extremes"),
        11 => (vec![vec![(c(x0), c(y0)), (c(x0 + u / 2), c(y0)), (c(x0 + u / 4), c(y0)), (c(x0 + u), c(y0))]], "collinear back-and-forth contour"),
        _ => {
            let n = rng.range(3, 8);
            let e = [i16::MIN, i16::MAX, 0, 1, -1, c(u), c(u / 2), c(-u / 5)];
            ((0..1).map(|_| (0..n).map(|_| (*rng.pick(&e), *rng.pick(&e))).collect()).collect(), "random polygon over extreme coordinates")
        }
    }
}

/// glyf-flavoured font: glyph 0 empty, glyph i+1 = shapes[i] mapped from chars[i] (cmap format 12)
fn build_multi_tt(upem: u16, chars: &[u32], shapes: &[Vec<Vec<(i16, i16)>>]) -> Vec<u8> {
    let n = chars.len() + 1;
    let mut glyf = vec![];
    let mut loca = vec![];
    be32(&mut loca, 0);
    be32(&mut loca, 0);
    let mut max_pts = 0usize;
    for contours in shapes {
        let pts: Vec<(i16, i16)> = contours.iter().flatten().cloned().collect();
        max_pts = max_pts.max(pts.len());
        if !pts.is_empty() {
            let mut g = vec![];
            bei16(&mut g, contours.len() as i16);
            let (mut x0, mut y0, mut x1, mut y1) = (i16::MAX, i16::MAX, i16::MIN, i16::MIN);
            for (x, y) in &pts {
                x0 = x0.min(*x);
                y0 = y0.min(*y);
                x1 = x1.max(*x);
                y1 = y1.max(*y);
            }
            for v in [x0, y0, x1, y1] {
                bei16(&mut g, v);
            }
            let mut end = 0usize;
            for ct in contours {
                end += ct.len();
                be16(&mut g, (end - 1) as u16);
            }
            be16(&mut g, 0);
            for _ in &pts {
                g.push(0x01);
            }
            let mut p = 0i16;
            for (x, _) in &pts {
                bei16(&mut g, x.wrapping_sub(p));
                p = *x;
            }
            let mut p = 0i16;
            for (_, y) in &pts {
                bei16(&mut g, y.wrapping_sub(p));
                p = *y;
            }
            while g.len() % 4 != 0 {
                g.push(0);
            }
            glyf.extend(g);
        }
        be32(&mut loca, glyf.len() as u32);
    }
    if glyf.is_empty() {
        glyf.extend_from_slice(&[0; 4]);
    }
    let mut head = vec![];
    be32(&mut head, 0x00010000);
    be32(&mut head, 0x00010000);
    be32(&mut head, 0);
    be32(&mut head, 0x5F0F3CF5);
    be16(&mut head, 0x000B);
    be16(&mut head, upem);
    head.extend_from_slice(&[0; 16]);
    for v in [0i16, 0, 500, 700] {
        bei16(&mut head, v);
    }
    be16(&mut head, 0);
    be16(&mut head, 6);
    bei16(&mut head, 2);
    bei16(&mut head, 1);
    bei16(&mut head, 0);
    let mut maxp = vec![];
    be32(&mut maxp, 0x00010000);
    be16(&mut maxp, n as u16);
    be16(&mut maxp, max_pts as u16);
    be16(&mut maxp, 4);
    for v in [0u16, 0, 2, 0, 0, 0, 0, 64, 0, 0, 0] {
        be16(&mut maxp, v);
    }
    let mut hhea = vec![];
    be32(&mut hhea, 0x00010000);
    bei16(&mut hhea, (upem as i32 * 8 / 10).min(32767) as i16);
    bei16(&mut hhea, -((upem as i32 / 5).min(32767) as i16));
    bei16(&mut hhea, 0);
    be16(&mut hhea, upem);
    hhea.extend_from_slice(&[0; 22]);
    be16(&mut hhea, n as u16);
    let mut hmtx = vec![];
    for _ in 0..n {
        be16(&mut hmtx, upem / 2 + 1);
        bei16(&mut hmtx, 0);
    }
    let mut order: Vec<usize> = (0..chars.len()).collect();
    order.sort_by_key(|i| chars[*i]);
    let mut cmap = vec![];
    be16(&mut cmap, 0);
    be16(&mut cmap, 1);
    be16(&mut cmap, 3);
    be16(&mut cmap, 10);
    be32(&mut cmap, 12);
    be16(&mut cmap, 12);
    be16(&mut cmap, 0);
    be32(&mut cmap, 16 + 12 * chars.len() as u32);
    be32(&mut cmap, 0);
    be32(&mut cmap, chars.len() as u32);
    for i in order {
        be32(&mut cmap, chars[i]);
        be32(&mut cmap, chars[i]);
        be32(&mut cmap, i as u32 + 1);
    }
    sfnt(&[(b"head", head), (b"maxp", maxp), (b"hhea", hhea), (b"hmtx", hmtx), (b"loca", loca), (b"glyf", glyf), (b"cmap", cmap)])
}

/// Structured case `idx`: (font bytes, description, API groups to run)
fn gen_structured(rng: &mut Rng, idx: u64) -> (Vec<u8>, serde_json::Value, Vec<usize>) {
    match idx % 32 {
        0 => {
            // IFT format 1 feature map with counts up to u16::MAX
            let wide = rng.chance(3, 4);
            let max_entry = if wide { *rng.pick(&[400u16, 65535, 256, 40000]) } else { *rng.pick(&[255u16, 100]) };
            let max_glyph_entry = *rng.pick(&[0u16, 10, 100]).min(&max_entry);
            let n = rng.range(1, 3) as usize;
            // mostly ascending distinct tags; sometimes duplicates / out of order (those records are skipped)
            let pool = [*b"dlig", *b"liga", *b"null"];
            let tags: Vec<[u8; 4]> = (0..3).map(|k| if rng.chance(3, 4) { pool[k] } else { *rng.pick(&pool) }).collect();
            let counts = [1u16, 2, 16383, 16384, 16385, 32767, 32768, 32769, 65535, 65534];
            let firsts = [0u16, 101, 301, 400, 65535, 65534, 32768];
            let recs: Vec<([u8; 4], u16, u16)> = (0..n).map(|k| (tags[k], *rng.pick(&firsts), *rng.pick(&counts))).collect();
            let fill: Vec<(u16, u16)> = (0..8).map(|_| (rng.range(0, 10) as u16, rng.range(0, 100) as u16)).collect();
            let ift = build_ift_format1(max_entry, max_glyph_entry, &recs, &fill, true);
            let mut tabs = simple_glyf_tables();
            tabs.push((*b"IFT ", ift));
            let refs: Vec<(&[u8; 4], Vec<u8>)> = tabs.iter().map(|(t, b)| (t, b.clone())).collect();
            (
                sfnt(&refs),
                json!({"kind": "ift-format1-feature-map", "max_entry_index": max_entry, "max_glyph_map_entry_index": max_glyph_entry,
                       "feature_records (tag, first_new_entry_index, entry_map_count)": recs.iter().map(|(t, f, c)| (String::from_utf8_lossy(t).to_string(), *f, *c)).collect::<Vec<_>>(),
                       "entry_map_data": "sum(entry_map_count) records, zero filled", "base": "SIMPLE_GLYF + this `IFT ` table"}),
                vec![9],
            )
        }
        22 => {
            // a CFF (u16 count) or CFF2 (u32 count) INDEX: intact, or with damaged offsets
            let cff2 = rng.chance(1, 2);
            let count = *rng.pick(&[0u32, 1, 2, 3, 5, 300]);
            let off_size = *rng.pick(&[1u8, 2, 3, 4, 0, 5]);
            let mut b = vec![];
            if cff2 {
                be32(&mut b, count);
            } else {
                be16(&mut b, count as u16);
            }
            b.push(off_size);
            let mut off = 1u32;
            let mut offs = vec![];
            for k in 0..=count {
                let v = if rng.chance(1, 12) { *rng.pick(&[0u32, 1, 0xFFFFFFFF, 0xFFFF, off.wrapping_sub(2)]) } else { off };
                offs.push(v);
                b.extend_from_slice(&v.to_be_bytes()[4usize.saturating_sub(off_size.min(4) as usize)..]);
                if k < count {
                    off += rng.range(0, 3) as u32;
                }
            }
            b.extend(std::iter::repeat(11u8).take(off as usize + 2));
            (b, json!({"kind": "postscript-index-blob", "format": if cff2 { "CFF2 (u32 count)" } else { "CFF (u16 count)" }, "count": count, "off_size": off_size, "offsets": offs.iter().take(12).collect::<Vec<_>>()}), vec![17])
        }
        23 | 24 => {
            // the auto-hinter on a synthetic font of one script: standard characters x blue-zone characters, every glyph
            // a random shape of the grammar (stems of width 0 / 1 / huge, stemless diamonds and triangles, degenerate
            // and extreme contours), every glyph drawn with Engine::Auto / AutoFallback
            thread_local! { static SCRIPTS: Vec<(String, Vec<u32>, Vec<u32>)> = autohint_scripts(); }
            let (name, std, blues) = SCRIPTS.with(|s| s[rng.below(s.len() as u64) as usize].clone());
            let upem = *rng.pick(&[16u16, 1000, 1000, 2048, 2048, 16384]);
            let mut chars: Vec<u32> = std.clone();
            let mut b = blues.clone();
            rng.shuffle(&mut b);
            chars.extend(b.into_iter().take(rng.range(0, 14) as usize));
            chars.sort();
            chars.dedup();
            let mut shapes = vec![];
            let mut desc = vec![];
            for ch in &chars {
                let (sh, nm) = gen_shape(rng, upem as i32);
                desc.push(format!("U+{:04X}{}: {} {:?}", ch, if std.contains(ch) { " (standard)" } else { "" }, nm, sh));
                shapes.push(sh);
            }
            (build_multi_tt(upem, &chars, &shapes), json!({"kind": "autohint-synthetic-script-font", "script": name, "unitsPerEm": upem, "glyphs (gid 1.., char: shape contours)": desc}), vec![5, 5, 5, 3])
        }
        25 => {
            // SVG table with hostile document records
            let n = rng.range(1, 3) as usize;
            let e32 = [0u32, 1, 10, 0x20, 0x7FFFFFFF, 0x80000000, 0xFFFFFFFF, 0xFFFFFFFE, 0xFFFFFFF0, 0xFFFF0000];
            let mut recs = vec![];
            let mut g = 0u16;
            for _ in 0..n {
                let end = g.saturating_add(*rng.pick(&[0u16, 1, 2, 0xFFFF]));
                recs.push((g, end, *rng.pick(&e32), *rng.pick(&e32)));
                g = end.saturating_add(1);
            }
            let mut t = vec![];
            be16(&mut t, 0);
            be32(&mut t, 10);
            be32(&mut t, 0);
            be16(&mut t, recs.len() as u16);
            for (a, b, o, l) in &recs {
                be16(&mut t, *a);
                be16(&mut t, *b);
                be32(&mut t, *o);
                be32(&mut t, *l);
            }
            t.extend_from_slice(b"<svg/>");
            let mut tabs = simple_glyf_tables();
            tabs.push((*b"SVG ", t));
            let refs: Vec<(&[u8; 4], Vec<u8>)> = tabs.iter().map(|(t, b)| (t, b.clone())).collect();
            (sfnt(&refs), json!({"kind": "svg-document-records", "records (startGlyphID, endGlyphID, svgDocOffset, svgDocLength)": recs, "base": "SIMPLE_GLYF + this `SVG ` table; Svg::glyph_data(gid)"}), vec![16])
        }
        26 => {
            // hostile Coverage format 2 / ClassDef format 2 / Device blobs as the content of a GPOS table (parse-anywhere)
            let mut t = vec![];
            let mut desc = vec![];
            for _ in 0..rng.range(1, 3) {
                match rng.range(0, 2) {
                    0 => {
                        let n = rng.range(1, 4) as usize;
                        be16(&mut t, 2);
                        be16(&mut t, n as u16);
                        let mut recs = vec![];
                        let mut g = *rng.pick(&[0u16, 1, 10]);
                        for _ in 0..n {
                            let end = if rng.chance(1, 6) { g.wrapping_sub(1) } else { g.saturating_add(*rng.pick(&[0u16, 1, 5, 0x100, 0xFFFF])) };
                            let sci = *rng.pick(&[0u16, 1, 0xFFFF, 0xFFFE, 0xFFF0, 0x7FFF, 0x8000]);
                            recs.push((g, end, sci));
                            be16(&mut t, g);
                            be16(&mut t, end);
                            be16(&mut t, sci);
                            g = if rng.chance(1, 6) { g } else { end.wrapping_add(*rng.pick(&[1u16, 2, 0])) };
                        }
                        desc.push(format!("CoverageFormat2 ranges (start, end, startCoverageIndex) {:?}", recs));
                    }
                    1 => {
                        let (s0, e0) = (*rng.pick(&[0u16, 1, 8, 12, 0xFFFF, 0xFFFE, 0x8000]), *rng.pick(&[0u16, 1, 7, 9, 12, 20, 0xFFFF, 0xFFFE, 0x7FFF]));
                        let fmt = *rng.pick(&[1u16, 2, 3, 0, 4, 0x8000]);
                        be16(&mut t, s0);
                        be16(&mut t, e0);
                        be16(&mut t, fmt);
                        for _ in 0..rng.range(0, 6) {
                            be16(&mut t, *rng.pick(&[0u16, 0xFFFF, 0x8000, 0x7FFF, 0x8080, 0xAAAA]));
                        }
                        desc.push(format!("Device start_size {s0} end_size {e0} delta_format {fmt}"));
                    }
                    _ => {
                        let n = rng.range(1, 3) as usize;
                        be16(&mut t, 2);
                        be16(&mut t, n as u16);
                        let mut recs = vec![];
                        for _ in 0..n {
                            let r = (*rng.pick(&[0u16, 5, 0xFFFF, 0xFFFE]), *rng.pick(&[0u16, 4, 9, 0xFFFF]), *rng.pick(&[0u16, 1, 0xFFFF]));
                            be16(&mut t, r.0);
                            be16(&mut t, r.1);
                            be16(&mut t, r.2);
                            recs.push(r);
                        }
                        desc.push(format!("ClassDefFormat2 ranges (start, end, class) {:?}", recs));
                    }
                }
            }
            t.extend_from_slice(&[0; 16]);
            let mut tabs = simple_glyf_tables();
            tabs.push((*b"GPOS", t));
            let refs: Vec<(&[u8; 4], Vec<u8>)> = tabs.iter().map(|(t, b)| (t, b.clone())).collect();
            (sfnt(&refs), json!({"kind": "layout-subtable-blobs", "blobs (concatenated, as the GPOS table content)": desc, "base": "SIMPLE_GLYF + this `GPOS` table; readers applied at every even offset"}), vec![15])
        }
        27 | 28 => {
            // the sparse bit set decoder driven directly: bias x max_value x structured stream
            let (stream, txt) = gen_sbs(rng);
            let bias = pick_bias(rng);
            // A filled node high in a tall tree makes the real decoder materialise the whole range (hundreds of MB
            // for 2^32 values; a resource question for C02, not an overflow), so large limits are only combined
            // with trees that cover at most 2^20 values; otherwise the IFT limit 0x10FFFF or smaller is used.
            let small_tree = stream.first().map(|h| { let bf = [1u32, 2, 3, 5][(h & 3) as usize]; bf * ((h >> 2) & 31) as u32 <= 20 }).unwrap_or(true);
            let maxv = if small_tree { *rng.pick(&[u32::MAX, u32::MAX, u32::MAX - 1, 0x10FFFF, 0, 1, 0xFFFF, 0x7FFFFFFF]) } else { *rng.pick(&[0x10FFFFu32, 0x10FFFF, 0xFFFF, 0, 1, 0xFFFFF]) };
            let mut b = vec![];
            be32(&mut b, bias);
            be32(&mut b, maxv);
            b.extend_from_slice(&stream);
            (b, json!({"kind": "sparse-bit-set-stream", "bias": bias, "max_value": maxv, "stream": txt, "stream_hex": stream.iter().map(|x| format!("{:02x}", x)).collect::<String>(),
                       "call": "IntSet::<u32>::from_sparse_bit_set_bounded(stream, bias, max_value)"}), vec![14])
        }
        29 => {
            // IFT format 2 entries carrying a biased codepoint set (CODEPOINTS_BIT_2: u16 bias, BIT_1|BIT_2: u24 bias)
            let n = rng.range(1, 3) as usize;
            let mut t = vec![2u8];
            be32(&mut t, 0);
            for k in [1u32, 2, 3, 4] {
                be32(&mut t, k);
            }
            t.push(3);
            t.extend_from_slice(&(n as u32).to_be_bytes()[1..]);
            be32(&mut t, 43);
            be32(&mut t, 0);
            be16(&mut t, 8);
            t.extend_from_slice(&[b'A', b'B', b'C', b'D', b'E', b'F', 0xc9, 0xa4]);
            let mut desc = vec![];
            for _ in 0..n {
                let (stream, txt) = gen_sbs(rng);
                match rng.range(0, 2) {
                    0 => {
                        t.push(0b00010000); // CODEPOINTS_BIT_1: no bias
                        desc.push(format!("no bias; {txt}"));
                    }
                    1 => {
                        let bias = *rng.pick(&[0u16, 1, 2, 0x20, 0xFF, 0xFFFF, 0x1000]);
                        t.push(0b00100000);
                        be16(&mut t, bias);
                        desc.push(format!("u16 bias {bias}; {txt}"));
                    }
                    _ => {
                        let bias = *rng.pick(&[0u32, 1, 0x20, 0xFFFF, 0x10FFFF, 0xFFFFFF, 0x110000]);
                        t.push(0b00110000);
                        t.extend_from_slice(&bias.to_be_bytes()[1..]);
                        desc.push(format!("u24 bias {bias}; {txt}"));
                    }
                }
                t.extend_from_slice(&stream);
            }
            let mut tabs = simple_glyf_tables();
            tabs.push((*b"IFT ", t));
            let refs: Vec<(&[u8; 4], Vec<u8>)> = tabs.iter().map(|(t, b)| (t, b.clone())).collect();
            (sfnt(&refs), json!({"kind": "ift-format2-codepoint-sets", "entries (bias; sparse bit set)": desc, "base": "SIMPLE_GLYF + this `IFT ` table"}), vec![9])
        }
        30 => {
            // cmap format 12 with groups whose startGlyphID is close to u32::MAX
            let ng = rng.range(1, 3) as usize;
            let mut groups: Vec<(u32, u32, u32)> = vec![];
            let mut start = *rng.pick(&[0u32, 0x20, 0x41]);
            for _ in 0..ng {
                let len = *rng.pick(&[0u32, 1, 0x5E, 0x1000, 0x10FFFF]);
                let end = start.saturating_add(len);
                let sg = *rng.pick(&[0xFFFFFFFFu32, 0xFFFFFFFE, 0xFFFFFFF0, 0xFFFFFF00, 0x7FFFFFFF, 0x80000000, 1, 0xFFFF]);
                groups.push((start, end, sg));
                start = end.saturating_add(*rng.pick(&[1u32, 2, 0x100]));
            }
            let mut cmap = vec![];
            be16(&mut cmap, 0);
            be16(&mut cmap, 1);
            be16(&mut cmap, 3);
            be16(&mut cmap, 10);
            be32(&mut cmap, 12);
            be16(&mut cmap, 12);
            be16(&mut cmap, 0);
            be32(&mut cmap, 16 + 12 * groups.len() as u32);
            be32(&mut cmap, 0);
            be32(&mut cmap, groups.len() as u32);
            for (a, b, c) in &groups {
                be32(&mut cmap, *a);
                be32(&mut cmap, *b);
                be32(&mut cmap, *c);
            }
            let mut tabs: Vec<([u8; 4], Vec<u8>)> = simple_glyf_tables().into_iter().filter(|(t, _)| t != b"cmap").collect();
            tabs.push((*b"cmap", cmap));
            let refs: Vec<(&[u8; 4], Vec<u8>)> = tabs.iter().map(|(t, b)| (t, b.clone())).collect();
            (sfnt(&refs), json!({"kind": "cmap12-extreme-groups", "groups (startCharCode, endCharCode, startGlyphID)": groups, "base": "SIMPLE_GLYF with this cmap"}), vec![2, 8])
        }
        31 => {
            // IFT format 2 with numeric entry ids driven to u32::MAX (+-) by 24-bit id deltas
            let n_big = *rng.pick(&[511u32, 511, 511, 510, 512]);
            let mut deltas: Vec<i32> = vec![0x7FFFFF; n_big as usize];
            let mut id: i64 = 0;
            for d in &deltas {
                id = id + 1 + *d as i64;
            }
            let target: i64 = *rng.pick(&[0xFFFFFFFFi64, 0xFFFFFFFF, 0xFFFFFFFE, 0x1_0000_0000, 0xFFFFFFFD]);
            let fix = (target - id - 1).clamp(-0x800000, 0x7FFFFF);
            deltas.push(fix as i32);
            for _ in 0..rng.range(1, 3) {
                deltas.push(*rng.pick(&[0i32, 0, -1, 1, -2, 0x7FFFFF, -0x800000]));
            }
            let mut t = vec![2u8];
            be32(&mut t, 0);
            for k in [1u32, 2, 3, 4] {
                be32(&mut t, k);
            }
            t.push(3);
            t.extend_from_slice(&(deltas.len() as u32).to_be_bytes()[1..]);
            be32(&mut t, 43);
            be32(&mut t, 0);
            be16(&mut t, 8);
            t.extend_from_slice(&[b'A', b'B', b'C', b'D', b'E', b'F', 0xc9, 0xa4]);
            assert_eq!(t.len(), 43);
            for d in &deltas {
                t.push(if rng.chance(1, 4) { 0b01000100 } else { 0b00000100 }); // ID_DELTA (| IGNORED)
                t.extend_from_slice(&d.to_be_bytes()[1..]);
            }
            let mut tabs = simple_glyf_tables();
            tabs.push((*b"IFT ", t));
            let refs: Vec<(&[u8; 4], Vec<u8>)> = tabs.iter().map(|(t, b)| (t, b.clone())).collect();
            (
                sfnt(&refs),
                json!({"kind": "ift-format2-entry-ids", "entries": format!("{} x id delta 0x7FFFFF, then {:?}", n_big, &deltas[n_big as usize..]), "target_id_after_fixup": target, "base": "SIMPLE_GLYF + this `IFT ` table"}),
                vec![9, 12],
            )
        }
        1..=10 => {
            let (bytes, desc) = build_var_tt(rng);
            (bytes, desc, vec![1, 3, 4, 5, 10, 0])
        }
        _ => {
            // subr INDEXes: empty, small, or just past the 1240 bias step; each subr is a `return` or a short path
            let mk_subrs = |rng: &mut Rng| -> Vec<Vec<u8>> {
                let n = *rng.pick(&[0usize, 0, 1, 3, 216, 1240]);
                (0..n).map(|_| if rng.chance(1, 2) { vec![11u8] } else { vec![139 + 10, 139 + 10, 21, 11] }).collect()
            };
            let gsubrs = mk_subrs(rng);
            let lsubrs = mk_subrs(rng);
            let cff2 = rng.chance(1, 3);
            let (mut cs, txt) = gen_charstring(rng, gsubrs.len() as i32, lsubrs.len() as i32);
            if cff2 {
                cs.pop(); // no endchar in CFF2
            }
            // private dict: optional BlueValues / StdHW with extremes so that the CFF hinter has zones
            let mut private = vec![];
            if rng.chance(1, 2) {
                for v in [-20i32, 20, 680, 20] {
                    private.push(29);
                    private.extend_from_slice(&v.to_be_bytes());
                }
                private.push(6); // BlueValues (delta encoded)
                let w = *rng.pick(&[50i32, 32767, -1, 0]);
                private.push(29);
                private.extend_from_slice(&w.to_be_bytes());
                private.push(10); // StdHW
            } else {
                private.extend_from_slice(&[0x8b, 20]); // defaultWidthX 0
            }
            let upem = *rng.pick(&[1000u16, 1000, 1, 16, 65535]);
            (build_cff_font(&cs, &private, upem, cff2, &gsubrs, &lsubrs), json!({"kind": "cff-charstring", "flavour": if cff2 { "CFF2" } else { "CFF" }, "global_subrs": gsubrs.len(), "local_subrs": lsubrs.len(), "glyph1_charstring": txt, "charstring_hex": cs.iter().map(|b| format!("{:02x}", b)).collect::<String>(), "unitsPerEm": upem, "private_dict_hex": private.iter().map(|b| format!("{:02x}", b)).collect::<String>()}), vec![3, 4, 5, 10, 1])
        }
    }
}

#[derive(Clone)]
struct Found {
    idx: u64,
    trap: Trap,
    kind: Kind,
    input: serde_json::Value,
    bc: Option<BcCase>,
    mu: Option<(Mutation, usize, u64)>,
}

type Worker = (std::sync::mpsc::Sender<(Vec<u8>, usize, u64)>, std::sync::mpsc::Receiver<Result<(), Trap>>);
fn spawn_worker() -> Worker {
    let (tx, rx) = std::sync::mpsc::channel::<(Vec<u8>, usize, u64)>();
    let (tx2, rx2) = std::sync::mpsc::channel();
    let _ = std::thread::Builder::new().stack_size(8 << 20).spawn(move || {
        while let Ok((bytes, api, sel)) = rx.recv() {
            let r = run_api(&bytes, api, sel);
            if tx2.send(r).is_err() {
                break;
            }
        }
    });
    (tx, rx2)
}

fn describe_mut(fonts: &[(&'static str, Vec<u8>)], m: &Mutation, api: usize, sel: u64) -> serde_json::Value {
    let edits: Vec<serde_json::Value> = m.edits.iter().map(|(w, _, b)| json!({"at": w, "bytes_hex": b.iter().map(|x| format!("{:02x}", x)).collect::<String>()})).collect();
    json!({"kind": "field-mutation", "font": fonts[m.font].0, "edits": edits, "api": API_NAMES[api], "api_selector": sel,
           "replay": "font_test_data font (IFT:* = SIMPLE_GLYF + `IFT ` table from font_test_data::ift::<name>()), overwrite the bytes at <table>+<offset>, then run the API group (run_api in harness/src/bin/c20.rs) with Rng::new(api_selector)"})
}

/// greedy reduction of a field mutation: drop edits while the same site still traps
fn reduce_mut(fonts: &[(&'static str, Vec<u8>)], m: &Mutation, api: usize, sel: u64, key: &str) -> Mutation {
    let mut cur = m.clone();
    let mut i = 0;
    while i < cur.edits.len() && cur.edits.len() > 1 {
        let mut t = cur.clone();
        t.edits.remove(i);
        let bytes = apply_mutation(fonts, &t);
        if matches!(run_api(&bytes, api, sel), Err(tr) if site_key(&tr) == key) {
            cur = t;
        } else {
            i += 1;
        }
    }
    cur
}

fn search(seed: u64, thorough: bool, st: &mut Stats, fonts: &[(&'static str, Vec<u8>)]) -> BTreeMap<String, Found> {
    let envn = |k: &str, d: u64| std::env::var(k).ok().and_then(|v| v.parse().ok()).unwrap_or(d);
    let n_bc: u64 = envn("C20_NBC", if thorough { 100_000_000 } else { 5_000_000 });
    let n_mut: u64 = envn("C20_NMUT", if thorough { 5_000_000 } else { 300_000 });
    let n_struct: u64 = envn("C20_NSTRUCT", if thorough { 1_000_000 } else { 60_000 });
    let threads = envn("C20_THREADS", 16);
    let trace = std::env::var("C20_TRACE").is_ok();
    // development aid: restrict the mutation search to one API group (e.g. 8 = klippa)
    let only_api: Option<u64> = std::env::var("C20_ONLY_API").ok().and_then(|v| v.parse().ok());
    let fonts_ref = fonts;
    let mut results: Vec<(BTreeMap<String, Found>, BTreeMap<String, u64>)> = vec![];
    std::thread::scope(|sc| {
        let mut hs = vec![];
        for t in 0..threads {
            hs.push(sc.spawn(move || {
                let mut found: BTreeMap<String, Found> = BTreeMap::new();
                let mut counts: BTreeMap<String, u64> = BTreeMap::new();
                let mut note = |found: &mut BTreeMap<String, Found>, counts: &mut BTreeMap<String, u64>, idx: u64, trap: Trap, input: &dyn Fn() -> serde_json::Value, bc: Option<&BcCase>, mu: Option<(Mutation, usize, u64)>| {
                    let kind = classify(&trap.msg);
                    *counts.entry(format!("panic.{:?}", kind)).or_insert(0) += 1;
                    let key = site_key(&trap);
                    let e = found.get(&key);
                    if e.map(|f| idx < f.idx).unwrap_or(true) {
                        found.insert(key, Found { idx, trap, kind, input: input(), bc: bc.cloned(), mu });
                    }
                };
                // bytecode cases
                let mut i = t;
                while i < n_bc {
                    let mut rng = Rng::new(seed ^ i.wrapping_mul(0x9E3779B97F4A7C15) ^ 0xB1);
                    let c = gen_bc_case(&mut rng, i);
                    *counts.entry(format!("bc.place{}", c.place)).or_insert(0) += 1;
                    if trace {
                        eprintln!("BC {} {}", i, c.describe());
                    }
                    if let Err(trap) = c.run() {
                        note(&mut found, &mut counts, i, trap, &|| c.describe(), Some(&c), None);
                    }
                    i += threads;
                }
                // field mutations (each API call runs on a helper thread so that a hang can be abandoned)
                let mut worker: Option<Worker> = None;
                let mut i = t + envn("C20_MUT_FROM", 0);
                while i < n_mut {
                    let mut rng = Rng::new(seed ^ i.wrapping_mul(0x9E3779B97F4A7C15) ^ 0xF0F0);
                    let m = gen_mutation(&mut rng, fonts_ref);
                    let bytes = apply_mutation(fonts_ref, &m);
                    *counts.entry(format!("mut.font.{}", fonts_ref[m.font].0)).or_insert(0) += 1;
                    for api in 0..API_NAMES.len() {
                        // IFT selection only for IFT fonts; klippa on a quarter of the cases
                        if (api == 9 || api == 12) && !fonts_ref[m.font].0.starts_with("IFT:") {
                            continue;
                        }
                        if only_api.map(|o| o != api as u64).unwrap_or(false) {
                            continue;
                        }
                        if api == 14 || api == 17 {
                            continue; // these two take a raw stream, not a font (structured cases only)
                        }
                        if api == 8 && i % 4 != 0 && only_api.is_none() {
                            continue;
                        }
                        let sel = seed ^ i.wrapping_mul(31) ^ api as u64;
                        if trace {
                            eprintln!("MUT {} {} api={} {:?}", i, fonts_ref[m.font].0, API_NAMES[api], m.edits.iter().map(|(w, _, b)| format!("{w}={b:?}")).collect::<Vec<_>>());
                        }
                        *counts.entry(format!("mut.api.{}", API_NAMES[api])).or_insert(0) += 1;
                        let res = {
                            if worker.is_none() {
                                worker = Some(spawn_worker());
                            }
                            let w = worker.as_ref().unwrap();
                            let _ = w.0.send((bytes.clone(), api, sel));
                            let r = w.1.recv_timeout(std::time::Duration::from_secs(20));
                            if r.is_err() {
                                worker = None; // abandon the spinning helper
                            }
                            r
                        };
                        let res = match res {
                            Ok(r) => r,
                            Err(_) => {
                                // abandoned (the helper thread keeps spinning until exit)
                                *counts.entry(format!("HANG.{}.{}", fonts_ref[m.font].0, API_NAMES[api])).or_insert(0) += 1;
                                eprintln!("HANG >20s: font={} api={} sel={} edits={:?}", fonts_ref[m.font].0, API_NAMES[api], sel, m.edits.iter().map(|(w, _, b)| format!("{w}={b:02x?}")).collect::<Vec<_>>());
                                continue;
                            }
                        };
                        if let Err(trap) = res {
                            let fname = fonts_ref[m.font].0;
                            let edits: Vec<serde_json::Value> = m.edits.iter().map(|(w, _, b)| json!({"at": w, "bytes_hex": b.iter().map(|x| format!("{:02x}", x)).collect::<String>()})).collect();
                            note(&mut found, &mut counts, (1 << 40) + i, trap, &|| json!({"kind": "field-mutation", "font": fname, "edits": edits, "api": API_NAMES[api], "api_selector": sel}), None, Some((m.clone(), api, sel)));
                        }
                    }
                    i += threads;
                }
                // structured extreme-value fonts
                let mut i = t;
                while i < n_struct {
                    let mut rng = Rng::new(seed ^ i.wrapping_mul(0x9E3779B97F4A7C15) ^ 0x57AC);
                    let (bytes, desc, apis) = gen_structured(&mut rng, i);
                    *counts.entry(format!("struct.{}", desc["kind"].as_str().unwrap_or("?"))).or_insert(0) += 1;
                    for (k, api) in apis.into_iter().enumerate() {
                        let sel = seed ^ i.wrapping_mul(131) ^ api as u64 ^ ((k as u64) << 24);
                        if trace {
                            eprintln!("STRUCT {} api={} {}", i, API_NAMES[api], desc);
                        }
                        if worker.is_none() {
                            worker = Some(spawn_worker());
                        }
                        let w = worker.as_ref().unwrap();
                        let _ = w.0.send((bytes.clone(), api, sel));
                        match w.1.recv_timeout(std::time::Duration::from_secs(20)) {
                            Err(_) => {
                                worker = None;
                                *counts.entry(format!("HANG.struct.{}", API_NAMES[api])).or_insert(0) += 1;
                                eprintln!("HANG >20s: structured case {} api={} {}", i, API_NAMES[api], desc);
                            }
                            Ok(Err(trap)) => {
                                let mut d = desc.clone();
                                d["api"] = API_NAMES[api].into();
                                d["api_selector"] = sel.into();
                                d["font_hex_len"] = bytes.len().into();
                                note(&mut found, &mut counts, (2 << 40) + i, trap, &|| d.clone(), None, None);
                            }
                            Ok(Ok(())) => {}
                        }
                    }
                    i += threads;
                }
                (found, counts)
            }));
        }
        for h in hs {
            results.push(h.join().unwrap());
        }
    });
    let mut all: BTreeMap<String, Found> = BTreeMap::new();
    for (found, counts) in results {
        for (k, v) in counts {
            st.add(&k, v);
        }
        for (k, f) in found {
            if all.get(&k).map(|g| f.idx < g.idx).unwrap_or(true) {
                all.insert(k, f);
            }
        }
    }
    st.evaluations += n_bc + n_mut + n_struct;
    all
}

// ------------------------------------------------------------------------------------------------
// (c) lexical census of arithmetic expressions in the anchored files
// ------------------------------------------------------------------------------------------------
fn strip_code(src: &str) -> String {
    // remove comments, string/char literals; cut the trailing `#[cfg(test)] mod tests`
    // cut the inline test module (`#[cfg(test)] mod tests { ... }` at the end); `#[cfg(test)] mod x;` declarations
    // near the top of a file must not cut anything
    let mut cut = src.len();
    let mut from = 0;
    while let Some(i) = src[from..].find("#[cfg(test)]\nmod ") {
        let at = from + i;
        let line_end = src[at + 13..].find('\n').map(|e| at + 13 + e).unwrap_or(src.len());
        if src[at + 13..line_end].trim_end().ends_with('{') {
            cut = at;
            break;
        }
        from = at + 13;
    }
    let src = &src[..cut];
    let b: Vec<char> = src.chars().collect();
    let mut out = String::with_capacity(b.len());
    let mut i = 0;
    while i < b.len() {
        if b[i] == '/' && i + 1 < b.len() && b[i + 1] == '/' {
            while i < b.len() && b[i] != '\n' {
                i += 1;
            }
        } else if b[i] == '/' && i + 1 < b.len() && b[i + 1] == '*' {
            i += 2;
            while i + 1 < b.len() && !(b[i] == '*' && b[i + 1] == '/') {
                i += 1;
            }
            i += 2;
        } else if b[i] == '"' {
            i += 1;
            while i < b.len() && b[i] != '"' {
                if b[i] == '\\' {
                    i += 1;
                }
                i += 1;
            }
            i += 1;
            out.push_str("\"\"");
        } else if b[i] == '\'' && i + 2 < b.len() && (b[i + 2] == '\'' || (b[i + 1] == '\\' && i + 3 < b.len() && b[i + 3] == '\'')) {
            i += if b[i + 1] == '\\' { 4 } else { 3 };
            out.push('0');
        } else {
            out.push(b[i]);
            i += 1;
        }
    }
    out
}

#[derive(Default, Clone)]
struct Census {
    files: u64,
    binary_checked: u64, // + - * << (and compound forms) with a non-literal operand
    unary_neg: u64,
    abs_calls: u64,
    explicit: u64, // wrapping_/saturating_/checked_/overflowing_ calls
    float_lines_skipped: u64,
}

fn census_file(src: &str, c: &mut Census) {
    let code = strip_code(src);
    c.files += 1;
    for line in code.lines() {
        let l = line.trim();
        if l.is_empty() || l.starts_with("#[") || l.starts_with("use ") || l.starts_with("pub use ") {
            continue;
        }
        c.explicit += ["wrapping_", "saturating_", "checked_", "overflowing_"].iter().map(|p| l.matches(p).count() as u64).sum::<u64>();
        c.abs_calls += l.matches(".abs()").count() as u64;
        let floaty = l.contains("f32") || l.contains("f64") || l.contains(".0 ") || l.contains("as f") || l.contains("_f32") ;
        let ch: Vec<char> = l.chars().collect();
        let is_ident = |x: char| x.is_alphanumeric() || x == '_' || x == ')' || x == ']' || x == '?';
        let mut k = 0;
        let mut n_bin = 0u64;
        let mut n_neg = 0u64;
        while k < ch.len() {
            let c0 = ch[k];
            let next = ch.get(k + 1).copied().unwrap_or(' ');
            let prev_nonspace = ch[..k].iter().rev().find(|x| !x.is_whitespace()).copied();
            match c0 {
                '+' | '*' | '-' => {
                    if c0 == '-' && next == '>' {
                        k += 2;
                        continue;
                    }
                    if c0 == '*' && !prev_nonspace.map(is_ident).unwrap_or(false) {
                        k += 1; // deref / pointer / glob
                        continue;
                    }
                    if c0 == '+' && (l.contains("impl ") || l.contains("where") || l.contains("dyn ") || l.starts_with('+') || l.contains(": ") && l.contains('\'')) && !l.contains('=') {
                        k += 1; // trait bound
                        continue;
                    }
                    let binary = prev_nonspace.map(is_ident).unwrap_or(false);
                    if binary {
                        // operands: literal-only on both sides?
                        let left: String = ch[..k].iter().rev().skip_while(|x| x.is_whitespace()).take_while(|x| x.is_alphanumeric() || **x == '_' || **x == '.').collect();
                        let right: String = ch[k + 1..].iter().skip_while(|x| x.is_whitespace() || **x == '=').take_while(|x| x.is_alphanumeric() || **x == '_' || **x == '.').collect();
                        let lit = |s: &str| !s.is_empty() && s.chars().next().map(|c| c.is_ascii_digit()).unwrap_or(false) || s.chars().rev().next().map(|c| c.is_ascii_digit()).unwrap_or(false) && s.chars().all(|c| c.is_ascii_hexdigit() || c == 'x' || c == '_');
                        let left_rev: String = left.chars().rev().collect();
                        if !(lit(&left_rev) && lit(&right)) {
                            n_bin += 1;
                        }
                    } else if c0 == '-' && (next.is_alphabetic() || next == '(' || next == '_') {
                        n_neg += 1;
                    }
                    k += 1;
                }
                '<' if next == '<' => {
                    n_bin += 1;
                    k += 2;
                }
                _ => k += 1,
            }
        }
        if floaty {
            c.float_lines_skipped += (n_bin + n_neg > 0) as u64;
        } else {
            c.binary_checked += n_bin;
            c.unary_neg += n_neg;
        }
    }
}

fn walk(dir: &std::path::Path, out: &mut Vec<std::path::PathBuf>) {
    if let Ok(rd) = std::fs::read_dir(dir) {
        let mut es: Vec<_> = rd.flatten().map(|e| e.path()).collect();
        es.sort();
        for p in es {
            if p.is_dir() {
                walk(&p, out);
            } else if p.extension().map(|e| e == "rs").unwrap_or(false) {
                out.push(p);
            }
        }
    }
}

fn census() -> serde_json::Value {
    let groups: &[(&str, &[&str])] = &[
        ("font-types/src/fixed.rs", &["/repo/font-types/src/fixed.rs"]),
        ("read-fonts/src", &["/repo/read-fonts/src"]),
        ("skrifa/src/outline/glyf/hint", &["/repo/skrifa/src/outline/glyf/hint"]),
        ("skrifa/src/outline (rest)", &["/repo/skrifa/src/outline"]),
        ("skrifa/src/color", &["/repo/skrifa/src/color"]),
        ("skrifa/src/metrics.rs", &["/repo/skrifa/src/metrics.rs"]),
        ("incremental-font-transfer/src", &["/repo/incremental-font-transfer/src"]),
    ];
    let mut per = serde_json::Map::new();
    let mut tot = Census::default();
    for (name, roots) in groups {
        let mut c = Census::default();
        for r in *roots {
            let repo = std::env::var("FV_REPO").unwrap_or_else(|_| "/repo".into());
            let r = r.replacen("/repo", &repo, 1);
            let p = std::path::Path::new(&r);
            let mut files = vec![];
            if p.is_dir() {
                walk(p, &mut files);
            } else {
                files.push(p.to_path_buf());
            }
            for f in files {
                let fs = f.to_string_lossy().to_string();
                if *name == "skrifa/src/outline (rest)" && fs.contains("/glyf/hint/") {
                    continue;
                }
                if fs.ends_with("/tests.rs") || fs.contains("/test_") {
                    continue;
                }
                if let Ok(s) = std::fs::read_to_string(&f) {
                    census_file(&s, &mut c);
                }
            }
        }
        per.insert(name.to_string(), json!({"files": c.files, "binary_plus_minus_times_shl": c.binary_checked, "unary_minus": c.unary_neg, "abs_calls": c.abs_calls, "explicit_wrapping_saturating_checked_calls": c.explicit, "lines_with_float_arith_skipped": c.float_lines_skipped}));
        tot.files += c.files;
        tot.binary_checked += c.binary_checked;
        tot.unary_neg += c.unary_neg;
        tot.abs_calls += c.abs_calls;
        tot.explicit += c.explicit;
        tot.float_lines_skipped += c.float_lines_skipped;
    }
    // sites translated into coq/C20/Model.v (each chk_/wrap_/sat_ primitive occurrence mirrors one Rust site)
    // sites translated: occurrences of checked / explicit primitives in coq/C20/Model.v (comments stripped,
    // the primitives' own definitions excluded)
    let (translated_unchecked, translated_explicit) = {
        let src = std::fs::read_to_string("/verif/coq/C20/Model.v").unwrap_or_default();
        let mut out = String::new();
        let mut depth = 0;
        let b: Vec<char> = src.chars().collect();
        let mut i = 0;
        while i < b.len() {
            if b[i] == '(' && i + 1 < b.len() && b[i + 1] == '*' {
                depth += 1;
                i += 2;
            } else if depth > 0 && b[i] == '*' && i + 1 < b.len() && b[i + 1] == ')' {
                depth -= 1;
                i += 2;
            } else {
                if depth == 0 {
                    out.push(b[i]);
                }
                i += 1;
            }
        }
        let body: String = out.lines().filter(|l| !(l.starts_with("Definition add32") || l.starts_with("Definition sub32") || l.starts_with("Definition mul32") || l.starts_with("Definition neg32") || l.starts_with("Definition abs32") || l.starts_with("Definition div32") || l.starts_with("Definition add64") || l.starts_with("Definition sub64") || l.starts_with("Definition mul64") || l.starts_with("Definition addu64") || l.starts_with("Definition subu64"))).collect::<Vec<_>>().join("\n");
        let cnt = |pats: &[&str]| -> u64 { pats.iter().map(|p| body.matches(p).count() as u64).sum() };
        (
            cnt(&["add32 ", "sub32 ", "mul32 ", "neg32 ", "abs32 ", "div32 ", "div_s 64", "add64 ", "sub64 ", "mul64 ", "addu64 ", "subu64 ", "chk_u 16", "fx_neg ", "fx_abs ", "fx_fract "]),
            cnt(&["wrap_s ", "wrap_u ", "sat_s ", "sat_u ", "fx_add ", "fx_sub ", "clamp "]),
        )
    };
    let found = tot.binary_checked + tot.unary_neg + tot.abs_calls;
    json!({
        "method": "lexical scan of non-test, non-comment code in the anchored files: binary + - * << (incl. compound assignment) with at least one non-literal operand, unary minus on a non-literal, .abs(); lines mentioning float types are counted separately; trait-bound `+`, `->`, deref `*` excluded heuristically. An over-approximation of integer sites (includes usize index arithmetic).",
        "per_group": per,
        "unchecked_arith_expressions_found": found,
        "explicit_wrapping_saturating_checked_calls_found": tot.explicit,
        "sites_translated_unchecked": translated_unchecked,
        "sites_translated_explicit": translated_explicit,
        "coverage_of_unchecked_sites_percent": (translated_unchecked as f64 * 1000.0 / found.max(1) as f64).round() / 10.0,
        "coverage_of_all_arith_sites_percent": ((translated_unchecked + translated_explicit) as f64 * 1000.0 / (found + tot.explicit).max(1) as f64).round() / 10.0,
    })
}

/// Census of read-fonts' hand-written table modules: every `pub fn` (non-test code) whose body contains integer
/// arithmetic (`+ - * <<`, compound forms, not wrapping_/checked_/saturating_ only), and whether this harness
/// calls a method of that name (`.name(` / `::name(` occurs in this file's own source).
fn entry_point_census() -> serde_json::Value {
    let own = include_str!("c20.rs");
    let repo = std::env::var("FV_REPO").unwrap_or_else(|_| "/repo".into());
    let mut files = vec![];
    walk(std::path::Path::new(&format!("{repo}/read-fonts/src/tables")), &mut files);
    walk(std::path::Path::new(&format!("{repo}/read-fonts/src/collections")), &mut files);
    let mut driven = vec![];
    let mut not_driven = vec![];
    for f in files {
        let fs = f.to_string_lossy().to_string();
        let Ok(src) = std::fs::read_to_string(&f) else { continue };
        let code = strip_code(&src);
        let bytes: Vec<char> = code.chars().collect();
        let mut i = 0;
        let text: String = bytes.iter().collect();
        while let Some(pos) = text[i..].find("pub fn ") {
            let start = i + pos;
            let name: String = text[start + 7..].chars().take_while(|c| c.is_alphanumeric() || *c == '_').collect();
            // body = from the first '{' after the signature to its matching '}'
            let Some(ob) = text[start..].find('{') else { break };
            let mut depth = 0i32;
            let mut end = start + ob;
            for (k, ch) in text[start + ob..].char_indices() {
                if ch == '{' {
                    depth += 1;
                } else if ch == '}' {
                    depth -= 1;
                    if depth == 0 {
                        end = start + ob + k;
                        break;
                    }
                }
            }
            let body = &text[start + ob..=end.min(text.len() - 1)];
            let mut c = Census::default();
            census_file(body, &mut c);
            if c.binary_checked + c.unary_neg + c.abs_calls > 0 && !name.is_empty() {
                let rel = fs.split("/read-fonts/src/").last().unwrap_or(&fs).to_string();
                let called = own.contains(&format!(".{}(", name)) || own.contains(&format!("::{}(", name));
                let entry = format!("{}::{}", rel, name);
                if called {
                    driven.push(entry);
                } else {
                    not_driven.push(entry);
                }
            }
            i = end.max(start + 7);
        }
    }
    driven.sort();
    not_driven.sort();
    json!({"method": "pub fns of read-fonts/src/{tables,collections} (hand-written, non-test) whose body contains unchecked integer arithmetic; 'driven' = this harness calls a method of that name directly (indirect reachability through skrifa/klippa/IFT APIs is not counted)",
           "with_arithmetic": driven.len() + not_driven.len(), "driven_directly": driven.len(), "driven": driven, "not_driven_directly": not_driven})
}

fn struct_debug() {
    use incremental_font_transfer::patchmap::{intersecting_patches, SubsetDefinition};
    // glyph-keyed patch against a CFF base whose first CharStrings offset exceeds the second
    {
        use incremental_font_transfer::patch_group::{PatchGroup, UriStatus};
        let fonts = load_fonts();
        for (name, bytes) in fonts.iter().filter(|f| f.0.contains("glyph_keyed")) {
            let mut b = bytes.clone();
            let pos = charstrings_index_pos(&b);
            if let Some((at, osz, count)) = pos {
                let cur = |b: &Vec<u8>, k: usize| -> u32 { let mut v = 0u32; for i in 0..osz { v = (v << 8) | b[at + k * osz + i] as u32; } v };
                println!("{} charstrings INDEX: count {} offSize {} offsets[0..4] {:?}", name, count, osz, (0..4).map(|k| cur(&b, k)).collect::<Vec<_>>());
                let v = cur(&b, 1) + 1;
                b[at..at + osz].copy_from_slice(&v.to_be_bytes()[4 - osz..]);
            }
            let font = FontRef::new(&b).unwrap();
            let tag: [u8; 4] = if font.table_data(skrifa::Tag::new(b"CFF ")).is_some() { *b"CFF " } else if font.table_data(skrifa::Tag::new(b"CFF2")).is_some() { *b"CFF2" } else { *b"glyf" };
            let mut rng = Rng::new(1);
            let patch = gen_glyph_keyed_patch(&mut rng, &[tag], &[5]);
            let r = catch_loc(move || {
                let font = FontRef::new(&b).unwrap();
                match PatchGroup::select_next_patches(font, &SubsetDefinition::all()) {
                    Ok(g) => {
                        let uris: Vec<String> = g.uris().map(|s| s.to_string()).collect();
                        let mut map: std::collections::HashMap<String, UriStatus> = uris.iter().map(|u| (u.clone(), UriStatus::Pending(patch.clone()))).collect();
                        format!("uris {:?} apply {:?}", uris, g.apply_next_patches_with_decoder(&mut map, &LenientDecoder).map(|v| v.len()))
                    }
                    Err(e) => format!("select error {e:?}"),
                }
            });
            println!("  {} tag {:?}: {:?}", name, String::from_utf8_lossy(&tag), r.map_err(|t| format!("{} @ {}", t.msg, t.loc)));
        }
    }
    // hand-minimised IFT format 1 feature maps for the three patchmap.rs sites
    for (name, max_entry, recs) in [
        ("patchmap.rs:298 index * field_width * 2", 400u16, vec![(*b"dlig", 301u16, 16385u16)]),
        ("patchmap.rs:300 first_new_entry_index + i", 256, vec![(*b"dlig", 65535, 2)]),
        ("patchmap.rs:285 cumulative_entry_map_count", 256, vec![(*b"liga", 50, 1), (*b"liga", 50, 65535)]),
    ] {
        let ift = build_ift_format1(max_entry, 10, &recs, &[], true);
        let n = ift.len();
        let mut tabs = simple_glyf_tables();
        tabs.push((*b"IFT ", ift));
        let refs: Vec<(&[u8; 4], Vec<u8>)> = tabs.iter().map(|(t, b)| (t, b.clone())).collect();
        let bytes = sfnt(&refs);
        let r = catch_loc(move || intersecting_patches(&FontRef::new(&bytes).unwrap(), &SubsetDefinition::all()).map(|v| v.len()));
        println!("MINIMAL {} (IFT table {} bytes): {:?}", name, n, r.map_err(|t| format!("{} @ {}", t.msg, t.loc)));
    }
    for idx in [0u64, 1, 11, 12, 13, 14, 15, 16, 17, 18, 19, 20, 21, 43, 44, 45, 46, 47, 48, 22, 23, 30, 31] {
        let mut rng = Rng::new(idx);
        let (bytes, desc, _) = gen_structured(&mut rng, idx);
        println!("--- {} len={} {}", idx, bytes.len(), &desc.to_string()[..desc.to_string().len().min(300)]);
        let r = catch_loc(move || {
            let font = match FontRef::new(&bytes) {
                Ok(f) => f,
                Err(e) => return format!("FontRef error {e}"),
            };
            let mut out = String::new();
            if font.table_data(skrifa::Tag::new(b"IFT ")).is_some() {
                let r = intersecting_patches(&font, &SubsetDefinition::all());
                out.push_str(&format!("ift: {:?}", r.map(|v| v.len())));
            } else {
                let o = font.outline_glyphs();
                out.push_str(&format!("format {:?} axes {} ", o.format(), font.axes().len()));
                let loc = font.axes().location([("wght", 900.0f32)]);
                for g in 0..2u32 {
                    if let Some(gl) = o.get(GlyphId::new(g)) {
                        let mut pen = Pts::default();
                        let r = gl.draw(DrawSettings::unhinted(Size::new(16.0), &loc), &mut pen);
                        out.push_str(&format!("g{} {:?} pts={:?} ", g, r.map(|_| ()), &pen.0[..pen.0.len().min(4)]));
                    } else {
                        out.push_str(&format!("g{} none ", g));
                    }
                }
            }
            out
        });
        println!("    {:?}", r.map_err(|t| format!("{} @ {}", t.msg, t.loc)));
    }
}

fn main() {
    install_hook();
    if std::env::var("C20_STRUCT_DEBUG").is_ok() {
        struct_debug();
        return;
    }
    let args: Vec<String> = std::env::args().collect();
    let thorough = tier_is_thorough(&args);
    let seed = seed_from_env();
    let dir = out_dir(&args, "C20");
    let mut rng = Rng::new(seed);
    let mut st = Stats::new();
    let mut cw = CaseWriter::new(
        &dir,
        "From Coq Require Import ZArith List. Import ListNotations. Open Scope Z_scope.\nFrom FV Require Import Lib.Cases C20.Model.",
        "Z * list Z * list Z",
        "check_case",
        if thorough { 4000 } else { 2400 },
    );
    let kernel_traps = correspondence(&mut st, &mut cw, &mut rng, thorough);
    // (b) search
    let fonts = load_fonts();
    let found = search(seed, thorough, &mut st, &fonts);
    let mut sites = vec![];
    let mut other = vec![];
    let mut reached: std::collections::BTreeSet<String> = Default::default();
    for (key, f) in &found {
        reached.insert(f.trap.loc.clone());
        let input = match (&f.bc, &f.mu) {
            (Some(c), _) => reduce_bc(c, key).describe(),
            (None, Some((m, api, sel))) => describe_mut(&fonts, &reduce_mut(&fonts, m, *api, *sel, key), *api, *sel),
            _ => f.input.clone(),
        };
        let rec = json!({"key": key, "site": f.trap.loc, "message": f.trap.msg, "class": format!("{:?}", f.kind), "minimal_input": input});
        match f.kind {
            Kind::Overflow | Kind::Assert => {
                st.oracle_failure(json!({"key": key, "what": format!("strict-profile trap reachable from font data: {} at {}", f.trap.msg, f.trap.loc), "site": f.trap.loc, "message": f.trap.msg, "input": input}));
                sites.push(rec);
            }
            Kind::Other => other.push(rec),
        }
    }
    st.v.insert("trap_sites_reached_from_font_data".into(), sites.clone().into());
    st.v.insert("trap_sites_count".into(), sites.len().into());
    st.v.insert("other_panics_not_c20".into(), other.into());
    // kernel-level traps (direct hook calls) and whether the search reached the same site from a font
    let kt: Vec<serde_json::Value> = kernel_traps
        .values()
        .map(|v| {
            let mut v = v.clone();
            let site = v["site"].as_str().unwrap_or("").to_string();
            v["reached_from_font_by_search"] = reached.contains(&site).into();
            v
        })
        .collect();
    st.v.insert("kernel_trap_sites_direct_call".into(), kt.into());
    st.v.insert("census".into(), census());
    st.v.insert("read_fonts_entry_point_census".into(), entry_point_census());
    let shards = cw.finish();
    st.v.insert("shards".into(), shards.into());
    st.v.insert("model_cases".into(), cw.len().into());
    st.write(&dir, "correspondence: every modelled kernel on a boundary-dense i32 grid (0, +-2^k+-d, MIN/MAX +-{16,31,32,63,64,272,..}) crossed pairwise/triple-wise plus random operands, SROUND/S45ROUND+ROUND through the real interpreter, synthetic fvar/avar/cmap4/Index1/hmtx/gvar tables; search: generated TrueType programs (systematic one-instruction programs for 96 opcodes x 4 program locations, then random prologue + 1..4 instructions with extreme operands) drawn hinted, and value-extreme byte/field mutations of 42 test fonts x 13 API groups (incl. klippa subsetting and IFT patch selection/application); non-trivial = some operand of magnitude > 1");
    println!("cases={} shards={} kernel_trap_sites={} c20_trap_sites={} oracle_failures={}", cw.len(), shards, kernel_traps.len(), sites.len(), st.oracle_failures.len());
    for s in &sites {
        println!("TRAP {}", s["key"].as_str().unwrap_or(""));
    }
}
