//! C20 harness — "no arithmetic overflow or debug-assertion failure is reachable from font data".
//!
//! (a) correspondence: every kernel modelled in coq/C20/Model.v is run on boundary-dense + random
//!     operands through the verification hooks / public API; "panicked" vs the value is compared
//!     with the model's None / Some by coqc.
//! (b) strict-profile search (implementation only): synthetic TrueType fonts whose fpgm / prep /
//!     glyph programs push extreme operands into every arithmetic / rounding / delta / move
//!     instruction, drawn hinted at several ppem; value-extreme field mutations of the font-test-data
//!     fonts followed by the skrifa draw / metrics / paint APIs, klippa Plan+subset and IFT selection.
//!     Panic payloads are classified; only overflow / negate / shift / assertion payloads are C20
//!     oracle failures, keyed by the source site taken from `PanicInfo::location()`.
//! (c) a lexical census of arithmetic expressions in the anchored files (coverage gap as a number).
use font_types::{F26Dot6, F2Dot14, Fixed};
use read_fonts::{FontData, FontRead, FontRef, TableProvider};
use serde_json::json;
use skrifa::instance::{LocationRef, Size};
use skrifa::outline::{DrawSettings, Engine, HintingInstance, HintingOptions, OutlinePen, SmoothMode, Target};
use skrifa::{GlyphId, MetadataProvider};
use std::cell::RefCell;
use std::collections::BTreeMap;
use vh::*;

// ------------------------------------------------------------------------------------------------
// panic capture with source location
// ------------------------------------------------------------------------------------------------
thread_local! {
    static LAST_LOC: RefCell<Option<String>> = const { RefCell::new(None) };
}

fn install_hook() {
    std::panic::set_hook(Box::new(|info| {
        let loc = info.location().map(|l| {
            let f = l.file();
            let f = f.strip_prefix("/repo/").unwrap_or(f);
            // std locations: keep only the tail below library/
            let f = match f.find("/library/") {
                Some(i) => &f[i + 1..],
                None => f,
            };
            format!("{}:{}", f, l.line())
        });
        LAST_LOC.with(|c| *c.borrow_mut() = loc);
    }));
}

#[derive(Clone, Debug)]
struct Trap {
    msg: String,
    loc: String,
}

fn catch_loc<T>(f: impl FnOnce() -> T + std::panic::UnwindSafe) -> Result<T, Trap> {
    LAST_LOC.with(|c| *c.borrow_mut() = None);
    match catch(f) {
        Ok(v) => Ok(v),
        Err(msg) => {
            let loc = LAST_LOC.with(|c| c.borrow_mut().take()).unwrap_or_else(|| "?".into());
            Err(Trap { msg, loc })
        }
    }
}

#[derive(Clone, Copy, PartialEq, Eq, Debug)]
enum Kind {
    Overflow,
    Assert,
    Other,
}

fn classify(msg: &str) -> Kind {
    if msg.starts_with("attempt to") && msg.contains("with overflow") {
        Kind::Overflow
    } else if msg.contains("assertion") || msg.contains("debug_assert") {
        Kind::Assert
    } else {
        Kind::Other
    }
}

// ------------------------------------------------------------------------------------------------
// tiny sfnt assembler (everything by hand so that any field can take any value)
// ------------------------------------------------------------------------------------------------
fn be16(v: &mut Vec<u8>, x: u16) {
    v.extend_from_slice(&x.to_be_bytes());
}
fn be32(v: &mut Vec<u8>, x: u32) {
    v.extend_from_slice(&x.to_be_bytes());
}
fn bei16(v: &mut Vec<u8>, x: i16) {
    v.extend_from_slice(&x.to_be_bytes());
}

fn sfnt(tables: &[(&[u8; 4], Vec<u8>)]) -> Vec<u8> {
    let mut tabs: Vec<(&[u8; 4], &Vec<u8>)> = tables.iter().map(|(t, d)| (*t, d)).collect();
    tabs.sort_by_key(|(t, _)| **t);
    let n = tabs.len() as u16;
    let mut out = vec![];
    be32(&mut out, 0x00010000);
    be16(&mut out, n);
    let mut sr = 1u16;
    let mut es = 0u16;
    while sr * 2 <= n {
        sr *= 2;
        es += 1;
    }
    be16(&mut out, sr * 16);
    be16(&mut out, es);
    be16(&mut out, n * 16 - sr * 16);
    let mut off = 12 + 16 * tabs.len();
    let mut body = vec![];
    for (t, d) in &tabs {
        out.extend_from_slice(*t);
        be32(&mut out, 0);
        be32(&mut out, off as u32);
        be32(&mut out, d.len() as u32);
        body.extend_from_slice(d);
        while body.len() % 4 != 0 {
            body.push(0);
        }
        off = 12 + 16 * tabs.len() + body.len();
    }
    out.extend_from_slice(&body);
    out
}

#[derive(Clone, Debug)]
struct TtSpec {
    upem: u16,
    /// glyph 0 (simple): points (x, y, on_curve) in one contour, and its program
    pts: Vec<(i16, i16)>,
    glyph_prog: Vec<u8>,
    /// glyph 1: composite of glyph 0 with a 2x2 transform + offsets and its own program
    comp_xform: [i16; 4],
    comp_off: (i16, i16),
    comp_prog: Vec<u8>,
    cvt: Vec<i16>,
    fpgm: Vec<u8>,
    prep: Vec<u8>,
    advance: u16,
    lsb: i16,
    max_twilight: u16,
    max_stack: u16,
    max_storage: u16,
    hhea_asc: i16,
    hhea_desc: i16,
}

impl Default for TtSpec {
    fn default() -> Self {
        TtSpec {
            upem: 1000,
            pts: vec![(0, 0), (500, 0), (500, 700), (0, 700)],
            glyph_prog: vec![],
            comp_xform: [0x4000, 0, 0, 0x4000],
            comp_off: (0, 0),
            comp_prog: vec![],
            cvt: vec![0, 100, -100, 700, 32767, -32768, 1, -1],
            fpgm: vec![],
            prep: vec![],
            advance: 600,
            lsb: 0,
            max_twilight: 8,
            max_stack: 64,
            max_storage: 8,
            hhea_asc: 800,
            hhea_desc: -200,
        }
    }
}

fn build_tt(s: &TtSpec) -> Vec<u8> {
    // glyf
    let mut g0 = vec![];
    if !s.pts.is_empty() {
        bei16(&mut g0, 1);
        let (mut x0, mut y0, mut x1, mut y1) = (i16::MAX, i16::MAX, i16::MIN, i16::MIN);
        for (x, y) in &s.pts {
            x0 = x0.min(*x);
            y0 = y0.min(*y);
            x1 = x1.max(*x);
            y1 = y1.max(*y);
        }
        for v in [x0, y0, x1, y1] {
            bei16(&mut g0, v);
        }
        be16(&mut g0, s.pts.len() as u16 - 1);
        be16(&mut g0, s.glyph_prog.len() as u16);
        g0.extend_from_slice(&s.glyph_prog);
        for _ in &s.pts {
            g0.push(0x01); // on curve, long x, long y
        }
        let mut px = 0i16;
        for (x, _) in &s.pts {
            bei16(&mut g0, x.wrapping_sub(px));
            px = *x;
        }
        let mut py = 0i16;
        for (_, y) in &s.pts {
            bei16(&mut g0, y.wrapping_sub(py));
            py = *y;
        }
        while g0.len() % 4 != 0 {
            g0.push(0);
        }
    }
    let mut g1 = vec![];
    bei16(&mut g1, -1);
    for v in [0i16, 0, 500, 700] {
        bei16(&mut g1, v);
    }
    // ARG_1_AND_2_ARE_WORDS | ARGS_ARE_XY_VALUES | WE_HAVE_A_TWO_BY_TWO | WE_HAVE_INSTRUCTIONS
    let flags: u16 = 0x0001 | 0x0002 | 0x0080 | if s.comp_prog.is_empty() { 0 } else { 0x0100 };
    be16(&mut g1, flags);
    be16(&mut g1, 0);
    bei16(&mut g1, s.comp_off.0);
    bei16(&mut g1, s.comp_off.1);
    for v in s.comp_xform {
        bei16(&mut g1, v);
    }
    if !s.comp_prog.is_empty() {
        be16(&mut g1, s.comp_prog.len() as u16);
        g1.extend_from_slice(&s.comp_prog);
    }
    while g1.len() % 4 != 0 {
        g1.push(0);
    }
    let mut loca = vec![];
    be32(&mut loca, 0);
    be32(&mut loca, g0.len() as u32);
    be32(&mut loca, (g0.len() + g1.len()) as u32);
    let mut glyf = g0;
    glyf.extend_from_slice(&g1);
    // head
    let mut head = vec![];
    be32(&mut head, 0x00010000);
    be32(&mut head, 0x00010000);
    be32(&mut head, 0);
    be32(&mut head, 0x5F0F3CF5);
    be16(&mut head, 0x000B);
    be16(&mut head, s.upem);
    head.extend_from_slice(&[0; 16]);
    for v in [0i16, 0, 500, 700] {
        bei16(&mut head, v);
    }
    be16(&mut head, 0);
    be16(&mut head, 6);
    bei16(&mut head, 2);
    bei16(&mut head, 1); // long loca
    bei16(&mut head, 0);
    // maxp 1.0
    let mut maxp = vec![];
    be32(&mut maxp, 0x00010000);
    be16(&mut maxp, 2);
    be16(&mut maxp, s.pts.len() as u16);
    be16(&mut maxp, 1);
    be16(&mut maxp, s.pts.len() as u16);
    be16(&mut maxp, 1);
    be16(&mut maxp, 2);
    be16(&mut maxp, s.max_twilight);
    be16(&mut maxp, s.max_storage);
    be16(&mut maxp, 8);
    be16(&mut maxp, 2);
    be16(&mut maxp, s.max_stack);
    be16(&mut maxp, 4096);
    be16(&mut maxp, 1);
    be16(&mut maxp, 1);
    // hhea
    let mut hhea = vec![];
    be32(&mut hhea, 0x00010000);
    bei16(&mut hhea, s.hhea_asc);
    bei16(&mut hhea, s.hhea_desc);
    bei16(&mut hhea, 0);
    be16(&mut hhea, s.advance);
    hhea.extend_from_slice(&[0; 22]);
    be16(&mut hhea, 2);
    let mut hmtx = vec![];
    for _ in 0..2 {
        be16(&mut hmtx, s.advance);
        bei16(&mut hmtx, s.lsb);
    }
    let mut cvt = vec![];
    for v in &s.cvt {
        bei16(&mut cvt, *v);
    }
    let mut tables: Vec<(&[u8; 4], Vec<u8>)> = vec![
        (b"head", head),
        (b"maxp", maxp),
        (b"hhea", hhea),
        (b"hmtx", hmtx),
        (b"loca", loca),
        (b"glyf", glyf),
    ];
    if !s.cvt.is_empty() {
        tables.push((b"cvt ", cvt));
    }
    if !s.fpgm.is_empty() {
        tables.push((b"fpgm", s.fpgm.clone()));
    }
    if !s.prep.is_empty() || s.fpgm.is_empty() {
        // keep a (possibly trivial) prep so that the interpreter is preferred
        let mut p = s.prep.clone();
        if p.is_empty() {
            p.push(0x4F); // DEBUG: no-op
        }
        tables.push((b"prep", p));
    }
    sfnt(&tables)
}

// ---- bytecode assembler ----
const MUL: u8 = 0x63;
const ADD: u8 = 0x60;
fn pushw(p: &mut Vec<u8>, v: i16) {
    p.push(0xB8);
    p.extend_from_slice(&v.to_be_bytes());
}
/// push an arbitrary i32 using only PUSHW, MUL (= a*b/64, exact here) and the wrapping ADD
fn push_any(p: &mut Vec<u8>, v: i32) {
    if v >= i16::MIN as i32 && v <= i16::MAX as i32 {
        pushw(p, v as i16);
        return;
    }
    let lo = v as i16;
    let hi = (v.wrapping_sub(lo as i32) >> 16) as i16;
    pushw(p, hi);
    pushw(p, 16384);
    pushw(p, 16384);
    p.push(MUL); // 2^28/64 = 2^22
    p.push(MUL); // hi * 2^22 / 64 = hi << 16
    if lo != 0 {
        pushw(p, lo);
        p.push(ADD);
    }
}

#[derive(Default)]
struct Pts(Vec<(f32, f32)>);
impl OutlinePen for Pts {
    fn move_to(&mut self, x: f32, y: f32) {
        self.0.push((x, y));
    }
    fn line_to(&mut self, x: f32, y: f32) {
        self.0.push((x, y));
    }
    fn quad_to(&mut self, a: f32, b: f32, x: f32, y: f32) {
        self.0.push((a, b));
        self.0.push((x, y));
    }
    fn curve_to(&mut self, a: f32, b: f32, c: f32, d: f32, x: f32, y: f32) {
        self.0.push((a, b));
        self.0.push((c, d));
        self.0.push((x, y));
    }
    fn close(&mut self) {}
}

fn target_of(k: u8) -> Target {
    match k % 4 {
        0 => Target::Mono,
        1 => Target::Smooth { mode: SmoothMode::Normal, symmetric_rendering: true, preserve_linear_metrics: false },
        2 => Target::Smooth { mode: SmoothMode::Light, symmetric_rendering: false, preserve_linear_metrics: true },
        _ => Target::Smooth { mode: SmoothMode::Lcd, symmetric_rendering: true, preserve_linear_metrics: false },
    }
}

/// Draw glyph `gid` hinted with the interpreter. Returns the pen points (or an error string).
fn draw_hinted(bytes: &[u8], gid: u32, ppem: f32, target: u8, pedantic: bool) -> Result<Vec<(f32, f32)>, String> {
    let font = FontRef::new(bytes).map_err(|e| format!("{e}"))?;
    let outlines = font.outline_glyphs();
    let opts = HintingOptions { engine: Engine::Interpreter, target: target_of(target) };
    let inst = HintingInstance::new(&outlines, Size::new(ppem), LocationRef::default(), opts).map_err(|e| format!("inst: {e}"))?;
    let g = outlines.get(GlyphId::new(gid)).ok_or("no glyph")?;
    let mut pen = Pts::default();
    g.draw(DrawSettings::hinted(&inst, pedantic), &mut pen).map_err(|e| format!("draw: {e}"))?;
    Ok(pen.0)
}

// ------------------------------------------------------------------------------------------------
// (a) correspondence
// ------------------------------------------------------------------------------------------------
fn round_mode(i: i64) -> skrifa::verif::RoundMode {
    use skrifa::verif::RoundMode::*;
    match i {
        0 => Grid,
        1 => HalfGrid,
        2 => DoubleGrid,
        3 => DownToGrid,
        4 => UpToGrid,
        5 => Off,
        6 => Super,
        _ => Super45,
    }
}

/// SROUND/S45ROUND sel; ROUND[00] d observed through the real interpreter: the rounded value is
/// written to point 0's x coordinate with SCFS (x axis, Mono target) and read back from the pen.
fn sround_program(grid: i64, sel: i64, d: i64) -> Vec<u8> {
    let mut p = vec![0x01]; // SVTCA[x]
    pushw(&mut p, 0); // point 0 for SCFS
    pushw(&mut p, sel as i16);
    p.push(if grid == 0x4000 { 0x76 } else { 0x77 });
    push_any(&mut p, d as i32);
    p.push(0x68); // ROUND[00]
    p.push(0x48); // SCFS
    p
}

fn run_op(op: i64, a: &[i64]) -> Result<Vec<i64>, Trap> {
    use skrifa::verif::math;
    let a = a.to_vec();
    catch_loc(move || {
        let i = |k: usize| a[k] as i32;
        let fx = |k: usize| Fixed::from_bits(a[k] as i32);
        match op {
            1 => vec![math::floor(i(0)) as i64],
            2 => vec![math::round(i(0)) as i64],
            3 => vec![math::ceil(i(0)) as i64],
            4 => vec![math::round_pad(i(0), i(1)) as i64],
            5 => vec![math::mul(i(0), i(1)) as i64],
            6 => vec![math::div(i(0), i(1)) as i64],
            7 => vec![math::mul_div(i(0), i(1), i(2)) as i64],
            8 => vec![math::mul_div_no_round(i(0), i(1), i(2)) as i64],
            9 => vec![math::mul14(i(0), i(1)) as i64],
            10 => {
                let _ = math::normalize14(i(0), i(1));
                vec![0]
            }
            11 => {
                let rs = skrifa::verif::RoundState { mode: round_mode(a[0]), threshold: i(1), phase: i(2), period: i(3) };
                vec![rs.round(F26Dot6::from_bits(i(4))).to_bits() as i64]
            }
            20 => vec![(-fx(0)).to_bits() as i64],
            21 => vec![fx(0).abs().to_bits() as i64],
            22 => vec![fx(0).fract().to_bits() as i64],
            23 => vec![Fixed::from_i32(i(0)).to_bits() as i64],
            24 => vec![fx(0).to_i32() as i64],
            25 => vec![fx(0).to_f26dot6().to_bits() as i64],
            26 => vec![fx(0).to_f2dot14().to_bits() as i64],
            27 => vec![F2Dot14::from_bits(a[0] as i16).to_fixed().to_bits() as i64],
            28 => vec![F2Dot14::from_bits(a[0] as i16).abs().to_bits() as i64],
            29 => vec![F26Dot6::from_i32(i(0)).to_bits() as i64],
            30 => vec![F26Dot6::from_bits(i(0)).to_i32() as i64],
            31 => vec![F26Dot6::from_bits(i(0)).fract().to_bits() as i64],
            32 => vec![F2Dot14::from_bits(a[0] as i16).fract().to_bits() as i64],
            40 => {
                use read_fonts::tables::glyf::PointCoord;
                vec![<i32 as PointCoord>::midpoint(i(0), i(1)) as i64]
            }
            41 => {
                let mut b = vec![];
                be16(&mut b, 1);
                be16(&mut b, 0);
                be16(&mut b, 16);
                be16(&mut b, 2);
                be16(&mut b, 1);
                be16(&mut b, 20);
                be16(&mut b, 0);
                be16(&mut b, 8);
                b.extend_from_slice(b"wght");
                for k in 0..3 {
                    be32(&mut b, a[k] as i32 as u32);
                }
                be16(&mut b, 0);
                be16(&mut b, 256);
                let fvar = read_fonts::tables::fvar::Fvar::read(FontData::new(&b)).unwrap();
                let axes = fvar.axes().unwrap();
                vec![axes[0].normalize(fx(3)).to_bits() as i64]
            }
            42 => {
                let mut b = vec![];
                let n = (a.len() - 1) / 2;
                be16(&mut b, n as u16);
                for k in 0..2 * n {
                    bei16(&mut b, a[1 + k] as i16);
                }
                let sm = read_fonts::tables::avar::SegmentMaps::read(FontData::new(&b)).unwrap();
                vec![sm.apply(fx(0)).to_bits() as i64]
            }
            43 => {
                let (cp, sx2, n, ng) = (a[0], a[1], a[2] as usize, a[3] as usize);
                let r = &a[4..];
                let mut b = vec![];
                be16(&mut b, 4);
                be16(&mut b, 0);
                be16(&mut b, 0);
                be16(&mut b, sx2 as u16);
                be16(&mut b, 0);
                be16(&mut b, 0);
                be16(&mut b, 0);
                for k in 0..n {
                    be16(&mut b, r[n + k] as u16); // end codes
                }
                be16(&mut b, 0);
                for k in 0..n {
                    be16(&mut b, r[k] as u16); // start codes
                }
                for k in 0..n {
                    bei16(&mut b, r[2 * n + k] as i16);
                }
                for k in 0..n {
                    be16(&mut b, r[3 * n + k] as u16);
                }
                for k in 0..ng {
                    be16(&mut b, r[4 * n + k] as u16);
                }
                let l = b.len() as u16;
                b[2..4].copy_from_slice(&l.to_be_bytes());
                let t = read_fonts::tables::cmap::Cmap4::read(FontData::new(&b)).unwrap();
                match t.map_codepoint(cp as u32) {
                    Some(g) => vec![g.to_u32() as i64],
                    None => vec![-1],
                }
            }
            44 => {
                let bytes: Vec<u8> = a.iter().map(|x| *x as u8).collect();
                vec![read_fonts::tables::compute_checksum(&bytes) as i64]
            }
            45 => {
                // Index1 { count, off_size, offsets[(count + 1) * off_size], data[..] }
                let (count, one, off_size) = (a[0], a[1], a[2]);
                assert_eq!(one, 1);
                let mut b = vec![];
                be16(&mut b, count as u16);
                b.push(off_size as u8);
                b.resize(3 + ((count + 1) * off_size) as usize + 1, 1);
                let t = read_fonts::tables::postscript::Index1::read(FontData::new(&b)).unwrap();
                vec![t.offsets().len() as i64]
            }
            46 => {
                let sx2 = a[0];
                let mut b = vec![];
                be16(&mut b, 4);
                be16(&mut b, 0);
                be16(&mut b, 0);
                be16(&mut b, sx2 as u16);
                b.resize(14 + 2 + 4 * (sx2 as usize / 2) * 2 + 4, 0);
                let t = read_fonts::tables::cmap::Cmap4::read(FontData::new(&b)).unwrap();
                vec![t.start_code().len() as i64]
            }
            47 => {
                let (num_glyphs, n_hm) = (a[0] as u16, a[1] as u16);
                let b = vec![0u8; 4 * n_hm as usize + 2 * (num_glyphs as usize) + 8];
                let t = read_fonts::tables::hmtx::Hmtx::read(FontData::new(&b), n_hm, num_glyphs).unwrap();
                vec![t.left_side_bearings().len() as i64]
            }
            48 => {
                let gc = a[0] as u16;
                assert_eq!(a[1], 1);
                let mut b = vec![];
                be16(&mut b, 1);
                be16(&mut b, 0);
                be16(&mut b, 0);
                be16(&mut b, 0);
                be32(&mut b, 20);
                be16(&mut b, gc);
                be16(&mut b, 0);
                be32(&mut b, 0);
                b.resize(20 + 2 * (gc as usize + 1) + 4, 0);
                let t = read_fonts::tables::gvar::Gvar::read(FontData::new(&b)).unwrap();
                vec![t.glyph_variation_data_offsets().len() as i64]
            }
            _ => unreachable!(),
        }
    })
}

fn ext32() -> Vec<i64> {
    let mut v: Vec<i64> = boundary_i32().into_iter().map(|x| x as i64).collect();
    for d in [16i64, 31, 32, 33, 62, 63, 64, 65, 127, 128, 255, 256, 272, 511, 512] {
        v.push(i32::MAX as i64 - d);
        v.push(i32::MIN as i64 + d);
    }
    v.sort();
    v.dedup();
    v
}

struct Corr<'a> {
    st: &'a mut Stats,
    cw: &'a mut CaseWriter,
    kernel_traps: BTreeMap<String, serde_json::Value>,
}

impl Corr<'_> {
    fn emit_res(&mut self, op: i64, a: Vec<i64>, res: Result<Vec<i64>, Trap>) {
        self.st.evaluations += 1;
        self.st.count(&format!("op{:02}", op));
        match &res {
            Err(t) => {
                self.st.count(&format!("op{:02}.panic", op));
                let k = format!("{}:{}", t.loc, t.msg);
                self.kernel_traps.entry(k).or_insert_with(|| json!({"op": op, "args": a, "site": t.loc, "message": t.msg}));
            }
            Ok(_) => {}
        }
        let resv = res.as_ref().map(|v| v.clone()).unwrap_or_default();
        let canon = format!("{} {:?}", op, a);
        if a.iter().any(|v| v.abs() > 1) {
            self.st.nontrivial(&canon);
        }
        self.st.sample(json!({"op":op,"args":a,"impl":format!("{:?}", res.as_ref().map_err(|t| t.msg.clone()))}));
        self.cw.push(format!("({}, {}, {})", op, czlist(a.iter().map(|v| *v as i128)), czlist(resv.iter().map(|v| *v as i128))));
    }
    fn emit(&mut self, op: i64, a: Vec<i64>) {
        let res = run_op(op, &a);
        self.emit_res(op, a, res);
    }
}

fn correspondence(st: &mut Stats, cw: &mut CaseWriter, rng: &mut Rng, thorough: bool) -> BTreeMap<String, serde_json::Value> {
    let mut c = Corr { st, cw, kernel_traps: BTreeMap::new() };
    let g = ext32();
    let r32 = |rng: &mut Rng, g: &Vec<i64>| -> i64 {
        if rng.chance(1, 2) {
            *rng.pick(g)
        } else {
            rng.next_u32() as i32 as i64
        }
    };
    let nr = if thorough { 4000 } else { 700 };
    // unary math + Fixed
    for op in [1i64, 2, 3, 20, 21, 22, 23, 24, 25, 26, 29, 30, 31] {
        for x in &g {
            c.emit(op, vec![*x]);
        }
        for _ in 0..nr / 10 {
            c.emit(op, vec![rng.next_u32() as i32 as i64]);
        }
    }
    for op in [27i64, 28, 32] {
        for x in g.iter().filter(|x| **x >= -32768 && **x <= 32767) {
            c.emit(op, vec![*x]);
        }
    }
    // binary
    let sub: Vec<i64> = g.iter().cloned().step_by(if thorough { 5 } else { 11 }).chain([i32::MIN as i64, i32::MAX as i64, 0, 1, -1, 64, -64, 32, 33554432, -33554432]).collect();
    for op in [5i64, 6, 9, 40] {
        for a in &sub {
            for b in &sub {
                if rng.chance(1, 3) {
                    c.emit(op, vec![*a, *b]);
                }
            }
        }
        for _ in 0..nr / 4 {
            let v = vec![r32(rng, &g), r32(rng, &g)];
            c.emit(op, v);
        }
    }
    // round_pad (n arbitrary, incl. 0 and negatives) and normalize14
    for _ in 0..nr {
        let n = if rng.chance(2, 3) { *rng.pick(&[1i64, 2, 16, 32, 64, 0, -1, -2, 3, 128]) } else { r32(rng, &g) };
        c.emit(4, vec![r32(rng, &g), n]);
    }
    for x in [i32::MAX as i64, i32::MAX as i64 - 16, i32::MAX as i64 - 15, i32::MIN as i64, 0, -1] {
        for n in [32i64, 1, 0, i32::MIN as i64, i32::MAX as i64, -1] {
            c.emit(4, vec![x, n]);
        }
    }
    for _ in 0..nr {
        let v = if rng.chance(1, 2) { vec![r32(rng, &g), r32(rng, &g)] } else { vec![rng.range(-32768, 32767), rng.range(-32768, 32767)] };
        c.emit(10, v);
    }
    for a in [i32::MIN as i64, i32::MAX as i64, 0, 1, -1, 16384, -16384, -32768, 32767] {
        for b in [i32::MIN as i64, i32::MAX as i64, 0, 1, -1, 16384, -16384, -32768, 32767] {
            c.emit(10, vec![a, b]);
        }
    }
    // ternary
    let sub3: Vec<i64> = g.iter().cloned().step_by(if thorough { 23 } else { 41 }).chain([i32::MIN as i64, i32::MAX as i64, 0, 1, -1, 64, -64, 33554432, -33554432]).collect();
    for op in [7i64, 8] {
        for a in &sub3 {
            for b in &sub3 {
                for d in &sub3 {
                    if rng.chance(1, 3) {
                        c.emit(op, vec![*a, *b, *d]);
                    }
                }
            }
        }
        for _ in 0..nr {
            let v = vec![r32(rng, &g), r32(rng, &g), r32(rng, &g)];
            c.emit(op, v);
        }
        // the shapes the interpreter uses: DIV = mul_div_no_round(a, 64, b), MUL = mul_div(a, b, 64)
        for _ in 0..nr {
            let (x, y) = (r32(rng, &g), r32(rng, &g));
            c.emit(op, if op == 8 { vec![x, 64, y] } else { vec![x, y, 64] });
        }
    }
    // RoundState::round: every mode, arbitrary and interpreter-reachable (threshold, phase, period)
    let reach: Vec<(i64, i64, i64, i64)> = {
        // (mode, threshold, phase, period) as produced by super_round for every selector byte
        let mut v = vec![];
        for (mode, grid) in [(6i64, 0x4000i64), (7, 0x2D41)] {
            for sel in 0..256i64 {
                let period = match sel & 0xC0 {
                    0 => grid / 2,
                    0x40 => grid,
                    0x80 => grid * 2,
                    _ => grid,
                };
                let phase = match sel & 0x30 {
                    0 => 0,
                    0x10 => period / 4,
                    0x20 => period / 2,
                    _ => period * 3 / 4,
                };
                let threshold = if sel & 0x0F == 0 { period - 1 } else { ((sel & 0x0F) - 4) * period / 8 };
                v.push((mode, threshold >> 8, phase >> 8, period >> 8));
            }
        }
        v.sort();
        v.dedup();
        v
    };
    c.st.v.insert("round_reachable_param_tuples".into(), reach.len().into());
    for mode in 0..6i64 {
        for d in &g {
            c.emit(11, vec![mode, 0, 0, 64, *d]);
        }
    }
    for (m, t, ph, pe) in &reach {
        for d in [0i64, 1, -1, 31, 32, 33, 64, -64, 1000, -1000, i32::MAX as i64, i32::MIN as i64, i32::MAX as i64 - 63, i32::MAX as i64 - 64, i32::MAX as i64 - 272, i32::MIN as i64 + 1, i32::MIN as i64 + 272] {
            c.emit(11, vec![*m, *t, *ph, *pe, d]);
        }
        c.emit(11, vec![*m, *t, *ph, *pe, r32(rng, &g)]);
    }
    for _ in 0..nr * 2 {
        let m = rng.range(0, 7);
        let small = |rng: &mut Rng| -> i64 {
            if rng.chance(3, 4) {
                rng.range(-300, 300)
            } else {
                rng.next_u32() as i32 as i64
            }
        };
        let pe = if rng.chance(1, 6) { *rng.pick(&[0i64, -1, 1, i32::MIN as i64]) } else { small(rng) };
        let v = vec![m, small(rng), small(rng), pe, r32(rng, &g)];
        c.emit(11, v);
    }
    // SROUND / S45ROUND + ROUND through the real interpreter (op 12)
    {
        let mut sels: Vec<i64> = (0..256).step_by(if thorough { 1 } else { 5 }).collect();
        sels.extend([0x00, 0x4F, 0x8F, 0xCF, 0x7F, 0xFF, 0x31]);
        for grid in [0x4000i64, 0x2D41] {
            for sel in &sels {
                for d in [0i64, 31, 32, 33, 100, -100, -31, -33, 4000, -4000, 8388000, -8388000, i32::MAX as i64, i32::MIN as i64, i32::MAX as i64 - 300, i32::MIN as i64 + 300] {
                    if !rng.chance(1, if thorough { 1 } else { 3 }) {
                        continue;
                    }
                    let prog = sround_program(grid, *sel, d);
                    let spec = TtSpec { glyph_prog: prog, pts: vec![(0, 0), (500, 0), (500, 700)], ..Default::default() };
                    let bytes = build_tt(&spec);
                    let res = catch_loc(move || draw_hinted(&bytes, 0, 1000.0, 0, false));
                    match res {
                        Err(t) => c.emit_res(12, vec![grid, *sel, d], Err(t)),
                        Ok(Ok(p)) => {
                            // point 0's x coordinate in 26.6
                            let x = (p[0].0 as f64 * 64.0).round() as i64;
                            if x.abs() < (1 << 23) {
                                c.emit_res(12, vec![grid, *sel, d], Ok(vec![x]));
                            } else {
                                c.st.count("op12.value_too_large_for_f32_skipped");
                            }
                        }
                        Ok(Err(e)) => {
                            c.st.count(&format!("op12.hint_error:{}", e));
                        }
                    }
                }
            }
        }
    }
    // fvar normalize
    let fx_vals: Vec<i64> = vec![0, 65536, -65536, 100 << 16, 400 << 16, 900 << 16, i32::MIN as i64, i32::MAX as i64, 1, -1, i32::MIN as i64 + 1, i32::MAX as i64 - 1, 32768, -32768];
    for _ in 0..nr * 2 {
        let mut p = |rng: &mut Rng| -> i64 {
            if rng.chance(2, 3) {
                *rng.pick(&fx_vals)
            } else {
                rng.next_u32() as i32 as i64
            }
        };
        let v = vec![p(rng), p(rng), p(rng), p(rng)];
        c.emit(41, v);
    }
    c.emit(41, vec![100 << 16, 400 << 16, 900 << 16, 250 << 16]);
    c.emit(41, vec![i32::MIN as i64, i32::MAX as i64, i32::MAX as i64, i32::MIN as i64]);
    c.emit(41, vec![i32::MAX as i64, 0, i32::MIN as i64, 5]);
    // avar apply
    for _ in 0..nr {
        let n = rng.range(0, 5) as usize;
        let mut v = vec![];
        let coord = if rng.chance(1, 2) { rng.range(-70000, 70000) } else { r32(rng, &g) };
        v.push(coord);
        let mut from: Vec<i64> = (0..n).map(|_| if rng.chance(1, 3) { *rng.pick(&[-32768i64, 32767, -16384, 0, 16384]) } else { rng.range(-32768, 32767) }).collect();
        if rng.chance(3, 4) {
            from.sort();
        }
        for f in from {
            v.push(f);
            v.push(if rng.chance(1, 3) { *rng.pick(&[-32768i64, 32767, -16384, 0, 16384]) } else { rng.range(-32768, 32767) });
        }
        c.emit(42, v);
    }
    // cmap4
    for _ in 0..nr {
        let n = rng.range(1, 5) as usize;
        let ng = rng.range(0, 6) as usize;
        let mut codes: Vec<i64> = (0..2 * n).map(|_| if rng.chance(1, 4) { *rng.pick(&[0i64, 1, 0xFFFF, 0xFFFE, 0x8000]) } else { rng.range(0, 300) }).collect();
        if rng.chance(4, 5) {
            codes.sort();
        }
        let starts: Vec<i64> = (0..n).map(|k| codes[2 * k]).collect();
        let ends: Vec<i64> = (0..n).map(|k| codes[2 * k + 1]).collect();
        let deltas: Vec<i64> = (0..n).map(|_| if rng.chance(1, 3) { *rng.pick(&[-32768i64, 32767, -1, 1]) } else { rng.range(-300, 300) }).collect();
        let ros: Vec<i64> = (0..n).map(|k| if rng.chance(1, 2) { 0 } else if rng.chance(1, 4) { *rng.pick(&[0xFFFFi64, 0xFFFE, 1, 2]) } else { 2 * (n - k) as i64 + 2 * rng.range(0, 3) }).collect();
        let gids: Vec<i64> = (0..ng).map(|_| if rng.chance(1, 4) { *rng.pick(&[0i64, 0xFFFF, 0x8000]) } else { rng.range(0, 50) }).collect();
        let cp = if rng.chance(1, 5) { *rng.pick(&[0i64, 0xFFFF, 0x10000, 0x10FFFF, 0xFFFE]) } else if rng.chance(1, 2) { *rng.pick(&codes) + rng.range(-1, 1).max(-*rng.pick(&codes)) } else { rng.range(0, 310) };
        let sx2 = 2 * n as i64 + if rng.chance(1, 6) { 1 } else { 0 };
        let mut v = vec![cp, sx2, n as i64, ng as i64];
        v.extend(starts);
        v.extend(ends);
        v.extend(deltas);
        v.extend(ros);
        v.extend(gids);
        c.emit(43, v);
    }
    // checksum
    for _ in 0..nr / 2 {
        let n = rng.range(0, 23) as usize;
        let v: Vec<i64> = (0..n).map(|_| if rng.chance(1, 2) { 255 } else { rng.range(0, 255) }).collect();
        c.emit(44, v);
    }
    // count transforms through the generated readers that use them
    for _ in 0..nr / 4 {
        c.emit(45, vec![*rng.pick(&[0i64, 1, 2, 255, 256, 300, 1000]), 1, *rng.pick(&[0i64, 1, 2, 3, 4, 255])]);
        c.emit(46, vec![*rng.pick(&[0i64, 1, 2, 3, 4, 5, 100, 101, 65535, 65534])]);
        c.emit(47, vec![*rng.pick(&[0i64, 1, 2, 100, 65535]), *rng.pick(&[0i64, 1, 2, 100, 101, 65535])]);
        c.emit(48, vec![*rng.pick(&[0i64, 1, 2, 100, 65535, 65534]), 1]);
    }
    c.kernel_traps
}

fn main() {
    install_hook();
    let args: Vec<String> = std::env::args().collect();
    let thorough = tier_is_thorough(&args);
    let seed = seed_from_env();
    let dir = out_dir(&args, "C20");
    let mut rng = Rng::new(seed);
    let mut st = Stats::new();
    let mut cw = CaseWriter::new(
        &dir,
        "From Coq Require Import ZArith List. Import ListNotations. Open Scope Z_scope.\nFrom FV Require Import Lib.Cases C20.Model.",
        "Z * list Z * list Z",
        "check_case",
        if thorough { 4000 } else { 1800 },
    );
    let kernel_traps = correspondence(&mut st, &mut cw, &mut rng, thorough);
    st.v.insert("kernel_trap_sites_direct_call".into(), serde_json::Value::Array(kernel_traps.values().cloned().collect()));
    let shards = cw.finish();
    st.v.insert("shards".into(), shards.into());
    st.v.insert("model_cases".into(), cw.len().into());
    st.write(&dir, "kernels on boundary-dense grid + random operands");
    println!("cases={} shards={} kernel_trap_sites={} oracle_failures={}", cw.len(), shards, kernel_traps.len(), st.oracle_failures.len());
}
