//! C14 (set half) harness: drives read_fonts::collections::{IntSet, RangeSet} through the PUBLIC API
//! with operation sequences over two evolving sets, and after the steps compares a full observation
//! vector against
//!   (a) an independent shadow (a `BTreeSet<u32>` of exceptions + a complement flag, every
//!       observation recomputed from the mathematical definition) — the implementation-only oracle,
//!   (b) the Coq model (coq/C14/Model.v `check_case`) through the emitted shards.
//! Streams: bounded-exhaustive short sequences over the 11-value boundary domain (u32), random
//! longer sequences over u32 / u16 / u8 / a small continuous custom Domain / two discontinuous
//! custom Domains (shadow only: the Coq model covers continuous domains), RangeSet insert
//! sequences and intersections.
use read_fonts::collections::int_set::{Domain, InDomain};
use read_fonts::collections::{IntSet, RangeSet};
use serde_json::json;
use std::collections::hash_map::DefaultHasher;
use std::collections::BTreeSet;
use std::hash::{Hash, Hasher};
use std::ops::RangeInclusive;
use vh::*;

// ---------------------------------------------------------------------------------------------
// element domains
// ---------------------------------------------------------------------------------------------
trait Elem: Domain + Copy + Ord + Hash + std::fmt::Debug + std::panic::RefUnwindSafe + 'static {
    const NAME: &'static str;
    /// continuous domain starting at 0: covered by the Coq model
    const MODELLED: bool;
    fn mk(v: u32) -> Self;
    fn dmin() -> u32;
    fn dmax() -> u32;
    fn has(v: u32) -> bool;
    fn succ(v: u32) -> Option<u32>;
    fn pred(v: u32) -> Option<u32>;
    fn cnt() -> u64;
}

macro_rules! prim_elem {
    ($t:ty, $name:expr) => {
        impl Elem for $t {
            const NAME: &'static str = $name;
            const MODELLED: bool = true;
            fn mk(v: u32) -> Self {
                v as $t
            }
            fn dmin() -> u32 {
                0
            }
            fn dmax() -> u32 {
                <$t>::MAX as u32
            }
            fn has(v: u32) -> bool {
                v <= <$t>::MAX as u32
            }
            fn succ(v: u32) -> Option<u32> {
                (v < <$t>::MAX as u32).then(|| v + 1)
            }
            fn pred(v: u32) -> Option<u32> {
                if v == 0 {
                    None
                } else {
                    Some((v - 1).min(<$t>::MAX as u32))
                }
            }
            fn cnt() -> u64 {
                <$t>::MAX as u64 + 1
            }
        }
    };
}
prim_elem!(u32, "u32");
prim_elem!(u16, "u16");
prim_elem!(u8, "u8");

/// the remaining `impl Domain for X` of read-fonts (newtypes over u16 / u32): same driver, same model
/// (continuous [0, dmax]); `mk` goes through the type's public constructor, `to_u32` through Domain.
macro_rules! newtype_elem {
    ($t:ty, $name:expr, $max:expr, $mk:expr) => {
        impl Elem for $t {
            const NAME: &'static str = $name;
            const MODELLED: bool = true;
            fn mk(v: u32) -> Self {
                ($mk)(v)
            }
            fn dmin() -> u32 {
                0
            }
            fn dmax() -> u32 {
                $max
            }
            fn has(v: u32) -> bool {
                v <= $max
            }
            fn succ(v: u32) -> Option<u32> {
                (v < $max).then(|| v + 1)
            }
            fn pred(v: u32) -> Option<u32> {
                if v == 0 {
                    None
                } else {
                    Some((v - 1).min($max))
                }
            }
            fn cnt() -> u64 {
                $max as u64 + 1
            }
        }
    };
}
newtype_elem!(font_types::GlyphId16, "GlyphId16", 0xFFFFu32, |v: u32| font_types::GlyphId16::new(v as u16));
newtype_elem!(font_types::NameId, "NameId", 0xFFFFu32, |v: u32| font_types::NameId::new(v as u16));
newtype_elem!(font_types::GlyphId, "GlyphId", u32::MAX, |v: u32| font_types::GlyphId::new(v));
newtype_elem!(font_types::Tag, "Tag", u32::MAX, |v: u32| font_types::Tag::from_u32(v));

/// every `impl Domain for X` in read-fonts' int_set/mod.rs must be driven by this harness: the list is read from
/// the source tree under check and compared with the instantiations below (hard failure on an unknown impl).
const DRIVEN_DOMAINS: [&str; 7] = ["u32", "u16", "u8", "GlyphId16", "GlyphId", "Tag", "NameId"];
fn audit_domain_impls(st: &mut Stats) {
    let repo = std::env::var("FV_REPO").unwrap_or_else(|_| "/repo".to_string());
    let path = format!("{}/read-fonts/src/collections/int_set/mod.rs", repo);
    let src = match std::fs::read_to_string(&path) {
        Ok(s) => s,
        Err(e) => {
            st.oracle_failure(json!({"key": "domain-impls:unreadable", "what": format!("cannot read {}: {}", path, e)}));
            return;
        }
    };
    // only the non-test part of the file
    let body = src.split("#[cfg(test)]").next().unwrap_or("");
    let mut found: Vec<String> = vec![];
    for line in body.lines() {
        let l = line.trim();
        if let Some(rest) = l.strip_prefix("impl Domain for ") {
            found.push(rest.trim_end_matches('{').trim().to_string());
        }
    }
    st.v.insert("domain_impls_in_source".into(), json!(found));
    for f in &found {
        if !DRIVEN_DOMAINS.contains(&f.as_str()) {
            st.oracle_failure(json!({"key": format!("domain-impls:undriven:{}", f), "what": "an `impl Domain` in int_set/mod.rs is not instantiated by the harness driver"}));
        }
    }
    for d in DRIVEN_DOMAINS {
        if !found.iter().any(|f| f == d) {
            st.oracle_failure(json!({"key": format!("domain-impls:missing:{}", d), "what": "a Domain impl the harness drives is no longer in int_set/mod.rs (shape of the file changed)"}));
        }
    }
}

/// continuous custom domain [0, 2047] (4 pages): inverted sets can be iterated completely
#[derive(Debug, Copy, Clone, PartialEq, PartialOrd, Eq, Ord, Hash)]
struct Small(u32);
impl Domain for Small {
    fn to_u32(&self) -> u32 {
        self.0
    }
    fn from_u32(member: InDomain) -> Small {
        assert!(member.value() <= 2047, "Small::from_u32 out of domain");
        Small(member.value())
    }
    fn contains(value: u32) -> bool {
        value <= 2047
    }
    fn is_continuous() -> bool {
        true
    }
    fn ordered_values() -> impl DoubleEndedIterator<Item = u32> {
        0..=2047u32
    }
    fn ordered_values_range(range: RangeInclusive<Small>) -> impl DoubleEndedIterator<Item = u32> {
        range.start().0..=range.end().0
    }
    fn count() -> u64 {
        2048
    }
}
impl Elem for Small {
    const NAME: &'static str = "small2048";
    const MODELLED: bool = true;
    fn mk(v: u32) -> Self {
        Small(v)
    }
    fn dmin() -> u32 {
        0
    }
    fn dmax() -> u32 {
        2047
    }
    fn has(v: u32) -> bool {
        v <= 2047
    }
    fn succ(v: u32) -> Option<u32> {
        (v < 2047).then(|| v + 1)
    }
    fn pred(v: u32) -> Option<u32> {
        if v == 0 {
            None
        } else {
            Some((v - 1).min(2047))
        }
    }
    fn cnt() -> u64 {
        2048
    }
}

/// discontinuous: even numbers in [0, 2046]
#[derive(Debug, Copy, Clone, PartialEq, PartialOrd, Eq, Ord, Hash)]
struct Even(u32);
impl Domain for Even {
    fn to_u32(&self) -> u32 {
        self.0
    }
    fn from_u32(member: InDomain) -> Even {
        assert!(member.value() <= 2046 && member.value() % 2 == 0, "Even::from_u32 out of domain");
        Even(member.value())
    }
    fn contains(value: u32) -> bool {
        value % 2 == 0 && value <= 2046
    }
    fn is_continuous() -> bool {
        false
    }
    fn ordered_values() -> impl DoubleEndedIterator<Item = u32> {
        (0..=1023u32).map(|o| o * 2)
    }
    fn ordered_values_range(range: RangeInclusive<Even>) -> impl DoubleEndedIterator<Item = u32> {
        ((range.start().0 / 2)..=(range.end().0 / 2)).map(|o| o * 2)
    }
    fn count() -> u64 {
        1024
    }
}
impl Elem for Even {
    const NAME: &'static str = "even2046";
    const MODELLED: bool = false;
    fn mk(v: u32) -> Self {
        Even(v)
    }
    fn dmin() -> u32 {
        0
    }
    fn dmax() -> u32 {
        2046
    }
    fn has(v: u32) -> bool {
        v % 2 == 0 && v <= 2046
    }
    fn succ(v: u32) -> Option<u32> {
        let n = if v % 2 == 0 { v as u64 + 2 } else { v as u64 + 1 };
        (n <= 2046).then_some(n as u32)
    }
    fn pred(v: u32) -> Option<u32> {
        if v == 0 {
            return None;
        }
        let p = if v % 2 == 0 { v - 2 } else { v - 1 };
        Some(p.min(2046))
    }
    fn cnt() -> u64 {
        1024
    }
}

/// discontinuous: [5, 600] u [1000, 1600] (straddles page edges 512 and 1024/1536)
#[derive(Debug, Copy, Clone, PartialEq, PartialOrd, Eq, Ord, Hash)]
struct TwoIv(u32);
const IV: [(u32, u32); 2] = [(5, 600), (1000, 1600)];
fn twoiv_has(v: u32) -> bool {
    IV.iter().any(|(a, b)| *a <= v && v <= *b)
}
impl Domain for TwoIv {
    fn to_u32(&self) -> u32 {
        self.0
    }
    fn from_u32(member: InDomain) -> TwoIv {
        assert!(twoiv_has(member.value()), "TwoIv::from_u32 out of domain");
        TwoIv(member.value())
    }
    fn contains(value: u32) -> bool {
        twoiv_has(value)
    }
    fn is_continuous() -> bool {
        false
    }
    fn ordered_values() -> impl DoubleEndedIterator<Item = u32> {
        (IV[0].0..=IV[0].1).chain(IV[1].0..=IV[1].1)
    }
    fn ordered_values_range(range: RangeInclusive<TwoIv>) -> impl DoubleEndedIterator<Item = u32> {
        let (a, b) = (range.start().0, range.end().0);
        (IV[0].0..=IV[0].1).chain(IV[1].0..=IV[1].1).filter(move |v| a <= *v && *v <= b)
    }
    fn count() -> u64 {
        (IV[0].1 - IV[0].0 + 1 + IV[1].1 - IV[1].0 + 1) as u64
    }
}
impl Elem for TwoIv {
    const NAME: &'static str = "two_intervals";
    const MODELLED: bool = false;
    fn mk(v: u32) -> Self {
        TwoIv(v)
    }
    fn dmin() -> u32 {
        5
    }
    fn dmax() -> u32 {
        1600
    }
    fn has(v: u32) -> bool {
        twoiv_has(v)
    }
    fn succ(v: u32) -> Option<u32> {
        if v < 5 {
            Some(5)
        } else if v < 600 {
            Some(v + 1)
        } else if v < 1000 {
            Some(1000)
        } else if v < 1600 {
            Some(v + 1)
        } else {
            None
        }
    }
    fn pred(v: u32) -> Option<u32> {
        if v <= 5 {
            None
        } else if v <= 600 {
            Some(v - 1)
        } else if v <= 1000 {
            Some(600)
        } else if v <= 1600 {
            Some(v - 1)
        } else {
            Some(1600)
        }
    }
    fn cnt() -> u64 {
        <TwoIv as Domain>::count()
    }
}

// ---------------------------------------------------------------------------------------------
// operations
// ---------------------------------------------------------------------------------------------
#[derive(Clone, Debug, PartialEq)]
enum Op {
    Insert(bool, u32),
    Remove(bool, u32),
    InsertRange(bool, u32, u32),
    RemoveRange(bool, u32, u32),
    /// variant 0 = Extend::extend, 1 = extend_unsorted, 2 = target = FromIterator (only on an empty inclusive target: same as extend)
    Extend(bool, Vec<u32>, u8),
    RemoveAll(bool, Vec<u32>),
    Union(bool),
    Intersect(bool),
    Subtract(bool),
    Invert(bool),
    Clear(bool),
    Assign(bool),
}

fn cb(t: bool) -> &'static str {
    cbool(t)
}
fn cn(v: u32) -> String {
    format!("{}", v)
}
fn cnlist(vs: &[u32]) -> String {
    clist(vs.iter(), |v| format!("{}", v))
}
fn cpairs(vs: &[(u32, u32)]) -> String {
    clist(vs.iter(), |(a, b)| format!("({}, {})", a, b))
}

impl Op {
    fn coq(&self) -> String {
        match self {
            Op::Insert(t, v) => format!("OInsert {} {}", cb(*t), cn(*v)),
            Op::Remove(t, v) => format!("ORemove {} {}", cb(*t), cn(*v)),
            Op::InsertRange(t, a, b) => format!("OInsertRange {} {} {}", cb(*t), a, b),
            Op::RemoveRange(t, a, b) => format!("ORemoveRange {} {} {}", cb(*t), a, b),
            Op::Extend(t, vs, _) => format!("OExtend {} {}", cb(*t), cnlist(vs)),
            Op::RemoveAll(t, vs) => format!("ORemoveAll {} {}", cb(*t), cnlist(vs)),
            Op::Union(t) => format!("OUnion {}", cb(*t)),
            Op::Intersect(t) => format!("OIntersect {}", cb(*t)),
            Op::Subtract(t) => format!("OSubtract {}", cb(*t)),
            Op::Invert(t) => format!("OInvert {}", cb(*t)),
            Op::Clear(t) => format!("OClear {}", cb(*t)),
            Op::Assign(t) => format!("OAssign {}", cb(*t)),
        }
    }
    fn kind(&self) -> &'static str {
        match self {
            Op::Insert(..) => "insert",
            Op::Remove(..) => "remove",
            Op::InsertRange(..) => "insert_range",
            Op::RemoveRange(..) => "remove_range",
            Op::Extend(_, _, 0) => "extend",
            Op::Extend(_, _, 1) => "extend_unsorted",
            Op::Extend(..) => "from_iter",
            Op::RemoveAll(..) => "remove_all",
            Op::Union(..) => "union",
            Op::Intersect(..) => "intersect",
            Op::Subtract(..) => "subtract",
            Op::Invert(..) => "invert",
            Op::Clear(..) => "clear",
            Op::Assign(..) => "assign",
        }
    }
}

fn apply_impl<E: Elem>(st: &mut [IntSet<E>; 2], op: &Op) -> Option<bool> {
    let ti = |t: &bool| *t as usize;
    match op {
        Op::Insert(t, v) => Some(st[ti(t)].insert(E::mk(*v))),
        Op::Remove(t, v) => Some(st[ti(t)].remove(E::mk(*v))),
        Op::InsertRange(t, a, b) => {
            st[ti(t)].insert_range(E::mk(*a)..=E::mk(*b));
            None
        }
        Op::RemoveRange(t, a, b) => {
            st[ti(t)].remove_range(E::mk(*a)..=E::mk(*b));
            None
        }
        Op::Extend(t, vs, var) => {
            let it = vs.iter().map(|v| E::mk(*v));
            match var {
                0 => st[ti(t)].extend(it),
                1 => st[ti(t)].extend_unsorted(it),
                _ => {
                    if st[ti(t)].is_empty() && !st[ti(t)].is_inverted() {
                        st[ti(t)] = it.collect();
                    } else {
                        st[ti(t)].extend(it)
                    }
                }
            }
            None
        }
        Op::RemoveAll(t, vs) => {
            st[ti(t)].remove_all(vs.iter().map(|v| E::mk(*v)));
            None
        }
        Op::Union(t) => {
            let o = st[1 - ti(t)].clone();
            st[ti(t)].union(&o);
            None
        }
        Op::Intersect(t) => {
            let o = st[1 - ti(t)].clone();
            st[ti(t)].intersect(&o);
            None
        }
        Op::Subtract(t) => {
            let o = st[1 - ti(t)].clone();
            st[ti(t)].subtract(&o);
            None
        }
        Op::Invert(t) => {
            st[ti(t)].invert();
            None
        }
        Op::Clear(t) => {
            st[ti(t)].clear();
            None
        }
        Op::Assign(t) => {
            st[ti(t)] = st[1 - ti(t)].clone();
            None
        }
    }
}

// ---------------------------------------------------------------------------------------------
// shadow: the mathematical set  { v in domain | (v in s) xor inv }
// ---------------------------------------------------------------------------------------------
#[derive(Clone, Debug, Default)]
struct Sh {
    s: BTreeSet<u32>,
    inv: bool,
}

impl Sh {
    fn has<E: Elem>(&self, v: u32) -> bool {
        E::has(v) && (self.s.contains(&v) != self.inv)
    }
    fn set_member(&mut self, v: u32, member: bool) {
        if member != self.inv {
            self.s.insert(v);
        } else {
            self.s.remove(&v);
        }
    }
    fn len<E: Elem>(&self) -> u64 {
        if self.inv {
            E::cnt() - self.s.len() as u64
        } else {
            self.s.len() as u64
        }
    }
    /// smallest member >= lo
    fn first_ge<E: Elem>(&self, lo: u32) -> Option<u32> {
        if !self.inv {
            return self.s.range(lo..).next().copied();
        }
        let mut c = if E::has(lo) { Some(lo) } else { E::succ(lo) };
        while let Some(x) = c {
            if !self.s.contains(&x) {
                return Some(x);
            }
            c = E::succ(x);
        }
        None
    }
    /// largest member <= hi
    fn last_le<E: Elem>(&self, hi: u32) -> Option<u32> {
        if !self.inv {
            return self.s.range(..=hi).next_back().copied();
        }
        let mut c = if E::has(hi) { Some(hi) } else { E::pred(hi) };
        while let Some(x) = c {
            if !self.s.contains(&x) {
                return Some(x);
            }
            c = E::pred(x);
        }
        None
    }
    fn after<E: Elem>(&self, v: u32) -> Option<u32> {
        if v == u32::MAX {
            None
        } else {
            self.first_ge::<E>(v + 1)
        }
    }
    fn iter_from<E: Elem>(&self, start: Option<u32>, k: usize) -> Vec<u32> {
        let mut out = vec![];
        let mut c = start;
        while let Some(x) = c {
            if out.len() >= k {
                break;
            }
            out.push(x);
            c = self.after::<E>(x);
        }
        out
    }
    fn iter_back<E: Elem>(&self, k: usize) -> Vec<u32> {
        let mut out = vec![];
        let mut c = self.last_le::<E>(u32::MAX);
        while let Some(x) = c {
            if out.len() >= k {
                break;
            }
            out.push(x);
            c = if x == 0 { None } else { self.last_le::<E>(x - 1) };
        }
        out
    }
    /// maximal runs of domain-consecutive members (or of non-members when `excluded`)
    fn ranges<E: Elem>(&self, k: usize, excluded: bool) -> Vec<(u32, u32)> {
        if excluded {
            // flip the flag without copying the exception set
            let mut me = Sh { s: BTreeSet::new(), inv: !self.inv };
            // SAFETY-free trick: temporarily move the set out is not possible through &self; use a view
            return ranges_view::<E>(&self.s, me.inv, k, &mut me);
        }
        let mut dummy = Sh::default();
        ranges_view::<E>(&self.s, self.inv, k, &mut dummy)
    }
    /// f(a, b) membership-wise; outside both exception sets the memberships are the flags
    fn combine(a: &Sh, b: &Sh, f: impl Fn(bool, bool) -> bool) -> Sh {
        let inv = f(a.inv, b.inv);
        let mut s = BTreeSet::new();
        for x in a.s.iter().chain(b.s.iter()) {
            let ma = a.s.contains(x) != a.inv;
            let mb = b.s.contains(x) != b.inv;
            if f(ma, mb) != inv {
                s.insert(*x);
            }
        }
        Sh { s, inv }
    }
    fn eq<E: Elem>(a: &Sh, b: &Sh) -> bool {
        Sh::combine(a, b, |x, y| x != y).first_ge::<E>(0).is_none()
    }
    /// lexicographic order of the ascending member sequences
    fn cmp<E: Elem>(a: &Sh, b: &Sh) -> std::cmp::Ordering {
        use std::cmp::Ordering::*;
        let d = Sh::combine(a, b, |x, y| x != y);
        match d.first_ge::<E>(0) {
            None => Equal,
            Some(x) => {
                if a.has::<E>(x) {
                    // a has x where b has something bigger or nothing
                    if b.after::<E>(x).is_some() {
                        Less
                    } else {
                        Greater
                    }
                } else if a.after::<E>(x).is_some() {
                    Greater
                } else {
                    Less
                }
            }
        }
    }
}

fn first_ge_view<E: Elem>(s: &BTreeSet<u32>, inv: bool, lo: u32) -> Option<u32> {
    if !inv {
        return s.range(lo..).next().copied();
    }
    let mut c = if E::has(lo) { Some(lo) } else { E::succ(lo) };
    while let Some(x) = c {
        if !s.contains(&x) {
            return Some(x);
        }
        c = E::succ(x);
    }
    None
}
fn ranges_view<E: Elem>(s: &BTreeSet<u32>, inv: bool, k: usize, _scratch: &mut Sh) -> Vec<(u32, u32)> {
    let mut out = vec![];
    let mut c = first_ge_view::<E>(s, inv, 0);
    while let Some(start) = c {
        if out.len() >= k {
            break;
        }
        // end of the run: the domain value before the first non-member after start
        let end = if inv {
            match s.range(start..).next() {
                Some(x) => E::pred(*x).unwrap(),
                None => E::dmax(),
            }
        } else {
            let mut e = start;
            while let Some(n) = E::succ(e) {
                if s.contains(&n) {
                    e = n;
                } else {
                    break;
                }
            }
            e
        };
        out.push((start, end));
        c = if end == u32::MAX { None } else { first_ge_view::<E>(s, inv, end + 1) };
    }
    out
}

fn dom_range<E: Elem>(a: u32, b: u32) -> Vec<u32> {
    let mut out = vec![];
    if a > b {
        return out;
    }
    let mut c = if E::has(a) { Some(a) } else { E::succ(a) };
    while let Some(x) = c {
        if x > b {
            break;
        }
        out.push(x);
        c = E::succ(x);
    }
    out
}

fn apply_sh<E: Elem>(st: &mut [Sh; 2], op: &Op) -> Option<bool> {
    let ti = |t: &bool| *t as usize;
    match op {
        Op::Insert(t, v) => {
            let was = st[ti(t)].has::<E>(*v);
            st[ti(t)].set_member(*v, true);
            Some(!was)
        }
        Op::Remove(t, v) => {
            let was = st[ti(t)].has::<E>(*v);
            st[ti(t)].set_member(*v, false);
            Some(was)
        }
        Op::InsertRange(t, a, b) => {
            for v in dom_range::<E>(*a, *b) {
                st[ti(t)].set_member(v, true);
            }
            None
        }
        Op::RemoveRange(t, a, b) => {
            for v in dom_range::<E>(*a, *b) {
                st[ti(t)].set_member(v, false);
            }
            None
        }
        Op::Extend(t, vs, _) => {
            for v in vs {
                st[ti(t)].set_member(*v, true);
            }
            None
        }
        Op::RemoveAll(t, vs) => {
            for v in vs {
                st[ti(t)].set_member(*v, false);
            }
            None
        }
        Op::Union(t) => {
            st[ti(t)] = Sh::combine(&st[ti(t)], &st[1 - ti(t)], |a, b| a || b);
            None
        }
        Op::Intersect(t) => {
            st[ti(t)] = Sh::combine(&st[ti(t)], &st[1 - ti(t)], |a, b| a && b);
            None
        }
        Op::Subtract(t) => {
            st[ti(t)] = Sh::combine(&st[ti(t)], &st[1 - ti(t)], |a, b| a && !b);
            None
        }
        Op::Invert(t) => {
            st[ti(t)].inv = !st[ti(t)].inv;
            None
        }
        Op::Clear(t) => {
            st[ti(t)] = Sh::default();
            None
        }
        Op::Assign(t) => {
            st[ti(t)] = st[1 - ti(t)].clone();
            None
        }
    }
}

// ---------------------------------------------------------------------------------------------
// observations
// ---------------------------------------------------------------------------------------------
#[derive(Clone, Debug, PartialEq)]
enum Ob {
    Len(bool, u64, bool),
    Inverted(bool, bool),
    Contains(bool, u32, bool),
    First(bool, Option<u32>),
    Last(bool, Option<u32>),
    Iter(bool, usize, Vec<u32>),
    IterBack(bool, usize, Vec<u32>),
    IterAfter(bool, u32, usize, Vec<u32>),
    Ranges(bool, usize, Vec<(u32, u32)>),
    ExclRanges(bool, usize, Vec<(u32, u32)>),
    IntersectsRange(bool, u32, u32, bool),
    IntersectsSet(bool, bool),
    Eq(bool),
    Cmp(i8),
}
impl Ob {
    fn coq(&self) -> String {
        let on = |o: &Option<u32>| copt(o.map(|v| format!("{}", v)));
        match self {
            Ob::Len(t, n, e) => format!("ObLen {} {} {}", cb(*t), n, cb(*e)),
            Ob::Inverted(t, b) => format!("ObInverted {} {}", cb(*t), cb(*b)),
            Ob::Contains(t, v, b) => format!("ObContains {} {} {}", cb(*t), v, cb(*b)),
            Ob::First(t, o) => format!("ObFirst {} {}", cb(*t), on(o)),
            Ob::Last(t, o) => format!("ObLast {} {}", cb(*t), on(o)),
            Ob::Iter(t, k, l) => format!("ObIter {} {}%nat {}", cb(*t), k, cnlist(l)),
            Ob::IterBack(t, k, l) => format!("ObIterBack {} {}%nat {}", cb(*t), k, cnlist(l)),
            Ob::IterAfter(t, v, k, l) => format!("ObIterAfter {} {} {}%nat {}", cb(*t), v, k, cnlist(l)),
            Ob::Ranges(t, k, l) => format!("ObRanges {} {}%nat {}", cb(*t), k, cpairs(l)),
            Ob::ExclRanges(t, k, l) => format!("ObExclRanges {} {}%nat {}", cb(*t), k, cpairs(l)),
            Ob::IntersectsRange(t, a, b, r) => format!("ObIntersectsRange {} {} {} {}", cb(*t), a, b, cb(*r)),
            Ob::IntersectsSet(t, r) => format!("ObIntersectsSet {} {}", cb(*t), cb(*r)),
            Ob::Eq(r) => format!("ObEq {}", cb(*r)),
            Ob::Cmp(c) => format!("ObCmp {}", ["Lt", "Eq", "Gt"][(*c + 1) as usize]),
        }
    }
}
fn ord_i8(o: std::cmp::Ordering) -> i8 {
    o as i8
}

const K_ITER: usize = 5;
const K_AFTER: usize = 3;
const K_RANGES: usize = 4;

/// what to observe: probe values for contains / iter_after, probe pairs for intersects_range
struct Probes {
    vals: Vec<u32>,
    after: Vec<u32>,
    pairs: Vec<(u32, u32)>,
    /// which observation kinds to make (bit per kind); u32::MAX = all
    mask: u32,
}
fn keep(mask: u32, ob: &Ob) -> bool {
    let bit = match ob {
        Ob::Len(..) => 0,
        Ob::Inverted(..) => 1,
        Ob::Contains(..) => 2,
        Ob::First(..) => 3,
        Ob::Last(..) => 4,
        Ob::Iter(..) => 5,
        Ob::IterBack(..) => 6,
        Ob::IterAfter(..) => 7,
        Ob::Ranges(..) => 8,
        Ob::ExclRanges(..) => 9,
        Ob::IntersectsRange(..) => 10,
        Ob::IntersectsSet(..) => 11,
        Ob::Eq(..) => 12,
        Ob::Cmp(..) => 13,
    };
    mask & (1 << bit) != 0
}

fn observe_impl<E: Elem>(st: &[IntSet<E>; 2], pr: &Probes) -> Vec<Ob> {
    let mut out = vec![];
    for t in [false, true] {
        let s = &st[t as usize];
        let o = &st[1 - t as usize];
        out.push(Ob::Len(t, s.len(), s.is_empty()));
        out.push(Ob::Inverted(t, s.is_inverted()));
        for v in &pr.vals {
            out.push(Ob::Contains(t, *v, s.contains(E::mk(*v))));
        }
        out.push(Ob::First(t, s.first().map(|v| v.to_u32())));
        out.push(Ob::Last(t, s.last().map(|v| v.to_u32())));
        out.push(Ob::Iter(t, K_ITER, s.iter().take(K_ITER).map(|v| v.to_u32()).collect()));
        out.push(Ob::IterBack(t, K_ITER, s.iter().rev().take(K_ITER).map(|v| v.to_u32()).collect()));
        for v in &pr.after {
            out.push(Ob::IterAfter(t, *v, K_AFTER, s.iter_after(E::mk(*v)).take(K_AFTER).map(|v| v.to_u32()).collect()));
        }
        out.push(Ob::Ranges(t, K_RANGES, s.iter_ranges().take(K_RANGES).map(|r| (r.start().to_u32(), r.end().to_u32())).collect()));
        out.push(Ob::ExclRanges(
            t,
            K_RANGES,
            s.iter_excluded_ranges().take(K_RANGES).map(|r| (r.start().to_u32(), r.end().to_u32())).collect(),
        ));
        for (a, b) in &pr.pairs {
            out.push(Ob::IntersectsRange(t, *a, *b, s.intersects_range(E::mk(*a)..=E::mk(*b))));
        }
        out.push(Ob::IntersectsSet(t, s.intersects_set(o)));
    }
    out.push(Ob::Eq(st[0] == st[1]));
    out.push(Ob::Cmp(ord_i8(st[0].cmp(&st[1]))));
    out.retain(|o| keep(pr.mask, o));
    out
}

fn observe_sh<E: Elem>(st: &[Sh; 2], pr: &Probes) -> Vec<Ob> {
    let mut out = vec![];
    for t in [false, true] {
        let s = &st[t as usize];
        let o = &st[1 - t as usize];
        let n = s.len::<E>();
        out.push(Ob::Len(t, n, n == 0));
        out.push(Ob::Inverted(t, s.inv));
        for v in &pr.vals {
            out.push(Ob::Contains(t, *v, s.has::<E>(*v)));
        }
        out.push(Ob::First(t, s.first_ge::<E>(0)));
        out.push(Ob::Last(t, s.last_le::<E>(u32::MAX)));
        out.push(Ob::Iter(t, K_ITER, s.iter_from::<E>(s.first_ge::<E>(0), K_ITER)));
        out.push(Ob::IterBack(t, K_ITER, s.iter_back::<E>(K_ITER)));
        for v in &pr.after {
            out.push(Ob::IterAfter(t, *v, K_AFTER, s.iter_from::<E>(s.after::<E>(*v), K_AFTER)));
        }
        out.push(Ob::Ranges(t, K_RANGES, s.ranges::<E>(K_RANGES, false)));
        out.push(Ob::ExclRanges(t, K_RANGES, s.ranges::<E>(K_RANGES, true)));
        for (a, b) in &pr.pairs {
            let hit = matches!(s.first_ge::<E>(*a), Some(x) if x <= *b);
            out.push(Ob::IntersectsRange(t, *a, *b, hit));
        }
        out.push(Ob::IntersectsSet(t, Sh::combine(s, o, |a, b| a && b).first_ge::<E>(0).is_some()));
    }
    out.push(Ob::Eq(Sh::eq::<E>(&st[0], &st[1])));
    out.push(Ob::Cmp(ord_i8(Sh::cmp::<E>(&st[0], &st[1]))));
    out.retain(|o| keep(pr.mask, o));
    out
}

fn hash_of<T: Hash>(x: &T) -> u64 {
    let mut h = DefaultHasher::new();
    x.hash(&mut h);
    h.finish()
}

/// implementation-only extras: hash agreement with equality, canonical rebuild, inclusive_iter,
/// complete (mixed-direction) iteration for small sets
fn extra_oracles<E: Elem>(st: &[IntSet<E>; 2], sh: &[Sh; 2], rng: &mut Rng, full_iter: bool) -> Option<String> {
    if (st[0] == st[1]) && hash_of(&st[0]) != hash_of(&st[1]) {
        return Some("equal sets hash differently".into());
    }
    if (st[0] == st[1]) != (st[1] == st[0]) {
        return Some("== not symmetric".into());
    }
    if st[0].cmp(&st[1]) != st[1].cmp(&st[0]).reverse() {
        return Some("cmp not antisymmetric".into());
    }
    if (st[0].cmp(&st[1]) == std::cmp::Ordering::Equal) != (st[0] == st[1]) {
        return Some("cmp == Equal disagrees with ==".into());
    }
    for i in 0..2 {
        let s = &st[i];
        // rebuild the same mathematical set in the opposite membership mode and in the same one
        if sh[i].s.len() <= 64 {
            let mut same: IntSet<E> = if sh[i].inv { IntSet::all() } else { IntSet::empty() };
            let mut opp: IntSet<E> = if sh[i].inv { IntSet::empty() } else { IntSet::all() };
            for v in &sh[i].s {
                if sh[i].inv {
                    same.remove(E::mk(*v));
                } else {
                    same.insert(E::mk(*v));
                }
            }
            // opposite mode: start from the complement flag and fix up by ranges
            let rs = sh[i].ranges::<E>(80, false);
            if rs.len() < 80 {
                if sh[i].inv {
                    for (a, b) in &rs {
                        if (*b - *a) < 200_000 {
                            opp.insert_range(E::mk(*a)..=E::mk(*b));
                        } else {
                            opp = same.clone();
                            break;
                        }
                    }
                } else {
                    for (a, b) in &sh[i].ranges::<E>(80, true) {
                        if (*b - *a) < 200_000 {
                            opp.remove_range(E::mk(*a)..=E::mk(*b));
                        } else {
                            opp = same.clone();
                            break;
                        }
                    }
                }
            } else {
                opp = same.clone();
            }
            for (name, other) in [("same-mode", &same), ("opposite-mode", &opp)] {
                if s != other || other != s {
                    return Some(format!("set {} != its {} rebuild", i, name));
                }
                if hash_of(s) != hash_of(other) {
                    return Some(format!("set {} hashes differently from its {} rebuild", i, name));
                }
                if s.cmp(other) != std::cmp::Ordering::Equal {
                    return Some(format!("set {} cmp its {} rebuild != Equal", i, name));
                }
            }
        }
        match s.inclusive_iter() {
            Some(it) => {
                if s.is_inverted() {
                    return Some("inclusive_iter is Some on an inverted set".into());
                }
                if sh[i].s.len() <= 3000 {
                    let v: Vec<u32> = it.map(|v| v.to_u32()).collect();
                    let e: Vec<u32> = sh[i].s.iter().copied().collect();
                    if v != e {
                        return Some("inclusive_iter != members".into());
                    }
                }
            }
            None => {
                if !s.is_inverted() {
                    return Some("inclusive_iter is None on an inclusive set".into());
                }
            }
        }
        if full_iter && sh[i].len::<E>() <= 4096 {
            let members = sh[i].iter_from::<E>(sh[i].first_ge::<E>(0), 5000);
            let got: Vec<u32> = s.iter().map(|v| v.to_u32()).collect();
            if got != members {
                return Some(format!("set {} full iter != sorted members", i));
            }
            let got: Vec<u32> = s.iter().rev().map(|v| v.to_u32()).collect();
            let mut rm = members.clone();
            rm.reverse();
            if got != rm {
                return Some(format!("set {} full reverse iter != members", i));
            }
            // mixed direction on one iterator
            let mut it = s.iter();
            let mut dq: std::collections::VecDeque<u32> = members.iter().copied().collect();
            loop {
                let (g, e) = if rng.chance(1, 2) {
                    (it.next().map(|v| v.to_u32()), dq.pop_front())
                } else {
                    (it.next_back().map(|v| v.to_u32()), dq.pop_back())
                };
                if g != e {
                    return Some(format!("set {} mixed-direction iteration: got {:?} expected {:?}", i, g, e));
                }
                if e.is_none() {
                    break;
                }
            }
            // all ranges / excluded ranges
            let r: Vec<(u32, u32)> = s.iter_ranges().map(|r| (r.start().to_u32(), r.end().to_u32())).collect();
            if r != sh[i].ranges::<E>(usize::MAX, false) {
                return Some(format!("set {} iter_ranges != maximal runs", i));
            }
            let r: Vec<(u32, u32)> = s.iter_excluded_ranges().map(|r| (r.start().to_u32(), r.end().to_u32())).collect();
            if r != sh[i].ranges::<E>(usize::MAX, true) {
                return Some(format!("set {} iter_excluded_ranges != maximal gaps", i));
            }
        }
    }
    None
}

// ---------------------------------------------------------------------------------------------
// driving one sequence
// ---------------------------------------------------------------------------------------------
struct Ctx {
    st: Stats,
    cw: Cases,
    coq_budget: usize,
}
/// case terms, written at the end as byte-balanced shards in CaseWriter's file format
struct Cases(Vec<String>);
impl Cases {
    fn push(&mut self, s: String) {
        self.0.push(s)
    }
    fn len(&self) -> usize {
        self.0.len()
    }
    fn finish(&self, dir: &std::path::Path, header: &str, nshards: usize) -> usize {
        let mut order: Vec<usize> = (0..self.0.len()).collect();
        order.sort_by_key(|i| std::cmp::Reverse(self.0[*i].len()));
        let n = nshards.min(self.0.len()).max(1);
        let mut buckets: Vec<(usize, Vec<usize>)> = vec![(0, vec![]); n];
        for i in order {
            let b = buckets.iter_mut().min_by_key(|b| b.0).unwrap();
            b.0 += self.0[i].len() + 2000;
            b.1.push(i);
        }
        for (k, (_, idx)) in buckets.iter().enumerate() {
            let mut s = String::new();
            s.push_str(header);
            s.push_str("\nDefinition cases : list (case) := [\n");
            for (j, i) in idx.iter().enumerate() {
                s.push_str("  ");
                s.push_str(&self.0[*i]);
                s.push_str(if j + 1 < idx.len() { ";\n" } else { "\n" });
            }
            s.push_str("].\nEval vm_compute in (FV.Lib.Cases.bad_indices (check_case) cases).\n");
            std::fs::write(dir.join(format!("cases_{}.v", k)), s).unwrap();
        }
        n
    }
}

fn probes_for<E: Elem>(op: &Op, rng: &mut Rng, pool: &[u32]) -> Probes {
    let mut vals: BTreeSet<u32> = BTreeSet::new();
    let near = |v: u32, vals: &mut BTreeSet<u32>| {
        for d in [-1i64, 0, 1] {
            let x = v as i64 + d;
            if x >= 0 && x <= u32::MAX as i64 && E::has(x as u32) {
                vals.insert(x as u32);
            }
        }
    };
    match op {
        Op::Insert(_, v) | Op::Remove(_, v) => near(*v, &mut vals),
        Op::InsertRange(_, a, b) | Op::RemoveRange(_, a, b) => {
            near(*a, &mut vals);
            near(*b, &mut vals);
        }
        Op::Extend(_, vs, _) | Op::RemoveAll(_, vs) => {
            for v in vs.iter().take(2) {
                near(*v, &mut vals);
            }
        }
        _ => {}
    }
    for _ in 0..3 {
        vals.insert(*rng.pick(pool));
    }
    // the domain's ends are always probed: min, min+1, max-1, max
    let dmax1 = E::pred(E::dmax()).unwrap_or(E::dmax());
    let dmin1 = E::succ(E::dmin()).unwrap_or(E::dmin());
    let mut vals: Vec<u32> = vals.into_iter().take(9).collect();
    for v in [E::dmin(), dmin1, dmax1, E::dmax()] {
        if !vals.contains(&v) {
            vals.push(v);
        }
    }
    vals.sort();
    let after = vec![*rng.pick(&vals), *rng.pick(pool), dmax1, E::dmax()];
    let mut pairs = vec![];
    for _ in 0..3 {
        let a = *rng.pick(&vals);
        let b = *rng.pick(&vals);
        pairs.push(if rng.chance(5, 6) { (a.min(b), a.max(b)) } else { (a, b) });
    }
    pairs.push(*rng.pick(&[(E::dmax(), E::dmax()), (dmax1, E::dmax()), (E::dmin(), E::dmin()), (E::dmin(), dmin1), (dmin1, dmax1)]));
    Probes { vals, after, pairs, mask: u32::MAX }
}

fn key_of(dom: &str, ops: &[Op]) -> String {
    format!("{}:{}", dom, ops.iter().map(|o| o.coq()).collect::<Vec<_>>().join(";"))
}

/// run one whole sequence from two empty sets; observe after every step (`every`) or only at the end.
/// Emits a Coq case when `to_coq`.
fn run_sequence<E: Elem>(cx: &mut Ctx, rng: &mut Rng, ops: &[Op], pool: &[u32], every: bool, to_coq: bool, full_iter: bool) {
    let mut st: [IntSet<E>; 2] = [IntSet::empty(), IntSet::empty()];
    let mut sh: [Sh; 2] = [Sh::default(), Sh::default()];
    let mut steps: Vec<String> = vec![];
    let mut ok = true;
    for (i, op) in ops.iter().enumerate() {
        cx.st.count(&format!("op.{}", op.kind()));
        let target_inv = sh[match op {
            Op::Insert(t, _) | Op::Remove(t, _) | Op::InsertRange(t, ..) | Op::RemoveRange(t, ..) | Op::Extend(t, ..) | Op::RemoveAll(t, _) => *t as usize,
            Op::Union(t) | Op::Intersect(t) | Op::Subtract(t) | Op::Invert(t) | Op::Clear(t) | Op::Assign(t) => *t as usize,
        }]
        .inv;
        cx.st.count(if target_inv { "target.inverted" } else { "target.inclusive" });
        if let Op::Union(t) | Op::Intersect(t) | Op::Subtract(t) = op {
            cx.st.count(&format!(
                "mode.{}.{}{}",
                op.kind(),
                if sh[*t as usize].inv { "X" } else { "I" },
                if sh[1 - *t as usize].inv { "X" } else { "I" }
            ));
        }
        let mut st2 = st.clone();
        let r = catch(std::panic::AssertUnwindSafe(|| {
            let r = apply_impl::<E>(&mut st2, op);
            (st2, r)
        }));
        let ret_sh = apply_sh::<E>(&mut sh, op);
        let ret = match r {
            Ok((s2, r)) => {
                st = s2;
                r
            }
            Err(e) => {
                cx.st.count("panics");
                cx.st.oracle_failure(json!({"key": key_of(E::NAME, &ops[..=i]), "what": "operation panicked", "panic": e}));
                ok = false;
                break;
            }
        };
        if ret != ret_sh {
            cx.st.oracle_failure(json!({"key": key_of(E::NAME, &ops[..=i]), "what": "insert/remove return value", "impl": ret, "expected": ret_sh}));
        }
        let last = i + 1 == ops.len();
        let mut obs_txt = String::from("[]");
        if every || last {
            let mut pr = probes_for::<E>(op, rng, pool);
            if to_coq && !last {
                // keep the Coq case small: a random third of the observation kinds on inner steps
                pr.mask = (rng.next_u32() & rng.next_u32()) | (1 << (rng.below(14) as u32));
                pr.vals.truncate(5);
            }
            let stc = st.clone();
            let oi = catch(std::panic::AssertUnwindSafe(|| observe_impl::<E>(&stc, &pr)));
            let os = observe_sh::<E>(&sh, &pr);
            cx.st.evaluations += 1;
            match oi {
                Ok(oi) => {
                    if oi != os {
                        let diff: Vec<String> = oi.iter().zip(os.iter()).filter(|(a, b)| a != b).take(3).map(|(a, b)| format!("impl {:?} expected {:?}", a, b)).collect();
                        cx.st.oracle_failure(json!({"key": key_of(E::NAME, &ops[..=i]), "what": "observation differs from the mathematical set", "diff": diff}));
                    }
                    obs_txt = clist(oi.iter(), |o| o.coq());
                }
                Err(e) => {
                    cx.st.count("panics");
                    cx.st.oracle_failure(json!({"key": key_of(E::NAME, &ops[..=i]), "what": "observation panicked", "panic": e}));
                    ok = false;
                    break;
                }
            }
            let stc = st.clone();
            let shc = sh.clone();
            let mut r2 = rng.clone();
            let do_extra = last || rng.chance(1, 4);
            if do_extra {
            match catch(std::panic::AssertUnwindSafe(move || extra_oracles::<E>(&stc, &shc, &mut r2, full_iter))) {
                Ok(None) => {}
                Ok(Some(why)) => cx.st.oracle_failure(json!({"key": key_of(E::NAME, &ops[..=i]), "what": why})),
                Err(e) => cx.st.oracle_failure(json!({"key": key_of(E::NAME, &ops[..=i]), "what": "extra oracle panicked", "panic": e})),
            }
            }
            rng.next_u64();
        }
        steps.push(format!("({}, {}, {})", op.coq(), copt(ret.map(|b| cbool(b).to_string())), obs_txt));
    }
    if sh[0].inv || sh[1].inv {
        cx.st.count("final.some_inverted");
    }
    if ops.len() >= 2 {
        cx.st.nontrivial(&key_of(E::NAME, ops));
    }
    if ok && to_coq && E::MODELLED && cx.coq_budget > 0 {
        cx.coq_budget -= 1;
        cx.st.count(&format!("coq_cases.{}", E::NAME));
        cx.cw.push(format!("CSet {} {}", E::dmax(), clist(steps.iter(), |s| s.clone())));
        cx.st.sample(json!({"domain": E::NAME, "ops": ops.iter().map(|o| o.coq()).collect::<Vec<_>>()}));
    }
}

// ---------------------------------------------------------------------------------------------
// generators
// ---------------------------------------------------------------------------------------------
const B11: [u32; 11] = [0, 1, 510, 511, 512, 513, 1023, 1024, 65535, u32::MAX - 1, u32::MAX];

/// the page-edge-rich boundary values of a domain: {0,1,510,511,512,513,1023,1024,65535, max-1, max} inside the
/// domain (u32: exactly the 11-value domain B11); tiny domains get element edges instead
fn blist<E: Elem>() -> Vec<u32> {
    let base: Vec<u32> = if E::dmax() < 510 { vec![0, 1, 63, 64, 127, 128] } else { vec![0, 1, 510, 511, 512, 513, 1023, 1024, 65535] };
    let mut v: BTreeSet<u32> = base.into_iter().filter(|x| E::has(*x)).collect();
    v.insert(E::dmin());
    if let Some(s) = E::succ(E::dmin()) {
        v.insert(s);
    }
    if let Some(p) = E::pred(E::dmax()) {
        v.insert(p);
    }
    v.insert(E::dmax());
    v.into_iter().collect()
}

/// op universe over the boundary values of E. `full`: every pair inside the low group as a range.
fn universe<E: Elem>(full: bool) -> Vec<Op> {
    let mut ops = vec![];
    let bl = blist::<E>();
    let dmax = E::dmax();
    let dmax1 = E::pred(dmax).unwrap_or(dmax);
    let low: Vec<u32> = bl.iter().copied().filter(|v| *v <= 1024).collect();
    let mut pairs: Vec<(u32, u32)> = vec![];
    if full {
        for (i, a) in low.iter().enumerate() {
            for b in &low[i..] {
                pairs.push((*a, *b));
            }
        }
        if E::has(65535) {
            pairs.push((65535, 65535));
        }
        pairs.push((dmax1, dmax));
        pairs.push((dmax, dmax));
    } else {
        pairs = vec![(0, 511), (1, 510), (511, 512), (512, 1023), (510, 1024), (0, 1024), (0, 63), (63, 64), (dmax1, dmax)];
        pairs.retain(|(a, b)| E::has(*a) && E::has(*b) && low.contains(a) || (*a, *b) == (dmax1, dmax));
        pairs.retain(|(a, b)| E::has(*a) && E::has(*b));
    }
    if low.len() >= 3 {
        pairs.push((low[low.len() - 1], low[low.len() - 3])); // reversed: no-op
    }
    let dom = |vs: Vec<u32>| -> Vec<u32> { vs.into_iter().map(|v| if E::has(v) { v } else { E::pred(v).unwrap() }).collect() };
    for t in [false, true] {
        for v in &bl {
            ops.push(Op::Insert(t, *v));
            ops.push(Op::Remove(t, *v));
        }
        for (a, b) in &pairs {
            ops.push(Op::InsertRange(t, *a, *b));
            ops.push(Op::RemoveRange(t, *a, *b));
        }
        ops.push(Op::Extend(t, dom(vec![511, 512, 0, dmax]), 0));
        ops.push(Op::Extend(t, dom(vec![1024, 1, 1023]), 1));
        ops.push(Op::RemoveAll(t, dom(vec![512, dmax, 1, 7])));
        ops.push(Op::Union(t));
        ops.push(Op::Intersect(t));
        ops.push(Op::Subtract(t));
        ops.push(Op::Invert(t));
        ops.push(Op::Clear(t));
        ops.push(Op::Assign(t));
    }
    ops
}

fn exhaustive<E: Elem>(cx: &mut Ctx, rng: &mut Rng, depth: usize, full: bool, coq_every: u64) {
    let uni = universe::<E>(full);
    cx.st.v.insert(format!("exhaustive_depth{}_universe_{}", depth, E::NAME), uni.len().into());
    let pool: Vec<u32> = blist::<E>();
    let mut idx = vec![0usize; depth];
    loop {
        let ops: Vec<Op> = idx.iter().map(|i| uni[*i].clone()).collect();
        let to_coq = rng.below(coq_every) == 0;
        run_sequence::<E>(cx, rng, &ops, &pool, false, to_coq, false);
        cx.st.count(&format!("exhaustive.depth{}.{}", depth, E::NAME));
        // next tuple
        let mut k = depth;
        loop {
            if k == 0 {
                return;
            }
            k -= 1;
            idx[k] += 1;
            if idx[k] < uni.len() {
                break;
            }
            idx[k] = 0;
        }
    }
}

fn rand_val<E: Elem>(rng: &mut Rng, pool: &[u32]) -> u32 {
    let v = if rng.chance(3, 4) {
        let p = *rng.pick(pool) as i64 + rng.range(-2, 2);
        p.clamp(0, u32::MAX as i64) as u32
    } else {
        (rng.next_u32() as u64 % (E::dmax() as u64 + 1)) as u32
    };
    if E::has(v) {
        v
    } else {
        E::succ(v).or_else(|| E::pred(v)).unwrap()
    }
}

fn rand_op<E: Elem>(rng: &mut Rng, pool: &[u32], max_span: u32) -> Op {
    let t = rng.chance(1, 2);
    match rng.below(100) {
        0..=24 => Op::Insert(t, rand_val::<E>(rng, pool)),
        25..=36 => Op::Remove(t, rand_val::<E>(rng, pool)),
        37..=52 | 53..=62 => {
            let ins = rng.below(26) < 16;
            let a = rand_val::<E>(rng, pool);
            let span = match rng.below(10) {
                0..=3 => rng.below(4) as u32,
                4..=7 => rng.below(1100) as u32,
                8 => rng.below(5000.min(max_span as u64) + 1) as u32,
                _ => {
                    if rng.chance(1, 6) {
                        rng.below(max_span as u64 + 1) as u32
                    } else {
                        rng.below(600) as u32
                    }
                }
            };
            let span = span.min(max_span);
            let mut b = a.saturating_add(span).min(E::dmax());
            if !E::has(b) {
                b = E::pred(b).unwrap();
            }
            let (a, b) = if rng.chance(1, 12) { (b, a) } else { (a, b) };
            if ins {
                Op::InsertRange(t, a, b)
            } else {
                Op::RemoveRange(t, a, b)
            }
        }
        63..=68 => {
            let n = rng.below(5) as usize;
            let mut vs: Vec<u32> = (0..n).map(|_| rand_val::<E>(rng, pool)).collect();
            let var = rng.below(3) as u8;
            if var != 1 {
                vs.sort();
            }
            Op::Extend(t, vs, var)
        }
        69..=72 => {
            let n = rng.below(5) as usize;
            Op::RemoveAll(t, (0..n).map(|_| rand_val::<E>(rng, pool)).collect())
        }
        73..=79 => Op::Union(t),
        80..=85 => Op::Intersect(t),
        86..=91 => Op::Subtract(t),
        92..=96 => Op::Invert(t),
        97 => Op::Clear(t),
        _ => Op::Assign(t),
    }
}

fn random_stream<E: Elem>(cx: &mut Ctx, rng: &mut Rng, nseq: usize, maxlen: usize, coq_seqs: usize, pool: &[u32], max_span: u32, full_iter: bool) {
    for i in 0..nseq {
        // sequences that also go to the Coq model stay small (vm_compute enumerates whole sets)
        let (maxlen, max_span) = if i < coq_seqs { (maxlen.min(24), max_span.min(700)) } else { (maxlen, max_span) };
        let len = 1 + rng.below(maxlen as u64) as usize;
        let ops: Vec<Op> = (0..len).map(|_| rand_op::<E>(rng, pool, max_span)).collect();
        run_sequence::<E>(cx, rng, &ops, pool, true, i < coq_seqs, full_iter);
        cx.st.count(&format!("random.{}", E::NAME));
    }
}

// ---------------------------------------------------------------------------------------------
// RangeSet
// ---------------------------------------------------------------------------------------------
/// canonical form by sort-and-sweep (independent of the BTreeMap algorithm)
fn canon(ranges: &[(u32, u32)]) -> Vec<(u32, u32)> {
    let mut v: Vec<(u32, u32)> = ranges.iter().copied().filter(|(a, b)| a <= b).collect();
    v.sort();
    let mut out: Vec<(u32, u32)> = vec![];
    for (a, b) in v {
        if let Some(last) = out.last_mut() {
            if (a as u64) <= last.1 as u64 + 1 {
                last.1 = last.1.max(b);
                continue;
            }
        }
        out.push((a, b));
    }
    out
}
fn canon_inter(a: &[(u32, u32)], b: &[(u32, u32)]) -> Vec<(u32, u32)> {
    let mut out = vec![];
    for (s1, e1) in a {
        for (s2, e2) in b {
            let s = *s1.max(s2);
            let e = *e1.min(e2);
            if s <= e {
                out.push((s, e));
            }
        }
    }
    out.sort();
    out
}

fn rangeset_stream(cx: &mut Ctx, rng: &mut Rng, n: usize, coq_n: usize) {
    let hi_pool = [0u32, 1, 2, 3, 5, 8, 9, 10, 11, 12, 20, 21, 22, 30, 31, 40, 65534, 65535, 65536, u32::MAX - 2, u32::MAX - 1, u32::MAX];
    let gen = |rng: &mut Rng| -> Vec<(u32, u32)> {
        let k = rng.below(9) as usize;
        let small = rng.chance(2, 3);
        (0..k)
            .map(|_| {
                let a = if small { rng.below(45) as u32 } else { *rng.pick(&hi_pool) };
                let b = if rng.chance(1, 10) {
                    a.saturating_sub(rng.below(3) as u32 + 1)
                } else if small {
                    a + rng.below(6) as u32
                } else {
                    let c = *rng.pick(&hi_pool);
                    if c >= a {
                        c
                    } else {
                        a
                    }
                };
                (a, b)
            })
            .collect()
    };
    for i in 0..n {
        let ins1 = gen(rng);
        let ins2 = gen(rng);
        cx.st.evaluations += 1;
        cx.st.count("rangeset.cases");
        let key = format!("rangeset:{:?}|{:?}", ins1, ins2);
        let (i1, i2) = (ins1.clone(), ins2.clone());
        let r = catch(move || {
            let mut a: RangeSet<u32> = RangeSet::default();
            for (s, e) in &i1 {
                a.insert(*s..=*e);
            }
            // Extend / FromIterator path for the second set
            let b: RangeSet<u32> = i2.iter().map(|(s, e)| *s..=*e).collect();
            let av: Vec<(u32, u32)> = a.iter().map(|r| (*r.start(), *r.end())).collect();
            let bv: Vec<(u32, u32)> = b.iter().map(|r| (*r.start(), *r.end())).collect();
            let iv: Vec<(u32, u32)> = a.intersection(&b).map(|r| (*r.start(), *r.end())).collect();
            let empty = a.is_empty();
            (av, bv, iv, empty)
        });
        match r {
            Err(e) => cx.st.oracle_failure(json!({"key": key, "what": "RangeSet panicked", "panic": e})),
            Ok((av, bv, iv, empty)) => {
                let ea = canon(&ins1);
                let eb = canon(&ins2);
                if av != ea || bv != eb {
                    cx.st.oracle_failure(json!({"key": key, "what": "RangeSet not the canonical (sorted, disjoint, non-adjacent) form of the union of the inserted ranges", "impl": format!("{:?} / {:?}", av, bv), "expected": format!("{:?} / {:?}", ea, eb)}));
                }
                if empty != ea.is_empty() {
                    cx.st.oracle_failure(json!({"key": key, "what": "RangeSet::is_empty"}));
                }
                let ei = canon_inter(&ea, &eb);
                if iv != ei {
                    cx.st.oracle_failure(json!({"key": key, "what": "RangeSet::intersection", "impl": format!("{:?}", iv), "expected": format!("{:?}", ei)}));
                }
                if ea.len() >= 2 {
                    cx.st.nontrivial(&key);
                }
                if av.len() < canon_len_unmerged(&ins1) {
                    cx.st.count("rangeset.merged_something");
                }
                if i < coq_n {
                    cx.cw.push(format!("CRange {} {} {} {}", cpairs(&ins1), cpairs(&av), cpairs(&ins2), cpairs(&iv)));
                    cx.st.count("coq_cases.rangeset");
                }
            }
        }
        // u16 instance (impl-only)
        let ins16: Vec<(u16, u16)> = ins1.iter().map(|(a, b)| ((*a).min(65535) as u16, (*b).min(65535) as u16)).collect();
        let i16c = ins16.clone();
        if let Ok(v) = catch(move || {
            let mut a: RangeSet<u16> = RangeSet::default();
            a.extend(i16c.iter().map(|(s, e)| *s..=*e));
            a.iter().map(|r| (*r.start() as u32, *r.end() as u32)).collect::<Vec<_>>()
        }) {
            let e = canon(&ins16.iter().map(|(a, b)| (*a as u32, *b as u32)).collect::<Vec<_>>());
            if v != e {
                cx.st.oracle_failure(json!({"key": format!("rangeset16:{:?}", ins16), "what": "RangeSet<u16> canonical form"}));
            }
        }
    }
}
fn canon_len_unmerged(r: &[(u32, u32)]) -> usize {
    r.iter().filter(|(a, b)| a <= b).count()
}

fn main() {
    silence_panics();
    let args: Vec<String> = std::env::args().collect();
    let thorough = tier_is_thorough(&args);
    let seed = seed_from_env();
    let dir = out_dir(&args, "C14");
    let mut rng = Rng::new(seed);
    let header = "From Coq Require Import NArith List. Import ListNotations. Open Scope N_scope.\nFrom FV Require Import Lib.Cases C14.Model.";
    // creates the directory and removes stale shards
    let _ = CaseWriter::new(&dir, header, "case", "check_case", 1);
    let mut cx = Ctx { st: Stats::new(), cw: Cases(vec![]), coq_budget: usize::MAX };
    let t0 = std::time::Instant::now();
    let lap = |what: &str| eprintln!("[c14] {:>7.2}s {}", t0.elapsed().as_secs_f64(), what);

    // 1. bounded-exhaustive over the 11-value boundary domain
    audit_domain_impls(&mut cx.st);
    exhaustive::<u32>(&mut cx, &mut rng, 1, true, 1);
    lap("depth1 done");
    exhaustive::<u32>(&mut cx, &mut rng, 2, true, if thorough { 6 } else { 28 });
    lap("depth2 done");
    // every other Domain impl of read-fonts through the same generic driver: all single operations over the domain's
    // boundary values (min, min+1, page edges, max-1, max), all pairs over the reduced universe, sampled triples
    fn per_domain<E: Elem>(cx: &mut Ctx, rng: &mut Rng, thorough: bool) {
        exhaustive::<E>(cx, rng, 1, true, 4);
        exhaustive::<E>(cx, rng, 2, false, if thorough { 20 } else { 60 });
        let uni = universe::<E>(false);
        let pool = blist::<E>();
        for i in 0..(if thorough { 40_000 } else { 3_000 }) {
            let len = 3 + rng.below(3) as usize;
            let ops: Vec<Op> = (0..len).map(|_| rng.pick(&uni).clone()).collect();
            run_sequence::<E>(cx, rng, &ops, &pool, false, i % 60 == 0, false);
            cx.st.count(&format!("sampled.depth3to5.{}", E::NAME));
        }
    }
    per_domain::<font_types::GlyphId16>(&mut cx, &mut rng, thorough);
    per_domain::<font_types::NameId>(&mut cx, &mut rng, thorough);
    per_domain::<font_types::GlyphId>(&mut cx, &mut rng, thorough);
    per_domain::<font_types::Tag>(&mut cx, &mut rng, thorough);
    per_domain::<u16>(&mut cx, &mut rng, thorough);
    per_domain::<u8>(&mut cx, &mut rng, thorough);
    lap("per-domain exhaustive done");
    if thorough {
        exhaustive::<u32>(&mut cx, &mut rng, 3, false, 60);
    } else {
        // depth 3 over the reduced universe is ~1e6 sequences: quick tier samples it
        let uni = universe::<u32>(false);
        let pool: Vec<u32> = B11.to_vec();
        for i in 0..30_000 {
            let ops: Vec<Op> = (0..3).map(|_| rng.pick(&uni).clone()).collect();
            run_sequence::<u32>(&mut cx, &mut rng, &ops, &pool, false, i % 40 == 0, false);
            cx.st.count("sampled.depth3");
        }
    }
    {
        let uni = universe::<u32>(false);
        let pool: Vec<u32> = B11.to_vec();
        let n = if thorough { 300_000 } else { 12_000 };
        for i in 0..n {
            let len = 4 + rng.below(3) as usize;
            let ops: Vec<Op> = (0..len).map(|_| rng.pick(&uni).clone()).collect();
            run_sequence::<u32>(&mut cx, &mut rng, &ops, &pool, false, i % 40 == 0, false);
            cx.st.count("sampled.depth4to6");
        }
    }

    lap("exhaustive+sampled done");
    // 2. random longer sequences
    let m = if thorough { 8 } else { 1 };
    let pool32: Vec<u32> = vec![0, 1, 63, 64, 511, 512, 513, 1023, 1024, 1535, 1536, 65535, 65536, 70000, 1 << 20, (1 << 31) - 1, 1 << 31, u32::MAX - 512, u32::MAX - 511, u32::MAX - 1, u32::MAX];
    random_stream::<u32>(&mut cx, &mut rng, if thorough { 5600 } else { 400 }, 40, 70 * m, &pool32, 40_000, false);
    lap("u32 random done");
    let pool16: Vec<u32> = vec![0, 1, 63, 64, 511, 512, 513, 1023, 1024, 32767, 32768, 65023, 65024, 65534, 65535];
    random_stream::<u16>(&mut cx, &mut rng, 300 * m, 40, 50 * m, &pool16, 3000, false);
    let pool8: Vec<u32> = vec![0, 1, 63, 64, 65, 127, 128, 254, 255];
    random_stream::<u8>(&mut cx, &mut rng, 300 * m, 30, 50 * m, &pool8, 255, true);
    random_stream::<font_types::GlyphId16>(&mut cx, &mut rng, 150 * m, 40, 25 * m, &pool16, 3000, false);
    random_stream::<font_types::NameId>(&mut cx, &mut rng, 150 * m, 40, 25 * m, &pool16, 3000, false);
    random_stream::<font_types::GlyphId>(&mut cx, &mut rng, 150 * m, 40, 25 * m, &pool32, 20_000, false);
    random_stream::<font_types::Tag>(&mut cx, &mut rng, 150 * m, 40, 25 * m, &pool32, 20_000, false);
    let pools: Vec<u32> = vec![0, 1, 63, 64, 511, 512, 513, 1023, 1024, 1535, 1536, 2046, 2047];
    random_stream::<Small>(&mut cx, &mut rng, 300 * m, 40, 60 * m, &pools, 2047, true);
    let poole: Vec<u32> = vec![0, 2, 62, 64, 510, 512, 514, 1022, 1024, 1026, 2044, 2046];
    random_stream::<Even>(&mut cx, &mut rng, 300 * m, 40, 0, &poole, 2046, true);
    let poolt: Vec<u32> = vec![5, 6, 511, 512, 513, 599, 600, 1000, 1001, 1023, 1024, 1535, 1536, 1599, 1600];
    random_stream::<TwoIv>(&mut cx, &mut rng, 300 * m, 40, 0, &poolt, 1600, true);

    lap("random streams done");
    // 3. RangeSet
    rangeset_stream(&mut cx, &mut rng, if thorough { 200_000 } else { 30_000 }, if thorough { 6000 } else { 1500 });

    lap("rangeset done");
    let shards = cx.cw.finish(&dir, header, if thorough { 64 } else { 16 });
    cx.st.v.insert("shards".into(), shards.into());
    cx.st.v.insert("model_cases".into(), cx.cw.len().into());
    cx.st.write(
        &dir,
        "operation sequences from two empty sets: exhaustive length 1-2 (thorough: 3 over a reduced universe) over {0,1,510,511,512,513,1023,1024,65535,2^32-2,2^32-1} with insert/remove/ranges/extend/remove_all/union/intersect/subtract/invert/clear/assign on either set, sampled length 3-6, for every other Domain impl (GlyphId16, NameId, GlyphId, Tag, u16, u8) all single operations and all reduced-universe pairs over that domain's boundary values (min, min+1, page edges, max-1, max) plus sampled length 3-5; random length<=40 over u32/u16/u8/GlyphId16/NameId/GlyphId/Tag/custom continuous [0,2047]/Even/TwoIntervals with observation after every step (probes always include the domain's min, min+1, max-1, max); the list of `impl Domain` in the source under check must equal the list of driven domains; RangeSet random insert sequences + intersections; non-trivial = sequence of >= 2 ops (distinct by domain+ops) or RangeSet with >= 2 resulting ranges",
    );
    println!("cases={} shards={} evaluations={} oracle_failures={}", cx.cw.len(), shards, cx.st.evaluations, cx.st.oracle_failures.len());
}
