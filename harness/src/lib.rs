//! Shared helpers for the verification harness binaries (one binary per property under src/bin).
//!
//! Every random choice derives from one `Rng` seeded by VERIF_SEED; Coq terms are printed by the
//! helpers here so that all shards have the same shape:
//!
//! ```coq
//! From FV Require Import <Model>.
//! Definition cases : list <case_ty> := [ c0; c1; ... ].
//! Eval vm_compute in (bad_indices <check_case> cases).
//! ```
use std::collections::BTreeSet;
use std::fmt::Write as _;
use std::io::Write as _;
use std::path::{Path, PathBuf};

/// splitmix64: tiny, deterministic, good enough for case generation.
#[derive(Clone)]
pub struct Rng(pub u64);

impl Rng {
    pub fn new(seed: u64) -> Self {
        Rng(seed ^ 0x9E37_79B9_7F4A_7C15)
    }
    pub fn next_u64(&mut self) -> u64 {
        self.0 = self.0.wrapping_add(0x9E37_79B9_7F4A_7C15);
        let mut z = self.0;
        z = (z ^ (z >> 30)).wrapping_mul(0xBF58_476D_1CE4_E5B9);
        z = (z ^ (z >> 27)).wrapping_mul(0x94D0_49BB_1331_11EB);
        z ^ (z >> 31)
    }
    pub fn next_u32(&mut self) -> u32 {
        (self.next_u64() >> 32) as u32
    }
    /// uniform in [0, n) (n > 0)
    pub fn below(&mut self, n: u64) -> u64 {
        if n == 0 {
            return 0;
        }
        self.next_u64() % n
    }
    /// uniform in [lo, hi] inclusive
    pub fn range(&mut self, lo: i64, hi: i64) -> i64 {
        let span = (hi as i128 - lo as i128 + 1) as u128;
        (lo as i128 + (self.next_u64() as u128 % span) as i128) as i64
    }
    pub fn chance(&mut self, num: u64, den: u64) -> bool {
        self.below(den) < num
    }
    pub fn pick<'a, T>(&mut self, xs: &'a [T]) -> &'a T {
        &xs[self.below(xs.len() as u64) as usize]
    }
    pub fn shuffle<T>(&mut self, xs: &mut [T]) {
        for i in (1..xs.len()).rev() {
            let j = self.below(i as u64 + 1) as usize;
            xs.swap(i, j);
        }
    }
    pub fn bytes(&mut self, n: usize) -> Vec<u8> {
        (0..n).map(|_| self.next_u64() as u8).collect()
    }
}

/// Boundary-dense 32-bit signed values: near 0, +-2^k, +-(2^k +- 1), min/max.
pub fn boundary_i32() -> Vec<i32> {
    let mut s = BTreeSet::new();
    for d in -3i64..=3 {
        s.insert(d);
        for k in 0..=31 {
            for sign in [-1i64, 1] {
                s.insert(sign * (1i64 << k) + d);
            }
        }
    }
    s.insert(i32::MIN as i64);
    s.insert(i32::MAX as i64);
    s.into_iter()
        .filter(|v| *v >= i32::MIN as i64 && *v <= i32::MAX as i64)
        .map(|v| v as i32)
        .collect()
}

pub fn seed_from_env() -> u64 {
    std::env::var("VERIF_SEED")
        .ok()
        .and_then(|s| s.parse::<i64>().ok())
        .map(|v| v as u64)
        .unwrap_or(20260930)
}

pub fn tier_is_thorough(args: &[String]) -> bool {
    args.iter().any(|a| a == "thorough")
        || std::env::var("VERIF_TIER").map(|t| t == "thorough").unwrap_or(false)
}

/// Run `f`, mapping a panic to `Err(payload text)`. The default panic hook is silenced.
pub fn catch<T>(f: impl FnOnce() -> T + std::panic::UnwindSafe) -> Result<T, String> {
    match std::panic::catch_unwind(f) {
        Ok(v) => Ok(v),
        Err(e) => Err(if let Some(s) = e.downcast_ref::<&str>() {
            s.to_string()
        } else if let Some(s) = e.downcast_ref::<String>() {
            s.clone()
        } else {
            "panic".to_string()
        }),
    }
}

pub fn silence_panics() {
    std::panic::set_hook(Box::new(|_| {}));
}

// ---------- Coq term printing ----------

pub fn cz(v: i128) -> String {
    if v < 0 {
        format!("({})", v)
    } else {
        format!("{}", v)
    }
}
pub fn cbool(b: bool) -> &'static str {
    if b {
        "true"
    } else {
        "false"
    }
}
pub fn clist<T>(xs: impl IntoIterator<Item = T>, f: impl Fn(T) -> String) -> String {
    let mut s = String::from("[");
    let mut first = true;
    for x in xs {
        if !first {
            s.push_str("; ");
        }
        first = false;
        s.push_str(&f(x));
    }
    s.push(']');
    s
}
pub fn czlist<I: IntoIterator<Item = i128>>(xs: I) -> String {
    clist(xs, cz)
}
pub fn cbytes(xs: &[u8]) -> String {
    clist(xs.iter(), |b| format!("{}", b))
}
pub fn copt(o: Option<String>) -> String {
    match o {
        Some(s) => format!("(Some {})", s),
        None => "None".to_string(),
    }
}

/// Collects Coq case terms and writes them as shards `<dir>/cases_<k>.v`.
pub struct CaseWriter {
    dir: PathBuf,
    /// `From FV Require Import ...` lines etc.
    pub header: String,
    /// Coq type of one case
    pub case_ty: String,
    /// Coq function `case_ty -> bool`
    pub check_fn: String,
    pub per_shard: usize,
    cases: Vec<String>,
}

impl CaseWriter {
    pub fn new(dir: &Path, header: &str, case_ty: &str, check_fn: &str, per_shard: usize) -> Self {
        std::fs::create_dir_all(dir).unwrap();
        // remove stale shards
        if let Ok(rd) = std::fs::read_dir(dir) {
            for e in rd.flatten() {
                let n = e.file_name().to_string_lossy().to_string();
                if n.starts_with("cases_") {
                    let _ = std::fs::remove_file(e.path());
                }
            }
        }
        CaseWriter {
            dir: dir.to_path_buf(),
            header: header.to_string(),
            case_ty: case_ty.to_string(),
            check_fn: check_fn.to_string(),
            per_shard,
            cases: vec![],
        }
    }
    pub fn push(&mut self, term: String) -> usize {
        self.cases.push(term);
        self.cases.len() - 1
    }
    pub fn len(&self) -> usize {
        self.cases.len()
    }
    pub fn is_empty(&self) -> bool {
        self.cases.is_empty()
    }
    /// Writes shards; returns number of shards. Global case index = shard*per_shard + local index.
    pub fn finish(&self) -> usize {
        let mut k = 0;
        for chunk in self.cases.chunks(self.per_shard.max(1)) {
            let mut s = String::new();
            writeln!(s, "{}", self.header).unwrap();
            writeln!(s, "Definition cases : list ({}) := [", self.case_ty).unwrap();
            for (i, c) in chunk.iter().enumerate() {
                writeln!(s, "  {}{}", c, if i + 1 < chunk.len() { ";" } else { "" }).unwrap();
            }
            writeln!(s, "].").unwrap();
            writeln!(s, "Eval vm_compute in (FV.Lib.Cases.bad_indices ({}) cases).", self.check_fn).unwrap();
            let p = self.dir.join(format!("cases_{}.v", k));
            std::fs::File::create(&p).unwrap().write_all(s.as_bytes()).unwrap();
            k += 1;
        }
        k
    }
}

/// Stats / distribution / samples written next to the shards as stats.json.
pub struct Stats {
    pub v: serde_json::Map<String, serde_json::Value>,
    pub distinct: BTreeSet<u64>,
    pub samples: Vec<serde_json::Value>,
    pub oracle_failures: Vec<serde_json::Value>,
    pub counters: std::collections::BTreeMap<String, u64>,
    pub evaluations: u64,
}

impl Default for Stats {
    fn default() -> Self {
        Self::new()
    }
}

impl Stats {
    pub fn new() -> Self {
        Stats {
            v: Default::default(),
            distinct: Default::default(),
            samples: vec![],
            oracle_failures: vec![],
            counters: Default::default(),
            evaluations: 0,
        }
    }
    pub fn count(&mut self, k: &str) {
        *self.counters.entry(k.to_string()).or_insert(0) += 1;
    }
    pub fn add(&mut self, k: &str, n: u64) {
        *self.counters.entry(k.to_string()).or_insert(0) += n;
    }
    /// record a non-trivial case by a hash of its canonical text
    pub fn nontrivial(&mut self, canon: &str) {
        self.distinct.insert(fnv(canon.as_bytes()));
    }
    pub fn sample(&mut self, v: serde_json::Value) {
        if self.samples.len() < 5 {
            self.samples.push(v);
        }
    }
    /// implementation-only oracle says the property fails on this input
    pub fn oracle_failure(&mut self, v: serde_json::Value) {
        if self.oracle_failures.len() < 50 {
            self.oracle_failures.push(v);
        }
        self.count("oracle_failures");
    }
    pub fn write(&self, dir: &Path, rule: &str) {
        let mut m = self.v.clone();
        m.insert("evaluations".into(), self.evaluations.into());
        m.insert("distinct_nontrivial".into(), (self.distinct.len() as u64).into());
        m.insert("rule".into(), rule.into());
        m.insert("samples".into(), self.samples.clone().into());
        m.insert("oracle_failures".into(), self.oracle_failures.clone().into());
        m.insert(
            "distribution".into(),
            serde_json::Value::Object(
                self.counters.iter().map(|(k, v)| (k.clone(), (*v).into())).collect(),
            ),
        );
        std::fs::create_dir_all(dir).unwrap();
        std::fs::write(
            dir.join("stats.json"),
            serde_json::to_string_pretty(&serde_json::Value::Object(m)).unwrap(),
        )
        .unwrap();
    }
}

pub fn fnv(b: &[u8]) -> u64 {
    let mut h: u64 = 0xcbf29ce484222325;
    for x in b {
        h ^= *x as u64;
        h = h.wrapping_mul(0x100000001b3);
    }
    h
}

/// Parse `--out <dir>` (default `/verif/.cache/cases/<id>`).
pub fn out_dir(args: &[String], id: &str) -> PathBuf {
    let mut it = args.iter();
    while let Some(a) = it.next() {
        if a == "--out" {
            if let Some(d) = it.next() {
                return PathBuf::from(d);
            }
        }
    }
    PathBuf::from(format!("/verif/.cache/cases/{}", id))
}
