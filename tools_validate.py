#!/usr/bin/env python3
"""Validate MANIFEST.json and every registered evidence file against the schemas in /root/.vp (run with python3-vt)."""
import json, sys, os
import jsonschema
root = os.path.dirname(os.path.abspath(__file__))
m = json.load(open(os.path.join(root, "MANIFEST.json")))
jsonschema.validate(m, json.load(open("/root/.vp/MANIFEST.schema.json")))
es = json.load(open("/root/.vp/EVIDENCE.schema.json"))
ok = True
for c in m["checks"]:
    p = os.path.join(root, c["evidence_file"])
    try:
        ev = json.load(open(p))
        jsonschema.validate(ev, es)
        cov = ev["coverage"]
        assert cov["obligations"] == cov["discharged"], "obligations != discharged"
        print("ok ", c["property_id"], "theorems", cov["discharged"], "evals", cov["evaluations"], "distinct", cov["distinct_nontrivial"], "wall", ev["wall_s"])
    except Exception as ex:
        ok = False
        print("BAD", c["property_id"], str(ex)[:200])
ids = {c["property_id"] for c in m["checks"]} | {n["property_id"] for n in m.get("not_applicable", [])}
print("covered ids:", len(ids))
sys.exit(0 if ok else 1)
