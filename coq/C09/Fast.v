(* C09 round 7 — SimpleGlyph::read_points_fast (the reader skrifa draws with) inside the C09 model:
   it agrees with points()/PointIter wherever points_impl succeeds and the flag bytes are not more than the
   points (always so for what the writer emits), up to i16 narrowing of the i32 coordinates. *)
From Coq Require Import ZArith List Bool Lia.
From FV Require Import Lib.RustInt C09.Model C09.Proofs.
Import ListNotations.
Open Scope Z_scope.
Ltac Zify.zify_post_hook ::= Z.div_mod_to_equations.

(* ------------------------------------------------------------------ *)
(* wrapping                                                             *)
Lemma w16_w32 z : w16 (w32 z) = w16 z.
Proof. unfold w16, w32. lia. Qed.
Lemma w16_add a d : w16 (w16 a + d) = w16 (a + d).
Proof. unfold w16. lia. Qed.
Lemma w32_id z : -2147483648 <= z <= 2147483647 -> w32 z = z.
Proof. unfold w32. lia. Qed.

(* ------------------------------------------------------------------ *)
(* the flag loop against resolve_coords_len + PointIter's flag expansion *)
Lemma total_nonneg sz l : (forall f, 0 <= sz f) -> 0 <= total sz l.
Proof. intros H. induction l as [|f l IH]; cbn [total]; [lia|]. specialize (H f). lia. Qed.
Lemma xsize_nonneg f : 0 <= xsize f.
Proof. unfold xsize. destruct (has f X_SHORT), (has f X_SAME_POS); cbn [negb andb]; lia. Qed.
Lemma ysize_nonneg f : 0 <= ysize f.
Proof. unfold ysize. destruct (has f Y_SHORT), (has f Y_SAME_POS); cbn [negb andb]; lia. Qed.
Lemma total_nonneg_x l : 0 <= total xsize l. Proof. apply total_nonneg, xsize_nonneg. Qed.
Lemma total_nonneg_y l : 0 <= total ysize l. Proof. apply total_nonneg, ysize_nonneg. Qed.

Lemma fast_flags_zero d : fast_flags d 0 = Some (0, []).
Proof. destruct d; reflexivity. Qed.

Lemma flags_agree : forall fuel d left pos xl yl fl xl' yl',
  (length d <= fuel)%nat -> Forall byte d -> 1 <= left ->
  resolve_go d left pos xl yl = Some (fl, xl', yl') ->
  exists k : nat,
    fl = pos + Z.of_nat k /\ (k <= length d)%nat
    /\ zlen (expand_flags (firstn k d)) = left
    /\ xl' = xl + total xsize (expand_flags (firstn k d))
    /\ yl' = yl + total ysize (expand_flags (firstn k d))
    /\ forall m, (k <= m)%nat -> fast_flags (firstn m d) left = Some (Z.of_nat k, expand_flags (firstn k d)).
Proof.
  induction fuel as [|fuel IH]; intros d left pos xl yl fl xl' yl' Hlen Hb Hl H.
  - destruct d; [|cbn in Hlen; lia]. cbn [resolve_go] in H.
    replace (left <=? 0) with false in H by lia. discriminate.
  - destruct d as [|f rest]; cbn [resolve_go] in H; replace (left <=? 0) with false in H by lia; [discriminate|].
    inversion Hb as [|? ? Hf Hrest]; subst.
    destruct (has f REPEAT) eqn:ER.
    + destruct rest as [|r rest']; [discriminate|].
      inversion Hrest as [|? ? Hr Hrest']; subst. unfold byte in Hr.
      destruct (left <? r + 1) eqn:EL; [discriminate|].
      cbn [fst snd] in H. rewrite acc_x, acc_y in H by assumption.
      assert (Hmin : Z.min (r + 1) left = r + 1) by lia.
      destruct (Z.eq_dec (left - (r + 1)) 0) as [Hz|Hnz].
      * rewrite Hz, resolve_go_zero in H;
          injection H as <- <- <-; exists 2%nat;
          (cbn [firstn expand_flags]; rewrite ER; cbn [length]; rewrite app_nil_r, zlen_repeat, total_repeat, total_repeat, ?Z2Nat.id by lia;
           repeat split; try lia;
           intros m Hm; destruct m as [|[|m]]; try lia; cbn [firstn fast_flags];
           replace (left <=? 0) with false by lia; rewrite ER, Hmin, Hz, fast_flags_zero, app_nil_r; reflexivity).
      * cbn [length] in Hlen.
        destruct (IH rest' (left - (r + 1)) (pos + 2) _ _ fl xl' yl' ltac:(lia) Hrest' ltac:(lia) H)
          as (k & E1 & E2 & E3 & E4 & E5 & E6).
        exists (S (S k)). cbn [firstn expand_flags]. rewrite ER. cbn [length].
        rewrite zlen_app, zlen_repeat, !total_app, !total_repeat, ?Z2Nat.id by lia.
        repeat split; try lia.
        intros m Hm. destruct m as [|[|m]]; try lia. cbn [firstn fast_flags].
        replace (left <=? 0) with false by lia. rewrite ER, Hmin.
        rewrite (E6 m) by lia. f_equal. f_equal. lia.
    + cbn [fst snd] in H. rewrite acc_x, acc_y in H by assumption. rewrite !Z.mul_1_l in H.
      destruct (Z.eq_dec (left - 1) 0) as [Hz|Hnz].
      * rewrite Hz, resolve_go_zero in H;
          injection H as <- <- <-; exists 1%nat;
          (cbn [firstn expand_flags]; rewrite ER; cbn [length total];
           repeat split; try (rewrite ?zlen_cons, ?zlen_nil; lia);
           intros m Hm; destruct m as [|m]; try lia; cbn [firstn fast_flags];
           replace (left <=? 0) with false by lia; rewrite ER, Hz, fast_flags_zero; reflexivity).
      * cbn [length] in Hlen.
        destruct (IH rest (left - 1) (pos + 1) _ _ fl xl' yl' ltac:(lia) Hrest ltac:(lia) H)
          as (k & E1 & E2 & E3 & E4 & E5 & E6).
        exists (S k). cbn [firstn expand_flags]. rewrite ER. cbn [length total].
        rewrite zlen_cons.
        repeat split; try lia.
        intros m Hm. destruct m as [|m]; try lia. cbn [firstn fast_flags].
        replace (left <=? 0) with false by lia. rewrite ER.
        rewrite (E6 m) by lia. f_equal. f_equal. lia.
Qed.

(* ------------------------------------------------------------------ *)
(* one coordinate pass: the checked i32 reader against PointIter's unwrap_or(0) i16 reader *)
Definition gsize (sb mb f : Z) : Z :=
  (if has f sb then 1 else 0) + (if negb (has f sb) && negb (has f mb) then 2 else 0).
Lemma total_gsize_nonneg sb mb l : 0 <= total (gsize sb mb) l.
Proof. apply total_nonneg. intros f. unfold gsize. destruct (has f sb), (has f mb); cbn [negb andb]; lia. Qed.

Lemma coords_agree sb mb : forall efl used tail tail' cur,
  zlen used = total (gsize sb mb) efl ->
  exists cs, fast_coords sb mb efl (used ++ tail) cur = Some (cs, tail)
    /\ decode_coords sb mb efl (used ++ tail') (w16 cur) = map w16 cs
    /\ length cs = length efl.
Proof.
  induction efl as [|f efl IH]; intros used tail tail' cur Hu.
  - cbn [total] in Hu. destruct used; [|rewrite zlen_cons in Hu; pose proof (zlen_nonneg used); lia].
    exists []. repeat split.
  - cbn [total] in Hu. pose proof (total_gsize_nonneg sb mb efl) as Hn. unfold gsize at 1 in Hu.
    cbn [fast_coords decode_coords].
    destruct (has f sb) eqn:Es; [|destruct (has f mb) eqn:Em]; cbn [negb andb] in Hu |- *.
    + destruct used as [|b used]; [rewrite zlen_nil in Hu; lia|]. rewrite zlen_cons in Hu.
      destruct (IH used tail tail' (w32 (cur + (if has f mb then b else - b))) ltac:(lia)) as (cs & F & D & L).
      cbn [app]. rewrite F. eexists; split; [reflexivity|].
      split; [|cbn [length]; congruence].
      cbn [map]. destruct (has f mb); rewrite w16_add, <- (w16_w32 (cur + _)), D; reflexivity.
    + destruct (IH used tail tail' (w32 (cur + 0)) ltac:(lia)) as (cs & F & D & L).
      rewrite F. eexists; split; [reflexivity|].
      split; [|cbn [length]; congruence].
      cbn [map]. rewrite w16_add, <- (w16_w32 (cur + 0)), D. reflexivity.
    + destruct used as [|a used]; [rewrite zlen_nil in Hu; lia|].
      destruct used as [|b used]; [rewrite zlen_cons, zlen_nil in Hu; lia|]. rewrite !zlen_cons in Hu.
      destruct (IH used tail tail' (w32 (cur + s16 (rd16 a b))) ltac:(lia)) as (cs & F & D & L).
      cbn [app]. rewrite F. eexists; split; [reflexivity|].
      split; [|cbn [length]; congruence].
      cbn [map]. rewrite w16_add, <- (w16_w32 (cur + _)), D. reflexivity.
Qed.

Lemma gsize_x f : gsize X_SHORT X_SAME_POS f = xsize f. Proof. reflexivity. Qed.
Lemma gsize_y f : gsize Y_SHORT Y_SAME_POS f = ysize f. Proof. reflexivity. Qed.
Lemma total_ext (s1 s2 : Z -> Z) l : (forall f, s1 f = s2 f) -> total s1 l = total s2 l.
Proof. intros E. induction l; cbn [total]; [reflexivity|]. rewrite E, IHl. reflexivity. Qed.

(* ------------------------------------------------------------------ *)
(* i32 point + flag byte, seen as PointIter's CurvePoint *)
Definition narrow (p : Z * Z * Z) : point := (w16 (fst (fst p)), w16 (snd (fst p)), negb (snd p =? 0)).
Definition as_point (p : Z * Z * Z) : point := (fst (fst p), snd (fst p), negb (snd p =? 0)).

Lemma zip_narrow : forall xs ys efl,
  zip_points (map w16 xs) (map w16 ys) efl = map narrow (zip3 xs ys (map (fun f => Z.land f 1) efl)).
Proof.
  induction xs as [|x xs IH]; intros ys efl; [reflexivity|].
  destruct ys as [|y ys]; [reflexivity|]. destruct efl as [|f efl]; [reflexivity|].
  cbn [map zip_points zip3]. rewrite IH. reflexivity.
Qed.
Lemma zip3_length : forall xs ys fs, length xs = length fs -> length ys = length fs -> length (zip3 xs ys fs) = length fs.
Proof.
  induction xs as [|x xs IH]; intros ys fs H1 H2; destruct fs; try discriminate; [reflexivity|].
  destruct ys; [discriminate|]. cbn [zip3 length] in *. rewrite IH; lia.
Qed.

Lemma firstn_skipn_split {A} (n : nat) (l : list A) : l = firstn n l ++ skipn n l.
Proof. symmetry. apply firstn_skipn. Qed.

(* the statement about glyph data: [n] points, points_impl's success conditions, and the flag bytes are not
   more than the points *)
Lemma fast_eq_data n gd fl0 fl xl yl :
  Forall byte gd -> 1 <= n -> zlen fl0 = n ->
  resolve_coords_len gd n = Some (fl, xl, yl) -> fl + xl + yl <= zlen gd ->
  let flags := firstn (Z.to_nat fl) gd in
  let rest := skipn (Z.to_nat fl) gd in
  exists xs ys,
    read_points_fast n gd n fl0 = FOk (zip3 xs ys (map (fun f => Z.land f 1) (expand_flags flags)))
    /\ decode_coords X_SHORT X_SAME_POS (expand_flags flags) (firstn (Z.to_nat xl) rest) 0 = map w16 xs
    /\ decode_coords Y_SHORT Y_SAME_POS (expand_flags flags) (skipn (Z.to_nat xl) rest) 0 = map w16 ys
    /\ length xs = Z.to_nat n /\ length ys = Z.to_nat n /\ zlen (expand_flags flags) = n.
Proof.
  intros Hb Hn Hfl0 Hres Hlen flags rest.
  unfold resolve_coords_len in Hres.
  destruct (flags_agree (length gd) gd n 0 0 0 fl xl yl (le_n _) Hb Hn Hres) as (k & E1 & E2 & E3 & E4 & E5 & E6).
  assert (Hk : Z.to_nat fl = k) by lia. subst flags rest. rewrite Hk.
  set (efl := expand_flags (firstn k gd)) in *.
  pose proof (total_nonneg_x efl) as Hx0. pose proof (total_nonneg_y efl) as Hy0.
  assert (Hgd : zlen gd = Z.of_nat (length gd)) by reflexivity.
  unfold read_points_fast. rewrite Hfl0, Z.eqb_refl. cbn [negb orb].
  pose proof (E6 (length gd) E2) as E6'. rewrite firstn_all in E6'. rewrite E6'.
  rewrite Nat2Z.id.
  set (rest := skipn k gd).
  assert (Hrl : zlen rest = zlen gd - Z.of_nat k) by (unfold rest, zlen; rewrite skipn_length; lia).
  set (xd := firstn (Z.to_nat xl) rest). set (r2 := skipn (Z.to_nat xl) rest).
  assert (Hxd : zlen xd = total (gsize X_SHORT X_SAME_POS) efl).
  { rewrite (total_ext _ xsize) by apply gsize_x. unfold xd, zlen. rewrite firstn_length. unfold zlen in *. lia. }
  assert (Hr2 : zlen r2 = zlen rest - xl) by (unfold r2, zlen; rewrite skipn_length; unfold zlen in *; lia).
  set (yd := firstn (Z.to_nat yl) r2). set (r3 := skipn (Z.to_nat yl) r2).
  assert (Hyd : zlen yd = total (gsize Y_SHORT Y_SAME_POS) efl).
  { rewrite (total_ext _ ysize) by apply gsize_y. unfold yd, zlen. rewrite firstn_length. unfold zlen in *. lia. }
  destruct (coords_agree X_SHORT X_SAME_POS efl xd r2 [] 0 Hxd) as (xs & FX & DX & LX).
  destruct (coords_agree Y_SHORT Y_SAME_POS efl yd r3 r3 0 Hyd) as (ys & FY & DY & LY).
  assert (S1 : rest = xd ++ r2) by apply firstn_skipn_split.
  assert (S2 : r2 = yd ++ r3) by apply firstn_skipn_split.
  exists xs, ys.
  rewrite S1 at 1. rewrite FX. rewrite S2 at 1. rewrite FY.
  rewrite app_nil_r in DX. rewrite <- S2 in DY. change (w16 0) with 0 in DX, DY.
  unfold zlen in E3. repeat split; try assumption; lia.
Qed.

(* read_points_fast against points(): the glyph-level statement *)
Lemma read_points_fast_eq_points ends gd fl0 fl xl yl :
  Forall byte gd -> ends <> [] -> 0 <= last ends 0 < 65535 ->
  let n := num_points ends in
  zlen fl0 = n ->
  resolve_coords_len gd n = Some (fl, xl, yl) -> fl + xl + yl <= zlen gd ->      (* points_impl returns Some *)
  exists r, read_points_fast n gd n fl0 = FOk r /\ points ends gd = map narrow r /\ zlen r = n.
Proof.
  intros Hb Hne Hlast n Hfl0 Hres Hlen.
  assert (En : n = last ends 0 + 1) by (unfold n, num_points; destruct ends; [contradiction|reflexivity]).
  destruct (fast_eq_data n gd fl0 fl xl yl Hb ltac:(lia) Hfl0 Hres Hlen) as (xs & ys & F & DX & DY & LX & LY & LE).
  eexists. split; [exact F|]. split.
  - unfold points. destruct ends as [|e0 ends']; [contradiction|].
    replace (65535 <=? last (e0 :: ends') 0) with false by lia.
    rewrite <- En, Hres. replace (zlen gd <? fl + xl + yl) with false by lia.
    rewrite DX, DY. apply zip_narrow.
  - unfold zlen in *. rewrite zip3_length; rewrite ?map_length; lia.
Qed.

Lemma narrow_exact r : Forall (fun p => i16 (fst (fst p)) /\ i16 (snd (fst p))) r -> map narrow r = map as_point r.
Proof.
  induction 1 as [|p r [Hx Hy] _ IH]; [reflexivity|]. cbn [map]. rewrite IH. f_equal.
  unfold narrow, as_point. rewrite !w16_id by assumption. reflexivity.
Qed.
