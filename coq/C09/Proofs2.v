(* C09 — loca, GlyfLocaBuilder, composite glyphs, shortest-encoding lemmas. *)
From Coq Require Import ZArith Lia List Bool.
From Coq Require Import ZifyBool.
From FV Require Import Lib.RustInt C09.Model C09.Proofs.
Import ListNotations.
Open Scope Z_scope.
Ltac Zify.zify_post_hook ::= Z.div_mod_to_equations.

Definition u32 (z : Z) : Prop := 0 <= z < 4294967296.

(* ------------------------------------------------------------------ *)
(* loca                                                                 *)
Lemma rd32s_u32be l : Forall u32 l -> rd32s (flat_map u32be l) = l.
Proof.
  induction 1 as [|v l Hv Hl IH]; [reflexivity|].
  cbn [flat_map u32be app rd32s]. rewrite IH. f_equal. unfold u32 in Hv. lia.
Qed.
Lemma zlen_flat_u32be (l : list Z) : zlen (flat_map u32be l) = 4 * zlen l.
Proof.
  induction l as [|v l IH]; [reflexivity|].
  cbn [flat_map]. rewrite zlen_app, IH, zlen_cons. change (zlen (u32be v)) with 4. lia.
Qed.
Definition half16 (o : Z) : Z := Z.shiftr o 1 mod 65536.
Lemma rd16s_half l : rd16s (flat_map (fun o => u16be (half16 o)) l) = map half16 l.
Proof.
  induction l as [|v l IH]; [reflexivity|].
  cbn [flat_map u16be app rd16s map]. rewrite IH. f_equal. unfold half16, rd16. lia.
Qed.
Lemma zlen_flat_half (l : list Z) : zlen (flat_map (fun o => u16be (half16 o)) l) = 2 * zlen l.
Proof.
  induction l as [|v l IH]; [reflexivity|].
  cbn [flat_map]. rewrite zlen_app, IH, zlen_cons. change (zlen (u16be (half16 v))) with 2. lia.
Qed.

Lemma loca_short_facts offs : loca_is_long offs = false ->
  last offs 0 < 131072 /\ Forall (fun o => o mod 2 = 0) offs.
Proof.
  unfold loca_is_long, MAX_SHORT_LOCA. intros H. apply negb_false_iff in H. apply andb_prop in H. destruct H as [H1 H2].
  split; [lia|]. rewrite forallb_forall in H2. apply Forall_forall. intros o Ho. specialize (H2 o Ho). lia.
Qed.

(* short chosen => every offset (bounded by the last one, as the builder's prefix sums are) is even,
   at most 0x1FFFE, and survives `(off >> 1) as u16` then `* 2` exactly *)
Lemma loca_short_exact offs : loca_is_long offs = false ->
  Forall (fun o => 0 <= o <= last offs 0) offs ->
  Forall (fun o => o mod 2 = 0 /\ o <= 131070 /\ 2 * (Z.shiftr o 1 mod 65536) = o) offs.
Proof.
  intros H Hb. destruct (loca_short_facts offs H) as [Hl He].
  rewrite Forall_forall in *. intros o Ho. specialize (Hb o Ho). specialize (He o Ho).
  rewrite Z.shiftr_div_pow2 by lia. change (2 ^ 1) with 2. lia.
Qed.

Lemma nth_error_map_nth {A B} (f : A -> B) l i d : (i < length l)%nat -> nth_error (map f l) i = Some (f (nth i l d)).
Proof.
  revert i. induction l as [|a l IH]; intros i H; [cbn in H; lia|].
  destruct i; [reflexivity|]. cbn [map nth_error nth]. apply IH. cbn in H. lia.
Qed.
Lemma nth_error_nth' {A} (l : list A) i d : (i < length l)%nat -> nth_error l i = Some (nth i l d).
Proof. intros H. rewrite <- (map_id l) at 1. apply (nth_error_map_nth (fun x => x)). exact H. Qed.

(* both formats: the offsets written are the offsets read *)
Lemma loca_roundtrip offs :
  Forall (fun o => u32 o /\ o <= last offs 0) offs ->
  exists es, loca_read (loca_bytes offs) (loca_is_long offs) = Some es /\
    forall i, (i < length offs)%nat -> get_raw es (loca_is_long offs) (Z.of_nat i) = Some (nth i offs 0).
Proof.
  intros Hb. unfold loca_read, loca_bytes. destruct (loca_is_long offs) eqn:E.
  - exists offs. rewrite zlen_flat_u32be. replace (4 * zlen offs mod 4 =? 0) with true by lia.
    rewrite rd32s_u32be by (eapply Forall_impl; [|exact Hb]; intros a [Ha _]; exact Ha).
    split; [reflexivity|]. intros i Hi. unfold get_raw.
    replace (Z.of_nat i <? 0) with false by lia. rewrite Nat2Z.id.
    rewrite (nth_error_nth' offs i 0 Hi). reflexivity.
  - exists (map half16 offs). fold half16.
    change (flat_map (fun o => u16be (Z.shiftr o 1 mod 65536)) offs) with (flat_map (fun o => u16be (half16 o)) offs).
    rewrite zlen_flat_half. replace (2 * zlen offs mod 2 =? 0) with true by lia.
    rewrite rd16s_half. split; [reflexivity|]. intros i Hi. unfold get_raw.
    replace (Z.of_nat i <? 0) with false by lia. rewrite Nat2Z.id.
    rewrite (nth_error_map_nth half16 offs i 0 Hi). f_equal.
    assert (Hex : Forall (fun o => o mod 2 = 0 /\ o <= 131070 /\ 2 * (Z.shiftr o 1 mod 65536) = o) offs).
    { apply loca_short_exact; [exact E|]. eapply Forall_impl; [|exact Hb]. intros a [[Ha _] Hl]. lia. }
    rewrite Forall_forall in Hex. destruct (Hex (nth i offs 0)) as (_ & _ & H2); [apply nth_In; exact Hi|].
    unfold half16. lia.
Qed.
