(* C09 — loca, GlyfLocaBuilder, composite glyphs, shortest-encoding lemmas. *)
From Coq Require Import ZArith Lia List Bool.
From Coq Require Import ZifyBool.
From FV Require Import Lib.RustInt C09.Model C09.Proofs.
Import ListNotations.
Open Scope Z_scope.
Ltac Zify.zify_post_hook ::= Z.div_mod_to_equations.

Definition u32 (z : Z) : Prop := 0 <= z < 4294967296.

(* ------------------------------------------------------------------ *)
(* loca                                                                 *)
Lemma rd32s_u32be l : Forall u32 l -> rd32s (flat_map u32be l) = l.
Proof.
  induction 1 as [|v l Hv Hl IH]; [reflexivity|].
  cbn [flat_map u32be app rd32s]. rewrite IH. f_equal. unfold u32 in Hv. lia.
Qed.
Lemma zlen_flat_u32be (l : list Z) : zlen (flat_map u32be l) = 4 * zlen l.
Proof.
  induction l as [|v l IH]; [reflexivity|].
  cbn [flat_map]. rewrite zlen_app, IH, zlen_cons. change (zlen (u32be v)) with 4. lia.
Qed.
Definition half16 (o : Z) : Z := Z.shiftr o 1 mod 65536.
Lemma rd16s_half l : rd16s (flat_map (fun o => u16be (half16 o)) l) = map half16 l.
Proof.
  induction l as [|v l IH]; [reflexivity|].
  cbn [flat_map u16be app rd16s map]. rewrite IH. f_equal. unfold half16, rd16. lia.
Qed.
Lemma zlen_flat_half (l : list Z) : zlen (flat_map (fun o => u16be (half16 o)) l) = 2 * zlen l.
Proof.
  induction l as [|v l IH]; [reflexivity|].
  cbn [flat_map]. rewrite zlen_app, IH, zlen_cons. change (zlen (u16be (half16 v))) with 2. lia.
Qed.

Lemma loca_short_facts offs : loca_is_long offs = false ->
  last offs 0 < 131072 /\ Forall (fun o => o mod 2 = 0) offs.
Proof.
  unfold loca_is_long, MAX_SHORT_LOCA. intros H. apply negb_false_iff in H. apply andb_prop in H. destruct H as [H1 H2].
  split; [lia|]. rewrite forallb_forall in H2. apply Forall_forall. intros o Ho. specialize (H2 o Ho). lia.
Qed.

(* short chosen => every offset (bounded by the last one, as the builder's prefix sums are) is even,
   at most 0x1FFFE, and survives `(off >> 1) as u16` then `* 2` exactly *)
Lemma loca_short_exact offs : loca_is_long offs = false ->
  Forall (fun o => 0 <= o <= last offs 0) offs ->
  Forall (fun o => o mod 2 = 0 /\ o <= 131070 /\ 2 * (Z.shiftr o 1 mod 65536) = o) offs.
Proof.
  intros H Hb. destruct (loca_short_facts offs H) as [Hl He].
  rewrite Forall_forall in *. intros o Ho. specialize (Hb o Ho). specialize (He o Ho).
  rewrite Z.shiftr_div_pow2 by lia. change (2 ^ 1) with 2. lia.
Qed.

Lemma nth_error_map_nth {A B} (f : A -> B) l i d : (i < length l)%nat -> nth_error (map f l) i = Some (f (nth i l d)).
Proof.
  revert i. induction l as [|a l IH]; intros i H; [cbn in H; lia|].
  destruct i; [reflexivity|]. cbn [map nth_error nth]. apply IH. cbn in H. lia.
Qed.
Lemma nth_error_nth' {A} (l : list A) i d : (i < length l)%nat -> nth_error l i = Some (nth i l d).
Proof. intros H. rewrite <- (map_id l) at 1. apply (nth_error_map_nth (fun x => x)). exact H. Qed.

(* both formats: the offsets written are the offsets read *)
Lemma loca_roundtrip offs :
  Forall (fun o => u32 o /\ o <= last offs 0) offs ->
  exists es, loca_read (loca_bytes offs) (loca_is_long offs) = Some es /\
    forall i, (i < length offs)%nat -> get_raw es (loca_is_long offs) (Z.of_nat i) = Some (nth i offs 0).
Proof.
  intros Hb. unfold loca_read, loca_bytes. destruct (loca_is_long offs) eqn:E.
  - exists offs. rewrite zlen_flat_u32be. replace (4 * zlen offs mod 4 =? 0) with true by lia.
    rewrite rd32s_u32be by (eapply Forall_impl; [|exact Hb]; intros a [Ha _]; exact Ha).
    split; [reflexivity|]. intros i Hi. unfold get_raw.
    replace (Z.of_nat i <? 0) with false by lia. rewrite Nat2Z.id.
    rewrite (nth_error_nth' offs i 0 Hi). reflexivity.
  - exists (map half16 offs). fold half16.
    change (flat_map (fun o => u16be (Z.shiftr o 1 mod 65536)) offs) with (flat_map (fun o => u16be (half16 o)) offs).
    rewrite zlen_flat_half. replace (2 * zlen offs mod 2 =? 0) with true by lia.
    rewrite rd16s_half. split; [reflexivity|]. intros i Hi. unfold get_raw.
    replace (Z.of_nat i <? 0) with false by lia. rewrite Nat2Z.id.
    rewrite (nth_error_map_nth half16 offs i 0 Hi). f_equal.
    assert (Hex : Forall (fun o => o mod 2 = 0 /\ o <= 131070 /\ 2 * (Z.shiftr o 1 mod 65536) = o) offs).
    { apply loca_short_exact; [exact E|]. eapply Forall_impl; [|exact Hb]. intros a [[Ha _] Hl]. lia. }
    rewrite Forall_forall in Hex. destruct (Hex (nth i offs 0)) as (_ & _ & H2); [apply nth_In; exact Hi|].
    unfold half16. lia.
Qed.

(* ------------------------------------------------------------------ *)
(* GlyfLocaBuilder                                                      *)
Fixpoint offsets_from (cur : Z) (chunks : list (list Z)) : list Z :=
  match chunks with
  | [] => []
  | c :: r => (cur + zlen c) :: offsets_from (cur + zlen c) r
  end.

Lemma write_simple_before before g : before mod 2 = 0 -> write_simple before g = write_simple 0 g.
Proof.
  intros H. unfold write_simple.
  destruct (32767 <=? zlen (g_contours g)); [reflexivity|].
  destruct (65535 <=? zlen (g_instr g)); [reflexivity|].
  destruct (zlen (g_contours g) =? 0); [reflexivity|].
  destruct (end_points 0 (g_contours g)); [|reflexivity]. cbn [obind].
  destruct (point_deltas 0 0 (concat (g_contours g))); [|reflexivity]. cbn [obind].
  destruct (entries_bytes _); [|reflexivity]. cbn [obind].
  rewrite (pad2_even_before before) by assumption. reflexivity.
Qed.
Lemma write_composite_before before g : before mod 2 = 0 -> write_composite before g = write_composite 0 g.
Proof.
  intros H. unfold write_composite. destruct (cg_comps g); [reflexivity|].
  rewrite (pad2_even_before before) by assumption. reflexivity.
Qed.
Lemma write_glyph_before before g : before mod 2 = 0 -> write_glyph before g = write_glyph 0 g.
Proof.
  intros H. destruct g; cbn [write_glyph]; [reflexivity | apply write_simple_before | apply write_composite_before]; assumption.
Qed.
Lemma write_simple_even g b : write_simple 0 g = Some b -> zlen b mod 2 = 0.
Proof.
  unfold write_simple.
  destruct (32767 <=? zlen (g_contours g)); [discriminate|].
  destruct (65535 <=? zlen (g_instr g)); [discriminate|].
  destruct (zlen (g_contours g) =? 0); [intros [= <-]; reflexivity|].
  destruct (end_points 0 (g_contours g)); [|discriminate]. cbn [obind].
  destruct (point_deltas 0 0 (concat (g_contours g))); [|discriminate]. cbn [obind].
  destruct (entries_bytes _); [|discriminate]. cbn [obind].
  intros [= <-]. apply pad2_even. reflexivity.
Qed.
Lemma write_glyph_even g b : write_glyph 0 g = Some b -> zlen b mod 2 = 0.
Proof.
  destruct g; cbn [write_glyph].
  - intros [= <-]. reflexivity.
  - apply write_simple_even.
  - unfold write_composite. destruct (cg_comps g); [discriminate|]. intros [= <-]. apply pad2_even. reflexivity.
Qed.

Lemma builder_go_spec : forall gs data loca res,
  builder_go data loca gs = Some res -> forallb validate_glyph gs = true -> zlen data mod 2 = 0 ->
  exists chunks,
    Forall2 (fun g c => write_glyph 0 g = Some c) gs chunks
    /\ fst res = data ++ concat chunks
    /\ snd res = loca ++ map (fun o => o mod 4294967296) (offsets_from (zlen data) chunks).
Proof.
  induction gs as [|g gs IH]; intros data loca res H Hv He.
  - cbn in H. injection H as <-. exists []. cbn. rewrite !app_nil_r. repeat split. constructor.
  - cbn [builder_go] in H. cbn [forallb] in Hv. apply andb_prop in Hv. destruct Hv as [Hg Hv]. rewrite Hg in H.
    rewrite write_glyph_before in H by assumption.
    destruct (write_glyph 0 g) as [b|] eqn:Eb; [|discriminate]. cbn [obind] in H.
    pose proof (write_glyph_even g b Eb) as Hbe.
    destruct (IH (data ++ b) (loca ++ [zlen (data ++ b) mod 4294967296]) res H Hv) as (chunks & F & D & L).
    { rewrite zlen_app. lia. }
    exists (b :: chunks). split; [constructor; assumption|]. split.
    + rewrite D. cbn [concat]. rewrite app_assoc. reflexivity.
    + rewrite L. cbn [offsets_from map]. rewrite <- app_assoc. rewrite zlen_app. reflexivity.
Qed.

Lemma offsets_from_bound chunks : forall cur,
  Forall (fun o => cur <= o <= cur + zlen (concat chunks)) (offsets_from cur chunks).
Proof.
  induction chunks as [|c chunks IH]; intros cur; [constructor|].
  cbn [offsets_from]. rewrite zlen_concat_cons.
  pose proof (zlen_nonneg c). pose proof (zlen_nonneg (concat chunks)).
  constructor; [lia|]. eapply Forall_impl; [|apply IH]. cbn beta. intros a Ha. lia.
Qed.
Lemma offsets_from_length chunks : forall cur, length (offsets_from cur chunks) = length chunks.
Proof. induction chunks; intros; cbn; auto. Qed.
Lemma offsets_nth_pre pre : forall cur tail,
  nth (length pre) (cur :: offsets_from cur pre ++ tail) 0 = cur + zlen (concat pre).
Proof.
  induction pre as [|a pre IH]; intros cur tail.
  - cbn. lia.
  - cbn [length offsets_from app]. rewrite zlen_concat_cons.
    change (nth (S (length pre)) (cur :: ?l) 0) with (nth (length pre) l 0).
    rewrite IH. lia.
Qed.
Lemma offsets_from_app pre post : forall cur,
  offsets_from cur (pre ++ post) = offsets_from cur pre ++ offsets_from (cur + zlen (concat pre)) post.
Proof.
  induction pre as [|a pre IH]; intros cur.
  - cbn. f_equal. lia.
  - cbn [app offsets_from]. rewrite IH, zlen_concat_cons.
    replace (cur + zlen a + zlen (concat pre)) with (cur + (zlen a + zlen (concat pre))) by lia. reflexivity.
Qed.
Lemma last_app_cons {A} (l : list A) a d : last (l ++ [a]) d = a.
Proof. induction l as [|x l IH]; [reflexivity|]. cbn [app]. rewrite last_cons_ne; [exact IH|]. destruct l; discriminate. Qed.
Lemma offsets_last chunks : forall cur, last (cur :: offsets_from cur chunks) 0 = cur + zlen (concat chunks).
Proof.
  induction chunks as [|c chunks IH]; intros cur.
  - cbn. lia.
  - cbn [offsets_from]. rewrite last_cons_ne by discriminate. rewrite IH, zlen_concat_cons. lia.
Qed.

Lemma slice_concat (pre : list (list Z)) c post :
  firstn (Z.to_nat (zlen c)) (skipn (Z.to_nat (zlen (concat pre))) (concat (pre ++ c :: post))) = c.
Proof. rewrite concat_app. rewrite skipn_zlen_app. cbn [concat]. apply firstn_zlen_app. Qed.

(* glyph i of (glyf, loca) is the i-th glyph added: its slice is exactly the bytes that glyph compiles
   to on its own (which simple_roundtrip / composite_roundtrip decode); an empty glyph has equal
   consecutive offsets (Ok(None)); for whichever loca format was chosen *)
Lemma builder_glyph_i gs glyf loca long :
  build gs = Some (glyf, loca, long) -> forallb validate_glyph gs = true -> zlen glyf < 4294967296 ->
  exists chunks es,
    Forall2 (fun g c => write_glyph 0 g = Some c) gs chunks
    /\ glyf = concat chunks /\ loca = 0 :: offsets_from 0 chunks /\ long = loca_is_long loca
    /\ loca_read (loca_bytes loca) long = Some es
    /\ forall i c, nth_error chunks i = Some c ->
         get_glyf_slice es long glyf (Z.of_nat i) = if zlen c =? 0 then ROk None else ROk (Some c).
Proof.
  unfold build. intros H Hv Hsz.
  destruct (builder_go [] [0] gs) as [res|] eqn:E; [|discriminate]. cbn [obind] in H.
  injection H as H1 H2 H3.
  destruct (builder_go_spec gs [] [0] res E Hv eq_refl) as (chunks & F & D & L).
  cbn [app] in D. rewrite H1 in D. rewrite H2 in L. change (zlen (@nil Z)) with 0 in L.
  assert (Hid : map (fun o => o mod 4294967296) (offsets_from 0 chunks) = offsets_from 0 chunks).
  { rewrite <- (map_id (offsets_from 0 chunks)) at 2. apply map_ext_in. intros a Ha.
    pose proof (offsets_from_bound chunks 0) as B. rewrite Forall_forall in B. specialize (B a Ha).
    rewrite <- D in B. lia. }
  rewrite Hid in L. cbn [app] in L.
  assert (Hb : Forall (fun o => u32 o /\ o <= last loca 0) loca).
  { rewrite L. rewrite offsets_last. rewrite <- D. pose proof (zlen_nonneg glyf).
    constructor; [unfold u32; lia|].
    pose proof (offsets_from_bound chunks 0) as B. rewrite <- D in B.
    eapply Forall_impl; [|exact B]. cbn beta. unfold u32. intros a Ha. lia. }
  destruct (loca_roundtrip loca Hb) as (es & R & G). rewrite H2 in H3. subst long.
  exists chunks, es. split; [assumption|]. split; [assumption|]. split; [assumption|]. split; [reflexivity|]. split; [assumption|].
  intros i c Hc. apply nth_error_split in Hc. destruct Hc as (pre & post & -> & <-).
  unfold get_glyf_slice.
  assert (Hlen : length loca = S (length (pre ++ c :: post))) by (rewrite L; cbn [length]; rewrite offsets_from_length; reflexivity).
  rewrite app_length in Hlen. cbn [length] in Hlen.
  rewrite (G (length pre)) by lia.
  replace (Z.of_nat (length pre) + 1) with (Z.of_nat (S (length pre))) by lia.
  rewrite (G (S (length pre))) by lia.
  rewrite L. rewrite offsets_from_app. cbn [offsets_from].
  rewrite offsets_nth_pre.
  change (nth (S (length pre)) (0 :: ?l) 0) with (nth (length pre) l 0).
  rewrite app_nth2 by (rewrite offsets_from_length; lia). rewrite offsets_from_length, Nat.sub_diag. cbn [nth].
  pose proof (zlen_nonneg c). pose proof (zlen_nonneg (concat pre)).
  destruct (zlen c =? 0) eqn:Ez.
  - replace (0 + zlen (concat pre) =? 0 + zlen (concat pre) + zlen c) with true by lia. reflexivity.
  - replace (0 + zlen (concat pre) =? 0 + zlen (concat pre) + zlen c) with false by lia.
    assert (Htot : zlen glyf = zlen (concat pre) + zlen c + zlen (concat post)).
    { rewrite D, concat_app, zlen_app, zlen_concat_cons. lia. }
    pose proof (zlen_nonneg (concat post)).
    replace ((0 + zlen (concat pre) <? 0 + zlen (concat pre) + zlen c) && (0 + zlen (concat pre) + zlen c <=? zlen glyf)) with true by lia.
    replace (0 + zlen (concat pre) + zlen c - (0 + zlen (concat pre))) with (zlen c) by lia.
    replace (0 + zlen (concat pre)) with (zlen (concat pre)) by lia.
    rewrite D. rewrite slice_concat. reflexivity.
Qed.

(* ------------------------------------------------------------------ *)
(* "never longer than the canonical shortest encoding"                  *)
(* which (form, byte) pairs a reader can decode to the delta d (the sign of a short comes from the flag) *)
Inductive form_decodes : cdelta -> Z -> Prop :=
| FD_skip : form_decodes Skip 0
| FD_short b d : 0 <= b <= 255 -> (d = b \/ d = - b) -> form_decodes (Short b) d
| FD_long d : i16 d -> form_decodes (Long d) d.

(* per coordinate the chosen form is the shortest one that represents the delta, and it does represent it *)
Lemma delta_choice_shortest v s m form : i16 v -> form_decodes form v ->
  form_decodes (snd (flag_and_delta v s m)) v /\ csize (snd (flag_and_delta v s m)) <= csize form.
Proof.
  intros Hv Hf.
  destruct (fad_cases v s m) as [[Hz E]|[[Hz E]|[[Hz E]|[Hz E]]]]; rewrite E; cbn [snd csize].
  - subst v. split; [constructor|]. destruct form; cbn; lia.
  - split; [constructor; lia|]. inversion Hf; subst; cbn; lia.
  - split; [constructor; lia|]. inversion Hf; subst; cbn; lia.
  - split; [constructor; assumption|]. inversion Hf; subst; cbn; lia.
Qed.

(* the flag bytes of a run: k identical flags cost 2*(k/256) + min 2 (k mod 256) bytes *)
Lemma rle_run_state f : flag_ok f -> forall n F r,
  valid_entry (F, r) -> clr_repeat F = f ->
  zlen (bytes_of (rle_go (Some (F, r)) (repeat f n)))
  = 2 * ((r + 1 + Z.of_nat n) / 256) + Z.min 2 ((r + 1 + Z.of_nat n) mod 256).
Proof.
  intros [Hfb Hfn]. induction n as [|n IH]; intros F r [Hb [Hr Hh]] Hc; cbn [fst snd] in *.
  - cbn [repeat rle_go flush_entry]. destruct (r =? 1) eqn:E1.
    + unfold bytes_of. cbn [flat_map]. unfold entry_bytes_t. cbn [fst snd].
      rewrite clr_no_repeat by assumption. cbn [app]. change (zlen [clr_repeat F; clr_repeat F]) with 2. lia.
    + unfold bytes_of. cbn [flat_map]. unfold entry_bytes_t. cbn [fst snd]. rewrite Hh, app_nil_r.
      destruct (0 <? r) eqn:E0.
      * change (zlen [F; r]) with 2. lia.
      * change (zlen [F]) with 1. lia.
  - cbn [repeat rle_go]. rewrite Hc, Z.eqb_refl. cbn [andb].
    destruct (r <? 255) eqn:E.
    + rewrite IH.
      * f_equal; [f_equal; f_equal; lia | f_equal; f_equal; lia].
      * split; [apply set_byte; assumption|]. cbn [fst snd]. split; [lia|]. rewrite set_has by assumption. lia.
      * rewrite clr_set by assumption. exact Hc.
    + assert (r = 255) by lia. subst r. rewrite bytes_of_app, zlen_app.
      rewrite IH.
      * cbn [flush_entry]. change (255 =? 1) with false. cbv iota.
        unfold bytes_of at 1. cbn [flat_map]. unfold entry_bytes_t. cbn [fst snd]. rewrite Hh.
        change (0 <? 255) with true. cbv iota. rewrite app_nil_r. change (zlen [F; 255]) with 2. lia.
      * split; [assumption|]. cbn [fst snd]. split; [lia|]. rewrite Hfn. reflexivity.
      * apply clr_id; assumption.
Qed.
Lemma flags_rle_run_length f k : flag_ok f -> (0 < k)%nat ->
  zlen (bytes_of (rle (repeat f k))) = 2 * (Z.of_nat k / 256) + Z.min 2 (Z.of_nat k mod 256).
Proof.
  intros Hf Hk. destruct k as [|n]; [lia|]. unfold rle. cbn [repeat rle_go].
  rewrite (rle_run_state f Hf n f 0).
  - f_equal; [f_equal; f_equal; lia | f_equal; f_equal; lia].
  - destruct Hf as [Hb Hn]. split; [assumption|]. cbn [fst snd]. split; [lia|]. rewrite Hn. reflexivity.
  - destruct Hf. apply clr_id; assumption.
Qed.

(* ------------------------------------------------------------------ *)
(* which simple glyphs the writer accepts (does not panic on)           *)
Fixpoint cum_ok (cur : Z) (cs : list (list point)) : Prop :=
  match cs with
  | [] => True
  | c :: r => 1 <= cur + zlen c <= 65535 /\ cum_ok (cur + zlen c) r
  end.
Lemma end_points_accepts cs : forall cur, cum_ok cur cs -> exists e, end_points cur cs = Some e.
Proof.
  induction cs as [|c cs IH]; intros cur H; [exists []; reflexivity|].
  destruct H as [Hc Hr]. destruct (IH _ Hr) as [t Et]. cbn [end_points].
  unfold chk_u, in_u. change (2 ^ 16) with 65536.
  replace ((0 <=? (cur + zlen c) mod 65536 - 1) && ((cur + zlen c) mod 65536 - 1 <? 65536)) with true by lia.
  cbn [obind]. rewrite Et. cbn [obind]. eexists. reflexivity.
Qed.
(* every glyph with < 32767 contours, < 65535 instruction bytes, every cumulative point count in
   1..65535 (so: first contour non-empty, at most 65535 points) and successive deltas representable in
   i16 is accepted *)
Lemma simple_accepted g :
  sglyph_ok g -> zlen (g_contours g) < 32767 -> zlen (g_instr g) < 65535 ->
  cum_ok 0 (g_contours g) -> deltas_fit 0 0 (concat (g_contours g)) ->
  exists bytes, write_simple 0 g = Some bytes.
Proof.
  intros (Hpts & _ & _) Hnc Hil Hcum Hfit. unfold write_simple.
  replace (32767 <=? zlen (g_contours g)) with false by lia.
  replace (65535 <=? zlen (g_instr g)) with false by lia.
  destruct (zlen (g_contours g) =? 0); [eexists; reflexivity|].
  destruct (end_points_accepts _ 0 Hcum) as [e ->]. cbn [obind].
  destruct (point_deltas_accepts _ 0 0 Hfit) as [ds Ed]. rewrite Ed. cbn [obind].
  destruct (point_deltas_spec _ 0 0 ds Ed) as (F1 & _); [unfold i16; lia | unfold i16; lia | apply Forall_concat; exact Hpts |].
  destruct (flags_rle_roundtrip _ F1) as (bs & Eb & _). fold (dflags ds). rewrite Eb. cbn [obind].
  eexists. reflexivity.
Qed.
