(* C09 — non-vacuity examples for the hypotheses of Props.v *)
From Coq Require Import ZArith List Lia.
From FV Require Import Lib.RustInt C09.Model C09.Proofs C09.Proofs2 C09.Proofs3 C09.Proofs4 C09.Proofs5.
Import ListNotations.
Open Scope Z_scope.

(* a 2-contour glyph over the full coordinate range with short, long, zero and sign-changing deltas *)
Definition ex_glyph : sglyph :=
  {| g_bbox := (-32768, -1, 32767, 300);
     g_contours := [[(-32768, 0, true); (-1, 255, false); (-256, 0, true); (-256, 0, true)];
                    [(32000, -300, false); (0, -300, true)]];
     g_instr := [1; 2; 3] |}.
Example c09_simple_nonvacuous :
  exists bytes, write_simple 0 ex_glyph = Some bytes
  /\ read_glyph bytes = Some (RSimple 2 [-32768; -1; 32767; 300] [3; 5] [1; 2; 3] (concat (g_contours ex_glyph))).
Proof. eexists. split; [vm_compute; reflexivity|]. vm_compute. reflexivity. Qed.

(* 600 identical flags: entries (f|REPEAT,255) (f|REPEAT,255) (f|REPEAT,87) and back *)
Example c09_rle_600 :
  rle (repeat 51 600) = [(59, 255); (59, 255); (59, 87)]
  /\ map clr_repeat (expand_flags [59; 255; 59; 255; 59; 87]) = repeat 51 600.
Proof. split; vm_compute; reflexivity. Qed.
(* a single repeat is written as two plain flags (fontmake parity) *)
Example c09_rle_single_repeat : rle [1; 1; 3; 3; 3] = [(1, 0); (1, 0); (11, 2)].
Proof. vm_compute. reflexivity. Qed.
(* 256 points with identical flags: the input of the PointIter overflow fixed in /repo 229e2c6 *)
Example c09_run_256_reads_back :
  let g := {| g_bbox := (0, 0, 0, 0); g_contours := [map (fun i => (Z.of_nat i + 1, 0, true)) (seq 0 256)]; g_instr := [] |} in
  exists bytes, write_simple 0 g = Some bytes /\
    read_glyph bytes = Some (RSimple 1 [0; 0; 0; 0] [255] [] (concat (g_contours g))).
Proof. eexists. split; [vm_compute; reflexivity|]. vm_compute. reflexivity. Qed.
(* the writer refuses (panics in the checked profile) a delta that does not fit i16, and an empty first contour *)
Example c09_delta_overflow_refused :
  write_simple 0 {| g_bbox := (0, 0, 0, 0); g_contours := [[(-32768, 0, true); (32767, 0, true)]]; g_instr := [] |} = None.
Proof. vm_compute. reflexivity. Qed.
Example c09_empty_first_contour_refused :
  write_simple 0 {| g_bbox := (0, 0, 0, 0); g_contours := [[]; [(1, 1, true)]]; g_instr := [] |} = None.
Proof. vm_compute. reflexivity. Qed.

(* loca: 0x1FFFE is the largest offset of the short format; 0x20000 forces long; both read back *)
Example c09_loca_boundary :
  loca_is_long [0; 131070] = false /\ loca_is_long [0; 131072] = true /\ loca_is_long [0; 3; 8] = true
  /\ loca_bytes [0; 131070] = [0; 0; 255; 255]
  /\ (do es <- loca_read (loca_bytes [0; 131070]) false;; get_raw es false 1) = Some 131070
  /\ (do es <- loca_read (loca_bytes [0; 131072]) true;; get_raw es true 1) = Some 131072.
Proof. repeat split; vm_compute; reflexivity. Qed.
(* Loca::new is public and only looks at the LAST offset: a non-monotone input is written short and
   truncated (0x30000 >> 1 = 0x18000 does not fit u16) — why c09_loca_short_exact needs offsets <= last *)
Example c09_loca_nonmonotone_truncates :
  loca_is_long [0; 196608; 10] = false /\
  (do es <- loca_read (loca_bytes [0; 196608; 10]) false;; get_raw es false 1) = Some 65536.
Proof. split; vm_compute; reflexivity. Qed.
(* builder: empty glyph, simple glyph, composite glyph, empty glyph *)
Definition ex_comp : cglyph :=
  {| cg_bbox := (-5, -6, 7, 8);
     cg_comps := [ {| c_gid := 1; c_anchor := AOffset (-129) 5; c_uflags := (true, false, false, true, false); c_tr := (8192, 0, 0, 8192) |};
                   {| c_gid := 65535; c_anchor := APoint 255 0; c_uflags := (false, true, false, false, true); c_tr := (16384, -1, 0, 16384) |} ];
     cg_instr := [176; 1; 2] |}.
Example c09_builder_nonvacuous :
  exists glyf loca, build [GEmpty; GSimple ex_glyph; GComposite ex_comp; GEmpty] = Some (glyf, loca, false)
  /\ loca = [0; 0; 38; 78; 78]
  /\ read_glyph (firstn 40 (skipn 38 glyf)) =
       Some (RComposite [-5; -6; 7; 8] (exp_comps (cg_comps ex_comp) HAVE_INSTR) (Some [176; 1; 2])).
Proof. do 2 eexists. split; [vm_compute; reflexivity|]. split; vm_compute; reflexivity. Qed.
Example c09_comp_ok_nonvacuous : Forall comp_ok (cg_comps ex_comp).
Proof. repeat constructor; cbn; unfold u16, i16; lia. Qed.

(* two all-off-curve squares: in FreeType style each contour starts at the midpoint of ITS OWN last and
   first points (the input of seeded mutant m4, which took the last point of the whole outline) *)
Example c09_to_path_two_offcurve_contours :
  to_path false (half_unit_points [0; 10; 10; 0; 100; 110; 110; 100] [0; 0; 10; 10; 0; 0; 10; 10] [0; 0; 0; 0; 0; 0; 0; 0]) [3; 7]
  = Some [PM 0 10; PQ 0 0 10 0; PQ 20 0 20 10; PQ 20 20 10 20; PQ 0 20 0 10; PZ;
          PM 200 10; PQ 200 0 210 0; PQ 220 0 220 10; PQ 220 20 210 20; PQ 200 20 200 10; PZ].
Proof. vm_compute. reflexivity. Qed.

(* front end: exact midpoint (even sums) is implied; the truncated half-midpoint of an odd sum is kept
   (the input family of seeded mutant m6); the move-to point itself can be implied *)
Example c09_elide_exact_vs_odd :
  elide [(0, 0, true); (2, 2, false); (3, 1, true); (4, 0, false); (9, 9, true)]
    = [(0, 0, true); (2, 2, false); (4, 0, false); (9, 9, true)]
  /\ elide [(0, 0, true); (2, 2, false); (3, 1, true); (5, 0, false); (9, 9, true)]
    = [(0, 0, true); (2, 2, false); (3, 1, true); (5, 0, false); (9, 9, true)]
  /\ elide [(-3, -1, true); (-2, -2, false); (7, 7, true); (-4, 0, false)]
    = [(-2, -2, false); (7, 7, true); (-4, 0, false)].
Proof. repeat split; vm_compute; reflexivity. Qed.
Example c09_elision_lossless_nonvacuous :
  contour_to_path false (elide [(-3, -1, true); (-2, -2, false); (7, 7, true); (-4, 0, false)])
  = [PM (-3) (-1); PQ (-2) (-2) 7 7; PQ (-4) 0 (-3) (-1); PZ].
Proof. vm_compute. reflexivity. Qed.
