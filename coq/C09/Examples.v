(* C09 — non-vacuity examples for the hypotheses of Props.v *)
From Coq Require Import ZArith List Lia.
From FV Require Import Lib.RustInt C09.Model C09.Proofs.
Import ListNotations.
Open Scope Z_scope.

(* a 2-contour glyph over the full coordinate range with short, long, zero and sign-changing deltas *)
Definition ex_glyph : sglyph :=
  {| g_bbox := (-32768, -1, 32767, 300);
     g_contours := [[(-32768, 0, true); (-1, 255, false); (-256, 0, true); (-256, 0, true)];
                    [(32000, -300, false); (0, -300, true)]];
     g_instr := [1; 2; 3] |}.
Example c09_simple_nonvacuous :
  exists bytes, write_simple 0 ex_glyph = Some bytes
  /\ read_glyph bytes = Some (RSimple 2 [-32768; -1; 32767; 300] [3; 5] [1; 2; 3] (concat (g_contours ex_glyph))).
Proof. eexists. split; vm_compute; reflexivity. Qed.

(* 600 identical flags: entries (f|REPEAT,255) (f|REPEAT,255) (f|REPEAT,87) and back *)
Example c09_rle_600 :
  rle (repeat 51 600) = [(59, 255); (59, 255); (59, 87)]
  /\ map clr_repeat (expand_flags [59; 255; 59; 255; 59; 87]) = repeat 51 600.
Proof. split; vm_compute; reflexivity. Qed.
(* a single repeat is written as two plain flags (fontmake parity) *)
Example c09_rle_single_repeat : rle [1; 1; 3; 3; 3] = [(1, 0); (1, 0); (11, 2)].
Proof. vm_compute. reflexivity. Qed.
(* 256 points with identical flags: the input of the PointIter overflow fixed in /repo 229e2c6 *)
Example c09_run_256_reads_back :
  let g := {| g_bbox := (0, 0, 0, 0); g_contours := [map (fun i => (Z.of_nat i + 1, 0, true)) (seq 0 256)]; g_instr := [] |} in
  exists bytes, write_simple 0 g = Some bytes /\
    read_glyph bytes = Some (RSimple 1 [0; 0; 0; 0] [255] [] (concat (g_contours g))).
Proof. eexists. split; vm_compute; reflexivity. Qed.
(* the writer refuses (panics in the checked profile) a delta that does not fit i16, and an empty first contour *)
Example c09_delta_overflow_refused :
  write_simple 0 {| g_bbox := (0, 0, 0, 0); g_contours := [[(-32768, 0, true); (32767, 0, true)]]; g_instr := [] |} = None.
Proof. vm_compute. reflexivity. Qed.
Example c09_empty_first_contour_refused :
  write_simple 0 {| g_bbox := (0, 0, 0, 0); g_contours := [[]; [(1, 1, true)]]; g_instr := [] |} = None.
Proof. vm_compute. reflexivity. Qed.
