(* C09 round 7 — read_points_fast on what the writer model wrote: exact round trip (no narrowing needed). *)
From Coq Require Import ZArith List Bool Lia.
From FV Require Import Lib.RustInt C09.Model C09.Proofs C09.Fast.
Import ListNotations.
Open Scope Z_scope.
Ltac Zify.zify_post_hook ::= Z.div_mod_to_equations.

Lemma fast_axis_step sb mb f v fl data cur :
  i16 v -> i16 (cur + v) ->
  has f sb = has (fst (flag_and_delta v sb mb)) sb ->
  has f mb = has (fst (flag_and_delta v sb mb)) mb ->
  (sb = 2 /\ mb = 16) \/ (sb = 4 /\ mb = 32) ->
  fast_coords sb mb (f :: fl) (cdelta_bytes (snd (flag_and_delta v sb mb)) ++ data) cur
  = match fast_coords sb mb fl data (cur + v) with None => None | Some (cs, d) => Some ((cur + v) :: cs, d) end.
Proof.
  intros Hv Hc Hs Hm Hbits. cbn [fast_coords]. rewrite Hs, Hm.
  assert (Hc32 : -2147483648 <= cur + v <= 2147483647) by (unfold i16 in Hc; lia).
  destruct (fad_cases v sb mb) as [[Hz E]|[[Hz E]|[[Hz E]|[Hz E]]]]; rewrite E; cbn [fst snd cdelta_bytes];
    destruct Hbits as [[-> ->]|[-> ->]];
    repeat match goal with |- context [has ?a ?b] =>
      let r := eval vm_compute in (has a b) in change (has a b) with r end;
    cbn [app negb andb]; unfold i16be, u16be; cbn [app];
    try (rewrite s16_i16be by assumption);
    try subst v;
    try (replace (cur + - - v) with (cur + v) in * by lia);
    rewrite w32_id by assumption; reflexivity.
Qed.

Lemma fast_axes_written : forall pts lx ly ds,
  point_deltas lx ly pts = Some ds -> i16 lx -> i16 ly -> Forall pt_ok pts ->
  (forall rest, fast_coords X_SHORT X_SAME_POS (dflags ds) (dxbytes ds ++ rest) lx = Some (map (fun p => fst (fst p)) pts, rest))
  /\ (forall rest, fast_coords Y_SHORT Y_SAME_POS (dflags ds) (dybytes ds ++ rest) ly = Some (map (fun p => snd (fst p)) pts, rest)).
Proof.
  induction pts as [|[[x y] on] pts IH]; intros lx ly ds H Hlx Hly Hok.
  - cbn in H. injection H as <-. split; intros rest; reflexivity.
  - cbn [point_deltas] in H.
    destruct (chk_i16 (x - lx)) as [dx|] eqn:Ex; [|discriminate]. cbn [obind] in H.
    destruct (chk_i16 (y - ly)) as [dy|] eqn:Ey; [|discriminate]. cbn [obind] in H.
    destruct (point_deltas x y pts) as [t|] eqn:Et; [|discriminate]. cbn [obind] in H.
    injection H as <-.
    apply chk_i16_some in Ex. destruct Ex as [-> Hdx]. apply chk_i16_some in Ey. destruct Ey as [-> Hdy].
    inversion Hok as [|? ? [Hx Hy] Hok']; subst. cbn [fst snd] in Hx, Hy.
    destruct (IH x y t Et Hx Hy Hok') as (I4 & I5).
    fold (pflag on (x - lx) (y - ly)).
    destruct (pflag_facts on (x - lx) (y - ly)) as (F1 & F2 & F3 & F4 & F5 & F6).
    set (f := pflag on (x - lx) (y - ly)) in *.
    assert (Hcx : i16 (lx + (x - lx))) by (replace (lx + (x - lx)) with x by lia; exact Hx).
    assert (Hcy : i16 (ly + (y - ly))) by (replace (ly + (y - ly)) with y by lia; exact Hy).
    unfold dflags, dxbytes, dybytes in *. cbn [map flat_map fst snd].
    split; intros rest; rewrite <- app_assoc.
    + rewrite (fast_axis_step X_SHORT X_SAME_POS f (x - lx) _ _ lx Hdx Hcx F3 F4) by (left; split; reflexivity).
      replace (lx + (x - lx)) with x by lia. rewrite I4. reflexivity.
    + rewrite (fast_axis_step Y_SHORT Y_SAME_POS f (y - ly) _ _ ly Hdy Hcy F5 F6) by (right; split; reflexivity).
      replace (ly + (y - ly)) with y by lia. rewrite I5. reflexivity.
Qed.

Lemma fast_coords_clr sb mb l : In sb [1; 2; 4; 16; 32] -> In mb [1; 2; 4; 16; 32] -> Forall byte l ->
  forall data cur, fast_coords sb mb (map clr_repeat l) data cur = fast_coords sb mb l data cur.
Proof.
  intros Hs Hm. induction 1 as [|f l Hf Hl IH]; intros data cur; [reflexivity|].
  cbn [map fast_coords]. rewrite !clr_has by assumption.
  destruct (has f sb); [destruct data as [|b d]|destruct (negb (has f mb)); [destruct data as [|a [|b d]]|]];
    try reflexivity; rewrite IH; reflexivity.
Qed.

Lemma cdelta_bytes_byte v s m : i16 v -> Forall byte (cdelta_bytes (snd (flag_and_delta v s m))).
Proof.
  intros Hv. unfold i16 in Hv.
  destruct (fad_cases v s m) as [[Hz E]|[[Hz E]|[[Hz E]|[Hz E]]]]; rewrite E; cbn [snd cdelta_bytes];
    unfold i16be, u16be, byte; repeat constructor; lia.
Qed.

Lemma point_deltas_bytes : forall pts lx ly ds,
  point_deltas lx ly pts = Some ds -> Forall byte (dxbytes ds) /\ Forall byte (dybytes ds).
Proof.
  induction pts as [|[[x y] on] pts IH]; intros lx ly ds H.
  - cbn in H. injection H as <-. split; constructor.
  - cbn [point_deltas] in H.
    destruct (chk_i16 (x - lx)) as [dx|] eqn:Ex; [|discriminate]. cbn [obind] in H.
    destruct (chk_i16 (y - ly)) as [dy|] eqn:Ey; [|discriminate]. cbn [obind] in H.
    destruct (point_deltas x y pts) as [t|] eqn:Et; [|discriminate]. cbn [obind] in H.
    injection H as <-.
    apply chk_i16_some in Ex. destruct Ex as [-> Hdx]. apply chk_i16_some in Ey. destruct Ey as [-> Hdy].
    destruct (IH x y t Et) as (I1 & I2).
    unfold dxbytes, dybytes in *. cbn [flat_map fst snd].
    split; apply Forall_app; split; try assumption; apply cdelta_bytes_byte; assumption.
Qed.

Lemma bytes_of_bytes es : Forall valid_entry es -> Forall byte (bytes_of es).
Proof.
  induction 1 as [|[f r] es [Hb [Hr Hh]] _ IH]; [constructor|].
  change (bytes_of ((f, r) :: es)) with (entry_bytes_t (f, r) ++ bytes_of es).
  apply Forall_app. split; [|exact IH]. unfold entry_bytes_t. cbn [fst snd] in *.
  destruct (has f REPEAT);
    [apply Forall_cons; [assumption|apply Forall_cons; [unfold byte; lia|apply Forall_nil]]
    |apply Forall_cons; [assumption|apply Forall_nil]].
Qed.

(* the writer never spends more flag bytes than points (a REPEAT entry always covers >= 2 points) *)
Lemma bytes_le es : Forall valid_entry es -> zlen (bytes_of es) <= zlen (expand_es es).
Proof.
  induction 1 as [|[f r] es [Hb [Hr Hh]] _ IH]; [cbn; lia|].
  change (bytes_of ((f, r) :: es)) with (entry_bytes_t (f, r) ++ bytes_of es).
  change (expand_es ((f, r) :: es)) with (repeat f (Z.to_nat (r + 1)) ++ expand_es es).
  rewrite !zlen_app, zlen_repeat. unfold entry_bytes_t. cbn [fst snd] in *.
  destruct (has f REPEAT).
  - assert (0 < r) by (symmetry in Hh; apply Z.ltb_lt in Hh; exact Hh). change (zlen [f; r]) with 2. lia.
  - change (zlen [f]) with 1. lia.
Qed.

Definition enc_pt (p : point) : Z * Z * Z := (fst (fst p), snd (fst p), if snd p then 1 else 0).

Lemma land1_has f : Z.land f 1 = if has f ON_CURVE then 1 else 0.
Proof.
  unfold has, ON_CURVE. change 1 with (Z.ones 1) at 1 2. rewrite Z.land_ones by lia. change (2 ^ 1) with 2.
  destruct (f mod 2 =? 0) eqn:E; cbn [negb]; lia.
Qed.

Lemma zip3_enc : forall (pts : list point) fs,
  map (fun f => has f ON_CURVE) fs = map snd pts ->
  zip3 (map (fun p => fst (fst p)) pts) (map (fun p => snd (fst p)) pts) (map (fun f => Z.land f 1) fs) = map enc_pt pts.
Proof.
  induction pts as [|[[x y] on] pts IH]; intros fs H.
  - destruct fs; reflexivity.
  - destruct fs as [|f fs]; [discriminate|]. cbn [map fst snd] in *. injection H as H1 H2.
    cbn [zip3]. rewrite IH by assumption. unfold enc_pt. cbn [fst snd]. rewrite land1_has, H1. reflexivity.
Qed.

Lemma map_has_clr l : Forall byte l ->
  map (fun f => has f ON_CURVE) (map clr_repeat l) = map (fun f => has f ON_CURVE) l.
Proof.
  induction 1 as [|f l Hf _ IH]; [reflexivity|]. cbn [map]. rewrite IH, clr_has by (assumption || (cbn; auto)). reflexivity.
Qed.

Lemma fast_written pts ds fl p fl0 :
  point_deltas 0 0 pts = Some ds -> Forall pt_ok pts -> 1 <= zlen pts <= 65535 ->
  entries_bytes (rle (dflags ds)) = Some fl -> Forall byte p -> zlen fl0 = zlen pts ->
  read_points_fast (zlen pts) (fl ++ dxbytes ds ++ dybytes ds ++ p) (zlen pts) fl0 = FOk (map enc_pt pts).
Proof.
  intros Hd Hok Hn Hfl Hp Hfl0.
  destruct (point_deltas_spec pts 0 0 ds Hd) as (F1 & F2 & F3 & F4 & F5 & F6 & F7);
    [unfold i16; lia | unfold i16; lia | assumption |].
  destruct (fast_axes_written pts 0 0 ds Hd) as (A1 & A2); [unfold i16; lia | unfold i16; lia | assumption |].
  destruct (point_deltas_bytes pts 0 0 ds Hd) as (B1 & B2).
  destruct (rle_go_spec (dflags ds) None I F1) as [V M]. fold (rle (dflags ds)) in V, M.
  set (es := rle (dflags ds)) in *. cbn [pending app] in M.
  rewrite (entries_bytes_valid es V) in Hfl. injection Hfl as <-.
  pose proof (expand_es_bytes es V) as Hby.
  pose proof (bytes_le es V) as Hle.
  assert (Hlen : zlen (expand_es es) = zlen pts).
  { unfold zlen. rewrite <- F2, <- M, map_length. reflexivity. }
  assert (Hx : total xsize (expand_es es) = zlen (dxbytes ds)).
  { rewrite <- (total_map_clr_x _ Hby), M. exact F6. }
  assert (Hy : total ysize (expand_es es) = zlen (dybytes ds)).
  { rewrite <- (total_map_clr_y _ Hby), M. exact F7. }
  set (gd := bytes_of es ++ dxbytes ds ++ dybytes ds ++ p).
  assert (Hgb : Forall byte gd).
  { unfold gd. repeat (apply Forall_app; split); try assumption. apply bytes_of_bytes; exact V. }
  assert (Hres : resolve_go gd (zlen pts) 0 0 0 = Some (zlen (bytes_of es), zlen (dxbytes ds), zlen (dybytes ds))).
  { unfold gd. replace (zlen pts) with (zlen (expand_es es) + 0) by lia.
    rewrite resolve_entries by (assumption || lia). rewrite resolve_go_zero. rewrite Hx, Hy. reflexivity. }
  destruct (flags_agree (length gd) gd (zlen pts) 0 0 0 _ _ _ (le_n _) Hgb ltac:(lia) Hres)
    as (k & E1 & E2 & E3 & E4 & E5 & E6).
  assert (Hk : k = length (bytes_of es)) by (unfold zlen in E1; lia).
  assert (Hfk : firstn k gd = bytes_of es).
  { rewrite Hk. rewrite <- (Nat2Z.id (length (bytes_of es))). exact (firstn_zlen_app _ _). }
  assert (Hsk : skipn k gd = dxbytes ds ++ dybytes ds ++ p).
  { rewrite Hk. rewrite <- (Nat2Z.id (length (bytes_of es))). exact (skipn_zlen_app _ _). }
  assert (Hef : expand_flags (firstn k gd) = expand_es es).
  { rewrite Hfk. rewrite <- (app_nil_r (bytes_of es)). rewrite expand_flags_entries by assumption.
    cbn [expand_flags]. apply app_nil_r. }
  rewrite Hef in E6.
  unfold read_points_fast. rewrite Hfl0, Z.eqb_refl. cbn [negb orb].
  fold gd. pose proof (E6 (length gd) E2) as E6'. rewrite firstn_all in E6'. rewrite E6'.
  rewrite Nat2Z.id, Hsk.
  rewrite <- (fast_coords_clr X_SHORT X_SAME_POS (expand_es es)) by (assumption || (cbn; auto)).
  rewrite M, A1.
  rewrite <- (fast_coords_clr Y_SHORT Y_SAME_POS (expand_es es)) by (assumption || (cbn; auto 6)).
  rewrite M, A2.
  f_equal. apply zip3_enc. rewrite <- (map_has_clr _ Hby), M. exact F3.
Qed.

(* decoding what the writer wrote with read_points_fast returns the points written, exactly (i32 coordinates
   equal to the i16 ones written, flag byte 1 = on curve, 0 = off curve), whatever the caller's flag buffer held *)
Lemma fast_roundtrip g bytes fl0 :
  sglyph_ok g -> g_contours g <> [] -> zlen (concat (g_contours g)) <= 65535 ->
  write_simple 0 g = Some bytes -> zlen fl0 = zlen (concat (g_contours g)) ->
  exists nc bb ends ins gd,
    read_simple bytes = Some (nc, bb, ends, ins, gd)
    /\ num_points ends = zlen (concat (g_contours g))
    /\ read_points_fast (num_points ends) gd (num_points ends) fl0 = FOk (map enc_pt (concat (g_contours g))).
Proof.
  intros (Hpts & Hins & Hbb) Hne Htot H Hfl0. unfold write_simple in H.
  set (cs := g_contours g) in *. set (nc := zlen cs) in *.
  assert (Hnc1 : 1 <= nc).
  { unfold nc, zlen. destruct cs; [contradiction|]. cbn [length]. lia. }
  destruct (32767 <=? nc) eqn:E1; [discriminate|].
  destruct (65535 <=? zlen (g_instr g)) eqn:E2; [discriminate|].
  replace (nc =? 0) with false in H by lia.
  destruct (end_points 0 cs) as [ends|] eqn:Ee; [|discriminate]. cbn [obind] in H.
  destruct (point_deltas 0 0 (concat cs)) as [ds|] eqn:Ed; [|discriminate]. cbn [obind] in H.
  destruct (entries_bytes (rle (map (fun d => fst (fst d)) ds))) as [fl|] eqn:Ef; [|discriminate]. cbn [obind] in H.
  injection H as <-.
  destruct (end_points_spec cs 0 ends Ee) as [-> Hu]; [lia|lia|].
  fold (dxbytes ds) (dybytes ds).
  match goal with |- context [pad2 0 ?b] => set (body := b) end.
  assert (Hp : exists p, pad2 0 body = body ++ p /\ Forall byte p).
  { destruct (pad2_shape 0 body) as [->| ->];
      [exists []; rewrite app_nil_r; split; [reflexivity|constructor]
      |exists [0]; split; [reflexivity|repeat constructor; unfold byte; lia]]. }
  destruct Hp as [p [Ep Hpb]].
  assert (Hn : 1 <= zlen (concat cs) <= 65535).
  { split; [|assumption].
    destruct cs as [|c cs']; [contradiction|]. cbn [cum_ends] in Hu. inversion Hu as [|? ? H0 _]; subst.
    rewrite zlen_concat_cons. pose proof (zlen_nonneg (concat cs')). unfold u16 in H0. lia. }
  assert (Hnum : num_points (cum_ends 0 cs) = zlen (concat cs)).
  { unfold num_points. pose proof (cum_ends_length cs 0) as L. pose proof (cum_ends_last cs 0 Hne) as La.
    destruct (cum_ends 0 cs); [destruct cs; [contradiction|discriminate]|]. lia. }
  exists nc, (bbox_list (g_bbox g)), (cum_ends 0 cs), (g_instr g), (fl ++ dxbytes ds ++ dybytes ds ++ p).
  pose proof (zlen_nonneg (g_instr g)).
  split; [|split].
  - rewrite Ep.
    assert (Hb : body = i16be nc ++ bbox_bytes (g_bbox g) ++ flat_map u16be (cum_ends 0 cs)
                        ++ u16be (zlen (g_instr g)) ++ g_instr g ++ (fl ++ dxbytes ds ++ dybytes ds)) by reflexivity.
    rewrite Hb. rewrite <- !app_assoc.
    apply read_simple_written; try assumption; try (unfold i16, u16; lia).
    unfold zlen. rewrite cum_ends_length. reflexivity.
  - exact Hnum.
  - rewrite Hnum. apply fast_written; try assumption.
    apply Forall_concat. exact Hpts.
Qed.

(* the flag bytes the writer emits are never more than the points (so read_points_fast's
   `read_array::<u8>(n_points.min(remaining))` window always contains them) *)
Lemma rle_bytes_le fs : Forall flag_ok fs -> zlen (bytes_of (rle fs)) <= zlen fs.
Proof.
  intros H. destruct (rle_go_spec fs None I H) as [V M]. fold (rle fs) in V, M. cbn [pending app] in M.
  pose proof (bytes_le _ V) as L. assert (E : zlen fs = zlen (expand_es (rle fs))) by (rewrite <- M at 1; unfold zlen; rewrite map_length; reflexivity).
  lia.
Qed.
