(* C09 — implied on-curve elision (write-fonts BezPath front end) is lossless for drawing. *)
From Coq Require Import ZArith Lia List Bool.
From Coq Require Import ZifyBool.
From FV Require Import Lib.RustInt C09.Model C09.Proofs4.
Import ListNotations.
Open Scope Z_scope.

Definition st_of (p : cpt) : option cpt := if snd p then None else Some p.

Lemma emit_state st p : fst (emit st p) = st_of p.
Proof. unfold st_of. destruct st as [q|]; cbn [emit]; destruct (snd p); reflexivity. Qed.

Lemma implicit_spec (p0 p1 p2 : cpt) : implicit p0 p1 p2 = true ->
  snd p1 = true /\ snd p0 = false /\ snd p2 = false
  /\ cx_ p0 + cx_ p2 = 2 * cx_ p1 /\ cy_ p0 + cy_ p2 = 2 * cy_ p1.
Proof.
  unfold implicit. intros H. repeat (apply andb_prop in H; destruct H as [H ?]).
  destruct (snd p0), (snd p2); cbn in *; try discriminate. repeat split; try assumption; lia.
Qed.

(* the midpoint skrifa re-creates (truncating (a+b)/2) is the dropped point, exactly *)
Lemma implicit_cmid (p0 p1 p2 : cpt) : implicit p0 p1 p2 = true ->
  cx_ (cmid p0 p2) = cx_ p1 /\ cy_ (cmid p0 p2) = cy_ p1.
Proof.
  intros H. destruct (implicit_spec _ _ _ H) as (_ & _ & _ & Hx & Hy).
  unfold cmid. cbn [cx_ cy_ fst snd]. fold (cx_ p0) (cx_ p2) (cy_ p0) (cy_ p2). rewrite Hx, Hy.
  split; (rewrite Z.mul_comm; apply Z.quot_mul; lia).
Qed.

Lemma implied_point_emit (q m p : cpt) (rest : list cpt) : implicit q m p = true ->
  emit_all (Some q) (m :: p :: rest) = emit_all (Some q) (p :: rest).
Proof.
  intros H. destruct (implicit_spec _ _ _ H) as (Hm & Hq & Hp & _). destruct (implicit_cmid _ _ _ H) as [Ex Ey].
  cbn [emit_all emit]. rewrite Hm, Hp. cbn [emit]. rewrite Hp. rewrite Ex, Ey.
  match goal with |- context [emit_all ?s rest] => destruct (emit_all s rest) as [s2 o2] end. reflexivity.
Qed.

(* emitting the elided tail equals emitting the original tail (first point on-curve, so the cyclic
   wrap can never make the last point implicit) *)
Lemma elide_emit (f : cpt) : snd f = true -> forall n (l : list cpt) (prev : cpt), (length l <= n)%nat ->
  emit_all (st_of prev) (elide_go f prev l) = emit_all (st_of prev) l.
Proof.
  intros Hf. induction n as [|n IH]; intros l prev Hl.
  - destruct l; [reflexivity|cbn in Hl; lia].
  - destruct l as [|p r]; [reflexivity|]. cbn [elide_go].
    match goal with |- context [implicit prev p ?h] => destruct (implicit prev p h) eqn:E end.
    + destruct (implicit_spec _ _ _ E) as (Hp & Hprev & Hnext & _).
      destruct r as [|nx r']; [cbn [hd] in Hnext; congruence|]. cbn [hd] in *.
      cbn [app]. unfold st_of. rewrite Hprev.
      rewrite (implied_point_emit prev p nx r' E).
      cbn [elide_go].
      match goal with |- context [implicit p nx ?h] => destruct (implicit p nx h) eqn:Hk end.
      { apply implicit_spec in Hk. destruct Hk as (Hk & _). congruence. }
      cbn [app emit_all].
      pose proof (emit_state (Some prev) nx) as Es. destruct (emit (Some prev) nx) as [s1 o1]. cbn [fst] in Es. subst s1.
      rewrite (IH r' nx) by (cbn [length] in Hl; lia). reflexivity.
    + cbn [app emit_all].
      pose proof (emit_state (st_of prev) p) as Es. destruct (emit (st_of prev) p) as [s1 o1]. cbn [fst] in Es. subst s1.
      rewrite (IH r p) by (cbn [length] in Hl; lia). reflexivity.
Qed.

Lemma draw_from_coords (a b : cpt) (seq : list cpt) : cx_ a = cx_ b -> cy_ a = cy_ b -> draw_from a seq = draw_from b seq.
Proof.
  intros Hx Hy. unfold draw_from. destruct (emit_all None seq) as [st o]. rewrite Hx, Hy.
  destruct st; cbn [finish]; rewrite ?Hx, ?Hy; reflexivity.
Qed.

Lemma last_elide_go (f : cpt) : forall (l : list cpt) (prev d : cpt), l <> [] -> snd (last l d) = false ->
  elide_go f prev l <> [] /\ last (elide_go f prev l) d = last l d.
Proof.
  induction l as [|p r IH]; intros prev d Hne Hoff; [contradiction|].
  destruct r as [|p2 r'].
  - cbn [last] in Hoff. cbn [elide_go hd]. unfold implicit. rewrite Hoff. cbn [andb app]. split; [discriminate|reflexivity].
  - assert (Hr : p2 :: r' <> []) by discriminate.
    change (last (p :: p2 :: r') d) with (last (p2 :: r') d) in *.
    destruct (IH p d Hr Hoff) as [Hn Hl].
    change (elide_go f prev (p :: p2 :: r')) with ((if implicit prev p (hd f (p2 :: r')) then [] else [p]) ++ elide_go f p (p2 :: r')).
    set (tl := elide_go f p (p2 :: r')) in *.
    destruct (implicit prev p (hd f (p2 :: r'))); cbn [app].
    + split; assumption.
    + split; [discriminate|]. destruct tl as [|e es]; [contradiction|].
      change (last (p :: e :: es) d) with (last (e :: es) d). exact Hl.
Qed.

(* elision_lossless: for every contour whose first point is on-curve (as every contour the BezPath front end
   builds: it starts with the move-to point), the glyph written after dropping ALL implied on-curve points
   (neighbours taken cyclically, the first point included) draws, in the default FreeType path style, the
   very same command sequence as the original point list — move, every quad with its end point, close *)
Lemma implicit_off_mid (a b c : cpt) : snd b = false -> implicit a b c = false.
Proof. intros H. unfold implicit. rewrite H. reflexivity. Qed.

Lemma last_irrel {A} (l : list A) d d' : l <> [] -> last l d = last l d'.
Proof.
  induction l as [|x l IH]; intros H; [contradiction|]. destruct l as [|y l]; [reflexivity|].
  change (last (x :: y :: l) d) with (last (y :: l) d). change (last (x :: y :: l) d') with (last (y :: l) d').
  apply IH. discriminate.
Qed.

Lemma elision_lossless (f : cpt) (r : list cpt) : snd f = true ->
  contour_to_path false (elide (f :: r)) = contour_to_path false (f :: r).
Proof.
  intros Hf.
  assert (Hbody : emit_all None (elide_go f f r) = emit_all None r).
  { pose proof (elide_emit f Hf (length r) r f (le_n _)) as H. unfold st_of in H. rewrite Hf in H. exact H. }
  change (elide (f :: r)) with ((if implicit (last (f :: r) f) f (hd f r) then [] else [f]) ++ elide_go f f r).
  destruct (implicit (last (f :: r) f) f (hd f r)) eqn:E; cbn [app].
  - destruct (implicit_spec _ _ _ E) as (_ & Hlast & Hnext & _). destruct (implicit_cmid _ _ _ E) as [Ex Ey].
    destruct r as [|s r']; [cbn [hd] in Hnext; congruence|]. cbn [hd] in *.
    change (last (f :: s :: r') f) with (last (s :: r') f) in *.
    destruct (last_elide_go f (s :: r') f f ltac:(discriminate) Hlast) as [Hn Hl].
    remember (elide_go f f (s :: r')) as EL eqn:HEL.
    assert (Hhd : exists tl, EL = s :: tl).
    { subst EL. change (elide_go f f (s :: r')) with ((if implicit f s (hd f r') then [] else [s]) ++ elide_go f s r').
      rewrite (implicit_off_mid f s (hd f r') Hnext). eexists. reflexivity. }
    destruct Hhd as [tl Htl]. rewrite Htl in *.
    cbn [contour_to_path]. rewrite Hnext.
    rewrite (last_irrel (s :: tl) s f) by discriminate. rewrite Hl, Hlast.
    rewrite (draw_from_coords (cmid (last (s :: r') f) s) f (s :: tl) Ex Ey).
    rewrite Hf. unfold draw_from. rewrite Hbody. reflexivity.
  - cbn [contour_to_path]. rewrite Hf. unfold draw_from. rewrite Hbody. reflexivity.
Qed.

(* HarfBuzz style: identical commands whenever the first point itself is kept *)
Lemma elision_lossless_hb (f : cpt) (r : list cpt) : snd f = true -> implicit (last (f :: r) f) f (hd f r) = false ->
  contour_to_path true (elide (f :: r)) = contour_to_path true (f :: r).
Proof.
  intros Hf Hk.
  change (elide (f :: r)) with ((if implicit (last (f :: r) f) f (hd f r) then [] else [f]) ++ elide_go f f r).
  rewrite Hk. cbn [app contour_to_path]. rewrite Hf.
  pose proof (elide_emit f Hf (length r) r f (le_n _)) as H. unfold st_of in H. rewrite Hf in H.
  unfold draw_from. rewrite H. reflexivity.
Qed.

(* conversely a point is dropped only when it is the exact midpoint: p0 + p2 = 2 p1 on both axes,
   p1 on-curve, both neighbours off-curve (so an odd coordinate sum never implies a point) *)
Lemma implicit_iff (p0 p1 p2 : cpt) : implicit p0 p1 p2 = true <->
  snd p1 = true /\ snd p0 = false /\ snd p2 = false
  /\ cx_ p0 + cx_ p2 = 2 * cx_ p1 /\ cy_ p0 + cy_ p2 = 2 * cy_ p1.
Proof.
  split; [apply implicit_spec|]. intros (H1 & H0 & H2 & Hx & Hy). unfold implicit. rewrite H1, H0, H2. cbn [negb andb]. lia.
Qed.
