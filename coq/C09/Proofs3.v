(* C09 — composite components: one component round-trips through ComponentIter. *)
From Coq Require Import ZArith Lia List Bool.
From Coq Require Import ZifyBool.
From FV Require Import Lib.RustInt C09.Model C09.Proofs.
Import ListNotations.
Open Scope Z_scope.
Ltac Zify.zify_post_hook ::= Z.div_mod_to_equations.

Definition anchor_ok (a : anchor) : Prop :=
  match a with AOffset x y => i16 x /\ i16 y | APoint b c => u16 b /\ u16 c end.
Definition transform_ok (t : transform) : Prop :=
  let '(xx, yx, xy, yy) := t in i16 xx /\ i16 yx /\ i16 xy /\ i16 yy.
Definition comp_ok (c : comp) : Prop := u16 (c_gid c) /\ anchor_ok (c_anchor c) /\ transform_ok (c_tr c).

Definition cflag_ok (af tf : Z) (u : uflags) (extra : Z) : bool :=
  let F := Z.lor (Z.lor (Z.lor af tf) (uflags_bits u)) extra in
  (0 <=? F) && (F <? 65536) && (Z.land F CFLAGS_ALL =? F)
  && Bool.eqb (has F ARGS_WORDS) (has af ARGS_WORDS) && Bool.eqb (has F ARGS_XY) (has af ARGS_XY)
  && Bool.eqb (has F HAVE_SCALE) (has tf HAVE_SCALE) && Bool.eqb (has F HAVE_XY_SCALE) (has tf HAVE_XY_SCALE)
  && Bool.eqb (has F HAVE_2X2) (has tf HAVE_2X2)
  && Bool.eqb (has F MORE) (has extra MORE) && Bool.eqb (has F HAVE_INSTR) (has extra HAVE_INSTR)
  && Bool.eqb (has F ROUND_XY) (fst (fst (fst (fst u)))) && Bool.eqb (has F USE_MY_METRICS) (snd (fst (fst (fst u))))
  && Bool.eqb (has F SCALED_OFF) (snd (fst (fst u))) && Bool.eqb (has F UNSCALED_OFF) (snd (fst u))
  && Bool.eqb (has F OVERLAP) (snd u).

Lemma cflags_facts af tf u extra :
  In af [2; 3; 0; 1] -> In tf [128; 64; 8; 0] -> In extra [0; 32; 256] -> cflag_ok af tf u extra = true.
Proof.
  intros H1 H2 H3.
  assert (S : forall u, forallb (fun af => forallb (fun tf => forallb (fun ex => cflag_ok af tf u ex) [0; 32; 256]) [128; 64; 8; 0]) [2; 3; 0; 1] = true).
  { intros [[[[r m] s] us] o]. destruct r, m, s, us, o; vm_compute; reflexivity. }
  specialize (S u). rewrite forallb_forall in S. specialize (S af H1). rewrite forallb_forall in S. specialize (S tf H2).
  rewrite forallb_forall in S. exact (S extra H3).
Qed.

Lemma anchor_flags_in a : In (anchor_flags a) [2; 3; 0; 1].
Proof.
  destruct a as [x y|b c]; unfold anchor_flags.
  - destruct (negb (in_i8 x) || negb (in_i8 y)); cbn; auto.
  - destruct ((255 <? b) || (255 <? c)); cbn; auto.
Qed.
Lemma transform_flags_in t : In (transform_flags t) [128; 64; 8; 0].
Proof.
  destruct t as [[[xx yx] xy] yy]. unfold transform_flags.
  destruct (negb (yx =? 0) || negb (xy =? 0)); [cbn; auto|].
  destruct (negb (xx =? yy)); [cbn; auto|]. destruct (negb (xx =? 16384)); cbn; auto.
Qed.

Lemma s8_mod x : -128 <= x < 128 -> s8 (x mod 256) = x.
Proof. unfold s8. intros H. destruct (x mod 256 <? 128) eqn:E; lia. Qed.

Lemma read_anchor_written a F rest : anchor_ok a ->
  has F ARGS_WORDS = has (anchor_flags a) ARGS_WORDS -> has F ARGS_XY = has (anchor_flags a) ARGS_XY ->
  read_anchor F (anchor_bytes a ++ rest) = Some (a, rest).
Proof.
  intros Hok H1 H2. unfold read_anchor, anchor_bytes. rewrite H1, H2.
  destruct a as [x y|b c]; cbn [anchor_ok] in Hok; destruct Hok as [Ha Hb]; unfold anchor_flags.
  - destruct (negb (in_i8 x) || negb (in_i8 y)) eqn:E.
    + change (has (Z.lor ARGS_XY ARGS_WORDS) ARGS_XY) with true. change (has (Z.lor ARGS_XY ARGS_WORDS) ARGS_WORDS) with true.
      cbv iota. unfold i16be, u16be. cbn [app]. rewrite !s16_i16be by assumption. reflexivity.
    + change (has (Z.lor ARGS_XY 0) ARGS_XY) with true. change (has (Z.lor ARGS_XY 0) ARGS_WORDS) with false.
      cbv iota. cbn [app]. unfold in_i8 in E. rewrite !s8_mod by lia. reflexivity.
  - destruct ((255 <? b) || (255 <? c)) eqn:E.
    + change (has ARGS_WORDS ARGS_XY) with false. change (has ARGS_WORDS ARGS_WORDS) with true.
      cbv iota. unfold u16be. cbn [app]. rewrite !rd16_u16be by assumption. reflexivity.
    + change (has 0 ARGS_XY) with false. change (has 0 ARGS_WORDS) with false.
      cbv iota. cbn [app]. unfold u16 in *. rewrite !Z.mod_small by lia. reflexivity.
Qed.

Lemma read_transform_written t F rest : transform_ok t ->
  has F HAVE_SCALE = has (transform_flags t) HAVE_SCALE ->
  has F HAVE_XY_SCALE = has (transform_flags t) HAVE_XY_SCALE ->
  has F HAVE_2X2 = has (transform_flags t) HAVE_2X2 ->
  read_transform F (transform_bytes t ++ rest) = Some (t, rest).
Proof.
  intros Hok H1 H2 H3. unfold read_transform, transform_bytes. rewrite H1, H2, H3.
  destruct t as [[[xx yx] xy] yy]. destruct Hok as (A & B & C & D). unfold transform_flags.
  destruct (negb (yx =? 0) || negb (xy =? 0)) eqn:E1.
  - change (has HAVE_2X2 HAVE_SCALE) with false. change (has HAVE_2X2 HAVE_XY_SCALE) with false.
    change (has HAVE_2X2 HAVE_2X2) with true. cbv iota.
    unfold i16be, u16be. cbn [app]. rewrite !s16_i16be by assumption. reflexivity.
  - destruct (negb (xx =? yy)) eqn:E2.
    + change (has HAVE_XY_SCALE HAVE_SCALE) with false. change (has HAVE_XY_SCALE HAVE_XY_SCALE) with true.
      change (has HAVE_XY_SCALE HAVE_2X2) with false. cbv iota.
      unfold i16be, u16be. cbn [app]. rewrite !s16_i16be by assumption.
      assert (yx = 0) by lia. assert (xy = 0) by lia. subst. reflexivity.
    + destruct (negb (xx =? 16384)) eqn:E3.
      * change (has HAVE_SCALE HAVE_SCALE) with true. change (has HAVE_SCALE HAVE_2X2) with false.
        change (has HAVE_SCALE HAVE_XY_SCALE) with false. cbv iota.
        unfold i16be, u16be. cbn [app]. rewrite !s16_i16be by assumption.
        assert (yx = 0) by lia. assert (xy = 0) by lia. assert (xx = yy) by lia. subst. reflexivity.
      * change (has 0 HAVE_SCALE) with false. change (has 0 HAVE_XY_SCALE) with false. change (has 0 HAVE_2X2) with false.
        cbv iota. cbn [app].
        assert (yx = 0) by lia. assert (xy = 0) by lia. assert (xx = yy) by lia. assert (xx = 16384) by lia. subst. reflexivity.
Qed.

(* one component, written with the externally supplied flag (none / MORE_COMPONENTS /
   WE_HAVE_INSTRUCTIONS), is read back by ComponentIter with the same glyph id, anchor, transform and
   flag word; iteration continues exactly when MORE_COMPONENTS was set; the user flags are the ones given *)
Lemma comp_roundtrip c extra rest k : comp_ok c -> In extra [0; 32; 256] ->
  let F := Z.lor (comp_flags c) extra in
  read_comps (S k) (comp_bytes c extra ++ rest)
  = (F, c_gid c, c_anchor c, c_tr c) :: (if has extra MORE then read_comps k rest else [])
  /\ (has F ROUND_XY, has F USE_MY_METRICS, has F SCALED_OFF, has F UNSCALED_OFF, has F OVERLAP) = c_uflags c.
Proof.
  intros (Hg & Ha & Ht) Hex F.
  pose proof (cflags_facts _ _ (c_uflags c) _ (anchor_flags_in (c_anchor c)) (transform_flags_in (c_tr c)) Hex) as C.
  unfold cflag_ok in C. fold (comp_flags c) in C. fold F in C.
  repeat (apply andb_prop in C; destruct C as [C ?]).
  repeat match goal with H : Bool.eqb _ _ = true |- _ => apply eqb_prop in H end.
  split.
  - unfold comp_bytes. fold F. rewrite <- !app_assoc. unfold u16be at 1 2. cbn [app read_comps].
    rewrite !rd16_u16be by (unfold u16 in *; lia).
    replace (Z.land F CFLAGS_ALL) with F by lia.
    rewrite read_anchor_written by assumption.
    rewrite read_transform_written by assumption.
    match goal with H : has F MORE = has extra MORE |- _ => rewrite H end. reflexivity.
  - destruct (c_uflags c) as [[[[r m] s] us] o]. cbn [fst snd] in *. congruence.
Qed.

Fixpoint exp_comps (cs : list comp) (lastf : Z) : list rcomp :=
  match cs with
  | [] => []
  | [c] => [(Z.lor (comp_flags c) lastf, c_gid c, c_anchor c, c_tr c)]
  | c :: r => (Z.lor (comp_flags c) MORE, c_gid c, c_anchor c, c_tr c) :: exp_comps r lastf
  end.

(* the whole (non-empty) component list, every anchor and transform form, any length: ComponentIter
   yields exactly the components written, MORE_COMPONENTS on all but the last, and stops before
   whatever follows (instruction bytes, padding) *)
Lemma comps_roundtrip cs : forall c lastf tail k, Forall comp_ok (c :: cs) -> In lastf [0; 256] ->
  (length (c :: cs) <= k)%nat ->
  read_comps k (comps_bytes (c :: cs) lastf ++ tail) = exp_comps (c :: cs) lastf.
Proof.
  induction cs as [|c2 cs IH]; intros c lastf tail k Hok Hl Hk.
  - destruct k as [|k]; [cbn in Hk; lia|]. inversion Hok as [|? ? Hc _]; subst.
    cbn [comps_bytes exp_comps].
    destruct (comp_roundtrip c lastf tail k Hc) as [R _].
    { destruct Hl as [<-|[<-|[]]]; cbn; auto. }
    rewrite R. destruct Hl as [<-|[<-|[]]]; reflexivity.
  - destruct k as [|k]; [cbn in Hk; lia|]. inversion Hok as [|? ? Hc Hok']; subst.
    change (comps_bytes (c :: c2 :: cs) lastf) with (comp_bytes c MORE ++ comps_bytes (c2 :: cs) lastf).
    change (exp_comps (c :: c2 :: cs) lastf) with ((Z.lor (comp_flags c) MORE, c_gid c, c_anchor c, c_tr c) :: exp_comps (c2 :: cs) lastf).
    rewrite <- app_assoc.
    destruct (comp_roundtrip c MORE (comps_bytes (c2 :: cs) lastf ++ tail) k Hc) as [R _]; [cbn; auto|].
    rewrite R. change (has MORE MORE) with true. cbv iota.
    rewrite IH; [reflexivity | assumption | assumption | cbn [length] in *; lia].
Qed.

(* ------------------------------------------------------------------ *)
(* count_and_instructions (ComponentGlyphIdFlagsIter) and the whole composite glyph *)
Lemma zlen_anchor_bytes a : zlen (anchor_bytes a) = if has (anchor_flags a) ARGS_WORDS then 4 else 2.
Proof.
  unfold anchor_bytes. destruct (has (anchor_flags a) ARGS_WORDS); destruct a; reflexivity.
Qed.
Lemma zlen_transform_bytes t :
  zlen (transform_bytes t) =
  let f := transform_flags t in
  if has f HAVE_SCALE then 2 else if has f HAVE_XY_SCALE then 4 else if has f HAVE_2X2 then 8 else 0.
Proof.
  destruct t as [[[xx yx] xy] yy]. unfold transform_bytes, transform_flags.
  destruct (negb (yx =? 0) || negb (xy =? 0)); [reflexivity|].
  destruct (negb (xx =? yy)); [reflexivity|]. destruct (negb (xx =? 16384)); reflexivity.
Qed.

Lemma skip_comp_step c extra rest k cf count : comp_ok c -> In extra [0; 32; 256] ->
  let F := Z.lor (comp_flags c) extra in
  skip_comps (S k) (comp_bytes c extra ++ rest) cf count
  = if has extra MORE then skip_comps k rest F (count + 1) else (F, count + 1, rest).
Proof.
  intros (Hg & Ha & Ht) Hex F.
  pose proof (cflags_facts _ _ (c_uflags c) _ (anchor_flags_in (c_anchor c)) (transform_flags_in (c_tr c)) Hex) as C.
  unfold cflag_ok in C. fold (comp_flags c) in C. fold F in C.
  repeat (apply andb_prop in C; destruct C as [C ?]).
  repeat match goal with H : Bool.eqb _ _ = true |- _ => apply eqb_prop in H end.
  unfold comp_bytes. fold F. rewrite <- !app_assoc. unfold u16be at 1 2. cbn [app skip_comps].
  rewrite rd16_u16be by (unfold u16; lia).
  replace (Z.land F CFLAGS_ALL) with F by lia.
  set (n1 := if has F ARGS_WORDS then 4 else 2).
  set (n2 := if has F HAVE_SCALE then 2 else if has F HAVE_XY_SCALE then 4 else if has F HAVE_2X2 then 8 else 0).
  assert (Hn : zlen (anchor_bytes (c_anchor c) ++ transform_bytes (c_tr c)) = n1 + n2).
  { rewrite zlen_app, zlen_anchor_bytes, zlen_transform_bytes. unfold n1, n2. cbv zeta.
    repeat match goal with H : has F _ = _ |- _ => rewrite H end. reflexivity. }
  rewrite (app_assoc (anchor_bytes (c_anchor c))).
  pose proof (zlen_nonneg rest).
  replace (zlen ((anchor_bytes (c_anchor c) ++ transform_bytes (c_tr c)) ++ rest) <? n1 + n2) with false
    by (rewrite zlen_app, Hn; lia).
  rewrite <- Hn. rewrite skipn_zlen_app.
  match goal with H : has F MORE = has extra MORE |- _ => rewrite H end. reflexivity.
Qed.

Lemma skip_comps_written cs : forall c lastf tail k cf count, Forall comp_ok (c :: cs) -> In lastf [0; 256] ->
  (length (c :: cs) <= k)%nat ->
  exists F, skip_comps k (comps_bytes (c :: cs) lastf ++ tail) cf count = (F, count + zlen (c :: cs), tail)
            /\ has F HAVE_INSTR = has lastf HAVE_INSTR.
Proof.
  induction cs as [|c2 cs IH]; intros c lastf tail k cf count Hok Hl Hk.
  - destruct k as [|k]; [cbn in Hk; lia|]. inversion Hok as [|? ? Hc _]; subst.
    cbn [comps_bytes].
    assert (Hex : In lastf [0; 32; 256]) by (destruct Hl as [<-|[<-|[]]]; cbn; auto).
    rewrite (skip_comp_step c lastf tail k cf count Hc Hex).
    assert (has lastf MORE = false) as -> by (destruct Hl as [<-|[<-|[]]]; reflexivity).
    eexists. split; [reflexivity|].
    pose proof (cflags_facts _ _ (c_uflags c) _ (anchor_flags_in (c_anchor c)) (transform_flags_in (c_tr c)) Hex) as C.
    unfold cflag_ok in C. fold (comp_flags c) in C.
    repeat (apply andb_prop in C; destruct C as [C ?]).
    repeat match goal with H : Bool.eqb _ _ = true |- _ => apply eqb_prop in H end. assumption.
  - destruct k as [|k]; [cbn in Hk; lia|]. inversion Hok as [|? ? Hc Hok']; subst.
    change (comps_bytes (c :: c2 :: cs) lastf) with (comp_bytes c MORE ++ comps_bytes (c2 :: cs) lastf).
    rewrite <- app_assoc.
    rewrite (skip_comp_step c MORE (comps_bytes (c2 :: cs) lastf ++ tail) k cf count Hc) by (cbn; auto).
    change (has MORE MORE) with true. cbv iota.
    destruct (IH c2 lastf tail k (Z.lor (comp_flags c) MORE) (count + 1) Hok' Hl) as (F & E & HF); [cbn [length] in *; lia|].
    exists F. split; [|exact HF]. rewrite E. f_equal. f_equal. rewrite (zlen_cons c (c2 :: cs)). lia.
Qed.

Lemma comps_bytes_len cs : forall c lastf, (length (c :: cs) <= length (comps_bytes (c :: cs) lastf))%nat.
Proof.
  induction cs as [|c2 cs IH]; intros c lastf.
  - cbn [comps_bytes length]. unfold comp_bytes. rewrite !app_length. cbn [u16be length]. lia.
  - change (comps_bytes (c :: c2 :: cs) lastf) with (comp_bytes c MORE ++ comps_bytes (c2 :: cs) lastf).
    rewrite app_length. specialize (IH c2 lastf). unfold comp_bytes at 1. rewrite !app_length. cbn [u16be length] in *. lia.
Qed.

(* every composite glyph with >= 1 component and < 65536 instruction bytes: bounding box, all
   components (ids, flag words incl. user flags, anchors, transforms) and the instruction bytes read back *)
Lemma composite_roundtrip g c cs :
  cg_comps g = c :: cs -> Forall comp_ok (c :: cs) -> bbox_ok (cg_bbox g) -> zlen (cg_instr g) <= 65535 ->
  let lastf := if zlen (cg_instr g) =? 0 then 0 else HAVE_INSTR in
  exists bytes, write_composite 0 g = Some bytes
    /\ read_glyph bytes = Some (RComposite (bbox_list (cg_bbox g)) (exp_comps (c :: cs) lastf)
                                           (if zlen (cg_instr g) =? 0 then None else Some (cg_instr g)))
    /\ zlen bytes mod 2 = 0.
Proof.
  intros Hcs Hok Hbb Hil lastf. unfold write_composite. rewrite Hcs.
  eexists. split; [reflexivity|]. split; [|apply pad2_even; reflexivity].
  match goal with |- context [pad2 0 ?b] => set (body := b) end.
  assert (Hp : exists p, pad2 0 body = body ++ p).
  { destruct (pad2_shape 0 body) as [->| ->]; [exists []; rewrite app_nil_r; reflexivity | exists [0]; reflexivity]. }
  destruct Hp as [p ->]. unfold body. clear body.
  destruct (cg_bbox g) as [[[x0 y0] x1] y1] eqn:Ebb. destruct Hbb as (B0 & B1 & B2 & B3).
  assert (Hl : In lastf [0; 256]) by (unfold lastf; destruct (zlen (cg_instr g) =? 0); cbn; auto).
  set (itail := (if negb (zlen (cg_instr g) =? 0) then u16be (zlen (cg_instr g) mod 65536) ++ cg_instr g else []) ++ p).
  assert (Hd : (i16be (-1) ++ bbox_bytes (x0, y0, x1, y1) ++ comps_bytes (c :: cs) (if negb (zlen (cg_instr g) =? 0) then HAVE_INSTR else 0)
                ++ (if negb (zlen (cg_instr g) =? 0) then u16be (zlen (cg_instr g) mod 65536) ++ cg_instr g else [])) ++ p
               = 255 :: 255 :: (bbox_bytes (x0, y0, x1, y1) ++ comps_bytes (c :: cs) lastf ++ itail)).
  { unfold itail, lastf. rewrite <- !app_assoc. destruct (zlen (cg_instr g) =? 0); reflexivity. }
  rewrite Hd. rewrite read_glyph_cons. change (0 <=? s16 (rd16 255 255)) with false. cbv iota.
  change (255 :: 255 :: bbox_bytes (x0, y0, x1, y1) ++ comps_bytes (c :: cs) lastf ++ itail)
    with ((255 :: 255 :: bbox_bytes (x0, y0, x1, y1)) ++ (comps_bytes (c :: cs) lastf ++ itail)).
  rewrite (take_app_n 10) by reflexivity. cbn [obind fst snd].
  assert (E2 : map s16 (rd16s (skipn 2 (255 :: 255 :: bbox_bytes (x0, y0, x1, y1)))) = [x0; y0; x1; y1]).
  { cbn [skipn]. unfold bbox_bytes, i16be, u16be. cbn [app rd16s map]. rewrite !s16_i16be by assumption. reflexivity. }
  rewrite E2.
  assert (Hfuel : (length (c :: cs) <= length (comps_bytes (c :: cs) lastf ++ itail))%nat).
  { rewrite app_length. pose proof (comps_bytes_len cs c lastf). lia. }
  rewrite (comps_roundtrip cs c lastf itail _ Hok Hl Hfuel).
  unfold composite_instructions.
  destruct (skip_comps_written cs c lastf itail _ 0 0 Hok Hl Hfuel) as (F & ES & HF).
  rewrite ES. cbn [bbox_list]. f_equal. f_equal. cbn [snd]. rewrite HF.
  unfold itail, lastf. destruct (zlen (cg_instr g) =? 0) eqn:Ez; cbn [negb].
  - change (has 0 HAVE_INSTR) with false. reflexivity.
  - change (has HAVE_INSTR HAVE_INSTR) with true. cbv iota.
    pose proof (zlen_nonneg (cg_instr g)).
    rewrite Z.mod_small by lia. unfold u16be. rewrite <- !app_assoc. cbn [app].
    rewrite rd16_u16be by (unfold u16; lia). rewrite take_app. reflexivity.
Qed.
