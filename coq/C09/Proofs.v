(* C09 — lemmas about the model in Model.v.  Props.v restates the property-level theorems. *)
From Coq Require Import ZArith Lia List Bool.
From Coq Require Import ZifyBool.
From FV Require Import Lib.RustInt C09.Model.
Import ListNotations.
Open Scope Z_scope.
Ltac Zify.zify_post_hook ::= Z.div_mod_to_equations.

Definition byte (b : Z) : Prop := 0 <= b < 256.
Definition i16 (z : Z) : Prop := -32768 <= z <= 32767.
Definition u16 (z : Z) : Prop := 0 <= z <= 65535.

(* ------------------------------------------------------------------ *)
(* lists                                                                *)
Lemma zlen_nil {A} : zlen (@nil A) = 0. Proof. reflexivity. Qed.
Lemma zlen_cons {A} (a : A) l : zlen (a :: l) = 1 + zlen l.
Proof. unfold zlen. cbn [length]. lia. Qed.
Lemma zlen_app {A} (a b : list A) : zlen (a ++ b) = zlen a + zlen b.
Proof. unfold zlen. rewrite app_length. lia. Qed.
Lemma zlen_nonneg {A} (l : list A) : 0 <= zlen l. Proof. unfold zlen. lia. Qed.
Lemma zlen_repeat {A} (a : A) n : zlen (repeat a n) = Z.of_nat n.
Proof. unfold zlen. rewrite repeat_length. reflexivity. Qed.

Lemma firstn_zlen_app {A} (a b : list A) : firstn (Z.to_nat (zlen a)) (a ++ b) = a.
Proof.
  unfold zlen. rewrite Nat2Z.id. rewrite firstn_app, Nat.sub_diag, firstn_all. cbn. apply app_nil_r.
Qed.
Lemma skipn_zlen_app {A} (a b : list A) : skipn (Z.to_nat (zlen a)) (a ++ b) = b.
Proof.
  unfold zlen. rewrite Nat2Z.id. rewrite skipn_app, Nat.sub_diag, skipn_all. reflexivity.
Qed.

Lemma take_app (a b : list Z) : take (zlen a) (a ++ b) = Some (a, b).
Proof.
  unfold take. pose proof (zlen_nonneg a). pose proof (zlen_nonneg b). rewrite zlen_app.
  replace ((0 <=? zlen a) && (zlen a <=? zlen a + zlen b)) with true by lia.
  rewrite firstn_zlen_app, skipn_zlen_app. reflexivity.
Qed.
Lemma take_app_n n (a b : list Z) : n = zlen a -> take n (a ++ b) = Some (a, b).
Proof. intros ->. apply take_app. Qed.

(* exhaustive check over all byte values *)
Lemma byte_sweep (P : Z -> bool) :
  forallb P (map Z.of_nat (seq 0 256)) = true -> forall b, byte b -> P b = true.
Proof.
  intros H b Hb. rewrite forallb_forall in H. apply H.
  apply in_map_iff. exists (Z.to_nat b). unfold byte in Hb. split; [lia|].
  apply in_seq. lia.
Qed.

(* ------------------------------------------------------------------ *)
(* pad_even                                                             *)
Lemma pad2_total_even before l : (before + zlen (pad2 before l)) mod 2 = 0.
Proof.
  unfold pad2. destruct ((before + zlen l) mod 2 =? 0) eqn:E.
  - lia.
  - rewrite zlen_app, zlen_cons, zlen_nil. lia.
Qed.
Lemma pad2_even before l : before mod 2 = 0 -> zlen (pad2 before l) mod 2 = 0.
Proof. intros H. pose proof (pad2_total_even before l). lia. Qed.
Lemma pad2_shape before l : pad2 before l = l \/ pad2 before l = l ++ [0].
Proof. unfold pad2. destruct (_ =? 0); auto. Qed.
Lemma pad2_even_before before l : before mod 2 = 0 -> pad2 before l = pad2 0 l.
Proof.
  intros H. unfold pad2.
  replace ((before + zlen l) mod 2 =? 0) with ((0 + zlen l) mod 2 =? 0) by lia. reflexivity.
Qed.

(* ------------------------------------------------------------------ *)
(* big-endian scalars                                                   *)
Lemma rd16_u16be v : u16 v -> rd16 (v / 256) (v mod 256) = v.
Proof. unfold u16, rd16. lia. Qed.
Lemma s16_i16be v : i16 v -> s16 (rd16 ((v mod 65536) / 256) ((v mod 65536) mod 256)) = v.
Proof. unfold i16, s16, rd16. intros H. destruct (_ <? 32768) eqn:E; lia. Qed.

Lemma rd16s_u16be l rest : Forall u16 l -> rd16s (flat_map u16be l ++ rest) = l ++ rd16s rest.
Proof.
  induction 1 as [|v l Hv Hl IH]; [reflexivity|].
  cbn [flat_map u16be app rd16s]. rewrite IH. rewrite rd16_u16be by assumption. reflexivity.
Qed.
Lemma zlen_flat_u16be (l : list Z) : zlen (flat_map u16be l) = 2 * zlen l.
Proof.
  induction l as [|v l IH]; [reflexivity|].
  cbn [flat_map]. rewrite zlen_app, IH, zlen_cons. change (zlen (u16be v)) with 2. lia.
Qed.

(* ------------------------------------------------------------------ *)
(* flag bytes: facts by exhaustive sweep                                *)
Lemma clr_no_repeat f : byte f -> has (clr_repeat f) REPEAT = false.
Proof.
  intros H. apply negb_true_iff.
  apply (byte_sweep (fun f => negb (has (clr_repeat f) REPEAT))); [vm_compute; reflexivity | exact H].
Qed.
Lemma clr_id f : byte f -> has f REPEAT = false -> clr_repeat f = f.
Proof.
  intros H.
  pose proof (byte_sweep (fun f => has f REPEAT || (clr_repeat f =? f)) eq_refl f H) as S. cbv beta in S.
  intros E. rewrite E in S. cbn [orb] in S. lia.
Qed.
Lemma clr_set f : byte f -> clr_repeat (set_repeat f) = clr_repeat f.
Proof.
  intros H. pose proof (byte_sweep (fun f => clr_repeat (set_repeat f) =? clr_repeat f) eq_refl f H) as S. cbv beta in S. lia.
Qed.
Lemma set_has f : byte f -> has (set_repeat f) REPEAT = true.
Proof. intros H. exact (byte_sweep (fun f => has (set_repeat f) REPEAT) eq_refl f H). Qed.
Lemma set_byte f : byte f -> byte (set_repeat f).
Proof.
  intros H. pose proof (byte_sweep (fun f => (0 <=? set_repeat f) && (set_repeat f <? 256)) eq_refl f H) as S. cbv beta in S.
  unfold byte. lia.
Qed.
Lemma clr_byte f : byte f -> byte (clr_repeat f).
Proof.
  intros H. pose proof (byte_sweep (fun f => (0 <=? clr_repeat f) && (clr_repeat f <? 256)) eq_refl f H) as S. cbv beta in S.
  unfold byte. lia.
Qed.
Lemma clr_has f bit : byte f -> In bit [1; 2; 4; 16; 32] -> has (clr_repeat f) bit = has f bit.
Proof.
  intros H Hb.
  pose proof (byte_sweep (fun f => forallb (fun bit => Bool.eqb (has (clr_repeat f) bit) (has f bit)) [1; 2; 4; 16; 32]) eq_refl f H) as S. cbv beta in S.
  rewrite forallb_forall in S. specialize (S bit Hb). apply eqb_prop in S. exact S.
Qed.
Lemma land18 f : byte f -> (Z.land f (Z.lor X_SHORT X_SAME_POS) =? 0) = negb (has f X_SHORT) && negb (has f X_SAME_POS).
Proof.
  intros H.
  pose proof (byte_sweep (fun f => Bool.eqb (Z.land f (Z.lor X_SHORT X_SAME_POS) =? 0) (negb (has f X_SHORT) && negb (has f X_SAME_POS))) eq_refl f H) as S. cbv beta in S.
  apply eqb_prop in S. exact S.
Qed.
Lemma land36 f : byte f -> (Z.land f (Z.lor Y_SHORT Y_SAME_POS) =? 0) = negb (has f Y_SHORT) && negb (has f Y_SAME_POS).
Proof.
  intros H.
  pose proof (byte_sweep (fun f => Bool.eqb (Z.land f (Z.lor Y_SHORT Y_SAME_POS) =? 0) (negb (has f Y_SHORT) && negb (has f Y_SAME_POS))) eq_refl f H) as S. cbv beta in S.
  apply eqb_prop in S. exact S.
Qed.

(* ------------------------------------------------------------------ *)
(* flag entries                                                         *)
Definition valid_entry (e : Z * Z) : Prop :=
  byte (fst e) /\ 0 <= snd e <= 255 /\ has (fst e) REPEAT = (0 <? snd e).
Definition entry_bytes_t (e : Z * Z) : list Z := if has (fst e) REPEAT then [fst e; snd e] else [fst e].
Definition bytes_of (es : list (Z * Z)) : list Z := flat_map entry_bytes_t es.
Definition expand_es (es : list (Z * Z)) : list Z :=
  flat_map (fun e => repeat (fst e) (Z.to_nat (snd e + 1))) es.

(* the debug_assert in RepeatableFlag::write_into never fires on valid entries *)
Lemma entries_bytes_valid es : Forall valid_entry es -> entries_bytes es = Some (bytes_of es).
Proof.
  induction 1 as [|[f r] es [Hb [Hr Hh]] Hes IH]; [reflexivity|].
  cbn [entries_bytes entry_bytes fst snd] in *. rewrite Hh, eqb_reflx. cbn [obind]. rewrite IH. cbn [obind].
  unfold bytes_of. cbn [flat_map]. unfold entry_bytes_t. cbn [fst snd]. rewrite Hh. reflexivity.
Qed.

Lemma expand_flags_entries es rest : Forall valid_entry es ->
  expand_flags (bytes_of es ++ rest) = expand_es es ++ expand_flags rest.
Proof.
  induction 1 as [|[f r] es [Hb [Hr Hh]] Hes IH]; [reflexivity|].
  change (bytes_of ((f, r) :: es)) with (entry_bytes_t (f, r) ++ bytes_of es).
  change (expand_es ((f, r) :: es)) with (repeat f (Z.to_nat (r + 1)) ++ expand_es es).
  rewrite <- !app_assoc. unfold entry_bytes_t. cbn [fst snd] in *.
  destruct (has f REPEAT) eqn:E.
  - cbn [app expand_flags]. rewrite E. rewrite IH. reflexivity.
  - cbn [app expand_flags]. rewrite E. rewrite IH.
    assert (r = 0) by lia. subst r. reflexivity.
Qed.

Lemma bytes_of_app a b : bytes_of (a ++ b) = bytes_of a ++ bytes_of b.
Proof. unfold bytes_of. apply flat_map_app. Qed.
Lemma expand_es_app a b : expand_es (a ++ b) = expand_es a ++ expand_es b.
Proof. unfold expand_es. apply flat_map_app. Qed.

(* ------------------------------------------------------------------ *)
(* flags_rle_roundtrip                                                  *)
Definition flag_ok (f : Z) : Prop := byte f /\ has f REPEAT = false.
Definition okprev (p : option (Z * Z)) : Prop :=
  match p with None => True | Some e => valid_entry e end.
Definition pending (p : option (Z * Z)) : list Z :=
  match p with None => [] | Some (f, r) => repeat (clr_repeat f) (Z.to_nat (r + 1)) end.

Lemma map_repeat {A B} (g : A -> B) a n : map g (repeat a n) = repeat (g a) n.
Proof. induction n; cbn; congruence. Qed.

Lemma flush_valid f r : valid_entry (f, r) ->
  Forall valid_entry (flush_entry (f, r)) /\
  map clr_repeat (expand_es (flush_entry (f, r))) = repeat (clr_repeat f) (Z.to_nat (r + 1)).
Proof.
  intros [Hb [Hr Hh]]. cbn [fst snd] in *. unfold flush_entry.
  destruct (r =? 1) eqn:E.
  - assert (r = 1) by lia. subst r. split.
    + assert (valid_entry (clr_repeat f, 0)).
      { split; [apply clr_byte; assumption|]. split; [cbn; lia|]. cbn [fst snd]. rewrite clr_no_repeat by assumption. reflexivity. }
      constructor; [assumption|]. constructor; [assumption|]. constructor.
    + unfold expand_es. cbn [flat_map fst snd]. change (Z.to_nat (0 + 1)) with 1%nat. change (Z.to_nat (1 + 1)) with 2%nat. cbn [repeat app map].
      pose proof (clr_byte f Hb) as Hc. pose proof (clr_no_repeat f Hb) as Hn.
      rewrite (clr_id (clr_repeat f) Hc Hn). reflexivity.
  - split.
    + constructor; [|constructor]. split; [assumption|split; assumption].
    + unfold expand_es. cbn [flat_map fst snd]. rewrite app_nil_r. apply map_repeat.
Qed.

Lemma repeat_snoc {A} (a : A) n : repeat a n ++ [a] = repeat a (S n).
Proof. induction n as [|n IH]; [reflexivity|]. cbn [repeat app]. rewrite IH. reflexivity. Qed.

Lemma rle_go_spec fs : forall prev, okprev prev -> Forall flag_ok fs ->
  Forall valid_entry (rle_go prev fs) /\
  map clr_repeat (expand_es (rle_go prev fs)) = pending prev ++ fs.
Proof.
  induction fs as [|flag fs IH]; intros prev Hp Hf.
  - cbn [rle_go]. destruct prev as [[f r]|]; cbn [pending okprev] in *.
    + rewrite app_nil_r. apply flush_valid. exact Hp.
    + split; [constructor | reflexivity].
  - inversion Hf as [|? ? [Hfb Hfn] Hf']; subst. cbn [rle_go].
    destruct prev as [[lf lr]|]; cbn [pending okprev] in *.
    + destruct Hp as [Hb [Hr Hh]]. cbn [fst snd] in *.
      destruct ((clr_repeat lf =? flag) && (lr <? 255)) eqn:E.
      * assert (Hp' : okprev (Some (set_repeat lf, lr + 1))).
        { split; [apply set_byte; assumption|]. cbn [fst snd]. split; [lia|].
          rewrite set_has by assumption. lia. }
        destruct (IH _ Hp' Hf') as [V M]. split; [exact V|].
        rewrite M. cbn [pending]. rewrite clr_set by assumption.
        assert (clr_repeat lf = flag) by lia. subst flag.
        replace (Z.to_nat (lr + 1 + 1)) with (S (Z.to_nat (lr + 1))) by lia.
        rewrite <- repeat_snoc. rewrite <- app_assoc. reflexivity.
      * assert (Hp' : okprev (Some (flag, 0))).
        { split; [assumption|]. cbn [fst snd]. split; [lia|]. rewrite Hfn. reflexivity. }
        destruct (IH _ Hp' Hf') as [V M].
        destruct (flush_valid lf lr) as [V0 M0]; [split; [assumption|split; assumption]|].
        split; [apply Forall_app; split; assumption|].
        rewrite expand_es_app, map_app, M, M0. cbn [pending].
        rewrite (clr_id flag) by assumption. reflexivity.
    + assert (Hp' : okprev (Some (flag, 0))).
      { split; [assumption|]. cbn [fst snd]. split; [lia|]. rewrite Hfn. reflexivity. }
      destruct (IH _ Hp' Hf') as [V M]. split; [exact V|].
      rewrite M. cbn [pending]. rewrite (clr_id flag) by assumption. reflexivity.
Qed.

(* every flag list (any run lengths): the written flag bytes expand back to the flags,
   up to the REPEAT bit that the reader ignores *)
Lemma flags_rle_roundtrip fs : Forall flag_ok fs ->
  exists bs, entries_bytes (rle fs) = Some bs /\
             forall rest, map clr_repeat (expand_flags (bs ++ rest)) = fs ++ map clr_repeat (expand_flags rest).
Proof.
  intros Hf. destruct (rle_go_spec fs None I Hf) as [V M]. fold (rle fs) in V, M.
  exists (bytes_of (rle fs)). split; [apply entries_bytes_valid; exact V|].
  intros rest. rewrite expand_flags_entries by exact V. rewrite map_app, M. reflexivity.
Qed.

(* ------------------------------------------------------------------ *)
(* flag_and_delta and the combined point flag                           *)
Lemma fad_cases v s m :
  (v = 0 /\ flag_and_delta v s m = (m, Skip)) \/
  (-255 <= v <= -1 /\ flag_and_delta v s m = (s, Short (- v))) \/
  (1 <= v <= 255 /\ flag_and_delta v s m = (Z.lor s m, Short v)) \/
  ((v < -255 \/ 255 < v) /\ flag_and_delta v s m = (0, Long v)).
Proof.
  unfold flag_and_delta.
  destruct (v =? 0) eqn:E0; [left; split; [lia|reflexivity]|].
  destruct ((-255 <=? v) && (v <=? -1)) eqn:E1; [right; left; split; [lia|reflexivity]|].
  destruct ((1 <=? v) && (v <=? 255)) eqn:E2; [right; right; left; split; [lia|reflexivity]|].
  right; right; right. split; [lia|reflexivity].
Qed.

Lemma fad_x_in v : In (fst (flag_and_delta v X_SHORT X_SAME_POS)) [16; 2; 18; 0].
Proof.
  destruct (fad_cases v X_SHORT X_SAME_POS) as [[_ ->]|[[_ ->]|[[_ ->]|[_ ->]]]]; cbn; auto.
Qed.
Lemma fad_y_in v : In (fst (flag_and_delta v Y_SHORT Y_SAME_POS)) [32; 4; 36; 0].
Proof.
  destruct (fad_cases v Y_SHORT Y_SAME_POS) as [[_ ->]|[[_ ->]|[[_ ->]|[_ ->]]]]; cbn; auto.
Qed.

Definition combo_ok (on xf yf : Z) : bool :=
  let f := Z.lor on (Z.lor xf yf) in
  (0 <=? f) && (f <? 256) && negb (has f REPEAT) && Bool.eqb (has f ON_CURVE) (on =? 1)
  && Bool.eqb (has f X_SHORT) (has xf X_SHORT) && Bool.eqb (has f X_SAME_POS) (has xf X_SAME_POS)
  && Bool.eqb (has f Y_SHORT) (has yf Y_SHORT) && Bool.eqb (has f Y_SAME_POS) (has yf Y_SAME_POS).
Lemma combine_flags on xf yf : In on [0; 1] -> In xf [16; 2; 18; 0] -> In yf [32; 4; 36; 0] ->
  combo_ok on xf yf = true.
Proof.
  intros H1 H2 H3.
  assert (S : forallb (fun on => forallb (fun xf => forallb (fun yf => combo_ok on xf yf) [32; 4; 36; 0]) [16; 2; 18; 0]) [0; 1] = true)
    by (vm_compute; reflexivity).
  rewrite forallb_forall in S. specialize (S on H1). rewrite forallb_forall in S. specialize (S xf H2).
  rewrite forallb_forall in S. exact (S yf H3).
Qed.

Definition pflag (on : bool) (dx dy : Z) : Z :=
  Z.lor (if on then ON_CURVE else 0)
        (Z.lor (fst (flag_and_delta dx X_SHORT X_SAME_POS)) (fst (flag_and_delta dy Y_SHORT Y_SAME_POS))).

Lemma pflag_facts on dx dy :
  let f := pflag on dx dy in
  flag_ok f /\ has f ON_CURVE = on
  /\ has f X_SHORT = has (fst (flag_and_delta dx X_SHORT X_SAME_POS)) X_SHORT
  /\ has f X_SAME_POS = has (fst (flag_and_delta dx X_SHORT X_SAME_POS)) X_SAME_POS
  /\ has f Y_SHORT = has (fst (flag_and_delta dy Y_SHORT Y_SAME_POS)) Y_SHORT
  /\ has f Y_SAME_POS = has (fst (flag_and_delta dy Y_SHORT Y_SAME_POS)) Y_SAME_POS.
Proof.
  intros f.
  assert (Hon : In (if on then ON_CURVE else 0) [0; 1]) by (destruct on; cbn; auto).
  pose proof (combine_flags _ _ _ Hon (fad_x_in dx) (fad_y_in dy)) as C.
  unfold combo_ok in C. fold (pflag on dx dy) in C. fold f in C.
  repeat (apply andb_prop in C; destruct C as [C ?]).
  repeat match goal with H : Bool.eqb _ _ = true |- _ => apply eqb_prop in H end.
  unfold flag_ok, byte. repeat split; try lia; try assumption.
  - destruct (has f REPEAT); [discriminate | reflexivity].
  - destruct on; assumption.
Qed.

(* one decoding step of one axis *)
Definition csize (d : cdelta) : Z := match d with Skip => 0 | Short _ => 1 | Long _ => 2 end.
Lemma zlen_cdelta d : zlen (cdelta_bytes d) = csize d.
Proof. destruct d; reflexivity. Qed.

Lemma w16_id z : i16 z -> w16 z = z.
Proof. unfold i16, w16. lia. Qed.

Lemma axis_step sb mb f v fl data cur :
  i16 v -> i16 (cur + v) ->
  has f sb = has (fst (flag_and_delta v sb mb)) sb ->
  has f mb = has (fst (flag_and_delta v sb mb)) mb ->
  (sb = 2 /\ mb = 16) \/ (sb = 4 /\ mb = 32) ->
  decode_coords sb mb (f :: fl) (cdelta_bytes (snd (flag_and_delta v sb mb)) ++ data) cur
  = (cur + v) :: decode_coords sb mb fl data (cur + v)
  /\ (if has f sb then 1 else 0) + (if negb (has f sb) && negb (has f mb) then 2 else 0)
     = csize (snd (flag_and_delta v sb mb)).
Proof.
  intros Hv Hc Hs Hm Hbits. cbn [decode_coords]. rewrite Hs, Hm.
  destruct (fad_cases v sb mb) as [[Hz E]|[[Hz E]|[[Hz E]|[Hz E]]]]; rewrite E; cbn [fst snd cdelta_bytes csize];
    destruct Hbits as [[-> ->]|[-> ->]];
    match goal with |- context [has ?a ?b] => idtac end;
    repeat match goal with |- context [has ?a ?b] =>
      let r := eval vm_compute in (has a b) in change (has a b) with r end;
    cbn [app negb andb]; unfold i16be, u16be; cbn [app];
    try (rewrite s16_i16be by assumption);
    (split; [|reflexivity]);
    try subst v;
    try (replace (cur + - - v) with (cur + v) by lia);
    rewrite w16_id by assumption; reflexivity.
Qed.

(* ------------------------------------------------------------------ *)
(* compute_point_deltas: what the collected (flag, dx, dy) list means   *)
Definition pt_ok (p : point) : Prop := i16 (fst (fst p)) /\ i16 (snd (fst p)).
Definition dflags (ds : list (Z * cdelta * cdelta)) : list Z := map (fun d => fst (fst d)) ds.
Definition dxbytes (ds : list (Z * cdelta * cdelta)) : list Z := flat_map (fun d => cdelta_bytes (snd (fst d))) ds.
Definition dybytes (ds : list (Z * cdelta * cdelta)) : list Z := flat_map (fun d => cdelta_bytes (snd d)) ds.
Definition xsize (f : Z) : Z :=
  (if has f X_SHORT then 1 else 0) + (if negb (has f X_SHORT) && negb (has f X_SAME_POS) then 2 else 0).
Definition ysize (f : Z) : Z :=
  (if has f Y_SHORT then 1 else 0) + (if negb (has f Y_SHORT) && negb (has f Y_SAME_POS) then 2 else 0).
Fixpoint total (sz : Z -> Z) (l : list Z) : Z := match l with [] => 0 | f :: r => sz f + total sz r end.

Lemma chk_i16_some z d : chk_i16 z = Some d -> d = z /\ i16 z.
Proof. unfold chk_i16, in_i16, i16. destruct (_ && _) eqn:E; [|discriminate]. intros [= <-]. lia. Qed.

Lemma point_deltas_spec : forall pts lx ly ds,
  point_deltas lx ly pts = Some ds -> i16 lx -> i16 ly -> Forall pt_ok pts ->
  Forall flag_ok (dflags ds)
  /\ length (dflags ds) = length pts
  /\ map (fun f => has f ON_CURVE) (dflags ds) = map snd pts
  /\ (forall rest, decode_coords X_SHORT X_SAME_POS (dflags ds) (dxbytes ds ++ rest) lx = map (fun p => fst (fst p)) pts)
  /\ (forall rest, decode_coords Y_SHORT Y_SAME_POS (dflags ds) (dybytes ds ++ rest) ly = map (fun p => snd (fst p)) pts)
  /\ total xsize (dflags ds) = zlen (dxbytes ds)
  /\ total ysize (dflags ds) = zlen (dybytes ds).
Proof.
  induction pts as [|[[x y] on] pts IH]; intros lx ly ds H Hlx Hly Hok.
  - cbn in H. injection H as <-. cbn. repeat split; auto.
  - cbn [point_deltas] in H.
    destruct (chk_i16 (x - lx)) as [dx|] eqn:Ex; [|discriminate]. cbn [obind] in H.
    destruct (chk_i16 (y - ly)) as [dy|] eqn:Ey; [|discriminate]. cbn [obind] in H.
    destruct (point_deltas x y pts) as [t|] eqn:Et; [|discriminate]. cbn [obind] in H.
    injection H as <-.
    apply chk_i16_some in Ex. destruct Ex as [-> Hdx]. apply chk_i16_some in Ey. destruct Ey as [-> Hdy].
    inversion Hok as [|? ? [Hx Hy] Hok']; subst. cbn [fst snd] in Hx, Hy.
    destruct (IH x y t Et Hx Hy Hok') as (I1 & I2 & I3 & I4 & I5 & I6 & I7).
    fold (pflag on (x - lx) (y - ly)).
    destruct (pflag_facts on (x - lx) (y - ly)) as (F1 & F2 & F3 & F4 & F5 & F6).
    set (f := pflag on (x - lx) (y - ly)) in *.
    assert (Hcx : i16 (lx + (x - lx))) by (replace (lx + (x - lx)) with x by lia; exact Hx).
    assert (Hcy : i16 (ly + (y - ly))) by (replace (ly + (y - ly)) with y by lia; exact Hy).
    unfold dflags, dxbytes, dybytes in *. cbn [map flat_map fst snd total length].
    repeat split.
    + constructor; assumption.
    + congruence.
    + rewrite F2, I3. reflexivity.
    + intros rest. rewrite <- app_assoc.
      destruct (axis_step X_SHORT X_SAME_POS f (x - lx) (map (fun d => fst (fst d)) t)
                  (flat_map (fun d => cdelta_bytes (snd (fst d))) t ++ rest) lx Hdx Hcx F3 F4) as [S _];
        [left; split; reflexivity|].
      rewrite S. replace (lx + (x - lx)) with x by lia. rewrite I4. reflexivity.
    + intros rest. rewrite <- app_assoc.
      destruct (axis_step Y_SHORT Y_SAME_POS f (y - ly) (map (fun d => fst (fst d)) t)
                  (flat_map (fun d => cdelta_bytes (snd d)) t ++ rest) ly Hdy Hcy F5 F6) as [S _];
        [right; split; reflexivity|].
      rewrite S. replace (ly + (y - ly)) with y by lia. rewrite I5. reflexivity.
    + destruct (axis_step X_SHORT X_SAME_POS f (x - lx) [] [] lx Hdx Hcx F3 F4) as [_ S];
        [left; split; reflexivity|].
      rewrite zlen_app, zlen_cdelta, <- I6. unfold xsize at 1. rewrite S. reflexivity.
    + destruct (axis_step Y_SHORT Y_SAME_POS f (y - ly) [] [] ly Hdy Hcy F5 F6) as [_ S];
        [right; split; reflexivity|].
      rewrite zlen_app, zlen_cdelta, <- I7. unfold ysize at 1. rewrite S. reflexivity.
Qed.

Fixpoint deltas_fit (lx ly : Z) (pts : list point) : Prop :=
  match pts with
  | [] => True
  | (x, y, _) :: r => i16 (x - lx) /\ i16 (y - ly) /\ deltas_fit x y r
  end.
Lemma point_deltas_accepts : forall pts lx ly, deltas_fit lx ly pts -> exists ds, point_deltas lx ly pts = Some ds.
Proof.
  induction pts as [|[[x y] on] pts IH]; intros lx ly H.
  - exists []. reflexivity.
  - destruct H as (Hx & Hy & Hr). destruct (IH x y Hr) as [t Et].
    cbn [point_deltas]. unfold chk_i16, in_i16. unfold i16 in Hx, Hy.
    replace ((-32768 <=? x - lx) && (x - lx <=? 32767)) with true by lia.
    replace ((-32768 <=? y - ly) && (y - ly <=? 32767)) with true by lia.
    cbn [obind]. rewrite Et. cbn [obind]. eexists. reflexivity.
Qed.

(* ------------------------------------------------------------------ *)
(* resolve_coords_len over the written flag entries                     *)
Lemma total_app sz a b : total sz (a ++ b) = total sz a + total sz b.
Proof. induction a as [|x a IH]; cbn [app total]; lia. Qed.
Lemma total_repeat sz f n : total sz (repeat f n) = Z.of_nat n * sz f.
Proof. induction n as [|n IH]; [reflexivity|]. cbn [repeat total]. rewrite IH. lia. Qed.
Lemma total_map_clr_x l : Forall byte l -> total xsize (map clr_repeat l) = total xsize l.
Proof.
  induction 1 as [|f l Hf Hl IH]; [reflexivity|]. cbn [map total]. rewrite IH. f_equal.
  unfold xsize. rewrite !clr_has by (assumption || (cbn; auto)). reflexivity.
Qed.
Lemma total_map_clr_y l : Forall byte l -> total ysize (map clr_repeat l) = total ysize l.
Proof.
  induction 1 as [|f l Hf Hl IH]; [reflexivity|]. cbn [map total]. rewrite IH. f_equal.
  unfold ysize. rewrite !clr_has by (assumption || (cbn; auto 6)). reflexivity.
Qed.

Lemma acc_x f reps xl : byte f ->
  xl + (if has f X_SHORT then reps else 0) + (if Z.land f (Z.lor X_SHORT X_SAME_POS) =? 0 then reps * 2 else 0)
  = xl + reps * xsize f.
Proof.
  intros H. rewrite land18 by assumption. unfold xsize.
  destruct (has f X_SHORT), (has f X_SAME_POS); cbn [negb andb]; lia.
Qed.
Lemma acc_y f reps yl : byte f ->
  yl + (if has f Y_SHORT then reps else 0) + (if Z.land f (Z.lor Y_SHORT Y_SAME_POS) =? 0 then reps * 2 else 0)
  = yl + reps * ysize f.
Proof.
  intros H. rewrite land36 by assumption. unfold ysize.
  destruct (has f Y_SHORT), (has f Y_SAME_POS); cbn [negb andb]; lia.
Qed.

Lemma expand_es_bytes es : Forall valid_entry es -> Forall byte (expand_es es).
Proof.
  induction 1 as [|[f r] es [Hb _] _ IH]; [constructor|].
  change (expand_es ((f, r) :: es)) with (repeat f (Z.to_nat (r + 1)) ++ expand_es es).
  apply Forall_app. split; [|exact IH]. cbn [fst] in Hb.
  clear -Hb. induction (Z.to_nat (r + 1)); cbn; constructor; auto.
Qed.

Lemma resolve_entries es : Forall valid_entry es -> forall rest k pos xl yl, 0 <= k ->
  resolve_go (bytes_of es ++ rest) (zlen (expand_es es) + k) pos xl yl
  = resolve_go rest k (pos + zlen (bytes_of es)) (xl + total xsize (expand_es es)) (yl + total ysize (expand_es es)).
Proof.
  induction 1 as [|[f r] es [Hb [Hr Hh]] Hes IH]; intros rest k pos xl yl Hk.
  - cbn [bytes_of flat_map expand_es app total]. rewrite zlen_nil. f_equal; lia.
  - change (bytes_of ((f, r) :: es)) with (entry_bytes_t (f, r) ++ bytes_of es).
    change (expand_es ((f, r) :: es)) with (repeat f (Z.to_nat (r + 1)) ++ expand_es es).
    cbn [fst snd] in *.
    rewrite !zlen_app, !total_app, !total_repeat, zlen_repeat.
    pose proof (zlen_nonneg (expand_es es)) as Hn.
    replace (Z.of_nat (Z.to_nat (r + 1))) with (r + 1) by lia.
    rewrite <- app_assoc. unfold entry_bytes_t. cbn [fst snd].
    remember (bytes_of es ++ rest) as tail eqn:Etail.
    destruct (has f REPEAT) eqn:E.
    + cbn [app resolve_go]. rewrite E. cbn [fst snd].
      replace (r + 1 + zlen (expand_es es) + k <=? 0) with false by lia.
      replace (r + 1 + zlen (expand_es es) + k <? r + 1) with false by lia.
      rewrite acc_x, acc_y by assumption.
      replace (r + 1 + zlen (expand_es es) + k - (r + 1)) with (zlen (expand_es es) + k) by lia.
      subst tail. rewrite IH by assumption.
      change (zlen [f; r]) with 2. f_equal; lia.
    + cbn [app resolve_go]. rewrite E. cbn [fst snd].
      assert (r = 0) by lia. subst r.
      replace (0 + 1 + zlen (expand_es es) + k <=? 0) with false by lia.
      rewrite acc_x, acc_y by assumption.
      replace (0 + 1 + zlen (expand_es es) + k - 1) with (zlen (expand_es es) + k) by lia.
      subst tail. rewrite IH by assumption.
      change (zlen [f]) with 1. f_equal; lia.
Qed.

(* ------------------------------------------------------------------ *)
(* the reader ignores the REPEAT bit                                    *)
Lemma decode_coords_clr sb mb l : In sb [1; 2; 4; 16; 32] -> In mb [1; 2; 4; 16; 32] -> Forall byte l ->
  forall data cur, decode_coords sb mb (map clr_repeat l) data cur = decode_coords sb mb l data cur.
Proof.
  intros Hs Hm. induction 1 as [|f l Hf Hl IH]; intros data cur; [reflexivity|].
  cbn [map decode_coords]. rewrite !clr_has by assumption.
  destruct (has f sb), (has f mb); try destruct data as [|a [|b d]]; cbn; rewrite ?IH; reflexivity.
Qed.
Lemma zip_points_clr l : Forall byte l -> forall xs ys, zip_points xs ys (map clr_repeat l) = zip_points xs ys l.
Proof.
  induction 1 as [|f l Hf Hl IH]; intros xs ys; [reflexivity|].
  destruct xs as [|x xs], ys as [|y ys]; try reflexivity.
  cbn [map zip_points]. rewrite IH. rewrite clr_has by (assumption || (cbn; auto)). reflexivity.
Qed.
Lemma zip_points_spec : forall (pts : list point) fs,
  map (fun f => has f ON_CURVE) fs = map snd pts ->
  zip_points (map (fun p => fst (fst p)) pts) (map (fun p => snd (fst p)) pts) fs = pts.
Proof.
  induction pts as [|[[x y] on] pts IH]; intros fs H.
  - destruct fs; reflexivity.
  - destruct fs as [|f fs]; [discriminate|]. cbn [map fst snd] in *. injection H as H1 H2.
    cbn [zip_points]. rewrite H1, IH by assumption. reflexivity.
Qed.

Lemma resolve_go_zero d pos xl yl : resolve_go d 0 pos xl yl = Some (pos, xl, yl).
Proof. destruct d; reflexivity. Qed.

Lemma points_written pts ds ends fl p :
  point_deltas 0 0 pts = Some ds -> Forall pt_ok pts ->
  ends <> [] -> last ends 0 = zlen pts - 1 -> 1 <= zlen pts <= 65535 ->
  entries_bytes (rle (dflags ds)) = Some fl ->
  points ends (fl ++ dxbytes ds ++ dybytes ds ++ p) = pts.
Proof.
  intros Hd Hok Hne Hlast Hn Hfl.
  destruct (point_deltas_spec pts 0 0 ds Hd) as (F1 & F2 & F3 & F4 & F5 & F6 & F7);
    [unfold i16; lia | unfold i16; lia | assumption |].
  destruct (rle_go_spec (dflags ds) None I F1) as [V M]. fold (rle (dflags ds)) in V, M.
  set (es := rle (dflags ds)) in *. cbn [pending app] in M.
  rewrite (entries_bytes_valid es V) in Hfl. injection Hfl as <-.
  pose proof (expand_es_bytes es V) as Hby.
  assert (Hlen : zlen (expand_es es) = zlen pts).
  { unfold zlen. rewrite <- F2, <- M, map_length. reflexivity. }
  assert (Hx : total xsize (expand_es es) = zlen (dxbytes ds)).
  { rewrite <- (total_map_clr_x _ Hby), M. exact F6. }
  assert (Hy : total ysize (expand_es es) = zlen (dybytes ds)).
  { rewrite <- (total_map_clr_y _ Hby), M. exact F7. }
  unfold points. destruct ends as [|e0 ends']; [contradiction|].
  set (ends := e0 :: ends') in *. rewrite Hlast.
  replace (65535 <=? zlen pts - 1) with false by lia.
  unfold resolve_coords_len.
  replace (zlen pts - 1 + 1) with (zlen (expand_es es) + 0) by lia.
  rewrite resolve_entries by (assumption || lia). rewrite resolve_go_zero.
  rewrite Hx, Hy. cbn [Z.add].
  replace (zlen (bytes_of es ++ dxbytes ds ++ dybytes ds ++ p) <? zlen (bytes_of es) + zlen (dxbytes ds) + zlen (dybytes ds))
    with false by (rewrite !zlen_app; pose proof (zlen_nonneg p); lia).
  rewrite firstn_zlen_app, skipn_zlen_app, firstn_zlen_app, skipn_zlen_app.
  rewrite <- (app_nil_r (bytes_of es)). rewrite expand_flags_entries by assumption.
  cbn [expand_flags]. rewrite app_nil_r.
  rewrite <- (decode_coords_clr X_SHORT X_SAME_POS (expand_es es)) by (assumption || (cbn; auto)).
  rewrite <- (decode_coords_clr Y_SHORT Y_SAME_POS (expand_es es)) by (assumption || (cbn; auto 6)).
  rewrite <- (zip_points_clr (expand_es es) Hby). rewrite M.
  rewrite <- (app_nil_r (dxbytes ds)). rewrite F4, F5.
  apply zip_points_spec. exact F3.
Qed.

(* ------------------------------------------------------------------ *)
(* end points                                                           *)
Fixpoint cum_ends (cur : Z) (cs : list (list point)) : list Z :=
  match cs with
  | [] => []
  | c :: r => (cur + zlen c - 1) :: cum_ends (cur + zlen c) r
  end.

Lemma zlen_concat_cons {A} (c : list A) r : zlen (concat (c :: r)) = zlen c + zlen (concat r).
Proof. cbn [concat]. apply zlen_app. Qed.

Lemma end_points_spec : forall cs cur ends,
  end_points cur cs = Some ends -> 0 <= cur -> cur + zlen (concat cs) <= 65535 ->
  ends = cum_ends cur cs /\ Forall u16 ends.
Proof.
  induction cs as [|c cs IH]; intros cur ends H Hc Hb.
  - cbn in H. injection H as <-. split; [reflexivity|constructor].
  - cbn [end_points] in H. rewrite zlen_concat_cons in Hb.
    pose proof (zlen_nonneg c). pose proof (zlen_nonneg (concat cs)).
    destruct (chk_u 16 ((cur + zlen c) mod 65536 - 1)) as [e|] eqn:E; [|discriminate]. cbn [obind] in H.
    destruct (end_points (cur + zlen c) cs) as [t|] eqn:Et; [|discriminate]. cbn [obind] in H.
    injection H as <-.
    unfold chk_u, in_u in E. change (2 ^ 16) with 65536 in E.
    destruct ((0 <=? (cur + zlen c) mod 65536 - 1) && ((cur + zlen c) mod 65536 - 1 <? 65536)) eqn:E2; [|discriminate].
    injection E as <-.
    destruct (IH (cur + zlen c) t Et) as [-> Hu]; [lia|lia|].
    cbn [cum_ends]. split.
    + f_equal. lia.
    + constructor; [unfold u16; lia|exact Hu].
Qed.

Lemma cum_ends_length cs : forall cur, length (cum_ends cur cs) = length cs.
Proof. induction cs as [|c cs IH]; intros cur; cbn; auto. Qed.
Lemma last_cons_ne {A} (a : A) l d : l <> [] -> last (a :: l) d = last l d.
Proof. destruct l; [contradiction|reflexivity]. Qed.
Lemma cum_ends_last cs : forall cur, cs <> [] -> last (cum_ends cur cs) 0 = cur + zlen (concat cs) - 1.
Proof.
  induction cs as [|c cs IH]; intros cur H; [contradiction|].
  rewrite zlen_concat_cons. destruct cs as [|c2 cs].
  - cbn [cum_ends last concat]. change (zlen (@nil point)) with 0. lia.
  - change (cum_ends cur (c :: c2 :: cs)) with ((cur + zlen c - 1) :: cum_ends (cur + zlen c) (c2 :: cs)).
    rewrite last_cons_ne.
    + rewrite IH by discriminate. lia.
    + intros E. apply (f_equal (@length Z)) in E. rewrite cum_ends_length in E. discriminate.
Qed.

(* write-fonts' own reader recovers the contours from the end points *)
Lemma split_contours_spec cs : forall cur, 0 <= cur ->
  split_contours cur (cum_ends cur cs) (concat cs) = Some cs.
Proof.
  induction cs as [|c cs IH]; intros cur Hc; [reflexivity|].
  cbn [cum_ends split_contours concat]. pose proof (zlen_nonneg c).
  replace (cur + zlen c - 1 + 1 <? cur) with false by lia.
  replace (cur + zlen c - 1 + 1 - cur) with (zlen c) by lia.
  rewrite skipn_zlen_app, firstn_zlen_app.
  replace (cur + zlen c - 1 + 1) with (cur + zlen c) by lia.
  rewrite IH by lia. reflexivity.
Qed.

(* ------------------------------------------------------------------ *)
(* the glyph header                                                     *)
Definition bbox_ok (b : bbox_t) : Prop := let '(x0, y0, x1, y1) := b in i16 x0 /\ i16 y0 /\ i16 x1 /\ i16 y1.
Definition bbox_list (b : bbox_t) : list Z := let '(x0, y0, x1, y1) := b in [x0; y0; x1; y1].

Lemma read_glyph_cons a b r :
  read_glyph (a :: b :: r) =
  if 0 <=? s16 (rd16 a b) then
    (do s <- read_simple (a :: b :: r);;
     let '(nc, bb, ends, ins, gd) := s in Some (RSimple nc bb ends ins (points ends gd)))
  else
    (do h <- take 10 (a :: b :: r);;
     Some (RComposite (map s16 (rd16s (skipn 2 (fst h)))) (read_comps (length (snd h)) (snd h))
                      (snd (composite_instructions (snd h))))).
Proof. reflexivity. Qed.

Lemma read_simple_written nc bb ends instr gd :
  i16 nc -> 0 <= nc -> bbox_ok bb -> Forall u16 ends -> zlen ends = nc -> u16 (zlen instr) ->
  read_simple (i16be nc ++ bbox_bytes bb ++ flat_map u16be ends ++ u16be (zlen instr) ++ instr ++ gd)
  = Some (nc, bbox_list bb, ends, instr, gd).
Proof.
  intros Hnc Hpos Hbb Hends Hlen Hil. destruct bb as [[[x0 y0] x1] y1]. destruct Hbb as (B0 & B1 & B2 & B3).
  unfold read_simple.
  set (t3 := instr ++ gd). set (t2 := u16be (zlen instr) ++ t3). set (t1 := flat_map u16be ends ++ t2).
  rewrite (app_assoc (i16be nc)).
  rewrite (take_app_n 10 (i16be nc ++ bbox_bytes (x0, y0, x1, y1)) t1) by reflexivity.
  cbn [obind fst snd].
  assert (E1 : s16 (rd16 (nth 0 (i16be nc ++ bbox_bytes (x0, y0, x1, y1)) 0) (nth 1 (i16be nc ++ bbox_bytes (x0, y0, x1, y1)) 0)) = nc).
  { unfold i16be at 1 2, u16be at 1 2. cbn [app nth]. apply s16_i16be. exact Hnc. }
  rewrite E1.
  assert (E2 : map s16 (rd16s (skipn 2 (i16be nc ++ bbox_bytes (x0, y0, x1, y1)))) = [x0; y0; x1; y1]).
  { unfold i16be at 1, u16be at 1. cbn [app skipn]. unfold bbox_bytes, i16be, u16be. cbn [app rd16s map].
    rewrite !s16_i16be by assumption. reflexivity. }
  rewrite E2.
  unfold t1. rewrite (take_app_n (2 * nc) (flat_map u16be ends) t2) by (rewrite zlen_flat_u16be; lia).
  cbn [obind fst snd].
  unfold t2. rewrite (take_app_n 2 (u16be (zlen instr)) t3) by reflexivity.
  cbn [obind fst snd].
  assert (E3 : rd16 (nth 0 (u16be (zlen instr)) 0) (nth 1 (u16be (zlen instr)) 0) = zlen instr).
  { unfold u16be. cbn [nth]. apply rd16_u16be. exact Hil. }
  rewrite E3. unfold t3. rewrite take_app. cbn [obind fst snd].
  rewrite <- (app_nil_r (flat_map u16be ends)). rewrite rd16s_u16be by assumption.
  cbn [rd16s]. rewrite app_nil_r. reflexivity.
Qed.

Lemma read_glyph_simple_written nc bb ends instr gd :
  i16 nc -> 0 <= nc -> bbox_ok bb -> Forall u16 ends -> zlen ends = nc -> u16 (zlen instr) ->
  read_glyph (i16be nc ++ bbox_bytes bb ++ flat_map u16be ends ++ u16be (zlen instr) ++ instr ++ gd)
  = Some (RSimple nc (bbox_list bb) ends instr (points ends gd)).
Proof.
  intros Hnc Hpos Hbb Hends Hlen Hil.
  pose proof (read_simple_written nc bb ends instr gd Hnc Hpos Hbb Hends Hlen Hil) as R.
  set (t := bbox_bytes bb ++ flat_map u16be ends ++ u16be (zlen instr) ++ instr ++ gd) in *.
  change (i16be nc ++ t) with (nc mod 65536 / 256 :: nc mod 65536 mod 256 :: t) in *.
  rewrite read_glyph_cons. rewrite s16_i16be by assumption.
  replace (0 <=? nc) with true by lia. rewrite R. reflexivity.
Qed.

(* ------------------------------------------------------------------ *)
(* simple_roundtrip                                                     *)
Definition sglyph_ok (g : sglyph) : Prop :=
  Forall (Forall pt_ok) (g_contours g) /\ Forall byte (g_instr g) /\ bbox_ok (g_bbox g).

Lemma Forall_concat {A} (P : A -> Prop) (ls : list (list A)) : Forall (Forall P) ls -> Forall P (concat ls).
Proof. induction 1; cbn; [constructor|apply Forall_app; split; assumption]. Qed.

Lemma simple_roundtrip g bytes :
  sglyph_ok g -> g_contours g <> [] -> zlen (concat (g_contours g)) <= 65535 ->
  write_simple 0 g = Some bytes ->
  read_glyph bytes = Some (RSimple (zlen (g_contours g)) (bbox_list (g_bbox g)) (cum_ends 0 (g_contours g))
                                   (g_instr g) (concat (g_contours g)))
  /\ split_contours 0 (cum_ends 0 (g_contours g)) (concat (g_contours g)) = Some (g_contours g)
  /\ zlen bytes mod 2 = 0.
Proof.
  intros (Hpts & Hins & Hbb) Hne Htot H. unfold write_simple in H.
  set (cs := g_contours g) in *. set (nc := zlen cs) in *.
  assert (Hnc1 : 1 <= nc).
  { unfold nc, zlen. destruct cs; [contradiction|]. cbn [length]. lia. }
  destruct (32767 <=? nc) eqn:E1; [discriminate|].
  destruct (65535 <=? zlen (g_instr g)) eqn:E2; [discriminate|].
  replace (nc =? 0) with false in H by lia.
  destruct (end_points 0 cs) as [ends|] eqn:Ee; [|discriminate]. cbn [obind] in H.
  destruct (point_deltas 0 0 (concat cs)) as [ds|] eqn:Ed; [|discriminate]. cbn [obind] in H.
  destruct (entries_bytes (rle (map (fun d => fst (fst d)) ds))) as [fl|] eqn:Ef; [|discriminate]. cbn [obind] in H.
  injection H as <-.
  destruct (end_points_spec cs 0 ends Ee) as [-> Hu]; [lia|lia|].
  split; [|split].
  - fold (dxbytes ds) (dybytes ds).
    match goal with |- context [pad2 0 ?b] => set (body := b) end.
    assert (Hp : exists p, pad2 0 body = body ++ p).
    { destruct (pad2_shape 0 body) as [->| ->]; [exists []; rewrite app_nil_r; reflexivity | exists [0]; reflexivity]. }
    destruct Hp as [p ->].
    assert (Hb : body = i16be nc ++ bbox_bytes (g_bbox g) ++ flat_map u16be (cum_ends 0 cs)
                        ++ u16be (zlen (g_instr g)) ++ g_instr g ++ (fl ++ dxbytes ds ++ dybytes ds)) by reflexivity.
    rewrite Hb. clear Hb body. rewrite <- !app_assoc.
    pose proof (zlen_nonneg (g_instr g)).
    rewrite read_glyph_simple_written; try assumption; try (unfold i16, u16; lia).
    + f_equal. f_equal. apply points_written; try assumption.
      * apply Forall_concat. exact Hpts.
      * destruct cs; [contradiction|discriminate].
      * rewrite cum_ends_last by assumption. lia.
      * split; [|assumption].
        destruct cs as [|c cs']; [contradiction|]. cbn [cum_ends] in Hu. inversion Hu as [|? ? H0 _]; subst.
        rewrite zlen_concat_cons. pose proof (zlen_nonneg (concat cs')). unfold u16 in H0. lia.
    + unfold zlen. rewrite cum_ends_length. reflexivity.
  - apply split_contours_spec. lia.
  - apply pad2_even. reflexivity.
Qed.
