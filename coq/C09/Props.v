(* C09 — property theorems.  Only statements, [exact lemma] and Print Assumptions. *)
From Coq Require Import ZArith List.
From FV Require Import Lib.RustInt C09.Model C09.Proofs C09.Proofs2 C09.Proofs3 C09.Proofs4 C09.Proofs5.
Import ListNotations.
Open Scope Z_scope.

(* every flag list (no bound on run lengths): the flag bytes written by iter_from_flags expand, in the
   reader's PointIter, to exactly the flags (the reader ignores the REPEAT bit), and the
   debug_assert in RepeatableFlag::write_into never fires *)
Theorem c09_flags_rle_roundtrip : forall fs, Forall flag_ok fs ->
  exists bs, entries_bytes (rle fs) = Some bs /\
             forall rest, map clr_repeat (expand_flags (bs ++ rest)) = fs ++ map clr_repeat (expand_flags rest).
Proof. exact flags_rle_roundtrip. Qed.

(* every point sequence over the full i16 range whose successive deltas fit i16 is accepted ... *)
Theorem c09_deltas_accepted : forall pts lx ly, deltas_fit lx ly pts -> exists ds, point_deltas lx ly pts = Some ds.
Proof. exact point_deltas_accepts. Qed.
(* ... and the per-axis decoding of the written deltas reproduces every coordinate, the on-curve bits,
   and the flags determine the coordinate array lengths *)
Theorem c09_coords_roundtrip : forall pts lx ly ds,
  point_deltas lx ly pts = Some ds -> i16 lx -> i16 ly -> Forall pt_ok pts ->
  Forall flag_ok (dflags ds)
  /\ length (dflags ds) = length pts
  /\ map (fun f => has f ON_CURVE) (dflags ds) = map snd pts
  /\ (forall rest, decode_coords X_SHORT X_SAME_POS (dflags ds) (dxbytes ds ++ rest) lx = map (fun p => fst (fst p)) pts)
  /\ (forall rest, decode_coords Y_SHORT Y_SAME_POS (dflags ds) (dybytes ds ++ rest) ly = map (fun p => snd (fst p)) pts)
  /\ total xsize (dflags ds) = zlen (dxbytes ds)
  /\ total ysize (dflags ds) = zlen (dybytes ds).
Proof. exact point_deltas_spec. Qed.

(* a simple glyph the writer accepts (at most 65535 points) reads back as: contour count, bounding box,
   end points, instructions, and every point with its on-curve flag; write-fonts' own reader splits the
   points back into the contours; the encoding has even length *)
Theorem c09_simple_roundtrip : forall g bytes,
  sglyph_ok g -> g_contours g <> [] -> zlen (concat (g_contours g)) <= 65535 ->
  write_simple 0 g = Some bytes ->
  read_glyph bytes = Some (RSimple (zlen (g_contours g)) (bbox_list (g_bbox g)) (cum_ends 0 (g_contours g))
                                   (g_instr g) (concat (g_contours g)))
  /\ split_contours 0 (cum_ends 0 (g_contours g)) (concat (g_contours g)) = Some (g_contours g)
  /\ zlen bytes mod 2 = 0.
Proof. exact simple_roundtrip. Qed.

(* exactly which simple glyphs are accepted: < 32767 contours, < 65535 instruction bytes, every cumulative
   point count in 1..65535 (first contour non-empty, <= 65535 points), successive deltas representable *)
Theorem c09_simple_accepted : forall g,
  sglyph_ok g -> zlen (g_contours g) < 32767 -> zlen (g_instr g) < 65535 ->
  cum_ok 0 (g_contours g) -> deltas_fit 0 0 (concat (g_contours g)) ->
  exists bytes, write_simple 0 g = Some bytes.
Proof. exact simple_accepted. Qed.

Theorem c09_pad_even : forall before l, (before + zlen (pad2 before l)) mod 2 = 0.
Proof. exact pad2_total_even. Qed.

(* LocaFormat::new: short chosen => every offset bounded by the last one (as the builder's prefix sums
   are) is even, <= 0x1FFFE, and `2 * ((off >> 1) as u16) = off` *)
Theorem c09_loca_short_exact : forall offs, loca_is_long offs = false ->
  Forall (fun o => 0 <= o <= last offs 0) offs ->
  Forall (fun o => o mod 2 = 0 /\ o <= 131070 /\ 2 * (Z.shiftr o 1 mod 65536) = o) offs.
Proof. exact loca_short_exact. Qed.
(* whichever format is chosen, Loca::get_raw returns the offsets that were written *)
Theorem c09_loca_roundtrip : forall offs,
  Forall (fun o => u32 o /\ o <= last offs 0) offs ->
  exists es, loca_read (loca_bytes offs) (loca_is_long offs) = Some es /\
    forall i, (i < length offs)%nat -> get_raw es (loca_is_long offs) (Z.of_nat i) = Some (nth i offs 0).
Proof. exact loca_roundtrip. Qed.
(* glyph i of (glyf, loca) is the i-th glyph added, for any glyph sequence and whichever format the
   builder chooses: get_glyf's slice is exactly the stand-alone encoding of that glyph (the bytes that
   c09_simple_roundtrip decodes); a glyph that writes nothing gets equal consecutive offsets (Ok(None)) *)
Theorem c09_builder_glyph_i : forall gs glyf loca long,
  build gs = Some (glyf, loca, long) -> forallb validate_glyph gs = true -> zlen glyf < 4294967296 ->
  exists chunks es,
    Forall2 (fun g c => write_glyph 0 g = Some c) gs chunks
    /\ glyf = concat chunks /\ loca = 0 :: offsets_from 0 chunks /\ long = loca_is_long loca
    /\ loca_read (loca_bytes loca) long = Some es
    /\ forall i c, nth_error chunks i = Some c ->
         get_glyf_slice es long glyf (Z.of_nat i) = if zlen c =? 0 then ROk None else ROk (Some c).
Proof. exact builder_glyph_i. Qed.
(* per coordinate the writer's form represents the delta and no representing form is shorter *)
Theorem c09_delta_choice_shortest : forall v s m form, i16 v -> form_decodes form v ->
  form_decodes (snd (flag_and_delta v s m)) v /\ csize (snd (flag_and_delta v s m)) <= csize form.
Proof. exact delta_choice_shortest. Qed.
(* a run of k identical flags is written in 2*(k/256) + min 2 (k mod 256) bytes, for every k *)
Theorem c09_flags_rle_run_length : forall f k, flag_ok f -> (0 < k)%nat ->
  zlen (bytes_of (rle (repeat f k))) = 2 * (Z.of_nat k / 256) + Z.min 2 (Z.of_nat k mod 256).
Proof. exact flags_rle_run_length. Qed.

(* one composite component (every anchor form: i8/i16 offsets, u8/u16 point numbers; every transform
   form: identity, scale, x/y scale, 2x2; every user-flag combination; glyph id) is read back by
   ComponentIter exactly, and iteration continues iff MORE_COMPONENTS was set *)
Theorem c09_component_roundtrip : forall c extra rest k, comp_ok c -> In extra [0; 32; 256] ->
  let F := Z.lor (comp_flags c) extra in
  read_comps (S k) (comp_bytes c extra ++ rest)
  = (F, c_gid c, c_anchor c, c_tr c) :: (if has extra MORE then read_comps k rest else [])
  /\ (has F ROUND_XY, has F USE_MY_METRICS, has F SCALED_OFF, has F UNSCALED_OFF, has F OVERLAP) = c_uflags c.
Proof. exact comp_roundtrip. Qed.
(* the component list of any non-empty composite is read back exactly by ComponentIter, which stops
   before the instruction bytes / padding that follow *)
Theorem c09_composite_components_roundtrip : forall cs c lastf tail k,
  Forall comp_ok (c :: cs) -> In lastf [0; 256] -> (length (c :: cs) <= k)%nat ->
  read_comps k (comps_bytes (c :: cs) lastf ++ tail) = exp_comps (c :: cs) lastf.
Proof. exact comps_roundtrip. Qed.
(* every composite glyph with >= 1 component and < 65536 instruction bytes is accepted and Glyph::read gives
   back the bounding box, all components (ids, flag words incl. the user flags and MORE_COMPONENTS on all
   but the last, anchors, 2.14 transforms) and the instruction bytes (count_and_instructions); even length *)
Theorem c09_composite_roundtrip : forall g c cs,
  cg_comps g = c :: cs -> Forall comp_ok (c :: cs) -> bbox_ok (cg_bbox g) -> zlen (cg_instr g) <= 65535 ->
  let lastf := if zlen (cg_instr g) =? 0 then 0 else HAVE_INSTR in
  exists bytes, write_composite 0 g = Some bytes
    /\ read_glyph bytes = Some (RComposite (bbox_list (cg_bbox g)) (exp_comps (c :: cs) lastf)
                                           (if zlen (cg_instr g) =? 0 then None else Some (cg_instr g)))
    /\ zlen bytes mod 2 = 0.
Proof. exact composite_roundtrip. Qed.

(* skrifa to_path (quadratic outlines), both path styles: every contour yields nothing (empty contour,
   or a lone off-curve point in HarfBuzz style) or exactly one move, only line/quad segments, one close *)
Theorem c09_to_path_wellformed : forall hb pts,
  (contour_to_path hb pts = [] /\ (pts = [] \/ (hb = true /\ exists p, pts = [p] /\ snd p = false)))
  \/ exists sx sy body, contour_to_path hb pts = PM sx sy :: body ++ [PZ] /\ Forall is_seg body.
Proof. exact contour_to_path_wellformed. Qed.
(* geometric equality under implied-on-curve elision: in a contour starting on-curve, an on-curve point that
   is the exact midpoint of its two off-curve neighbours can be dropped without changing the drawn path
   (either style) — the points write-fonts elides are exactly those to_path re-creates *)
Theorem c09_elide_then_reinsert : forall hb first pre q m p post,
  snd first = true -> snd q = false -> snd p = false -> m = (cx_ (cmid q p), cy_ (cmid q p), true) ->
  contour_to_path hb (first :: pre ++ q :: m :: p :: post) = contour_to_path hb (first :: pre ++ q :: p :: post).
Proof. exact elide_then_reinsert. Qed.
(* the re-created midpoint is exact for integer font-unit points (unscaled outline, half units) *)
Theorem c09_midpoint_exact : forall a b,
  cx_ (cmid (2 * cx_ a, 2 * cy_ a, snd a) (2 * cx_ b, 2 * cy_ b, snd b)) = cx_ a + cx_ b
  /\ cy_ (cmid (2 * cx_ a, 2 * cy_ a, snd a) (2 * cx_ b, 2 * cy_ b, snd b)) = cy_ a + cy_ b.
Proof. exact cmid_exact. Qed.

(* write-fonts BezPath front end (integer coordinates): a point is dropped as implied exactly when it is
   on-curve, both cyclic neighbours are off-curve and p0 + p2 = 2 p1 on both axes — never for an odd sum *)
Theorem c09_implicit_iff : forall p0 p1 p2 : cpt, implicit p0 p1 p2 = true <->
  snd p1 = true /\ snd p0 = false /\ snd p2 = false
  /\ cx_ p0 + cx_ p2 = 2 * cx_ p1 /\ cy_ p0 + cy_ p2 = 2 * cy_ p1.
Proof. exact implicit_iff. Qed.
(* elision_lossless: for every contour whose first point is on-curve (every contour the front end builds
   starts with its move-to point), the contour left after dropping ALL implied points (cyclic neighbours,
   the first point included) draws in skrifa's default FreeType style the very same command sequence as the
   original point list: reconstruction of the implied points returns the original, exactly *)
Theorem c09_elision_lossless : forall (f : cpt) (r : list cpt), snd f = true ->
  contour_to_path false (elide (f :: r)) = contour_to_path false (f :: r).
Proof. exact elision_lossless. Qed.
(* HarfBuzz style: the same whenever the first point itself is kept (otherwise the start point rotates) *)
Theorem c09_elision_lossless_harfbuzz : forall (f : cpt) (r : list cpt), snd f = true ->
  implicit (last (f :: r) f) f (hd f r) = false ->
  contour_to_path true (elide (f :: r)) = contour_to_path true (f :: r).
Proof. exact elision_lossless_hb. Qed.

Print Assumptions c09_flags_rle_roundtrip.
Print Assumptions c09_deltas_accepted.
Print Assumptions c09_coords_roundtrip.
Print Assumptions c09_simple_roundtrip.
Print Assumptions c09_pad_even.
Print Assumptions c09_loca_short_exact.
Print Assumptions c09_loca_roundtrip.
Print Assumptions c09_builder_glyph_i.
Print Assumptions c09_delta_choice_shortest.
Print Assumptions c09_flags_rle_run_length.
Print Assumptions c09_component_roundtrip.
Print Assumptions c09_composite_components_roundtrip.
Print Assumptions c09_composite_roundtrip.
Print Assumptions c09_simple_accepted.
Print Assumptions c09_to_path_wellformed.
Print Assumptions c09_elide_then_reinsert.
Print Assumptions c09_midpoint_exact.
Print Assumptions c09_implicit_iff.
Print Assumptions c09_elision_lossless.
Print Assumptions c09_elision_lossless_harfbuzz.
