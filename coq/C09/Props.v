(* C09 — property theorems.  Only statements, [exact lemma] and Print Assumptions. *)
From Coq Require Import ZArith List.
From FV Require Import Lib.RustInt C09.Model C09.Proofs.
Import ListNotations.
Open Scope Z_scope.

(* every flag list (no bound on run lengths): the flag bytes written by iter_from_flags expand, in the
   reader's PointIter, to exactly the flags (the reader ignores the REPEAT bit), and the
   debug_assert in RepeatableFlag::write_into never fires *)
Theorem c09_flags_rle_roundtrip : forall fs, Forall flag_ok fs ->
  exists bs, entries_bytes (rle fs) = Some bs /\
             forall rest, map clr_repeat (expand_flags (bs ++ rest)) = fs ++ map clr_repeat (expand_flags rest).
Proof. exact flags_rle_roundtrip. Qed.

(* every point sequence over the full i16 range whose successive deltas fit i16 is accepted ... *)
Theorem c09_deltas_accepted : forall pts lx ly, deltas_fit lx ly pts -> exists ds, point_deltas lx ly pts = Some ds.
Proof. exact point_deltas_accepts. Qed.
(* ... and the per-axis decoding of the written deltas reproduces every coordinate, the on-curve bits,
   and the flags determine the coordinate array lengths *)
Theorem c09_coords_roundtrip : forall pts lx ly ds,
  point_deltas lx ly pts = Some ds -> i16 lx -> i16 ly -> Forall pt_ok pts ->
  Forall flag_ok (dflags ds)
  /\ length (dflags ds) = length pts
  /\ map (fun f => has f ON_CURVE) (dflags ds) = map snd pts
  /\ (forall rest, decode_coords X_SHORT X_SAME_POS (dflags ds) (dxbytes ds ++ rest) lx = map (fun p => fst (fst p)) pts)
  /\ (forall rest, decode_coords Y_SHORT Y_SAME_POS (dflags ds) (dybytes ds ++ rest) ly = map (fun p => snd (fst p)) pts)
  /\ total xsize (dflags ds) = zlen (dxbytes ds)
  /\ total ysize (dflags ds) = zlen (dybytes ds).
Proof. exact point_deltas_spec. Qed.

(* a simple glyph the writer accepts (at most 65535 points) reads back as: contour count, bounding box,
   end points, instructions, and every point with its on-curve flag; write-fonts' own reader splits the
   points back into the contours; the encoding has even length *)
Theorem c09_simple_roundtrip : forall g bytes,
  sglyph_ok g -> g_contours g <> [] -> zlen (concat (g_contours g)) <= 65535 ->
  write_simple 0 g = Some bytes ->
  read_glyph bytes = Some (RSimple (zlen (g_contours g)) (bbox_list (g_bbox g)) (cum_ends 0 (g_contours g))
                                   (g_instr g) (concat (g_contours g)))
  /\ split_contours 0 (cum_ends 0 (g_contours g)) (concat (g_contours g)) = Some (g_contours g)
  /\ zlen bytes mod 2 = 0.
Proof. exact simple_roundtrip. Qed.

Theorem c09_pad_even : forall before l, (before + zlen (pad2 before l)) mod 2 = 0.
Proof. exact pad2_total_even. Qed.

Print Assumptions c09_flags_rle_roundtrip.
Print Assumptions c09_deltas_accepted.
Print Assumptions c09_coords_roundtrip.
Print Assumptions c09_simple_roundtrip.
Print Assumptions c09_pad_even.
