(* C09 round 7 — property-level theorems about SimpleGlyph::read_points_fast (model: Model.read_points_fast,
   evaluated against the real function on every simple glyph of the correspondence shards). *)
From Coq Require Import ZArith List.
From FV Require Import Lib.RustInt C09.Model C09.Proofs C09.Fast C09.Fast2.
Import ListNotations.
Open Scope Z_scope.

(* Wherever points_impl succeeds (resolve_coords_len Ok and the data holds flags + x + y bytes),
   read_points_fast (as of /repo 6f0a45e) succeeds — whatever the caller's flag buffer held — and points()
   yields exactly its result narrowed to i16 (x, y as i16; on_curve = flag bit 0).  The narrowing is needed
   (ExamplesF.c09_fast_wrap_refuted).  Before 6f0a45e this needed `fl <= n` (see notes/C09.md). *)
Theorem c09_read_points_fast_eq_points : forall ends gd fl0 fl xl yl,
  Forall byte gd -> ends <> [] -> 0 <= last ends 0 < 65535 ->
  let n := num_points ends in
  zlen fl0 = n ->
  resolve_coords_len gd n = Some (fl, xl, yl) -> fl + xl + yl <= zlen gd ->
  exists r, read_points_fast n gd n fl0 = FOk r /\ points ends gd = map narrow r /\ zlen r = n.
Proof. exact read_points_fast_eq_points. Qed.

(* ... and when the i32 coordinates are within i16 the two readers give literally the same points *)
Theorem c09_fast_narrow_exact : forall r,
  Forall (fun p => i16 (fst (fst p)) /\ i16 (snd (fst p))) r -> map narrow r = map as_point r.
Proof. exact narrow_exact. Qed.

(* the writer never emits more flag bytes than points (what read_points_fast relied on before /repo 6f0a45e) *)
Theorem c09_writer_flag_bytes_le_points : forall fs, Forall flag_ok fs -> zlen (bytes_of (rle fs)) <= zlen fs.
Proof. exact rle_bytes_le. Qed.

(* decoding what the writer wrote with read_points_fast returns exactly the points written (no narrowing),
   for every accepted simple glyph and every content of the caller's flag buffer *)
Theorem c09_fast_roundtrip : forall g bytes fl0,
  sglyph_ok g -> g_contours g <> [] -> zlen (concat (g_contours g)) <= 65535 ->
  write_simple 0 g = Some bytes -> zlen fl0 = zlen (concat (g_contours g)) ->
  exists nc bb ends ins gd,
    read_simple bytes = Some (nc, bb, ends, ins, gd)
    /\ num_points ends = zlen (concat (g_contours g))
    /\ read_points_fast (num_points ends) gd (num_points ends) fl0 = FOk (map enc_pt (concat (g_contours g))).
Proof. exact fast_roundtrip. Qed.

Print Assumptions c09_read_points_fast_eq_points.
Print Assumptions c09_fast_narrow_exact.
Print Assumptions c09_writer_flag_bytes_le_points.
Print Assumptions c09_fast_roundtrip.
