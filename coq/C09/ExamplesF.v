(* C09 round 7 — non-vacuity and refutation witnesses for PropsF.v *)
From Coq Require Import ZArith List Lia.
From FV Require Import Lib.RustInt C09.Model C09.Proofs C09.Fast C09.Fast2.
Import ListNotations.
Open Scope Z_scope.

(* hypotheses of c09_read_points_fast_eq_points are satisfiable: 3 points, a REPEAT run, short/long/same
   deltas, a dirty caller buffer; both readers agree *)
Example c09_fast_eq_points_nonvacuous :
  let gd := [59; 1; 4; 5; 6; 1; 0; 9] in      (* flags: 59 = on|xshort+|ysame|REPEAT x2, 4 = off|xlong|yshort-; x: 5 6 0x0100; y: 9 *)
  resolve_coords_len gd 3 = Some (3, 4, 1) /\ 3 + 4 + 1 <= zlen gd
  /\ read_points_fast 3 gd 3 [191; 54; 18] = FOk [(5, 0, 1); (11, 0, 1); (267, -9, 0)]
  /\ points [2] gd = [(5, 0, true); (11, 0, true); (267, -9, false)].
Proof. repeat split; vm_compute; try reflexivity; discriminate. Qed.

(* c09_fast_roundtrip on the 2-contour full-range glyph of Examples.v *)
Example c09_fast_roundtrip_nonvacuous :
  let g := {| g_bbox := (-32768, -1, 32767, 300);
              g_contours := [[(-32768, 0, true); (-1, 255, false); (-256, 0, true); (-256, 0, true)];
                             [(32000, -300, false); (0, -300, true)]];
              g_instr := [1; 2; 3] |} in
  exists bytes gd, write_simple 0 g = Some bytes
    /\ read_simple bytes = Some (2, [-32768; -1; 32767; 300], [3; 5], [1; 2; 3], gd)
    /\ read_points_fast 6 gd 6 [54; 54; 54; 54; 54; 54]
       = FOk [(-32768, 0, 1); (-1, 255, 0); (-256, 0, 1); (-256, 0, 1); (32000, -300, 0); (0, -300, 1)].
Proof. do 2 eexists. split; [vm_compute; reflexivity|]. split; [vm_compute; reflexivity|]. vm_compute. reflexivity. Qed.

(* a REPEAT flag with count 0 is a legal (wasteful) encoding that takes 2 bytes for 1 point: more flag bytes than
   points.  Both readers decode it (read_points_fast since /repo 6f0a45e; before, it returned Ok with
   (2304,2,on) (2305,5,off) — notes/C09.md, Defects 4), for every content of the caller's flag slice *)
Example c09_fast_zero_repeat_decodes :
  let gd := [9; 0; 9; 0; 0; 1; 0; 2; 0; 3; 0; 4] in
  resolve_coords_len gd 2 = Some (4, 4, 4)
  /\ points [1] gd = [(1, 3, true); (3, 7, true)]
  /\ read_points_fast 2 gd 2 [0; 0] = FOk [(1, 3, 1); (3, 7, 1)]
  /\ read_points_fast 2 gd 2 [54; 191] = FOk [(1, 3, 1); (3, 7, 1)].
Proof. repeat split; vm_compute; reflexivity. Qed.

(* the narrowing is needed: read_points_fast accumulates in i32, PointIter in wrapping i16 *)
Example c09_fast_wrap_refuted :
  points [1] [33; 33; 127; 255; 0; 1] = [(32767, 0, true); (-32768, 0, true)]
  /\ read_points_fast 2 [33; 33; 127; 255; 0; 1] 2 [0; 0] = FOk [(32767, 0, 1); (32768, 0, 1)].
Proof. split; vm_compute; reflexivity. Qed.

(* malformed input, truncated coordinate data: points() gives an EMPTY iterator (points_impl None, no error
   reported), read_points_fast reports Err(OutOfBounds) *)
Example c09_fast_truncated_coords_differs :
  points [0] [1; 0; 5] = [] /\ read_points_fast 1 [1; 0; 5] 1 [0] = FErrOob.
Proof. split; vm_compute; reflexivity. Qed.

(* malformed input, too few flag bytes: Err(OutOfBounds) whatever the output buffer held (before /repo 6f0a45e
   the coordinate passes read the caller's stale flags: Ok with stale 0x30, Err with stale 0x36) *)
Lemma fast_flags_short_none fl0 : zlen fl0 = 2 -> read_points_fast 2 [49] 2 fl0 = FErrOob.
Proof. intros H. unfold read_points_fast. rewrite H. reflexivity. Qed.
Example c09_fast_too_few_flags_is_error :
  (forall fl0, zlen fl0 = 2 -> read_points_fast 2 [49] 2 fl0 = FErrOob) /\ points [1] [49] = [].
Proof. split; [exact fast_flags_short_none|vm_compute; reflexivity]. Qed.

(* output slices of the wrong length *)
Example c09_fast_wrong_len : read_points_fast 2 [49; 49] 3 [0; 0] = FErrLen /\ read_points_fast 2 [49; 49] 2 [0] = FErrLen.
Proof. split; vm_compute; reflexivity. Qed.
