(* C09 — outline -> path (skrifa to_path, quadratic outlines): well-formedness and geometry. *)
From Coq Require Import ZArith Lia List Bool.
From FV Require Import Lib.RustInt C09.Model.
Import ListNotations.
Open Scope Z_scope.

Definition is_seg (c : pcmd) : Prop := match c with PL _ _ | PQ _ _ _ _ => True | _ => False end.

Lemma emit_segs st p : Forall is_seg (snd (emit st p)).
Proof. destruct st as [q|]; cbn [emit]; destruct (snd p); cbn; repeat constructor. Qed.
Lemma emit_all_segs ps : forall st, Forall is_seg (snd (emit_all st ps)).
Proof.
  induction ps as [|p ps IH]; intros st; [constructor|].
  cbn [emit_all]. pose proof (emit_segs st p) as H1. destruct (emit st p) as [st1 o1].
  specialize (IH st1). destruct (emit_all st1 ps) as [st2 o2]. cbn [snd] in *. apply Forall_app. split; assumption.
Qed.
Lemma finish_shape st start : exists segs, finish st start = segs ++ [PZ] /\ Forall is_seg segs.
Proof.
  destruct st as [q|]; cbn [finish].
  - eexists. split; [reflexivity|]. apply emit_segs.
  - exists []. split; [reflexivity|constructor].
Qed.
Lemma draw_from_shape start seq :
  exists body, draw_from start seq = PM (cx_ start) (cy_ start) :: body ++ [PZ] /\ Forall is_seg body.
Proof.
  unfold draw_from. pose proof (emit_all_segs seq None) as H. destruct (emit_all None seq) as [st o]. cbn [snd] in H.
  destruct (finish_shape st start) as (segs & -> & Hs).
  exists (o ++ segs). split; [rewrite app_assoc; reflexivity | apply Forall_app; split; assumption].
Qed.

(* every contour becomes: nothing (empty contour, or a lone off-curve point in HarfBuzz style), or exactly
   one move, then only line/quad segments, then exactly one close — for both path styles *)
Lemma contour_to_path_wellformed hb pts :
  (contour_to_path hb pts = [] /\ (pts = [] \/ (hb = true /\ exists p, pts = [p] /\ snd p = false)))
  \/ exists sx sy body, contour_to_path hb pts = PM sx sy :: body ++ [PZ] /\ Forall is_seg body.
Proof.
  destruct pts as [|first rest]; [left; split; [reflexivity|left; reflexivity]|].
  cbn [contour_to_path]. destruct (snd first) eqn:E1.
  - right. destruct (draw_from_shape first rest) as (b & -> & H). eauto.
  - destruct hb.
    + destruct rest as [|next rest'].
      * left. split; [reflexivity|]. right. split; [reflexivity|]. exists first. split; [reflexivity|exact E1].
      * right. destruct (snd next).
        -- destruct (draw_from_shape next (rest' ++ [first; next])) as (b & -> & H). eauto.
        -- destruct (draw_from_shape (cmid first next) ((next :: rest') ++ [first])) as (b & -> & H). eauto.
    + right. destruct (snd (last (first :: rest) first)).
      * destruct (draw_from_shape (last (first :: rest) first) (removelast (first :: rest))) as (b & -> & H). eauto.
      * destruct (draw_from_shape (cmid (last (first :: rest) first) first) (first :: rest)) as (b & -> & H). eauto.
Qed.

(* ---- geometry: implied on-curve points ---- *)
Lemma emit_all_app a : forall st b,
  emit_all st (a ++ b) =
  let '(st1, o1) := emit_all st a in let '(st2, o2) := emit_all st1 b in (st2, o1 ++ o2).
Proof.
  induction a as [|p a IH]; intros st b.
  - cbn [app emit_all]. destruct (emit_all st b). reflexivity.
  - cbn [app emit_all]. destruct (emit st p) as [s1 o1]. rewrite IH.
    destruct (emit_all s1 a) as [s2 o2]. destruct (emit_all s2 b) as [s3 o3]. rewrite app_assoc. reflexivity.
Qed.

(* an on-curve point lying exactly midway between two off-curve points is redundant: emitting
   q, m, p and emitting q, p produce the same commands and the same pending state *)
Lemma implied_point_step st q m p rest :
  snd q = false -> snd p = false -> m = (cx_ (cmid q p), cy_ (cmid q p), true) ->
  emit_all st (q :: m :: p :: rest) = emit_all st (q :: p :: rest).
Proof.
  intros Hq Hp ->. cbn [emit_all].
  assert (E : exists o, emit st q = (Some q, o)).
  { destruct st as [s|]; cbn [emit]; rewrite Hq; eauto. }
  destruct E as [o ->]. cbn [emit snd]. rewrite Hp.
  match goal with |- context [emit_all ?s rest] => destruct (emit_all s rest) as [s2 o2] end. reflexivity.
Qed.

(* elide_then_reinsert: in a contour that starts with an on-curve point, dropping an on-curve point
   that is the exact midpoint of its two off-curve neighbours does not change the drawn path, in
   either path style (this is what write-fonts' implied-on-curve elision relies on) *)
Lemma elide_then_reinsert hb first pre q m p post :
  snd first = true -> snd q = false -> snd p = false -> m = (cx_ (cmid q p), cy_ (cmid q p), true) ->
  contour_to_path hb (first :: pre ++ q :: m :: p :: post) = contour_to_path hb (first :: pre ++ q :: p :: post).
Proof.
  intros Hf Hq Hp Hm. cbn [contour_to_path]. rewrite Hf. unfold draw_from.
  rewrite !emit_all_app. destruct (emit_all None pre) as [s1 o1].
  rewrite (implied_point_step s1 q m p post Hq Hp Hm). reflexivity.
Qed.

(* midpoints of integer points are exact in the half-unit coordinates the unscaled outline uses *)
Lemma cmid_exact a b : cx_ (cmid (2 * cx_ a, 2 * cy_ a, snd a) (2 * cx_ b, 2 * cy_ b, snd b)) = cx_ a + cx_ b
                    /\ cy_ (cmid (2 * cx_ a, 2 * cy_ a, snd a) (2 * cx_ b, 2 * cy_ b, snd b)) = cy_ a + cy_ b.
Proof.
  unfold cmid, cx_, cy_. cbn [fst snd].
  split; (match goal with |- Z.quot ?n 2 = ?r => replace n with (r * 2) by lia end; apply Z.quot_mul; lia).
Qed.

(* both styles agree whenever the contour starts on-curve *)
Lemma styles_agree_on_curve_start first rest : snd first = true ->
  contour_to_path true (first :: rest) = contour_to_path false (first :: rest).
Proof. intros H. cbn [contour_to_path]. rewrite H. reflexivity. Qed.
