(* C09 — executable model of the glyf/loca writer (write-fonts) and reader (read-fonts).
   Hand-written from the Rust source, function by function (the Rust function is named above each
   definition).  No proofs in this file.  Bytes are [list Z] (each 0..255).
   Outcomes: writer functions return [option]: None = panic in the overflow-checks +
   debug-assertions profile (the profile the harness is built with).  Reader functions return
   [rres]: ROk / RErr (a ReadError) / RPanic. *)
From Coq Require Import ZArith List Bool.
From FV Require Import Lib.RustInt.
Import ListNotations.
Open Scope Z_scope.

(* ------------------------------------------------------------------ *)
(* big-endian scalars (font-types raw.rs), explicit numerals for lia    *)
Definition u16be (v : Z) : list Z := [v / 256; v mod 256].
Definition i16be (v : Z) : list Z := u16be (v mod 65536).              (* two's complement *)
Definition u32be (v : Z) : list Z := [v / 16777216; (v / 65536) mod 256; (v / 256) mod 256; v mod 256].
Definition rd16 (a b : Z) : Z := a * 256 + b.
Definition s16 (v : Z) : Z := if v <? 32768 then v else v - 65536.     (* u16 bits as i16 *)
Definition s8 (v : Z) : Z := if v <? 128 then v else v - 256.
Definition w16 (z : Z) : Z := (z + 32768) mod 65536 - 32768.           (* i16::wrapping_add result *)
Definition in_i16 (z : Z) : bool := (-32768 <=? z) && (z <=? 32767).
Definition chk_i16 (z : Z) : option Z := if in_i16 z then Some z else None.

Definition zlen {A : Type} (l : list A) : Z := Z.of_nat (length l).

(* flags.contains(single-bit flag) *)
Definition has (f bit : Z) : bool := negb (Z.land f bit =? 0).

(* SimpleGlyphFlags *)
Definition ON_CURVE := 1.
Definition X_SHORT := 2.
Definition Y_SHORT := 4.
Definition REPEAT := 8.
Definition X_SAME_POS := 16.
Definition Y_SAME_POS := 32.

Definition point := (Z * Z * bool)%type.

(* ================================================================== *)
(*                          W R I T E R                                *)
(* ================================================================== *)

(* write-fonts simple.rs: enum CoordDelta + its FontWrite impl *)
Inductive cdelta := Skip | Short (b : Z) | Long (v : Z).
Definition cdelta_bytes (d : cdelta) : list Z :=
  match d with Skip => [] | Short b => [b] | Long v => i16be v end.

(* simple.rs: compute_point_deltas::flag_and_delta *)
Definition flag_and_delta (value short_flag same_or_pos : Z) : Z * cdelta :=
  if value =? 0 then (same_or_pos, Skip)
  else if (-255 <=? value) && (value <=? -1) then (short_flag, Short (- value))
  else if (1 <=? value) && (value <=? 255) then (Z.lor short_flag same_or_pos, Short value)
  else (0, Long value).

(* simple.rs: SimpleGlyph::compute_point_deltas (collected); `point.x - last_x` is i16 arithmetic *)
Fixpoint point_deltas (last_x last_y : Z) (pts : list point) : option (list (Z * cdelta * cdelta)) :=
  match pts with
  | [] => Some []
  | (x, y, on) :: r =>
      do dx <- chk_i16 (x - last_x);;
      do dy <- chk_i16 (y - last_y);;
      let flag := if on then ON_CURVE else 0 in
      let xfd := flag_and_delta dx X_SHORT X_SAME_POS in
      let yfd := flag_and_delta dy Y_SHORT Y_SAME_POS in
      do t <- point_deltas x y r;;
      Some ((Z.lor flag (Z.lor (fst xfd) (fst yfd)), snd xfd, snd yfd) :: t)
  end.

(* simple.rs: RepeatableFlag::iter_from_flags — the state machine; [prev] is the pending
   RepeatableFlag (flag, repeat); `decompose_single_repeat` just emits the same entry twice. *)
Definition clr_repeat (f : Z) : Z := Z.land f 247.      (* flag & !REPEAT_FLAG  (u8) *)
Definition set_repeat (f : Z) : Z := Z.lor f REPEAT.
Definition flush_entry (p : Z * Z) : list (Z * Z) :=
  let '(f, r) := p in
  if r =? 1 then [(clr_repeat f, 0); (clr_repeat f, 0)] else [(f, r)].
Fixpoint rle_go (prev : option (Z * Z)) (fs : list Z) : list (Z * Z) :=
  match fs with
  | [] => match prev with Some p => flush_entry p | None => [] end
  | flag :: r =>
      match prev with
      | None => rle_go (Some (flag, 0)) r
      | Some (lf, lr) =>
          if (clr_repeat lf =? flag) && (lr <? 255)
          then rle_go (Some (set_repeat lf, lr + 1)) r
          else flush_entry (lf, lr) ++ rle_go (Some (flag, 0)) r
      end
  end.
Definition rle (fs : list Z) : list (Z * Z) := rle_go None fs.

(* simple.rs: impl FontWrite for RepeatableFlag (with its debug_assert_eq!) *)
Definition entry_bytes (e : Z * Z) : option (list Z) :=
  let '(f, r) := e in
  if Bool.eqb (has f REPEAT) (0 <? r) then Some (if has f REPEAT then [f; r] else [f]) else None.
Fixpoint entries_bytes (es : list (Z * Z)) : option (list Z) :=
  match es with
  | [] => Some []
  | e :: r => do a <- entry_bytes e;; do b <- entries_bytes r;; Some (a ++ b)
  end.

(* simple.rs: the end-point loop of write_into: `(cur as u16 - 1)` *)
Fixpoint end_points (cur : Z) (cs : list (list point)) : option (list Z) :=
  match cs with
  | [] => Some []
  | c :: r =>
      let cur := cur + zlen c in
      do e <- chk_u 16 (cur mod 65536 - 1);;
      do t <- end_points cur r;;
      Some (e :: t)
  end.

(* TableWriter::pad_to_2byte_aligned relative to the bytes written so far ([before] bytes precede) *)
Definition pad2 (before : Z) (l : list Z) : list Z :=
  if (before + zlen l) mod 2 =? 0 then l else l ++ [0].

Definition bbox_t := (Z * Z * Z * Z)%type.
Definition bbox_bytes (b : bbox_t) : list Z :=
  let '(x0, y0, x1, y1) := b in i16be x0 ++ i16be y0 ++ i16be x1 ++ i16be y1.

Record sglyph := { g_bbox : bbox_t; g_contours : list (list point); g_instr : list Z }.

(* simple.rs: impl FontWrite for SimpleGlyph; [before] = bytes already in the TableWriter *)
Definition write_simple (before : Z) (g : sglyph) : option (list Z) :=
  let nc := zlen (g_contours g) in
  if 32767 <=? nc then None                                   (* assert!(contours.len() < i16::MAX) *)
  else if 65535 <=? zlen (g_instr g) then None                (* assert!(instructions.len() < u16::MAX) *)
  else if nc =? 0 then Some []
  else
    do ends <- end_points 0 (g_contours g);;
    do deltas <- point_deltas 0 0 (concat (g_contours g));;
    do fl <- entries_bytes (rle (map (fun d => fst (fst d)) deltas));;
    let xs := flat_map (fun d => cdelta_bytes (snd (fst d))) deltas in
    let ys := flat_map (fun d => cdelta_bytes (snd d)) deltas in
    Some (pad2 before (i16be nc ++ bbox_bytes (g_bbox g) ++ flat_map u16be ends
                  ++ u16be (zlen (g_instr g)) ++ g_instr g ++ fl ++ xs ++ ys)).

(* ---- composite.rs ---- *)
Inductive anchor := AOffset (x y : Z) | APoint (b c : Z).
(* user ComponentFlags: round_xy_to_grid, use_my_metrics, scaled_component_offset,
   unscaled_component_offset, overlap_compound *)
Definition uflags := (bool * bool * bool * bool * bool)%type.
Definition transform := (Z * Z * Z * Z)%type.          (* xx yx xy yy as F2Dot14 bits *)
Record comp := { c_gid : Z; c_anchor : anchor; c_uflags : uflags; c_tr : transform }.

(* CompositeGlyphFlags *)
Definition ARGS_WORDS := 1.
Definition ARGS_XY := 2.
Definition ROUND_XY := 4.
Definition HAVE_SCALE := 8.
Definition MORE := 32.
Definition HAVE_XY_SCALE := 64.
Definition HAVE_2X2 := 128.
Definition HAVE_INSTR := 256.
Definition USE_MY_METRICS := 512.
Definition OVERLAP := 1024.
Definition SCALED_OFF := 2048.
Definition UNSCALED_OFF := 4096.
Definition CFLAGS_ALL := 8175.       (* 0x1FEF: from_bits_truncate mask *)

(* read-fonts glyf.rs: Anchor::compute_flags *)
Definition in_i8 (z : Z) : bool := (-128 <=? z) && (z <? 128).
Definition anchor_flags (a : anchor) : Z :=
  match a with
  | AOffset x y => Z.lor ARGS_XY (if negb (in_i8 x) || negb (in_i8 y) then ARGS_WORDS else 0)
  | APoint b c => if (255 <? b) || (255 <? c) then ARGS_WORDS else 0
  end.
(* read-fonts glyf.rs: Transform::compute_flags; F2Dot14::ONE = 16384 *)
Definition transform_flags (t : transform) : Z :=
  let '(xx, yx, xy, yy) := t in
  if negb (yx =? 0) || negb (xy =? 0) then HAVE_2X2
  else if negb (xx =? yy) then HAVE_XY_SCALE
  else if negb (xx =? 16384) then HAVE_SCALE
  else 0.
(* composite.rs: impl From<ComponentFlags> for CompositeGlyphFlags *)
Definition uflags_bits (u : uflags) : Z :=
  let '(r, m, s, us, o) := u in
  Z.lor (Z.lor (Z.lor (Z.lor (if r then ROUND_XY else 0) (if m then USE_MY_METRICS else 0))
        (if s then SCALED_OFF else 0)) (if us then UNSCALED_OFF else 0)) (if o then OVERLAP else 0).
(* composite.rs: impl FontWrite for Anchor *)
Definition anchor_bytes (a : anchor) : list Z :=
  let two := has (anchor_flags a) ARGS_WORDS in
  match a with
  | AOffset x y => if two then i16be x ++ i16be y else [x mod 256; y mod 256]
  | APoint b c => if two then u16be b ++ u16be c else [b mod 256; c mod 256]
  end.
(* composite.rs: impl FontWrite for Transform *)
Definition transform_bytes (t : transform) : list Z :=
  let '(xx, yx, xy, yy) := t in
  let f := transform_flags t in
  if has f HAVE_2X2 then i16be xx ++ i16be yx ++ i16be xy ++ i16be yy
  else if has f HAVE_XY_SCALE then i16be xx ++ i16be yy
  else if has f HAVE_SCALE then i16be xx
  else [].
(* composite.rs: Component::compute_flag / Component::write_into *)
Definition comp_flags (c : comp) : Z :=
  Z.lor (Z.lor (anchor_flags (c_anchor c)) (transform_flags (c_tr c))) (uflags_bits (c_uflags c)).
Definition comp_bytes (c : comp) (extra : Z) : list Z :=
  u16be (Z.lor (comp_flags c) extra) ++ u16be (c_gid c) ++ anchor_bytes (c_anchor c) ++ transform_bytes (c_tr c).

Record cglyph := { cg_bbox : bbox_t; cg_comps : list comp; cg_instr : list Z }.

Fixpoint comps_bytes (cs : list comp) (last_flags : Z) : list Z :=
  match cs with
  | [] => []
  | [c] => comp_bytes c last_flags
  | c :: r => comp_bytes c MORE ++ comps_bytes r last_flags
  end.

(* composite.rs: impl FontWrite for CompositeGlyph; `(len as u16)` truncates *)
Definition write_composite (before : Z) (g : cglyph) : option (list Z) :=
  match cg_comps g with
  | [] => None                                          (* .expect("empty composites ...") *)
  | _ =>
    let has_i := negb (zlen (cg_instr g) =? 0) in
    Some (pad2 before (i16be (-1) ++ bbox_bytes (cg_bbox g)
          ++ comps_bytes (cg_comps g) (if has_i then HAVE_INSTR else 0)
          ++ (if has_i then u16be (zlen (cg_instr g) mod 65536) ++ cg_instr g else [])))
  end.

(* ---- glyf.rs Glyph, glyf_loca_builder.rs ---- *)
Inductive glyph := GEmpty | GSimple (g : sglyph) | GComposite (g : cglyph).

(* Validate impls: Some false = validation error (add_glyph returns Err, nothing is written) *)
Definition validate_glyph (g : glyph) : bool :=
  match g with
  | GEmpty => true
  | GSimple s => zlen (g_instr s) <=? 65535
  | GComposite c => negb (zlen (cg_comps c) =? 0) && (zlen (cg_instr c) <=? 65535)
  end.

(* the bytes one glyph appends to the shared TableWriter; [before] = bytes already in it *)
Definition write_glyph (before : Z) (g : glyph) : option (list Z) :=
  match g with
  | GEmpty => Some []
  | GSimple s => write_simple before s
  | GComposite c => write_composite before c
  end.

(* GlyfLocaBuilder::add_glyph folded over the glyph list; state = (glyf bytes, raw_loca) *)
Fixpoint builder_go (data : list Z) (loca : list Z) (gs : list glyph) : option (list Z * list Z) :=
  match gs with
  | [] => Some (data, loca)
  | g :: r =>
      if validate_glyph g then
        do b <- write_glyph (zlen data) g;;
        let data' := data ++ b in
        builder_go data' (loca ++ [zlen data' mod 4294967296]) r     (* pos as u32 *)
      else builder_go data loca r                                    (* Err: caller skips the glyph *)
  end.

(* loca.rs (write-fonts): LocaFormat::new — true = Long *)
Definition MAX_SHORT_LOCA := 131072.
Definition loca_is_long (offs : list Z) : bool :=
  negb ((last offs 0 <? MAX_SHORT_LOCA) && forallb (fun o => o mod 2 =? 0) offs).
(* loca.rs: impl FontWrite for Loca *)
Definition loca_bytes (offs : list Z) : list Z :=
  if loca_is_long offs then flat_map u32be offs
  else flat_map (fun o => u16be ((Z.shiftr o 1) mod 65536)) offs.

(* GlyfLocaBuilder::build *)
Definition build (gs : list glyph) : option (list Z * list Z * bool) :=
  do r <- builder_go [] [0] gs;;
  Some (fst r, snd r, loca_is_long (snd r)).

(* ================================================================== *)
(*                          R E A D E R                                *)
(* ================================================================== *)
Inductive rres (A : Type) := ROk (a : A) | RErr | RPanic.
Arguments ROk {A} a. Arguments RErr {A}. Arguments RPanic {A}.
Definition rbind {A B} (r : rres A) (f : A -> rres B) : rres B :=
  match r with ROk a => f a | RErr => RErr | RPanic => RPanic end.

(* Cursor: take n bytes or fail *)
Definition take (n : Z) (l : list Z) : option (list Z * list Z) :=
  if (0 <=? n) && (n <=? zlen l) then Some (firstn (Z.to_nat n) l, skipn (Z.to_nat n) l) else None.

Fixpoint rd16s (l : list Z) : list Z :=        (* &[BigEndian<u16>] *)
  match l with a :: b :: r => rd16 a b :: rd16s r | _ => [] end.

(* generated_glyf.rs: SimpleGlyph::read + field getters: (nc, bbox, end_pts, instructions, glyph_data) *)
Definition sraw := (Z * list Z * list Z * list Z * list Z)%type.
Definition read_simple (d : list Z) : option sraw :=
  do h <- take 10 d;;
  let nc := s16 (rd16 (nth 0 (fst h) 0) (nth 1 (fst h) 0)) in
  let bb := map s16 (rd16s (skipn 2 (fst h))) in
  do e <- take (2 * nc) (snd h);;          (* nc < 0: `as usize` is huge -> out of bounds *)
  do il <- take 2 (snd e);;
  do ins <- take (rd16 (nth 0 (fst il) 0) (nth 1 (fst il) 0)) (snd il);;
  Some (nc, bb, rd16s (fst e), fst ins, snd ins).

(* glyf.rs: resolve_coords_len; returns (flags_len, x_len, y_len); None = Err *)
Fixpoint resolve_go (data : list Z) (left pos xl yl : Z) : option (Z * Z * Z) :=
  if left <=? 0 then Some (pos, xl, yl) else
  match data with
  | [] => None
  | f :: rest =>
      let acc (reps : Z) :=
        let xl' := xl + (if has f X_SHORT then reps else 0)
                      + (if Z.land f (Z.lor X_SHORT X_SAME_POS) =? 0 then reps * 2 else 0) in
        let yl' := yl + (if has f Y_SHORT then reps else 0)
                      + (if Z.land f (Z.lor Y_SHORT Y_SAME_POS) =? 0 then reps * 2 else 0) in
        (xl', yl') in
      if has f REPEAT then
        match rest with
        | [] => None
        | r :: rest' =>
            let reps := r + 1 in
            if left <? reps then None
            else resolve_go rest' (left - reps) (pos + 2) (fst (acc reps)) (snd (acc reps))
        end
      else resolve_go rest (left - 1) (pos + 1) (fst (acc 1)) (snd (acc 1))
  end.
Definition resolve_coords_len (data : list Z) (points_total : Z) : option (Z * Z * Z) :=
  resolve_go data points_total 0 0 0.

(* glyf.rs: PointIter::advance_flags over the whole flags slice:
   `flag_repeats: u16 = repeat.unwrap_or(0) as u16 + 1` (1..=256, cannot overflow since 229e2c6) *)
Fixpoint expand_flags (bs : list Z) : list Z :=
  match bs with
  | [] => []
  | f :: rest =>
      if has f REPEAT then
        match rest with
        | [] => [f]                                    (* .then(read.ok()).flatten().unwrap_or(0) + 1 *)
        | r :: rest' => repeat f (Z.to_nat (r + 1)) ++ expand_flags rest'
        end
      else f :: expand_flags rest
  end.

(* glyf.rs: PointIter::advance_points, one axis; reads use unwrap_or(0), a failed read still advances *)
Fixpoint decode_coords (short_bit same_bit : Z) (flags : list Z) (data : list Z) (cur : Z) : list Z :=
  match flags with
  | [] => []
  | f :: r =>
      let short := has f short_bit in
      let same := has f same_bit in
      let '(delta, data') :=
        match short, same with
        | true, false => match data with b :: d' => (- b, d') | [] => (0, []) end
        | true, true => match data with b :: d' => (b, d') | [] => (0, []) end
        | false, false => match data with a :: b :: d' => (s16 (rd16 a b), d') | _ => (0, []) end
        | false, true => (0, data)
        end in
      let cur' := w16 (cur + delta) in
      cur' :: decode_coords short_bit same_bit r data' cur'
  end.

Fixpoint zip_points (xs ys fs : list Z) : list point :=
  match xs, ys, fs with
  | x :: xr, y :: yr, f :: fr => (x, y, has f ON_CURVE) :: zip_points xr yr fr
  | _, _, _ => []
  end.

(* glyf.rs: SimpleGlyph::points_impl + points(): None from points_impl = empty iterator *)
Definition points (ends glyph_data : list Z) : list point :=
  match ends with
  | [] => []
  | _ =>
    let lastp := last ends 0 in
    if 65535 <=? lastp then []                             (* checked_add(1)? *)
    else
      match resolve_coords_len glyph_data (lastp + 1) with
      | None => []
      | Some (fl, xl, yl) =>
          if zlen glyph_data <? fl + xl + yl then []
          else
            let flags := firstn (Z.to_nat fl) glyph_data in
            let rest := skipn (Z.to_nat fl) glyph_data in
            let xd := firstn (Z.to_nat xl) rest in
            let yd := skipn (Z.to_nat xl) rest in
            let efl := expand_flags flags in
            zip_points (decode_coords X_SHORT X_SAME_POS efl xd 0)
                       (decode_coords Y_SHORT Y_SAME_POS efl yd 0) efl
      end
  end.

(* ------------------------------------------------------------------ *)
(* glyf.rs: SimpleGlyph::read_points_fast::<i32> — the reader skrifa draws with.
   Results: FOk [(x, y, flag)] / FErrLen = Err(InvalidArrayLen) / FErrOob = Err(OutOfBounds).
   Slice indexing `flags[i]`, `flags[i..i + count]` cannot go out of bounds (`while i < n_points` with
   n = flags.len(), count <= n - i), so there is no panic outcome. *)
Inductive fres := FOk (pts : list (Z * Z * Z)) | FErrLen | FErrOob.
Definition w32 (z : Z) : Z := (z + 2147483648) mod 4294967296 - 2147483648.     (* i32::wrapping_add result *)

(* the flag loop (since /repo 6f0a45e): `while i < n_points { let flag_bits = flags_iter.next().ok_or(OutOfBounds)?; ..}`
   with flags_iter over ALL remaining bytes of glyph_data.  [fd] = what is left of flags_iter,
   [left] = n_points - i.  Some (k, w): k bytes consumed (= read_flags_bytes), w = the flags written to
   flags[i..] in order (always exactly [left] of them); None = Err(OutOfBounds) from either `next()`.
   `count = (next? + 1).min(n_points - i)`. *)
Fixpoint fast_flags (fd : list Z) (left : Z) : option (Z * list Z) :=
  if left <=? 0 then Some (0, []) else                      (* while i < n_points *)
  match fd with
  | [] => None
  | b :: rest =>
      if has b REPEAT then
        match rest with
        | [] => None
        | r :: rest' =>
            let count := Z.min (r + 1) left in
            match fast_flags rest' (left - count) with
            | None => None
            | Some (k, w) => Some (2 + k, repeat b (Z.to_nat count) ++ w)
            end
        end
      else
        match fast_flags rest (left - 1) with
        | None => None
        | Some (k, w) => Some (1 + k, b :: w)
        end
  end.

(* one coordinate pass over `flags.iter().zip(points)`: `cursor.read::<u8>()?` / `read::<i16>()?`,
   `x = x.wrapping_add(delta)` in i32.  Returns (coordinates, rest of the cursor); None = Err(OutOfBounds) *)
Fixpoint fast_coords (short_bit same_bit : Z) (flags : list Z) (data : list Z) (cur : Z) : option (list Z * list Z) :=
  match flags with
  | [] => Some ([], data)
  | f :: r =>
      let rd :=
        if has f short_bit then
          match data with b :: d' => Some (if has f same_bit then b else - b, d') | [] => None end
        else if negb (has f same_bit) then
          match data with a :: b :: d' => Some (s16 (rd16 a b), d') | _ => None end
        else Some (0, data) in
      match rd with
      | None => None
      | Some (delta, d') =>
          let cur' := w32 (cur + delta) in
          match fast_coords short_bit same_bit r d' cur' with
          | None => None
          | Some (cs, d'') => Some (cur' :: cs, d'')
          end
      end
  end.

Fixpoint zip3 (xs ys fs : list Z) : list (Z * Z * Z) :=
  match xs, ys, fs with
  | x :: xr, y :: yr, f :: fr => (x, y, f) :: zip3 xr yr fr
  | _, _, _ => []
  end.

(* SimpleGlyph::num_points *)
Definition num_points (ends : list Z) : Z := match ends with [] => 0 | _ => last ends 0 + 1 end.

(* read_points_fast(points, flags): n = num_points(), data = glyph_data(), plen = points.len(),
   fl0 = the caller's flags slice (since /repo 6f0a45e only its length matters: the loop either writes all
   n flags or returns Err(OutOfBounds), so every flag the coordinate passes read was written by the loop).
   `point_flags.0 &= ON_CURVE` (no spec_next). *)
Definition read_points_fast (n : Z) (data : list Z) (plen : Z) (fl0 : list Z) : fres :=
  if negb (plen =? n) || negb (zlen fl0 =? n) then FErrLen else
  match fast_flags data n with                     (* read_array::<u8>(cursor.remaining_bytes()) *)
  | None => FErrOob
  | Some (rfb, flags) =>
      let c := skipn (Z.to_nat rfb) data in                         (* cursor.advance_by(read_flags_bytes) *)
      match fast_coords X_SHORT X_SAME_POS flags c 0 with
      | None => FErrOob
      | Some (xs, c1) =>
          match fast_coords Y_SHORT Y_SAME_POS flags c1 0 with
          | None => FErrOob
          | Some (ys, _) => FOk (zip3 xs ys (map (fun f => Z.land f 1) flags))
          end
      end
  end.

(* write-fonts simple.rs: FromObjRef — contours rebuilt from end points; `end - last_end` is usize
   arithmetic (None = panic on decreasing end points) *)
Fixpoint split_contours (last_end : Z) (ends : list Z) (pts : list point) : option (list (list point)) :=
  match ends with
  | [] => Some []
  | e :: r =>
      let en := e + 1 in
      if en <? last_end then None else
      let count := Z.to_nat (en - last_end) in
      do t <- split_contours en r (skipn count pts);;
      Some (firstn count pts :: t)
  end.

(* glyf.rs: ComponentIter::next, iterated; a failed read ends the iteration silently *)
Definition rcomp := (Z * Z * anchor * transform)%type.        (* flags (truncated), gid, anchor, transform *)
Definition read_anchor (flags : Z) (d : list Z) : option (anchor * list Z) :=
  match has flags ARGS_XY, has flags ARGS_WORDS with
  | true, true => match d with a :: b :: c :: e :: r => Some (AOffset (s16 (rd16 a b)) (s16 (rd16 c e)), r) | _ => None end
  | true, false => match d with a :: b :: r => Some (AOffset (s8 a) (s8 b), r) | _ => None end
  | false, true => match d with a :: b :: c :: e :: r => Some (APoint (rd16 a b) (rd16 c e), r) | _ => None end
  | false, false => match d with a :: b :: r => Some (APoint a b, r) | _ => None end
  end.
Definition read_transform (flags : Z) (d : list Z) : option (transform * list Z) :=
  if has flags HAVE_SCALE then
    match d with a :: b :: r => let v := s16 (rd16 a b) in Some ((v, 0, 0, v), r) | _ => None end
  else if has flags HAVE_XY_SCALE then
    match d with a :: b :: c :: e :: r => Some ((s16 (rd16 a b), 0, 0, s16 (rd16 c e)), r) | _ => None end
  else if has flags HAVE_2X2 then
    match d with a :: b :: c :: e :: f :: g :: h :: i :: r =>
      Some ((s16 (rd16 a b), s16 (rd16 c e), s16 (rd16 f g), s16 (rd16 h i)), r) | _ => None end
  else Some ((16384, 0, 0, 16384), d).
Fixpoint read_comps (fuel : nat) (d : list Z) : list rcomp :=
  match fuel with
  | O => []
  | S k =>
      match d with
      | a :: b :: c :: e :: r =>
          let flags := Z.land (rd16 a b) CFLAGS_ALL in
          match read_anchor flags r with
          | None => []
          | Some (an, r1) =>
              match read_transform flags r1 with
              | None => []
              | Some (tr, r2) =>
                  (flags, rd16 c e, an, tr) :: (if has flags MORE then read_comps k r2 else [])
              end
          end
      | _ => []
      end
  end.

(* glyf.rs: ComponentGlyphIdFlagsIter + CompositeGlyph::count_and_instructions:
   returns (count, instructions); advance_by never fails, the next read does *)
Fixpoint skip_comps (fuel : nat) (d : list Z) (cur_flags : Z) (count : Z) : Z * Z * list Z :=
  match fuel with
  | O => (cur_flags, count, d)
  | S k =>
      match d with
      | a :: b :: r0 =>
          let flags := Z.land (rd16 a b) CFLAGS_ALL in
          match r0 with
          | _ :: _ :: r =>
              let n1 := if has flags ARGS_WORDS then 4 else 2 in
              let n2 := if has flags HAVE_SCALE then 2 else if has flags HAVE_XY_SCALE then 4
                        else if has flags HAVE_2X2 then 8 else 0 in
              let r' := skipn (Z.to_nat (n1 + n2)) r in
              (* a cursor advanced past the end stays past the end: all later reads fail *)
              let r' := if zlen r <? n1 + n2 then [] else r' in
              if has flags MORE then
                (if zlen r <? n1 + n2 then (flags, count + 1, []) else skip_comps k r' flags (count + 1))
              else (flags, count + 1, r')
          | _ => (flags, count, [])
          end
      | _ => (cur_flags, count, [])
      end
  end.
Definition composite_instructions (d : list Z) : Z * option (list Z) :=
  let '(cf, count, rest) := skip_comps (length d) d 0 0 in
  (count,
   if has cf HAVE_INSTR then
     match rest with
     | a :: b :: r => match take (rd16 a b) r with Some (i, _) => Some i | None => None end
     | _ => None
     end
   else None).

(* generated_glyf.rs: Glyph::read (dispatch on the sign of numberOfContours) *)
Inductive rglyph :=
| RSimple (nc : Z) (bb ends ins : list Z) (pts : list point)
| RComposite (bb : list Z) (comps : list rcomp) (ins : option (list Z)).
Definition read_glyph (d : list Z) : option rglyph :=    (* None = ReadError *)
  match d with
  | a :: b :: _ =>
      if 0 <=? s16 (rd16 a b) then
        do s <- read_simple d;;
        let '(nc, bb, ends, ins, gd) := s in
        Some (RSimple nc bb ends ins (points ends gd))
      else
        do h <- take 10 d;;
        Some (RComposite (map s16 (rd16s (skipn 2 (fst h)))) (read_comps (length (snd h)) (snd h))
                         (snd (composite_instructions (snd h))))
  | _ => None
  end.

(* read-fonts loca.rs: Loca::read / get_raw / get_glyf *)
Fixpoint rd32s (l : list Z) : list Z :=
  match l with a :: b :: c :: d :: r => ((a * 256 + b) * 256 + c) * 256 + d :: rd32s r | _ => [] end.
Definition loca_read (bytes : list Z) (is_long : bool) : option (list Z) :=   (* the raw entries *)
  if is_long then (if zlen bytes mod 4 =? 0 then Some (rd32s bytes) else None)
  else (if zlen bytes mod 2 =? 0 then Some (rd16s bytes) else None).
Definition get_raw (entries : list Z) (is_long : bool) (idx : Z) : option Z :=
  if idx <? 0 then None else
  match nth_error entries (Z.to_nat idx) with
  | Some v => Some (if is_long then v else v * 2)
  | None => None
  end.
(* Ok(None) = ROk None; slice bounds failure = RErr *)
Definition get_glyf_slice (entries : list Z) (is_long : bool) (glyf : list Z) (gid : Z) : rres (option (list Z)) :=
  match get_raw entries is_long gid, get_raw entries is_long (gid + 1) with
  | Some s, Some e =>
      if s =? e then ROk None
      else if (s <? e) && (e <=? zlen glyf)
      then ROk (Some (firstn (Z.to_nat (e - s)) (skipn (Z.to_nat s) glyf)))
      else RErr
  | _, _ => RErr
  end.

(* ================================================================== *)
(*      skrifa/src/outline/path.rs: outline -> path (quadratic part)    *)
(* ================================================================== *)
(* Points carry integer coordinates and the on-curve flag.  read-fonts masks the cubic bit out of the
   point flags (no `spec_next`), so only on-curve / off-curve-quad occur for glyf outlines.  In the
   unscaled setting the scaler stores font units in 26.6, i.e. every coordinate is a multiple of 64
   and `midpoint_i32` ((a wrapping+ b) / 2, truncating) is exact; the shards use half font units. *)
Definition cpt := (Z * Z * bool)%type.
Inductive pcmd := PM (x y : Z) | PL (x y : Z) | PQ (cx cy x y : Z) | PZ.
Definition cx_ (p : cpt) : Z := fst (fst p).
Definition cy_ (p : cpt) : Z := snd (fst p).
(* ContourPoint::midpoint: coordinates by PointCoord::midpoint, flags of `other` *)
Definition cmid (a b : cpt) : cpt := (Z.quot (cx_ a + cx_ b) 2, Z.quot (cy_ a + cy_ b) 2, snd b).
(* PendingState::emit, states Empty / PendingQuad *)
Definition emit (st : option cpt) (p : cpt) : option cpt * list pcmd :=
  match st with
  | None => if snd p then (None, [PL (cx_ p) (cy_ p)]) else (Some p, [])
  | Some q =>
      if snd p then (None, [PQ (cx_ q) (cy_ q) (cx_ p) (cy_ p)])
      else (Some p, [PQ (cx_ q) (cy_ q) (cx_ (cmid q p)) (cy_ (cmid q p))])
  end.
Fixpoint emit_all (st : option cpt) (ps : list cpt) : option cpt * list pcmd :=
  match ps with
  | [] => (st, [])
  | p :: r => let '(st1, o1) := emit st p in let '(st2, o2) := emit_all st1 r in (st2, o1 ++ o2)
  end.
(* PendingState::finish: a pending control point is closed with the start point as an on-curve point *)
Definition finish (st : option cpt) (start : cpt) : list pcmd :=
  match st with
  | None => [PZ]
  | Some _ => snd (emit st (cx_ start, cy_ start, true)) ++ [PZ]
  end.
Definition draw_from (start : cpt) (seq : list cpt) : list pcmd :=
  let '(st, o) := emit_all None seq in PM (cx_ start) (cy_ start) :: o ++ finish st start.
(* contour_to_path; [hb] = PathStyle::HarfBuzz, otherwise PathStyle::FreeType *)
Definition contour_to_path (hb : bool) (pts : list cpt) : list pcmd :=
  match pts with
  | [] => []
  | first :: rest =>
      if snd first then draw_from first rest
      else if hb then
        match rest with
        | [] => []                                       (* single point contour: nothing is drawn *)
        | next :: rest' =>
            if snd next then draw_from next (rest' ++ [first; next])      (* trailing_points *)
            else draw_from (cmid first next) (rest ++ [first])
        end
      else
        let lastp := last pts first in
        if snd lastp then draw_from lastp (removelast pts)            (* omit_last *)
        else draw_from (cmid lastp first) pts
  end.
(* to_path over the whole outline: contours = end point indices; None = ToPathError::ContourOrder *)
Fixpoint to_path_go (hb : bool) (pts : list cpt) (start_ix : Z) (ends : list Z) : option (list pcmd) :=
  match ends with
  | [] => Some []
  | e :: r =>
      if (e <? start_ix) || (zlen pts <=? e) then None
      else
        let c := firstn (Z.to_nat (e - start_ix + 1)) (skipn (Z.to_nat start_ix) pts) in
        do t <- to_path_go hb pts (e + 1) r;;
        Some (contour_to_path hb c ++ t)
  end.
Definition to_path (hb : bool) (pts : list cpt) (ends : list Z) : option (list pcmd) := to_path_go hb pts 0 ends.

(* ================================================================== *)
(*   write-fonts simple.rs: BezPath front end on integer coordinates    *)
(* ================================================================== *)
(* is_implicit_on_curve + is_mid_point for points with integer coordinates (ot_round is the identity
   and `isclose(mid, p1)` holds iff mid = p1 because |coordinates| <= 2^15): p1 is dropped iff it is
   on-curve, both neighbours are off-curve and p0 + p2 = 2 * p1 componentwise *)
Definition implicit (p0 p1 p2 : cpt) : bool :=
  snd p1 && negb (snd p0) && negb (snd p2)
  && (cx_ p0 + cx_ p2 =? 2 * cx_ p1) && (cy_ p0 + cy_ p2 =? 2 * cy_ p1).
(* InterpolatableContourBuilder::build for one glyph: neighbours taken cyclically in the ORIGINAL list
   (wrapping_prev / wrapping_next) *)
Fixpoint elide_go (first prev : cpt) (l : list cpt) : list cpt :=
  match l with
  | [] => []
  | p :: r => (if implicit prev p (hd first r) then [] else [p]) ++ elide_go first p r
  end.
Definition elide (c : list cpt) : list cpt :=
  match c with [] => [] | f :: _ => elide_go f (last c f) c end.

Definition cpt_eqb (a b : cpt) : bool := (cx_ a =? cx_ b) && (cy_ a =? cy_ b) && Bool.eqb (snd a) (snd b).
(* simple_glyphs_from_kurbo for a single path; elements: 0 x y = MoveTo, 1 x y = LineTo,
   2 cx cy x y = QuadTo, 3 = ClosePath, 4 .. = CurveTo.  State: finished builders (reversed),
   current builder (points in order).  None = Err(MalformedPath). *)
Fixpoint from_path (fuel : nat) (els : list Z) (done : list (list cpt)) (cur : option (list cpt))
  : option (list (list cpt)) :=
  match fuel with
  | O => None
  | S k =>
    match els with
    | [] => Some (rev (match cur with Some c => c :: done | None => done end))
    | 0 :: x :: y :: r =>
        from_path k r (match cur with Some c => c :: done | None => done end) (Some [(x, y, true)])
    | 1 :: x :: y :: r =>
        match cur with None => None | Some c => from_path k r done (Some (c ++ [(x, y, true)])) end
    | 2 :: a :: b :: x :: y :: r =>
        match cur with None => None | Some c => from_path k r done (Some (c ++ [(a, b, false); (x, y, true)])) end
    | 3 :: r =>
        match cur with
        | None => None
        | Some c =>
            let c' := match c with
                      | f :: _ :: _ => if cpt_eqb (last c f) f then removelast c else c
                      | _ => c
                      end in
            from_path k r done (Some c')
        end
    | _ => None                                   (* CurveTo: HasCubic *)
    end
  end.

Definition ser_pcmd (c : pcmd) : list Z :=
  match c with PM x y => [0; x; y] | PL x y => [1; x; y] | PQ a b x y => [2; a; b; x; y] | PZ => [3] end.
Fixpoint ends_of_lens (cur : Z) (lens : list Z) : list Z :=
  match lens with [] => [] | n :: r => (cur + n - 1) :: ends_of_lens (cur + n) r end.
Fixpoint half_unit_points (xs ys ons : list Z) : list cpt :=
  match xs, ys, ons with
  | x :: xr, y :: yr, o :: orr => (2 * x, 2 * y, negb (o =? 0)) :: half_unit_points xr yr orr
  | _, _, _ => []
  end.

(* ================================================================== *)
(*      correspondence case format (harness/src/bin/c09.rs)            *)
(* ================================================================== *)
(* every list in a case is a list of chunks: literal bytes or a run *)
Inductive chunk := B (l : list Z) | R (n v : Z).
Definition zl := list chunk.
Definition unchunk (c : zl) : list Z :=
  flat_map (fun k => match k with B l => l | R n v => repeat v (Z.to_nat n) end) c.

Fixpoint abs_points (x y : Z) (dxs dys ons : list Z) : list point :=
  match dxs, dys, ons with
  | dx :: xr, dy :: yr, o :: orr => (x + dx, y + dy, negb (o =? 0)) :: abs_points (x + dx) (y + dy) xr yr orr
  | _, _, _ => []
  end.
Fixpoint split_lens (lens : list Z) (pts : list point) : list (list point) :=
  match lens with
  | [] => []
  | n :: r => firstn (Z.to_nat n) pts :: split_lens r (skipn (Z.to_nat n) pts)
  end.
Fixpoint rel_points (x y : Z) (pts : list point) : list Z * list Z * list Z :=
  match pts with
  | [] => ([], [], [])
  | (px, py, on) :: r =>
      let '(a, b, c) := rel_points px py r in
      ((px - x) :: a, (py - y) :: b, (if on then 1 else 0) :: c)
  end.

Definition bbox_of (l : list Z) : bbox_t := (nth 0 l 0, nth 1 l 0, nth 2 l 0, nth 3 l 0).

Definition mk_simple (bb lens dxs dys ons ins : list Z) : sglyph :=
  {| g_bbox := bbox_of bb; g_contours := split_lens lens (abs_points 0 0 dxs dys ons); g_instr := ins |}.

(* composite components, 9 numbers each: gid akind a b uflags(5 bits r,m,s,us,o) xx yx xy yy *)
Fixpoint mk_comps (l : list Z) (fuel : nat) : list comp :=
  match fuel with
  | O => []
  | S k =>
    match l with
    | gid :: ak :: a :: b :: uf :: xx :: yx :: xy :: yy :: r =>
        {| c_gid := gid; c_anchor := if ak =? 0 then AOffset a b else APoint a b;
           c_uflags := (Z.testbit uf 0, Z.testbit uf 1, Z.testbit uf 2, Z.testbit uf 3, Z.testbit uf 4);
           c_tr := (xx, yx, xy, yy) |} :: mk_comps r k
    | _ => []
    end
  end.
Definition mk_composite (bb cs ins : list Z) : cglyph :=
  {| cg_bbox := bbox_of bb; cg_comps := mk_comps cs (length cs); cg_instr := ins |}.

Definition ser_rcomp (c : rcomp) : list Z :=
  let '(f, gid, an, (xx, yx, xy, yy)) := c in
  [f; gid] ++ (match an with AOffset x y => [0; x; y] | APoint b c => [1; b; c] end) ++ [xx; yx; xy; yy].

(* the decoded view of a byte string as lists of numbers:
   [[1]] = ReadError;
   [[2]; nc::bbox; ends; instr; [ptag]; dxs; dys; ons] ++ ser_fast_glyph  (ptag 1; the harness writes 0 if points() panicked)
   [[3]; bbox; comps; [itag]; instr]   (ser_decode, below) *)
(* read_points_fast on the same glyph: the harness hands it a DIRTY flags slice (pattern below, indexed by
   point number and total length) and a points slice of length n; then once more with n + 1 points.
   [[tag]; dxs; dys; flags; [tag of the wrong-length call]]: tag 4 Ok, 1 InvalidArrayLen, 2 OutOfBounds
   (harness: 0 panic, 3 any other error) *)
Fixpoint dirty_go (k : nat) (i : Z) : list Z :=      (* index kept in Z: Z.of_nat on big nats is linear *)
  match k with
  | O => []
  | S k' => nth (Z.to_nat (i mod 5)) [0; 54; 18; 36; 191] 0 :: dirty_go k' (i + 1)
  end.
Definition dirty_flags (len n : Z) : list Z := dirty_go (Z.to_nat n) len.   (* flag i = PAT[(i + len) mod 5] *)
Fixpoint rel3 (x y : Z) (pts : list (Z * Z * Z)) : list Z * list Z * list Z :=
  match pts with
  | [] => ([], [], [])
  | (px, py, f) :: r => let '(a, b, c) := rel3 px py r in ((px - x) :: a, (py - y) :: b, f :: c)
  end.
Definition fres_tag (r : fres) : Z := match r with FOk _ => 4 | FErrLen => 1 | FErrOob => 2 end.
Definition ser_fast_glyph (d : list Z) : list (list Z) :=
  match read_simple d with
  | None => []
  | Some (_, _, ends, _, gd) =>
      let n := num_points ends in
      let fl0 := dirty_flags (zlen d) n in
      let r := read_points_fast n gd n fl0 in
      let '(a, b, c) := match r with FOk pts => rel3 0 0 pts | _ => ([], [], []) end in
      [[fres_tag r]; a; b; c; [fres_tag (read_points_fast n gd (n + 1) fl0)]]
  end.
Definition ser_decode (d : list Z) : list (list Z) :=
  match read_glyph d with
  | None => [[1]]
  | Some (RSimple nc bb ends ins p) =>
      let '(a, b, c) := rel_points 0 0 p in [[2]; nc :: bb; ends; ins; [1]; a; b; c] ++ ser_fast_glyph d
  | Some (RComposite bb cs ins) =>
      [[3]; bb; flat_map ser_rcomp cs] ++
      (match ins with None => [[0]; []] | Some i => [[1]; i] end)
  end.

Definition ser_enc (e : option (list Z)) : list (list Z) :=
  match e with
  | None => [[0]]                                          (* writer panicked *)
  | Some [] => [[1]; []]                                   (* nothing written (no contours) *)
  | Some b => [[1]; b] ++ ser_decode b
  end.

(* glyph list for builder cases: each glyph = [[0]] | [[1]] ++ 6 lists | [[3]] ++ 3 lists *)
Fixpoint mk_glyphs (fuel : nat) (l : list (list Z)) : list glyph :=
  match fuel with
  | O => []
  | S k =>
    match l with
    | [0] :: r => GEmpty :: mk_glyphs k r
    | [1] :: bb :: lens :: dxs :: dys :: ons :: ins :: r => GSimple (mk_simple bb lens dxs dys ons ins) :: mk_glyphs k r
    | [3] :: bb :: cs :: ins :: r => GComposite (mk_composite bb cs ins) :: mk_glyphs k r
    | _ => []
    end
  end.

Fixpoint wsum (i acc : Z) (l : list Z) : Z :=
  match l with [] => acc | b :: r => wsum (i + 1) ((acc + i * b) mod 65521) r end.
Definition ser_slice (r : rres (option (list Z))) : list Z :=
  match r with
  | RPanic => [0] | RErr => [1] | ROk None => [2]
  | ROk (Some s) => [3; zlen s; wsum 1 0 s]
  end.

Definition zseq (n : nat) : list Z := map Z.of_nat (seq 0 n).

(* kind, inputs -> outputs *)
Definition eval_case (kind : Z) (ins : list (list Z)) : list (list Z) :=
  match kind, ins with
  | 1, [bb; lens; dxs; dys; ons; instr] =>            (* dump_table(&SimpleGlyph) then Glyph::read *)
      let g := mk_simple bb lens dxs dys ons instr in
      if validate_glyph (GSimple g) then ser_enc (write_simple 0 g) else [[2]]
  | 2, [bytes] => ser_decode bytes                        (* Glyph::read on arbitrary bytes *)
  | 3, [bb; cs; instr] =>
      let g := mk_composite bb cs instr in
      if validate_glyph (GComposite g) then ser_enc (write_composite 0 g) else [[2]]
  | 4, [offs] =>                                          (* Loca::new + dump_table + Loca::read + get_raw *)
      let long := loca_is_long offs in
      let bytes := loca_bytes offs in
      [[if long then 1 else 0]; bytes;
       match loca_read bytes long with
       | None => [-2]
       | Some es => map (fun i => match get_raw es long i with Some v => v | None => -1 end) (zseq (S (length offs)))
       end]
  | 5, gl =>                                              (* GlyfLocaBuilder *)
      match build (mk_glyphs (length gl) gl) with
      | None => [[0]]
      | Some (glyf, loca, long) =>
          let lb := loca_bytes loca in
          [[1]; glyf; [if long then 1 else 0]; lb;
           match loca_read lb long with
           | None => [-2]
           | Some es => flat_map (fun i => ser_slice (get_glyf_slice es long glyf i)) (zseq (length loca))
           end]
      end
  | 6, [lens; xs; ys; ons; [hb]; [shift]] =>            (* skrifa unscaled draw, pen stream in half units *)
      (* ScaledOutline::new: every x is translated by phantom[0].x = xMin - lsb (= shift) *)
      match to_path (negb (hb =? 0)) (half_unit_points (map (fun x => x - shift) xs) ys ons) (ends_of_lens 0 lens) with
      | None => [[-1]]
      | Some cmds => [flat_map ser_pcmd cmds]
      end
  | 7, [els] =>                                          (* SimpleGlyph::from_bezpath, integer coordinates *)
      match from_path (S (length els)) els [] None with
      | None => [[0]]
      | Some builders =>
          let cs : list (list cpt) := map elide builders in
          let pts : list cpt := concat cs in
          [[1]; map (fun c : list cpt => zlen c) cs; map cx_ pts; map cy_ pts; map (fun p : cpt => if snd p then 1 else 0) pts]
      end
  | _, _ => [[-999]]
  end.

Fixpoint zlist_eqb (a b : list Z) : bool :=
  match a, b with
  | [], [] => true
  | x :: r, y :: s => (x =? y) && zlist_eqb r s
  | _, _ => false
  end.
Fixpoint zll_eqb (a b : list (list Z)) : bool :=
  match a, b with
  | [], [] => true
  | x :: r, y :: s => zlist_eqb x y && zll_eqb r s
  | _, _ => false
  end.

Definition check_case (c : Z * list zl * list zl) : bool :=
  let '(kind, ins, outs) := c in
  zll_eqb (eval_case kind (map unchunk ins)) (map unchunk outs).
