(* C14 (codec half) — the decoder inverts the breadth-first serialisation, one level at a time. *)
From Coq Require Import ZArith List Bool Lia Arith PeanoNat ZifyNat ZifyBool Sorting.Sorted.
From FV Require Import Lib.RustInt C14.SbsModel C14.SbsProofs C14.SbsSpec.
Import ListNotations.
Open Scope Z_scope.
Ltac Zify.zify_post_hook ::= Z.to_euclidean_division_equations.

Lemma existsb_ext_in {A} (f g : A -> bool) l : (forall a, In a l -> f a = g a) -> existsb f l = existsb g l.
Proof.
  induction l as [|a l IH]; intros Hfg; [reflexivity|]. cbn [existsb].
  rewrite (Hfg a (or_introl eq_refl)), IH; [reflexivity|]. intros b Hb. apply Hfg. right. assumption.
Qed.

Section Lvl.
Variables bf H : Z.
Hypothesis Hbf : bf_valid bf = true.
Hypothesis HH : 1 <= H <= max_height bf.
Variable k : Z.
Hypothesis Hk : 1 <= k <= H.
Variable bitsf : Z -> Z.
Variables filledf skipf : Z -> bool.

Definition dep : Z := H - k + 1.
Definition serp (p : Z) : list Z := if skipf p then [] else if filledf p then [0] else [bitsf p].
Definition mkq (p : Z) : Z * Z := (p * bf ^ k, dep).
Definition pok (p : Z) : Prop :=
  0 <= p /\ (p + 1) * bf ^ k <= bf ^ H /\ (filledf p = false -> 0 < bitsf p < 2 ^ bf).
Definition inr (p x : Z) : bool :=
  (p * bf ^ k + 0 <=? x) && (x <=? p * bf ^ k + bf ^ (H - dep + 1) - 1 + 0) && (x <=? U32 - 1).
Definition fcover (x : Z) (plist : list Z) : bool :=
  existsb (fun p => negb (skipf p) && filledf p && inr p x) plist.
Definition kids (plist : list Z) : list (Z * Z) :=
  flat_map (fun p => if skipf p || filledf p then []
                     else map (fun j => (p * bf ^ k + j * bf ^ (H - dep), dep + 1)) (set_bits (bitsf p))) plist.
Definition lcover (x : Z) (plist : list Z) : bool :=
  existsb (fun p => negb (skipf p) && negb (filledf p) &&
                    existsb (fun j => x =? p * bf ^ k + j + 0) (set_bits (bitsf p))) plist.

Lemma pok_qwf p : pok p -> qwf bf H (mkq p).
Proof.
  intros (Hp & Hle & _). unfold qwf, mkq, dep. cbn [fst snd]. pose proof (bf_ge2 bf Hbf).
  replace (H - (H - k + 1) + 1) with k by lia.
  assert (0 < bf ^ k) by (apply Z.pow_pos_nonneg; lia). split; [lia|]. split; nia.
Qed.

Lemma level_inner : 1 < k -> forall plist, Forall (fun p => skipf p = false -> pok p) plist ->
  forall i qtail out rest, exists out',
    (forall x, in_ranges x out' = in_ranges x out || fcover x plist) /\
    aloop bf H 0 (U32 - 1) (flat_map serp plist ++ rest) i
          (map mkq (filter (fun p => negb (skipf p)) plist) ++ qtail) out =
    aloop bf H 0 (U32 - 1) rest (i + length (flat_map serp plist)) (qtail ++ kids plist) out'.
Proof.
  intros Hk1. pose proof (bf_ge2 bf Hbf) as Hb2.
  pose proof (bf_pow_max bf H Hbf ltac:(lia)) as HP.
  assert (HU : 2 ^ 35 < U64) by (vm_compute; reflexivity).
  assert (Hmx : 0 <= U32 - 1 < U32) by (unfold U32; lia).
  induction plist as [|p plist IH]; intros Hall i qtail out rest.
  - exists out. split; [intros; cbn; rewrite orb_false_r; reflexivity|].
    cbn [flat_map filter map app length kids]. rewrite app_nil_r, Nat.add_0_r. reflexivity.
  - inversion Hall as [|? ? Hp Hall']; subst.
    unfold fcover, kids. cbn [flat_map filter existsb]. fold (fcover) (kids plist).
    assert (Esp : serp p = if skipf p then [] else if filledf p then [0] else [bitsf p]) by reflexivity.
    rewrite !Esp. clear Esp. destruct (skipf p) eqn:Esk; cbn [negb andb orb app].
    + (* skipped: no queue entry, no node *)
      destruct (IH Hall' i qtail out rest) as (out' & Hm & E). exists out'. split; [exact Hm | exact E].
    + specialize (Hp eq_refl). pose proof (pok_qwf p Hp) as Hq. destruct Hp as (Hp0 & Hple & Hbits).
      cbn [map app]. destruct (filledf p) eqn:Efl; cbn [app length].
      * (* filled node *)
        unfold mkq at 1. cbn [aloop]. rewrite Z.eqb_refl.
        destruct (filled_range_spec bf H 0 (U32 - 1) Hbf HH ltac:(lia) Hmx (p * bf ^ k) dep Hq) as (r & Er & Hmr).
        rewrite Er.
        destruct (IH Hall' (S i) qtail (match r with Some rg => rg :: out | None => out end) rest) as (out' & Hm & E).
        exists out'. split.
        -- intros x. rewrite Hm.
           assert (Ec : in_ranges x (match r with Some rg => rg :: out | None => out end) =
                        in_ranges x (match r with Some rg => [rg] | None => [] end) || in_ranges x out)
             by (destruct r; cbn [in_ranges existsb]; rewrite ?orb_false_r; reflexivity).
           rewrite Ec, Hmr. unfold fcover, inr. cbn [negb andb orb].
           set (A := (p * bf ^ k + 0 <=? x) && (x <=? p * bf ^ k + bf ^ (H - dep + 1) - 1 + 0) && (x <=? U32 - 1)).
           clearbody A.
           repeat match goal with |- context [existsb ?f plist] => destruct (existsb f plist) end;
             destruct A, (in_ranges x out); reflexivity.
        -- destruct r as [rg|]; rewrite E; f_equal; lia.
      * (* standard node *)
        specialize (Hbits eq_refl). unfold mkq at 1. cbn [aloop].
        destruct (Z.eqb_spec (bitsf p) 0) as [E0|_]; [lia|].
        unfold dep at 1. destruct (Z.ltb_spec H (H - k + 1)); [lia|]. fold dep.
        assert (HPd : 0 < bf ^ (H - dep)) by (apply Z.pow_pos_nonneg; unfold dep; lia).
        assert (Hkk : bf ^ k = bf * bf ^ (H - dep)).
        { unfold dep. replace (H - (H - k + 1)) with (k - 1) by lia.
          replace k with (k - 1 + 1) at 1 by lia. apply pow_split; lia. }
        rewrite pow_u64_some by nia.
        assert (Hj : forall j, In j (set_bits (bitsf p)) -> 0 <= j < bf).
        { intros j Hin. apply (set_bits_in (bitsf p) bf j) in Hin; lia. }
        rewrite bits_loop_inner; [|unfold dep; lia|].
        2:{ intros j Hin. specialize (Hj j Hin). nia. }
        rewrite <- app_assoc.
        destruct (IH Hall' (S i) (qtail ++ map (fun j => (p * bf ^ k + j * bf ^ (H - dep), dep + 1)) (set_bits (bitsf p))) out rest)
          as (out' & Hm & E).
        exists out'. split; [exact Hm|]. rewrite E. rewrite <- app_assoc. f_equal. lia.
Qed.

Lemma level_leaf : k = 1 -> forall plist,
  Forall (fun p => skipf p = false ->
                   pok p /\ (filledf p = false -> forall j, In j (set_bits (bitsf p)) -> p * bf ^ k + j < U32)) plist ->
  forall i out rest, exists out',
    (forall x, in_ranges x out' = in_ranges x out || fcover x plist || lcover x plist) /\
    aloop bf H 0 (U32 - 1) (flat_map serp plist ++ rest) i
          (map mkq (filter (fun p => negb (skipf p)) plist)) out =
    ADone (i + length (flat_map serp plist)) [] out'.
Proof.
  intros HkH. pose proof (bf_ge2 bf Hbf) as Hb2.
  pose proof (bf_pow_max bf H Hbf ltac:(lia)) as HP.
  assert (HU : 2 ^ 35 < U64) by (vm_compute; reflexivity).
  assert (Hmx : 0 <= U32 - 1 < U32) by (unfold U32; lia).
  induction plist as [|p plist IH]; intros Hall i out rest.
  - exists out. split; [intros; cbn; rewrite !orb_false_r; reflexivity|].
    cbn [flat_map filter map app length]. rewrite Nat.add_0_r. destruct rest; reflexivity.
  - apply Forall_cons_iff in Hall. destruct Hall as (Hp & Hall').
    unfold fcover, lcover. cbn [flat_map filter existsb]. fold fcover lcover.
    assert (Esp : serp p = if skipf p then [] else if filledf p then [0] else [bitsf p]) by reflexivity.
    rewrite !Esp. clear Esp. destruct (skipf p) eqn:Esk; cbn [negb andb orb app].
    + destruct (IH Hall' i out rest) as (out' & Hm & E). exists out'. split; [exact Hm | exact E].
    + destruct (Hp eq_refl) as (Hpk & Hleaf). pose proof (pok_qwf p Hpk) as Hq. destruct Hpk as (Hp0 & Hple & Hbits).
      cbn [map app]. destruct (filledf p) eqn:Efl; cbn [app length].
      * unfold mkq at 1. cbn [aloop]. rewrite Z.eqb_refl.
        destruct (filled_range_spec bf H 0 (U32 - 1) Hbf HH ltac:(lia) Hmx (p * bf ^ k) dep Hq) as (r & Er & Hmr).
        rewrite Er.
        destruct (IH Hall' (S i) (match r with Some rg => rg :: out | None => out end) rest) as (out' & Hm & E).
        exists out'. split.
        -- intros x. rewrite Hm.
           assert (Ec : in_ranges x (match r with Some rg => rg :: out | None => out end) =
                        in_ranges x (match r with Some rg => [rg] | None => [] end) || in_ranges x out)
             by (destruct r; cbn [in_ranges existsb]; rewrite ?orb_false_r; reflexivity).
           rewrite Ec, Hmr. unfold fcover, lcover, inr. cbn [negb andb orb].
           set (A := (p * bf ^ k + 0 <=? x) && (x <=? p * bf ^ k + bf ^ (H - dep + 1) - 1 + 0) && (x <=? U32 - 1)).
           clearbody A.
           repeat match goal with |- context [existsb ?f plist] => destruct (existsb f plist) end;
             destruct A, (in_ranges x out); reflexivity.
        -- destruct r as [rg|]; rewrite E; f_equal; lia.
      * specialize (Hbits eq_refl). specialize (Hleaf eq_refl). unfold mkq at 1. cbn [aloop].
        destruct (Z.eqb_spec (bitsf p) 0) as [E0|_]; [lia|].
        unfold dep at 1. destruct (Z.ltb_spec H (H - k + 1)); [lia|]. fold dep.
        assert (Hd : dep = H) by (unfold dep; lia). rewrite Hd.
        rewrite pow_u64_some by (replace (H - H) with 0 by lia; cbn; unfold U64; lia).
        destruct (set_bits_sorted bf (bitsf p)) as (Hsb1 & Hsb2).
        assert (Hs0 : 0 <= p * bf ^ k) by (assert (0 < bf ^ k) by (apply Z.pow_pos_nonneg; lia); nia).
        destruct (bits_loop_leaf_spec bf H 0 (U32 - 1) ltac:(lia) Hmx (p * bf ^ k) (bf ^ (H - H)) Hs0 (set_bits (bitsf p))
                    (map mkq (filter (fun p0 => negb (skipf p0)) plist)) out Hsb1 Hsb2) as (b & out1 & E & Hmem & Hb).
        rewrite E.
        assert (Hbf0 : b = false).
        { destruct b; [|reflexivity]. destruct (Hb eq_refl) as (j0 & Hin0 & Hok0).
          specialize (Hleaf j0 Hin0). unfold okv, U32 in *. lia. }
        subst b.
        destruct (IH Hall' (S i) out1 rest) as (out' & Hm & E2).
        exists out'. split.
        -- intros x. rewrite Hm, Hmem.
           assert (Ee : existsb (fun j => okv 0 (U32 - 1) (p * bf ^ k + j) && (x =? p * bf ^ k + j + 0)) (set_bits (bitsf p)) =
                        existsb (fun j => x =? p * bf ^ k + j + 0) (set_bits (bitsf p))).
           { apply existsb_ext_in. intros j Hin. specialize (Hleaf j Hin). unfold okv, U32 in *.
             destruct (Z.leb_spec (p * bf ^ k + j + 0) (4294967296 - 1)); [reflexivity | lia]. }
           rewrite Ee. unfold fcover, lcover, inr. cbn [negb andb orb].
           repeat match goal with |- context [existsb ?f plist] => destruct (existsb f plist) end;
             destruct (existsb (fun j => x =? p * bf ^ k + j + 0) (set_bits (bitsf p))), (in_ranges x out); reflexivity.
        -- rewrite E2. f_equal. lia.
Qed.

End Lvl.
