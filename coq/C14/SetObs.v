(* C14 (set half) — observation theorems: iteration, length, first/last, equality *)
From Coq Require Import ZArith NArith List Bool Lia Sorting.Sorted Sorting.Permutation.
From FV Require Import C14.Model C14.Proofs.
Import ListNotations.
Open Scope N_scope.
Ltac Zify.zify_post_hook ::= Z.to_euclidean_division_equations.

(* ------------------------------------------------------------------------------------------ *)
(* BitPage::iter = strictly ascending enumeration of the set bits; len = their number          *)
(* ------------------------------------------------------------------------------------------ *)
Lemma testbit_1 n : N.testbit 1 n = (n =? 0).
Proof. change 1 with (2 ^ 0). rewrite N.pow2_bits_eqb. apply N.eqb_sym. Qed.

Lemma pos_bits_in q : forall base v, In v (pos_bits q base) <-> base <= v /\ N.testbit (Npos q) (v - base) = true.
Proof.
  induction q as [q IH|q IH|]; intros base v; cbn [pos_bits In].
  - rewrite IH. change (N.pos q~1) with (2 * N.pos q + 1).
    split.
    + intros [E|[H1 H2]].
      * subst. split; [lia|]. rewrite N.sub_diag. apply N.testbit_odd_0.
      * split; [lia|]. replace (v - base) with (N.succ (v - N.succ base)) by lia. rewrite N.testbit_odd_succ by lia. exact H2.
    + intros [H1 H2]. destruct (N.eq_dec base v) as [E|E]; [left; exact E|right].
      split; [lia|]. replace (v - base) with (N.succ (v - N.succ base)) in H2 by lia.
      rewrite N.testbit_odd_succ in H2 by lia. exact H2.
  - rewrite IH. change (N.pos q~0) with (2 * N.pos q).
    split.
    + intros [H1 H2]. split; [lia|]. replace (v - base) with (N.succ (v - N.succ base)) by lia.
      rewrite N.testbit_even_succ by lia. exact H2.
    + intros [H1 H2]. destruct (N.eq_dec base v) as [E|E].
      * subst. rewrite N.sub_diag, N.testbit_even_0 in H2. discriminate.
      * split; [lia|]. replace (v - base) with (N.succ (v - N.succ base)) in H2 by lia.
        rewrite N.testbit_even_succ in H2 by lia. exact H2.
  - rewrite testbit_1. split.
    + intros [E|[]]. subst. split; [lia|]. rewrite N.sub_diag. reflexivity.
    + intros [H1 H2]. left. apply N.eqb_eq in H2. lia.
Qed.

Lemma pos_bits_sorted q : forall base, StronglySorted N.lt (pos_bits q base).
Proof.
  induction q as [q IH|q IH|]; intros base; cbn [pos_bits].
  - constructor; [apply IH|]. apply Forall_forall. intros x Hx. apply pos_bits_in in Hx. lia.
  - apply IH.
  - constructor; constructor.
Qed.

Lemma page_iter_in p v : In v (page_iter p) <-> N.testbit p v = true.
Proof.
  destruct p as [|q]; cbn [page_iter].
  - rewrite N.bits_0. split; [intros []|discriminate].
  - rewrite pos_bits_in. rewrite N.sub_0_r. split; [intros [_ H]; exact H|intros H; split; [lia|exact H]].
Qed.

Lemma page_iter_sorted p : StronglySorted N.lt (page_iter p).
Proof. destruct p; [constructor|apply pos_bits_sorted]. Qed.

Lemma sorted_lt_NoDup l : StronglySorted N.lt l -> NoDup l.
Proof.
  induction 1 as [|x l Hs IH Hf]; constructor; [|exact IH].
  intros Hin. rewrite Forall_forall in Hf. specialize (Hf x Hin). lia.
Qed.

Lemma pos_popcount_length q : forall base, pos_popcount q = N.of_nat (length (pos_bits q base)).
Proof.
  induction q as [q IH|q IH|]; intros base; cbn [pos_popcount pos_bits length].
  - rewrite (IH (N.succ base)). lia.
  - apply IH.
  - reflexivity.
Qed.
Lemma popcount_length p : popcount p = N.of_nat (length (page_iter p)).
Proof. destruct p; [reflexivity|apply pos_popcount_length]. Qed.

(* cardinality bookkeeping of BitPage::insert / remove / insert_range *)
Lemma popcount_insert p v : popcount (page_insert p v) = popcount p + (if page_contains p v then 0 else 1).
Proof.
  rewrite !popcount_length. unfold page_contains, page_insert.
  destruct (N.testbit p (v mod 512)) eqn:Hb.
  - rewrite N.add_0_r. f_equal. apply Permutation_length.
    apply NoDup_Permutation; try (apply sorted_lt_NoDup, page_iter_sorted).
    intros x. rewrite !page_iter_in, N.lor_spec, testbit_bitmask.
    destruct (N.eqb_spec (v mod 512) x); [subst; rewrite Hb; tauto|rewrite orb_false_r; tauto].
  - assert (P : Permutation (page_iter (N.lor p (bitmask v))) (v mod 512 :: page_iter p)).
    { apply NoDup_Permutation.
      - apply sorted_lt_NoDup, page_iter_sorted.
      - constructor; [rewrite page_iter_in, Hb; discriminate|apply sorted_lt_NoDup, page_iter_sorted].
      - intros x. cbn [In]. rewrite !page_iter_in, N.lor_spec, testbit_bitmask.
        destruct (N.eqb_spec (v mod 512) x), (N.testbit p x); cbn [orb]; intuition congruence. }
    apply Permutation_length in P. rewrite P. cbn [length]. lia.
Qed.

Lemma popcount_remove p v : popcount (page_remove p v) + (if page_contains p v then 1 else 0) = popcount p.
Proof.
  rewrite !popcount_length. unfold page_contains, page_remove.
  destruct (N.testbit p (v mod 512)) eqn:Hb.
  - assert (P : Permutation (page_iter p) (v mod 512 :: page_iter (N.ldiff p (bitmask v)))).
    { apply NoDup_Permutation.
      - apply sorted_lt_NoDup, page_iter_sorted.
      - constructor; [|apply sorted_lt_NoDup, page_iter_sorted].
        rewrite page_iter_in, N.ldiff_spec, testbit_bitmask, N.eqb_refl, andb_false_r. discriminate.
      - intros x. cbn [In]. rewrite !page_iter_in, N.ldiff_spec, testbit_bitmask.
        destruct (N.eqb_spec (v mod 512) x); [subst; rewrite Hb|]; cbn [negb]; rewrite ?andb_true_r, ?andb_false_r; intuition congruence. }
    apply Permutation_length in P. rewrite P. cbn [length]. lia.
  - rewrite N.add_0_r. f_equal. apply Permutation_length.
    apply NoDup_Permutation; try (apply sorted_lt_NoDup, page_iter_sorted).
    intros x. rewrite !page_iter_in, N.ldiff_spec, testbit_bitmask.
    destruct (N.eqb_spec (v mod 512) x); [subst; rewrite Hb|]; cbn [negb]; rewrite ?andb_true_r, ?andb_false_r; intuition congruence.
Qed.

Lemma popcount_lor_mono p m : popcount p <= popcount (N.lor p m).
Proof.
  rewrite !popcount_length.
  assert (length (page_iter p) <= length (page_iter (N.lor p m)))%nat; [|lia].
  apply NoDup_incl_length; [apply sorted_lt_NoDup, page_iter_sorted|].
  intros x. rewrite !page_iter_in, N.lor_spec. intros ->. reflexivity.
Qed.

(* ------------------------------------------------------------------------------------------ *)
(* BitSet invariants: pages are 512-bit, cached length = sum of page lengths                   *)
(* ------------------------------------------------------------------------------------------ *)
Definition bounded (p : N) : Prop := forall i, 512 <= i -> N.testbit p i = false.
Definition pb (l : list (N * N)) : Prop := Forall (fun kp => bounded (snd kp)) l.
Definition wfb (s : bitset) : Prop := sorted (pgs s) /\ pb (pgs s) /\ blen s = sum_len (pgs s).

Lemma bounded_0 : bounded 0.
Proof. intros i _. apply N.bits_0. Qed.
Lemma bounded_bitmask v : bounded (bitmask v).
Proof. intros i Hi. rewrite testbit_bitmask. destruct (N.eqb_spec (v mod 512) i); [lia|reflexivity]. Qed.
Lemma bounded_range_mask a b : bounded (range_mask a b).
Proof.
  intros i Hi. unfold range_mask. destruct (b mod 512 <? a mod 512); [apply N.bits_0|].
  rewrite testbit_ones_shift. destruct (N.leb_spec (a mod 512) i), (N.ltb_spec i (a mod 512 + (b mod 512 - a mod 512 + 1))); cbn [andb]; try reflexivity; lia.
Qed.
Lemma bounded_lor p q : bounded p -> bounded q -> bounded (N.lor p q).
Proof. intros Hp Hq i Hi. rewrite N.lor_spec, Hp, Hq by exact Hi. reflexivity. Qed.
Lemma bounded_land p q : bounded p -> bounded (N.land p q).
Proof. intros Hp i Hi. rewrite N.land_spec, Hp by exact Hi. reflexivity. Qed.
Lemma bounded_ldiff p q : bounded p -> bounded (N.ldiff p q).
Proof. intros Hp i Hi. rewrite N.ldiff_spec, Hp by exact Hi. reflexivity. Qed.

Lemma pb_ensure m l : pb l -> pb (ensure m l).
Proof.
  induction l as [|[k p] t IH]; intros H; cbn [ensure].
  - constructor; [apply bounded_0|constructor].
  - inversion H; subst. destruct (m <? k); [constructor; [apply bounded_0|exact H]|].
    destruct (m =? k); [exact H|]. constructor; [assumption|apply IH; assumption].
Qed.
Lemma pb_upd m f l : (forall p, bounded p -> bounded (f p)) -> pb l -> pb (upd m f l).
Proof.
  intros Hf. induction l as [|[k p] t IH]; intros H; cbn [upd]; [constructor|].
  inversion H; subst. destruct (m =? k); constructor; cbn [snd] in *; try assumption; [apply Hf; assumption|apply IH; assumption].
Qed.
Lemma pget_bounded l m : pb l -> bounded (pget l m).
Proof.
  induction l as [|[k p] t IH]; intros H; [apply bounded_0|].
  inversion H; subst. rewrite pget_cons. destruct (m =? k); auto.
Qed.

Lemma sum_len_ensure m l : sum_len (ensure m l) = sum_len l.
Proof.
  induction l as [|[k p] t IH]; cbn [ensure]; [reflexivity|].
  destruct (m <? k); [reflexivity|]. destruct (m =? k); [reflexivity|].
  unfold sum_len in *. cbn [fold_right]. rewrite IH. reflexivity.
Qed.
Lemma sum_len_cons k p t : sum_len ((k, p) :: t) = popcount p + sum_len t.
Proof. reflexivity. Qed.
Lemma sum_len_upd m f l p : get m l = Some p -> sum_len (upd m f l) + popcount p = sum_len l + popcount (f p).
Proof.
  induction l as [|[k q] t IH]; cbn [get upd]; [discriminate|].
  destruct (m =? k).
  - intros [= ->]. rewrite !sum_len_cons. lia.
  - intros H. rewrite !sum_len_cons. specialize (IH H). lia.
Qed.
Lemma upd_none m f l : get m l = None -> upd m f l = l.
Proof.
  induction l as [|[k q] t IH]; cbn [get upd]; [reflexivity|].
  destruct (m =? k); [discriminate|]. intros H. rewrite IH by exact H. reflexivity.
Qed.

Lemma wfb_insert s v : wfb s -> wfb (fst (bs_insert s v)).
Proof.
  intros (Hs & Hb & Hl). unfold bs_insert. cbn [fst]. split; [|split]; cbn [pgs blen].
  - apply sorted_upd, sorted_ensure, Hs.
  - apply pb_upd; [|apply pb_ensure, Hb]. intros p Hp. apply bounded_lor; [exact Hp|apply bounded_bitmask].
  - destruct (get_ensure_some (major v) (pgs s)) as [p Hp].
    pose proof (sum_len_upd (major v) (fun p => page_insert p v) _ p Hp) as E.
    rewrite sum_len_ensure in E. rewrite popcount_insert in E.
    unfold pget. rewrite Hp. rewrite Hl. destruct (page_contains p v); cbn [negb]; lia.
Qed.
Lemma wfb_remove s v : wfb s -> wfb (fst (bs_remove s v)).
Proof.
  intros (Hs & Hb & Hl). unfold bs_remove. destruct (get (major v) (pgs s)) as [p|] eqn:Hp; cbn [fst]; [|repeat split; assumption].
  split; [|split]; cbn [pgs blen].
  - apply sorted_upd, Hs.
  - apply pb_upd; [|exact Hb]. intros q Hq. apply bounded_ldiff, Hq.
  - pose proof (sum_len_upd (major v) (fun p => page_remove p v) _ p Hp) as E.
    pose proof (popcount_remove p v) as E2. rewrite Hl. destruct (page_contains p v); lia.
Qed.

Lemma wfb_extend vs : forall s, wfb s -> wfb (bs_extend s vs).
Proof. unfold bs_extend. induction vs as [|v t IH]; intros s H; cbn [fold_left]; [exact H|]. apply IH, wfb_insert, H. Qed.
Lemma wfb_remove_all vs : forall s, wfb s -> wfb (bs_remove_all s vs).
Proof. unfold bs_remove_all. induction vs as [|v t IH]; intros s H; cbn [fold_left]; [exact H|]. apply IH, wfb_remove, H. Qed.

Lemma ins_range_loop_wf n : forall mj st en l added, sorted l -> pb l ->
  pb (fst (ins_range_loop n mj st en l added)) /\
  snd (ins_range_loop n mj st en l added) + sum_len l = added + sum_len (fst (ins_range_loop n mj st en l added)).
Proof.
  induction n as [|n IH]; intros mj st en l added Hs Hb; cbn [ins_range_loop fst snd]; [split; [exact Hb|lia]|].
  set (g := fun p => page_insert_range p (N.max st (major_start mj)) (N.min en (major_end mj))).
  set (l2 := upd mj g (ensure mj l)).
  assert (Hs2 : sorted l2) by (apply sorted_upd, sorted_ensure, Hs).
  assert (Hb2 : pb l2).
  { apply pb_upd; [|apply pb_ensure, Hb]. intros p Hp. apply bounded_lor; [exact Hp|apply bounded_range_mask]. }
  destruct (IH (mj + 1) st en l2 (added + (popcount (pget l2 mj) - popcount (pget (ensure mj l) mj))) Hs2 Hb2) as [H1 H2].
  split; [exact H1|]. clear H1 IH.
  destruct (get_ensure_some mj l) as [p Hp].
  pose proof (sum_len_upd mj g _ p Hp) as E. rewrite sum_len_ensure in E. fold l2 in E.
  assert (E1 : pget (ensure mj l) mj = p) by (unfold pget; rewrite Hp; reflexivity).
  assert (E2 : pget l2 mj = g p).
  { unfold l2. rewrite pget_upd, N.eqb_refl, Hp. reflexivity. }
  rewrite E1, E2 in *. pose proof (popcount_lor_mono p (range_mask (N.max st (major_start mj)) (N.min en (major_end mj)))) as M.
  change (N.lor p (range_mask (N.max st (major_start mj)) (N.min en (major_end mj)))) with (g p) in M.
  lia.
Qed.

Lemma wfb_insert_range s st en : wfb s -> wfb (bs_insert_range s st en).
Proof.
  intros (Hs & Hb & Hl). unfold bs_insert_range. destruct (en <? st); [repeat split; assumption|].
  pose proof (ins_range_loop_spec (N.to_nat (major en - major st + 1)) (major st) st en (pgs s) 0 0 Hs) as [S1 _].
  pose proof (ins_range_loop_wf (N.to_nat (major en - major st + 1)) (major st) st en (pgs s) 0 Hs Hb) as [B1 L1].
  destruct (ins_range_loop _ _ _ _ _ _) as [l added]. cbn [fst snd] in *.
  split; [exact S1|]. split; [exact B1|]. cbn [blen pgs]. lia.
Qed.

Lemma pb_rm_walk l : forall st en sm em, pb l -> pb (rm_range_walk l st en sm em).
Proof.
  induction l as [|[k p] t IH]; intros st en sm em H; cbn [rm_range_walk]; [constructor|].
  inversion H; subst. cbn [snd] in *.
  destruct (k <? sm); [constructor; [assumption|apply IH; assumption]|]. destruct (em <? k); [exact H|].
  destruct (k =? sm); [constructor; [apply bounded_ldiff; assumption|apply IH; assumption]|].
  destruct (k =? em); [constructor; [apply bounded_ldiff; assumption|assumption]|].
  constructor; [apply bounded_0|apply IH; assumption].
Qed.
Lemma wfb_remove_range s st en : wfb s -> wfb (bs_remove_range s st en).
Proof.
  intros (Hs & Hb & Hl). unfold bs_remove_range. destruct (en <? st); [repeat split; assumption|].
  split; [apply sorted_rm_walk, Hs|]. split; [apply pb_rm_walk, Hb|reflexivity].
Qed.

Lemma pb_merge pl pr f : (forall x y, bounded x -> bounded y -> bounded (f x y)) ->
  forall a b, pb a -> pb b -> pb (merge pl pr f a b).
Proof.
  intros Hf. induction a as [|[ka pa] ta IHa]; intros b Ha Hb.
  - rewrite merge_eq. destruct pr; [exact Hb|constructor].
  - induction b as [|[kb pb0] tb IHb].
    + rewrite merge_eq. destruct pl; [exact Ha|constructor].
    + rewrite merge_eq. inversion Ha; subst. inversion Hb; subst. cbn [snd] in *.
      destruct (ka ?= kb).
      * constructor; [apply Hf; assumption|]. apply IHa; assumption.
      * destruct pl; [constructor; [assumption|]|]; apply IHa; assumption.
      * destruct pr; [constructor; [assumption|]|]; apply IHb; assumption.
Qed.
Lemma wfb_process f a b : (forall x y, bounded x -> bounded y -> bounded (f x y)) ->
  wfb a -> wfb b -> wfb (process f a b).
Proof.
  intros Hf (Sa & Ba & _) (Sb & Bb & _). unfold process. split; [apply sorted_merge; assumption|].
  split; [apply pb_merge; assumption|reflexivity].
Qed.
Lemma wfb_union a b : wfb a -> wfb b -> wfb (bs_union a b).
Proof. apply wfb_process. intros; apply bounded_lor; assumption. Qed.
Lemma wfb_intersect a b : wfb a -> wfb b -> wfb (bs_intersect a b).
Proof. apply wfb_process. intros; apply bounded_land; assumption. Qed.
Lemma wfb_subtract a b : wfb a -> wfb b -> wfb (bs_subtract a b).
Proof. apply wfb_process. intros; apply bounded_ldiff; assumption. Qed.
Lemma wfb_reversed_subtract a b : wfb a -> wfb b -> wfb (bs_reversed_subtract a b).
Proof. apply wfb_process. intros; apply bounded_ldiff; assumption. Qed.
Lemma wfb_empty : wfb bs_empty.
Proof. split; [constructor|split; [constructor|reflexivity]]. Qed.

(* every operation sequence keeps both sets in this stronger invariant *)
Definition wfi (x : intset) : Prop := wfb (storage x).

Lemma fst_is_insert x v : storage (fst (is_insert x v)) =
  match x with Incl s => fst (bs_insert s v) | Excl s => fst (bs_remove s v) end.
Proof. destruct x as [s|s]; unfold is_insert; [destruct (bs_insert s v)|destruct (bs_remove s v)]; reflexivity. Qed.
Lemma fst_is_remove x v : storage (fst (is_remove x v)) =
  match x with Incl s => fst (bs_remove s v) | Excl s => fst (bs_insert s v) end.
Proof. destruct x as [s|s]; unfold is_remove; [destruct (bs_remove s v)|destruct (bs_insert s v)]; reflexivity. Qed.

Lemma apply_op_wfi st o : wfi (fst st) -> wfi (snd st) -> wfi (fst (fst (apply_op st o))) /\ wfi (snd (fst (apply_op st o))).
Proof.
  intros H1 H2.
  assert (Hsel : forall t, wfi (sel t st)) by (intros [|]; assumption).
  assert (Hput : forall t x, wfi x -> wfi (fst (put t st x)) /\ wfi (snd (put t st x))).
  { intros [|] x Hx; cbn; split; assumption. }
  destruct o as [t v|t v|t a b|t a b|t vs|t vs|t|t|t|t|t|t]; cbn [apply_op].
  - destruct (is_insert (sel t st) v) as [x r] eqn:E. cbn [fst]. apply Hput.
    replace x with (fst (is_insert (sel t st) v)) by (rewrite E; reflexivity).
    unfold wfi. rewrite fst_is_insert. specialize (Hsel t). destruct (sel t st); [apply wfb_insert|apply wfb_remove]; exact Hsel.
  - destruct (is_remove (sel t st) v) as [x r] eqn:E. cbn [fst]. apply Hput.
    replace x with (fst (is_remove (sel t st) v)) by (rewrite E; reflexivity).
    unfold wfi. rewrite fst_is_remove. specialize (Hsel t). destruct (sel t st); [apply wfb_remove|apply wfb_insert]; exact Hsel.
  - cbn [fst]. apply Hput. specialize (Hsel t). destruct (sel t st); [apply wfb_insert_range|apply wfb_remove_range]; exact Hsel.
  - cbn [fst]. apply Hput. specialize (Hsel t). destruct (sel t st); [apply wfb_remove_range|apply wfb_insert_range]; exact Hsel.
  - cbn [fst]. apply Hput. specialize (Hsel t). destruct (sel t st); [apply wfb_extend|apply wfb_remove_all]; exact Hsel.
  - cbn [fst]. apply Hput. specialize (Hsel t). destruct (sel t st); [apply wfb_remove_all|apply wfb_extend]; exact Hsel.
  - cbn [fst]. apply Hput. pose proof (Hsel t) as Ha. pose proof (Hsel (negb t)) as Hb.
    destruct (sel t st), (sel (negb t) st); unfold wfi in *; cbn [storage is_union is_invert] in *;
      [apply wfb_union|apply wfb_reversed_subtract|apply wfb_subtract|apply wfb_intersect]; assumption.
  - cbn [fst]. apply Hput. pose proof (Hsel t) as Ha. pose proof (Hsel (negb t)) as Hb.
    destruct (sel t st), (sel (negb t) st); unfold wfi in *; cbn [storage is_intersect is_invert] in *;
      [apply wfb_intersect|apply wfb_subtract|apply wfb_reversed_subtract|apply wfb_union]; assumption.
  - cbn [fst]. apply Hput. pose proof (Hsel t) as Ha. pose proof (Hsel (negb t)) as Hb.
    destruct (sel t st), (sel (negb t) st); unfold wfi in *; cbn [storage is_subtract is_invert] in *;
      [apply wfb_subtract|apply wfb_intersect|apply wfb_union|apply wfb_reversed_subtract]; assumption.
  - cbn [fst]. apply Hput. specialize (Hsel t). destruct (sel t st); exact Hsel.
  - cbn [fst]. apply Hput. apply wfb_empty.
  - cbn [fst]. apply Hput. apply Hsel.
Qed.

Lemma run_wfi_from ops : forall st, wfi (fst st) -> wfi (snd st) ->
  wfi (fst (fold_left (fun st o => fst (apply_op st o)) ops st)) /\
  wfi (snd (fold_left (fun st o => fst (apply_op st o)) ops st)).
Proof.
  induction ops as [|o t IH]; intros st H1 H2; cbn [fold_left]; [split; assumption|].
  destruct (apply_op_wfi st o H1 H2). apply IH; assumption.
Qed.
Lemma run_wfi ops : wfi (fst (run ops)) /\ wfi (snd (run ops)).
Proof. apply run_wfi_from; apply wfb_empty. Qed.

(* ------------------------------------------------------------------------------------------ *)
(* BitSet::iter = strictly ascending enumeration of exactly the members; len = its length      *)
(* ------------------------------------------------------------------------------------------ *)
Definition iter_pages (l : list (N * N)) : list N :=
  flat_map (fun kp => map (N.add (major_start (fst kp))) (page_iter (snd kp))) l.

Lemma sorted_app (a b : list N) : StronglySorted N.lt a -> StronglySorted N.lt b ->
  (forall x y, In x a -> In y b -> x < y) -> StronglySorted N.lt (a ++ b).
Proof.
  induction a as [|h t IH]; intros Ha Hb Hc; cbn [app]; [exact Hb|].
  inversion Ha; subst. constructor.
  - apply IH; [assumption|assumption|]. intros x y Hx Hy. apply Hc; [right; exact Hx|exact Hy].
  - apply Forall_forall. intros x Hx. apply in_app_iff in Hx as [Hx|Hx].
    + rewrite Forall_forall in H2. apply H2, Hx.
    + apply Hc; [left; reflexivity|exact Hx].
Qed.
Lemma sorted_map_add k l : StronglySorted N.lt l -> StronglySorted N.lt (map (N.add k) l).
Proof.
  induction 1 as [|x l Hs IH Hf]; cbn [map]; constructor; [exact IH|].
  apply Forall_forall. intros y Hy. apply in_map_iff in Hy as [z [<- Hz]].
  rewrite Forall_forall in Hf. specialize (Hf z Hz). lia.
Qed.

Lemma page_iter_lt512 p x : bounded p -> In x (page_iter p) -> x < 512.
Proof.
  intros Hb Hx. apply page_iter_in in Hx. destruct (N.lt_ge_cases x 512) as [H|H]; [exact H|].
  rewrite Hb in Hx by exact H. discriminate.
Qed.

Lemma iter_pages_lb l v x : Forall (fun kp => x < fst kp) l -> In v (iter_pages l) -> (x + 1) * 512 <= v.
Proof.
  induction l as [|[k p] t IH]; intros Hf Hv; cbn [iter_pages flat_map] in Hv; [destruct Hv|].
  inversion Hf; subst. cbn [fst snd] in *. apply in_app_iff in Hv as [Hv|Hv].
  - apply in_map_iff in Hv as [y [<- Hy]]. unfold major_start. nia.
  - apply IH; assumption.
Qed.

Lemma iter_pages_in l v : sorted l -> pb l ->
  (In v (iter_pages l) <-> N.testbit (pget l (v / 512)) (v mod 512) = true).
Proof.
  induction l as [|[k p] t IH]; intros Hs Hb; cbn [iter_pages flat_map].
  - rewrite pget_nil, N.bits_0. split; [intros []|discriminate].
  - apply sorted_inv in Hs as [Ht Hf]. inversion Hb; subst. cbn [fst snd] in *.
    fold (iter_pages t). rewrite in_app_iff, in_map_iff, pget_cons. unfold major_start. split.
    + intros [[x [E Hx]]|Hv].
      * pose proof (page_iter_lt512 p x H1 Hx) as Hlt. apply page_iter_in in Hx.
        assert (v / 512 = k) by lia. assert (v mod 512 = x) by lia.
        subst k. rewrite N.eqb_refl. subst x. exact Hx.
      * pose proof (iter_pages_lb t v k Hf Hv) as Hlb.
        destruct (N.eqb_spec (v / 512) k); [lia|]. apply IH; assumption.
    + destruct (N.eqb_spec (v / 512) k) as [E|E]; intros Hv.
      * left. exists (v mod 512). split; [lia|]. apply page_iter_in, Hv.
      * right. apply IH; assumption.
Qed.

Lemma iter_pages_sorted l : sorted l -> pb l -> StronglySorted N.lt (iter_pages l).
Proof.
  induction l as [|[k p] t IH]; intros Hs Hb; cbn [iter_pages flat_map]; [constructor|].
  apply sorted_inv in Hs as [Ht Hf]. inversion Hb; subst. cbn [fst snd] in *. fold (iter_pages t).
  apply sorted_app.
  - apply sorted_map_add, page_iter_sorted.
  - apply IH; assumption.
  - intros x y Hx Hy. apply in_map_iff in Hx as [z [<- Hz]].
    pose proof (page_iter_lt512 p z H1 Hz). pose proof (iter_pages_lb t y k Hf Hy). unfold major_start. lia.
Qed.

Lemma sum_len_iter l : sum_len l = N.of_nat (length (iter_pages l)).
Proof.
  induction l as [|[k p] t IH]; [reflexivity|].
  rewrite sum_len_cons. cbn [iter_pages flat_map]. fold (iter_pages t).
  rewrite app_length, map_length, IH, popcount_length. cbn [snd]. lia.
Qed.

Lemma bs_iter_spec s : wfb s ->
  StronglySorted N.lt (bs_iter s) /\
  (forall v, In v (bs_iter s) <-> bs_contains s v = true) /\
  blen s = N.of_nat (length (bs_iter s)).
Proof.
  intros (Hs & Hb & Hl). change (bs_iter s) with (iter_pages (pgs s)). split; [|split].
  - apply iter_pages_sorted; assumption.
  - intros v. rewrite bs_contains_pget. apply iter_pages_in; assumption.
  - rewrite Hl. apply sum_len_iter.
Qed.

(* head of a strictly ascending list is its minimum; head of its reversal is its maximum *)
Lemma sorted_hd_min l m : StronglySorted N.lt l -> hd_error l = Some m -> In m l /\ forall x, In x l -> m <= x.
Proof.
  intros Hs Hh. destruct l as [|a t]; [discriminate|]. injection Hh as ->. split; [left; reflexivity|].
  inversion Hs; subst. intros x [<-|Hx]; [lia|]. rewrite Forall_forall in H2. specialize (H2 x Hx). lia.
Qed.
Lemma sorted_rev_hd_max l m : StronglySorted N.lt l -> hd_error (rev l) = Some m -> In m l /\ forall x, In x l -> x <= m.
Proof.
  induction 1 as [|a t Hs IH Hf]; cbn [rev]; [discriminate|].
  intros Hh. destruct (rev t) as [|b r] eqn:Er.
  - assert (t = []) by (apply (f_equal (@rev N)) in Er; rewrite rev_involutive in Er; exact Er). subst t.
    cbn in Hh. injection Hh as ->. split; [left; reflexivity|]. intros x [<-|[]]. lia.
  - cbn in Hh. injection Hh as ->. destruct (IH eq_refl) as [Hin Hmax]. split; [right; exact Hin|].
    intros x [<-|Hx]; [|apply Hmax, Hx]. rewrite Forall_forall in Hf. specialize (Hf m Hin). lia.
Qed.
Lemma hd_firstn1 {A} (l : list A) : hd_error (firstn 1 l) = hd_error l.
Proof. destruct l; reflexivity. Qed.

(* ------------------------------------------------------------------------------------------ *)
(* IntSet observations against the mathematical set                                            *)
(* ------------------------------------------------------------------------------------------ *)
(* the stored bit set enumerates the members (inclusive) or the non-members (inverted) *)
Lemma stored_enumeration x f : Rep x f -> wfi x ->
  StronglySorted N.lt (bs_iter (storage x)) /\
  (forall v, In v (bs_iter (storage x)) <-> f v = negb (is_inverted x)) /\
  blen (storage x) = N.of_nat (length (bs_iter (storage x))).
Proof.
  intros [_ Hc] Hw. destruct (bs_iter_spec (storage x) Hw) as (H1 & H2 & H3).
  split; [exact H1|]. split; [|exact H3]. intros v. rewrite H2, <- Hc.
  destruct x as [s|s]; cbn [storage is_contains is_inverted negb]; [tauto|].
  destruct (bs_contains s v); cbn; split; congruence.
Qed.

(* inclusive sets: iteration (any prefix), first, last, len, is_empty *)
Lemma incl_iter_spec dmax s f k : Rep (Incl s) f -> wfi (Incl s) ->
  is_iter dmax (Incl s) k = firstn k (bs_iter s) /\
  is_iter_back dmax (Incl s) k = firstn k (rev (bs_iter s)) /\
  StronglySorted N.lt (bs_iter s) /\ (forall v, In v (bs_iter s) <-> f v = true) /\
  is_len dmax (Incl s) = N.of_nat (length (bs_iter s)).
Proof.
  intros HR Hw. destruct (stored_enumeration _ _ HR Hw) as (H1 & H2 & H3). cbn [storage is_inverted negb] in *.
  repeat split; try reflexivity; try assumption; apply H2.
Qed.

Lemma incl_first_spec dmax s f : Rep (Incl s) f -> wfi (Incl s) ->
  match is_first dmax (Incl s) with
  | Some m => f m = true /\ forall v, f v = true -> m <= v
  | None => forall v, f v = false
  end.
Proof.
  intros HR Hw. destruct (stored_enumeration _ _ HR Hw) as (H1 & H2 & _). cbn [storage is_inverted negb] in *.
  unfold is_first, is_iter. rewrite hd_firstn1. destruct (hd_error (bs_iter s)) as [m|] eqn:E.
  - destruct (sorted_hd_min _ _ H1 E) as [Hin Hmin]. split; [apply H2, Hin|]. intros v Hv. apply Hmin, H2, Hv.
  - destruct (bs_iter s) as [|a t] eqn:El; [|discriminate]. intros v. destruct (f v) eqn:Ef; [|reflexivity].
    apply H2 in Ef. destruct Ef.
Qed.

Lemma incl_last_spec dmax s f : Rep (Incl s) f -> wfi (Incl s) ->
  match is_last dmax (Incl s) with
  | Some m => f m = true /\ forall v, f v = true -> v <= m
  | None => forall v, f v = false
  end.
Proof.
  intros HR Hw. destruct (stored_enumeration _ _ HR Hw) as (H1 & H2 & _). cbn [storage is_inverted negb] in *.
  unfold is_last, is_iter_back. rewrite hd_firstn1. destruct (hd_error (rev (bs_iter s))) as [m|] eqn:E.
  - destruct (sorted_rev_hd_max _ _ H1 E) as [Hin Hmax]. split; [apply H2, Hin|]. intros v Hv. apply Hmax, H2, Hv.
  - assert (El : bs_iter s = []).
    { destruct (rev (bs_iter s)) eqn:Er; [|discriminate]. apply (f_equal (@rev N)) in Er. rewrite rev_involutive in Er. exact Er. }
    intros v. destruct (f v) eqn:Ef; [|reflexivity]. apply H2 in Ef. rewrite El in Ef. destruct Ef.
Qed.

(* len: the number of members (inclusive) / count minus the number of excluded values (inverted) *)
Lemma len_spec dmax x f : Rep x f -> wfi x ->
  exists l, StronglySorted N.lt l /\ (forall v, In v l <-> f v = negb (is_inverted x)) /\
            is_len dmax x = if is_inverted x then dmax + 1 - N.of_nat (length l) else N.of_nat (length l).
Proof.
  intros HR Hw. destruct (stored_enumeration _ _ HR Hw) as (H1 & H2 & H3).
  exists (bs_iter (storage x)). split; [exact H1|]. split; [exact H2|].
  destruct x as [s|s]; cbn [is_len is_inverted storage] in *; rewrite H3; reflexivity.
Qed.

Lemma incl_is_empty_spec dmax s f : Rep (Incl s) f -> wfi (Incl s) ->
  (is_is_empty dmax (Incl s) = true <-> forall v, f v = false).
Proof.
  intros HR Hw. destruct (stored_enumeration _ _ HR Hw) as (H1 & H2 & H3). cbn [storage is_inverted negb] in *.
  unfold is_is_empty. cbn [is_len]. rewrite H3. split.
  - intros E. apply N.eqb_eq in E. destruct (bs_iter s) as [|a t]; [|cbn in E; lia].
    intros v. destruct (f v) eqn:Ef; [|reflexivity]. apply H2 in Ef. destruct Ef.
  - intros Hall. destruct (bs_iter s) as [|a t]; [reflexivity|].
    assert (f a = true) by (apply H2; left; reflexivity). rewrite Hall in H. discriminate.
Qed.

(* all of the above after any operation sequence *)
Lemma run_rep_wfi ops :
  Rep (fst (run ops)) (fst (run_spec ops)) /\ wfi (fst (run ops)) /\
  Rep (snd (run ops)) (snd (run_spec ops)) /\ wfi (snd (run ops)).
Proof.
  destruct (intset_refines_all ops) as (W1 & W2 & C). destruct (run_wfi ops) as [I1 I2].
  split; [split; [exact W1|intros v; apply C]|]. split; [exact I1|].
  split; [split; [exact W2|intros v; apply C]|exact I2].
Qed.
