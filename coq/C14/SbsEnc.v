(* C14 (codec half) — analysis of the encoder: create_layer as explicit groups, their bits,
   the flat node vector after all layers. *)
From Coq Require Import ZArith List Bool Lia Arith PeanoNat ZifyNat ZifyBool Sorting.Sorted.
From FV Require Import Lib.RustInt C14.SbsModel C14.SbsProofs C14.SbsSpec.
Import ListNotations.
Open Scope Z_scope.
Ltac Zify.zify_post_hook ::= Z.to_euclidean_division_equations.

Section Enc.
Variable bf : Z.
Hypothesis Hbf : bf_valid bf = true.

Definition isf_of (filled : option (list Z)) (v : Z) : bool :=
  match filled with None => true | Some f => zmem v f end.

(* the (bits, parent, filled bits) of the nodes committed while folding over the descending list l,
   starting with an open node (cb, cp, fbv) *)
Fixpoint groups (isf : Z -> bool) (l : list Z) (cb cp fbv : Z) : list (Z * Z * Z) :=
  match l with
  | [] => [(cb, cp, fbv)]
  | v :: r =>
      let m := Z.shiftl 1 (v mod bf) in
      if cp =? v / bf then groups isf r (Z.lor cb m) cp (if isf v then Z.lor fbv m else fbv)
      else (cb, cp, fbv) :: groups isf r (Z.lor 0 m) (v / bf) (if isf v then Z.lor 0 m else 0)
  end.

(* commit on the triple (up, upf, nodes) for an explicit group *)
Definition T3 := (list Z * list Z * list node)%type.
Definition commit_g (cc il : nat) (g : Z * Z * Z) (t : T3) : option T3 :=
  let '(bits, p, fbv) := g in
  let '(u, uf, nds) := t in
  if fbv =? u32_mask bf then
    if Nat.leb cc il then
      if U32 <=? (p + 1) * bf then None else
      Some (p :: u, p :: uf, mark_children bf p 0 (il - cc) il nds ++ [(bits, p, 1)])
    else Some (p :: u, p :: uf, nds ++ [(bits, p, 1)])
  else Some (p :: u, uf, nds ++ [(bits, p, 0)]).

Fixpoint apply_groups (cc il : nat) (G : list (Z * Z * Z)) (t : T3) : option T3 :=
  match G with
  | [] => Some t
  | g :: r => match commit_g cc il g t with None => None | Some t' => apply_groups cc il r t' end
  end.

Definition to_cls (t : T3) : cls := let '(u, uf, nds) := t in mkcls u uf None 0 nds.
Definition of_cls (st : cls) : T3 := (up st, upf st, nodes st).

Lemma commit_commit_g cc il st cb cp : cur st = Some (cb, cp) ->
  commit bf cc il st = option_map to_cls (commit_g cc il (cb, cp, fb st) (of_cls st)).
Proof.
  intros Hc. unfold commit, commit_g, of_cls. rewrite Hc.
  destruct (fb st =? u32_mask bf); [|reflexivity].
  destruct (Nat.leb cc il); [|reflexivity].
  destruct (U32 <=? (cp + 1) * bf); reflexivity.
Qed.

Lemma fold_groups filled cc il : forall l st cb cp, cur st = Some (cb, cp) ->
  match layer_fold bf filled cc il l st with None => None | Some st' => commit bf cc il st' end =
  option_map to_cls (apply_groups cc il (groups (isf_of filled) l cb cp (fb st)) (of_cls st)).
Proof.
  induction l as [|v r IH]; intros st cb cp Hc.
  - cbn [layer_fold groups apply_groups]. rewrite (commit_commit_g cc il st cb cp Hc).
    destruct (commit_g cc il (cb, cp, fb st) (of_cls st)); reflexivity.
  - cbn [layer_fold groups]. unfold layer_step. rewrite Hc.
    destruct (cp =? v / bf) eqn:E.
    + rewrite Hc. fold (isf_of filled v).
      set (st2 := mkcls (up st) (upf st) (Some (Z.lor cb (Z.shiftl 1 (v mod bf)), cp))
                        (if isf_of filled v then Z.lor (fb st) (Z.shiftl 1 (v mod bf)) else fb st) (nodes st)).
      rewrite (IH st2 _ cp eq_refl). reflexivity.
    + rewrite (commit_commit_g cc il st cb cp Hc). cbn [apply_groups].
      destruct (commit_g cc il (cb, cp, fb st) (of_cls st)) as [[[u uf] nds]|]; cbn [option_map]; [|reflexivity].
      cbn [to_cls cur fb up upf nodes]. fold (isf_of filled v).
      set (st2 := mkcls u uf (Some (Z.lor 0 (Z.shiftl 1 (v mod bf)), v / bf))
                        (if isf_of filled v then Z.lor 0 (Z.shiftl 1 (v mod bf)) else 0) nds).
      rewrite (IH st2 _ (v / bf) eq_refl). reflexivity.
Qed.

(* create_layer on a non-empty value list *)
Lemma create_layer_groups values filled nds v0 r : rev values = v0 :: r ->
  create_layer bf values filled nds =
  option_map (fun t : T3 => t)
    (apply_groups (length values) (length nds)
       (groups (isf_of filled) r (Z.lor 0 (Z.shiftl 1 (v0 mod bf))) (v0 / bf)
               (if isf_of filled v0 then Z.lor 0 (Z.shiftl 1 (v0 mod bf)) else 0))
       ([], [], nds)).
Proof.
  intros Hr. unfold create_layer. rewrite Hr. cbn [layer_fold]. unfold layer_step at 1. cbn [cur].
  rewrite Z.eqb_refl. cbn [cur fb up upf nodes]. fold (isf_of filled v0).
  set (st2 := mkcls [] [] (Some (Z.lor 0 (Z.shiftl 1 (v0 mod bf)), v0 / bf))
                    (if isf_of filled v0 then Z.lor 0 (Z.shiftl 1 (v0 mod bf)) else 0) nds).
  pose proof (fold_groups filled (length values) (length nds) r st2 _ (v0 / bf) eq_refl) as E.
  destruct (layer_fold bf filled (length values) (length nds) r st2) as [st'|].
  - rewrite E. cbn [of_cls st2 up upf nodes fb].
    destruct (apply_groups _ _ _ _) as [[[u uf] n2]|]; reflexivity.
  - cbn [of_cls st2 up upf nodes fb] in E.
    destruct (apply_groups _ _ _ _) as [[[u uf] n2]|]; [discriminate | reflexivity].
Qed.

(* ------------------------------------------------------------------------------------------ *)
(* closed form of [groups] *)
Definition mk (v : Z) : Z := Z.shiftl 1 (v mod bf).

Fixpoint bitsof (p : Z) (l : list Z) : Z :=
  match l with
  | [] => 0
  | v :: r => if p =? v / bf then Z.lor (mk v) (bitsof p r) else bitsof p r
  end.

Fixpoint fbitsof (isf : Z -> bool) (p : Z) (l : list Z) : Z :=
  match l with
  | [] => 0
  | v :: r => if p =? v / bf then Z.lor (if isf v then mk v else 0) (fbitsof isf p r) else fbitsof isf p r
  end.

(* new parents met after the open parent cp, in order *)
Fixpoint dpar (cp : Z) (l : list Z) : list Z :=
  match l with
  | [] => []
  | v :: r => if cp =? v / bf then dpar cp r else v / bf :: dpar (v / bf) r
  end.

(* parents are non-increasing and at most cp *)
Fixpoint pdesc (cp : Z) (l : list Z) : Prop :=
  match l with
  | [] => True
  | v :: r => v / bf <= cp /\ pdesc (v / bf) r
  end.

Lemma pdesc_weaken l : forall cp cp', cp <= cp' -> pdesc cp l -> pdesc cp' l.
Proof. destruct l as [|v r]; intros cp cp' Hle Hp; cbn in *; [exact I|]. destruct Hp. split; [lia | assumption]. Qed.

Lemma bitsof_above l : forall cp p, pdesc cp l -> cp < p -> bitsof p l = 0.
Proof.
  induction l as [|v r IH]; intros cp p Hp Hlt; cbn [bitsof]; [reflexivity|].
  destruct Hp as (Hv & Hr). destruct (Z.eqb_spec p (v / bf)); [lia|]. apply (IH (v / bf)); [assumption | lia].
Qed.

Lemma fbitsof_above isf l : forall cp p, pdesc cp l -> cp < p -> fbitsof isf p l = 0.
Proof.
  induction l as [|v r IH]; intros cp p Hp Hlt; cbn [fbitsof]; [reflexivity|].
  destruct Hp as (Hv & Hr). destruct (Z.eqb_spec p (v / bf)); [lia|]. apply (IH (v / bf)); [assumption | lia].
Qed.

Lemma dpar_lt l : forall cp p, pdesc cp l -> In p (dpar cp l) -> p < cp.
Proof.
  induction l as [|v r IH]; intros cp p Hp Hin; cbn [dpar] in Hin; [contradiction|].
  destruct Hp as (Hv & Hr). destruct (Z.eqb_spec cp (v / bf)) as [E|NE].
  - apply IH; [rewrite E|]; assumption.
  - destruct Hin as [<-|Hin]; [lia|]. specialize (IH (v / bf) p Hr Hin). lia.
Qed.

Lemma groups_spec isf l : forall cb cp fbv, pdesc cp l ->
  groups isf l cb cp fbv =
  (Z.lor cb (bitsof cp l), cp, Z.lor fbv (fbitsof isf cp l)) ::
  map (fun p => (bitsof p l, p, fbitsof isf p l)) (dpar cp l).
Proof.
  induction l as [|v r IH]; intros cb cp fbv Hp; cbn [groups bitsof fbitsof dpar map].
  - rewrite !Z.lor_0_r. reflexivity.
  - destruct Hp as (Hv & Hr). fold (mk v). destruct (Z.eqb_spec cp (v / bf)) as [E|NE].
    + rewrite IH by (rewrite E; assumption).
      f_equal.
      * f_equal; [f_equal|].
        -- symmetry; apply Z.lor_assoc.
        -- destruct (isf v); [symmetry; apply Z.lor_assoc | rewrite Z.lor_0_l; reflexivity].
      * apply map_ext_in. intros p Hin. pose proof (dpar_lt r cp p ltac:(rewrite E; assumption) Hin).
        destruct (Z.eqb_spec p (v / bf)); [lia | reflexivity].
    + rewrite (bitsof_above r (v / bf) cp Hr ltac:(lia)), (fbitsof_above isf r (v / bf) cp Hr ltac:(lia)).
      rewrite !Z.lor_0_r. f_equal.
      rewrite IH by assumption. cbn [map]. rewrite Z.eqb_refl.
      match goal with |- _ :: map ?f1 ?l = _ :: map ?f2 ?l => assert (Hm : map f1 l = map f2 l) end.
      { apply map_ext_in. intros p Hin. pose proof (dpar_lt r (v / bf) p Hr Hin).
        destruct (Z.eqb_spec p (v / bf)); [lia | reflexivity]. }
      rewrite Hm. rewrite !Z.lor_0_l. destruct (isf v); rewrite ?Z.lor_0_l; reflexivity.
Qed.

Lemma dpar_in l : forall cp q, In q (cp :: dpar cp l) <-> q = cp \/ exists v, In v l /\ v / bf = q.
Proof.
  induction l as [|v r IH]; intros cp q; cbn [dpar].
  - cbn. split; [intros [E|[]]; left; auto | intros [E|(v & [] & _)]; left; auto].
  - destruct (Z.eqb_spec cp (v / bf)) as [E|NE].
    + rewrite IH. split.
      * intros [H|(w & Hw & Hq)]; [left; assumption | right; exists w; split; [right|]; assumption].
      * intros [H|(w & [<-|Hw] & Hq)]; [left; assumption | left; lia | right; exists w; split; assumption].
    + change (In q (cp :: v / bf :: dpar (v / bf) r)) with (cp = q \/ In q (v / bf :: dpar (v / bf) r)).
      rewrite IH. split.
      * intros [H|[H|(w & Hw & Hq)]]; [left; auto | right; exists v; split; [left; reflexivity | auto] | right; exists w; split; [right|]; assumption].
      * intros [H|(w & [<-|Hw] & Hq)]; [left; auto | right; left; auto | right; right; exists w; split; assumption].
Qed.

Lemma dpar_sorted l : forall cp, pdesc cp l -> StronglySorted Z.gt (cp :: dpar cp l).
Proof.
  induction l as [|v r IH]; intros cp Hp; cbn [dpar].
  - constructor; constructor.
  - destruct Hp as (Hv & Hr). destruct (Z.eqb_spec cp (v / bf)) as [E|NE].
    + apply IH. rewrite E. assumption.
    + specialize (IH (v / bf) Hr). constructor; [assumption|].
      apply Forall_forall. intros q Hq. destruct Hq as [<-|Hq]; [lia|].
      pose proof (dpar_lt r (v / bf) q Hr Hq). lia.
Qed.

Lemma bf_pos : 2 <= bf <= 32.
Proof. apply bf_ge2. assumption. Qed.

Lemma mk_bits v j : 0 <= j -> Z.testbit (mk v) j = (j =? v mod bf).
Proof.
  intros Hj. unfold mk. pose proof bf_pos. rewrite Z.shiftl_1_l.
  rewrite Z.pow2_bits_eqb by (apply Z.mod_pos_bound; lia). apply Z.eqb_sym.
Qed.

Lemma bitsof_bits p l j : 0 <= j ->
  Z.testbit (bitsof p l) j = existsb (fun v => (p =? v / bf) && (j =? v mod bf)) l.
Proof.
  intros Hj. induction l as [|v r IH]; cbn [bitsof existsb]; [apply Z.bits_0|].
  destruct (p =? v / bf); cbn [andb orb]; [|assumption].
  rewrite Z.lor_spec, mk_bits, IH by assumption. reflexivity.
Qed.

Lemma fbitsof_bits isf p l j : 0 <= j ->
  Z.testbit (fbitsof isf p l) j = existsb (fun v => (p =? v / bf) && (j =? v mod bf) && isf v) l.
Proof.
  intros Hj. induction l as [|v r IH]; cbn [fbitsof existsb]; [apply Z.bits_0|].
  destruct (p =? v / bf); cbn [andb orb]; [|assumption].
  rewrite Z.lor_spec, IH by assumption. destruct (isf v).
  - rewrite mk_bits by assumption. rewrite andb_true_r. reflexivity.
  - rewrite Z.bits_0, andb_false_r. reflexivity.
Qed.

Lemma bitsof_nonneg p l : 0 <= bitsof p l.
Proof.
  induction l as [|v r IH]; cbn [bitsof]; [lia|]. destruct (p =? v / bf); [|assumption].
  apply Z.lor_nonneg. split; [|assumption]. unfold mk. apply Z.shiftl_nonneg. lia.
Qed.

Lemma fbitsof_nonneg isf p l : 0 <= fbitsof isf p l.
Proof.
  induction l as [|v r IH]; cbn [fbitsof]; [lia|]. destruct (p =? v / bf); [|assumption].
  apply Z.lor_nonneg. split; [|assumption]. destruct (isf v); [unfold mk; apply Z.shiftl_nonneg|]; lia.
Qed.

(* a non-negative number whose bits at and above n are clear is below 2^n *)
Lemma bits_bound x n : 0 <= x -> 0 <= n -> (forall j, n <= j -> Z.testbit x j = false) -> x < 2 ^ n.
Proof.
  intros Hx Hn Hb. destruct (Z.eq_dec x 0) as [->|Hne]; [apply Z.pow_pos_nonneg; lia|].
  destruct (Z_lt_le_dec x (2 ^ n)); [assumption|]. exfalso.
  assert (Hl : n <= Z.log2 x) by (apply Z.log2_le_pow2; lia).
  specialize (Hb (Z.log2 x) Hl). rewrite Z.bit_log2 in Hb by lia. discriminate.
Qed.

Lemma bitsof_bound p l : 0 <= bitsof p l < 2 ^ bf.
Proof.
  pose proof bf_pos. split; [apply bitsof_nonneg|]. apply bits_bound; [apply bitsof_nonneg | lia|].
  intros j Hj. rewrite bitsof_bits by lia. apply not_true_is_false. intros Hex.
  apply existsb_exists in Hex. destruct Hex as (v & _ & Hc).
  pose proof (Z.mod_pos_bound v bf ltac:(lia)). lia.
Qed.

Lemma fbitsof_bound isf p l : 0 <= fbitsof isf p l < 2 ^ bf.
Proof.
  pose proof bf_pos. split; [apply fbitsof_nonneg|]. apply bits_bound; [apply fbitsof_nonneg | lia|].
  intros j Hj. rewrite fbitsof_bits by lia. apply not_true_is_false. intros Hex.
  apply existsb_exists in Hex. destruct Hex as (v & _ & Hc).
  pose proof (Z.mod_pos_bound v bf ltac:(lia)). lia.
Qed.

End Enc.

Section Enc2.
Variable bf : Z.
Hypothesis Hbf : bf_valid bf = true.

Definition gpar (g : Z * Z * Z) : Z := snd (fst g).
Definition gfilled (g : Z * Z * Z) : bool := snd g =? u32_mask bf.
Definition tonode (g : Z * Z * Z) : node := (fst (fst g), gpar g, if gfilled g then 1 else 0).
Definition markone (p : Z) (e : node) : node :=
  let '(b, pi, ty) := e in if (p * bf <=? pi) && (pi <? (p + 1) * bf) then (b, pi, 2) else (b, pi, ty).

Lemma mark_children_ge p : forall l i lo hi, (hi <= i)%nat -> mark_children bf p i lo hi l = l.
Proof.
  induction l as [|[[b pi] ty] l IH]; intros i lo hi Hi; cbn [mark_children]; [reflexivity|].
  replace (Nat.ltb i hi) with false by (symmetry; apply Nat.ltb_ge; lia).
  rewrite andb_false_r. cbn [andb]. f_equal. apply IH. lia.
Qed.

Lemma mark_children_lt p : forall O i lo hi rest, (i + length O = lo)%nat ->
  mark_children bf p i lo hi (O ++ rest) = O ++ mark_children bf p lo lo hi rest.
Proof.
  induction O as [|[[b pi] ty] O IH]; intros i lo hi rest Hl; cbn [app length] in *.
  - replace i with lo by lia. reflexivity.
  - cbn [mark_children]. replace (Nat.leb lo i) with false by (symmetry; apply Nat.leb_gt; lia).
    cbn [andb]. f_equal. apply IH. lia.
Qed.

Lemma mark_children_mid p : forall L i lo hi R, (lo <= i)%nat -> (i + length L = hi)%nat ->
  mark_children bf p i lo hi (L ++ R) = map (markone p) L ++ R.
Proof.
  induction L as [|[[b pi] ty] L IH]; intros i lo hi R Hlo Hl; cbn [app length map] in *.
  - apply mark_children_ge. lia.
  - cbn [mark_children markone]. replace (Nat.leb lo i) with true by (symmetry; apply Nat.leb_le; lia).
    replace (Nat.ltb i hi) with true by (symmetry; apply Nat.ltb_lt; lia).
    cbn [andb]. f_equal. apply IH; lia.
Qed.

Lemma apply_groups_first cc il : Nat.leb cc il = false -> forall G u uf N,
  apply_groups bf cc il G (u, uf, N) =
  Some (rev (map gpar G) ++ u, rev (map gpar (filter gfilled G)) ++ uf, N ++ map tonode G).
Proof.
  intros Hleb. induction G as [|[[b p] f] G IH]; intros u uf N; cbn [apply_groups map filter rev app].
  - rewrite app_nil_r. reflexivity.
  - change (gfilled (b, p, f)) with (f =? u32_mask bf). change (tonode (b, p, f)) with (b, p, if f =? u32_mask bf then 1 else 0).
    unfold commit_g.
    destruct (f =? u32_mask bf) eqn:Ef.
    + rewrite Hleb. rewrite IH. cbn [map rev]. change (gpar (b, p, f)) with p. rewrite <- !app_assoc. reflexivity.
    + rewrite IH. rewrite <- !app_assoc. reflexivity.
Qed.

Definition markfold (G : list (Z * Z * Z)) (L : list node) : list node :=
  fold_left (fun L g => if gfilled g then map (markone (gpar g)) L else L) G L.

Lemma markfold_length G : forall L, length (markfold G L) = length L.
Proof.
  unfold markfold. induction G as [|g G IH]; intros L; cbn [fold_left]; [reflexivity|].
  rewrite IH. destruct (gfilled g); [apply map_length | reflexivity].
Qed.

Lemma apply_groups_later cc il O : Nat.leb cc il = true -> length O = (il - cc)%nat -> forall G u uf L P,
  length L = cc ->
  Forall (fun g => gfilled g = true -> (gpar g + 1) * bf < U32) G ->
  apply_groups bf cc il G (u, uf, O ++ L ++ P) =
  Some (rev (map gpar G) ++ u, rev (map gpar (filter gfilled G)) ++ uf,
        O ++ markfold G L ++ P ++ map tonode G).
Proof.
  intros Hleb HO. apply Nat.leb_le in Hleb as Hle.
  induction G as [|[[b p] f] G IH]; intros u uf L P HL HF; cbn [apply_groups map filter rev app].
  - unfold markfold. cbn [fold_left]. rewrite app_nil_r. reflexivity.
  - apply Forall_cons_iff in HF. destruct HF as (Hg & HF').
    change (gfilled (b, p, f)) with (f =? u32_mask bf) in *. change (tonode (b, p, f)) with (b, p, if f =? u32_mask bf then 1 else 0).
    change (gpar (b, p, f)) with p in *.
    unfold commit_g. unfold markfold. cbn [fold_left].
    change (gfilled (b, p, f)) with (f =? u32_mask bf). change (gpar (b, p, f)) with p.
    destruct (f =? u32_mask bf) eqn:Ef.
    + rewrite Hleb. specialize (Hg eq_refl).
      destruct (Z.leb_spec U32 ((p + 1) * bf)); [lia|].
      rewrite (mark_children_lt p O 0 (il - cc) il) by lia.
      rewrite (mark_children_mid p L (il - cc) (il - cc) il P) by lia.
      replace ((O ++ map (markone p) L ++ P) ++ [(b, p, 1)]) with (O ++ map (markone p) L ++ (P ++ [(b, p, 1)]))
        by (rewrite <- !app_assoc; reflexivity).
      rewrite IH by (try assumption; rewrite map_length; assumption).
      cbn [map rev]. fold (markfold G (map (markone p) L)). rewrite <- !app_assoc. reflexivity.
    + replace ((O ++ L ++ P) ++ [(b, p, 0)]) with (O ++ L ++ (P ++ [(b, p, 0)])) by (rewrite <- !app_assoc; reflexivity).
      rewrite IH by assumption. fold (markfold G L). rewrite <- !app_assoc. reflexivity.
Qed.

(* the combined effect of the marking passes *)
Definition markset (FP : list Z) (e : node) : node :=
  let '(b, pi, ty) := e in
  if existsb (fun p => (p * bf <=? pi) && (pi <? (p + 1) * bf)) FP then (b, pi, 2) else (b, pi, ty).

Lemma markfold_markset G : forall FP L,
  markfold G (map (markset FP) L) = map (markset (FP ++ map gpar (filter gfilled G))) L.
Proof.
  unfold markfold. induction G as [|g G IH]; intros FP L; cbn [fold_left filter map].
  - rewrite app_nil_r. reflexivity.
  - destruct (gfilled g) eqn:Eg.
    + cbn [map]. rewrite map_map.
      replace (map (fun x => markone (gpar g) (markset FP x)) L) with (map (markset (FP ++ [gpar g])) L).
      * rewrite IH. rewrite <- app_assoc. reflexivity.
      * apply map_ext. intros [[b pi] ty]. unfold markset, markone. rewrite existsb_app. cbn [existsb].
        rewrite orb_false_r.
        destruct (existsb _ FP); cbn [orb].
        -- destruct ((gpar g * bf <=? pi) && (pi <? (gpar g + 1) * bf)); reflexivity.
        -- reflexivity.
    + apply IH.
Qed.

Lemma markset_nil L : map (markset []) L = L.
Proof. rewrite <- (map_id L) at 2. apply map_ext. intros [[b pi] ty]. reflexivity. Qed.

End Enc2.

Section Enc3.
Variable bf : Z.
Hypothesis Hbf : bf_valid bf = true.

(* one level up *)
Definition dparents (Vd : list Z) : list Z :=
  match Vd with [] => [] | v0 :: r => v0 / bf :: dpar bf (v0 / bf) r end.
Definition par (V : list Z) : list Z := rev (dparents (rev V)).
Definition lbits (V : list Z) (p : Z) : Z := bitsof bf p (rev V).
Definition lfilled (isf : Z -> bool) (V : list Z) (p : Z) : bool := fbitsof bf isf p (rev V) =? u32_mask bf.
Definition FPd (isf : Z -> bool) (V : list Z) : list Z := filter (lfilled isf V) (dparents (rev V)).
Definition flist (isf : Z -> bool) (V : list Z) : list Z := filter (lfilled isf V) (par V).
Definition rawlayer (isf : Z -> bool) (V : list Z) : list node :=
  map (fun p => (lbits V p, p, if lfilled isf V p then 1 else 0)) (dparents (rev V)).

Lemma filter_rev {A} (f : A -> bool) l : rev (filter f l) = filter f (rev l).
Proof.
  induction l as [|a l IH]; [reflexivity|]. cbn [filter rev]. rewrite filter_app. cbn [filter].
  destruct (f a); cbn [rev]; rewrite IH; [reflexivity | rewrite app_nil_r; reflexivity].
Qed.

(* ascending non-negative values have non-increasing parents when read backwards *)
Lemma pdesc_of_sorted : forall (l : list Z) cp, StronglySorted Z.gt l -> Forall (fun v => 0 <= v) l ->
  (forall v, In v l -> v / bf <= cp) -> pdesc bf cp l.
Proof.
  pose proof (bf_ge2 bf Hbf).
  induction l as [|v r IH]; intros cp Hs Hnn Hcp; cbn [pdesc]; [exact I|].
  inversion Hs as [|? ? Hs' Hall]; subst. inversion Hnn; subst.
  split; [apply Hcp; left; reflexivity|]. apply IH; try assumption.
  intros w Hw. rewrite Forall_forall in Hall. specialize (Hall w Hw). apply Z.div_le_mono; lia.
Qed.

Lemma sorted_rev_gt l : StronglySorted Z.lt l -> StronglySorted Z.gt (rev l).
Proof.
  induction 1 as [|a l Hs IH Hall]; cbn [rev]; [constructor|].
  assert (G : forall l1 x, StronglySorted Z.gt l1 -> Forall (fun y => y > x) l1 -> StronglySorted Z.gt (l1 ++ [x])).
  { induction l1 as [|b l1 IH1]; intros x H1 H2; cbn [app]; [constructor; constructor|].
    inversion H1; subst. inversion H2; subst. constructor; [apply IH1; assumption|].
    apply Forall_app. split; [assumption | constructor; [lia | constructor]]. }
  apply G; [assumption|]. apply Forall_rev. eapply Forall_impl; [|exact Hall]. cbn. intros; lia.
Qed.

Lemma sorted_rev_lt l : StronglySorted Z.gt l -> StronglySorted Z.lt (rev l).
Proof.
  induction 1 as [|a l Hs IH Hall]; cbn [rev]; [constructor|].
  assert (G : forall l1 x, StronglySorted Z.lt l1 -> Forall (fun y => y < x) l1 -> StronglySorted Z.lt (l1 ++ [x])).
  { induction l1 as [|b l1 IH1]; intros x H1 H2; cbn [app]; [constructor; constructor|].
    inversion H1; subst. inversion H2; subst. constructor; [apply IH1; assumption|].
    apply Forall_app. split; [assumption | constructor; [lia | constructor]]. }
  apply G; [assumption|]. apply Forall_rev. eapply Forall_impl; [|exact Hall]. cbn. intros; lia.
Qed.

Definition vals_ok (V : list Z) : Prop :=
  V <> [] /\ StronglySorted Z.lt V /\ Forall (fun v => 0 <= v < U32) V.

Lemma vals_ok_rev V : vals_ok V -> exists v0 r, rev V = v0 :: r /\ pdesc bf (v0 / bf) r /\
  StronglySorted Z.gt (v0 :: r) /\ Forall (fun v => 0 <= v < U32) (v0 :: r).
Proof.
  intros (Hne & Hs & Hb). destruct (rev V) as [|v0 r] eqn:E.
  - exfalso. apply Hne. rewrite <- (rev_involutive V), E. reflexivity.
  - exists v0, r. split; [reflexivity|].
    assert (Hs' : StronglySorted Z.gt (v0 :: r)) by (rewrite <- E; apply sorted_rev_gt; assumption).
    assert (Hb' : Forall (fun v => 0 <= v < U32) (v0 :: r)) by (rewrite <- E; apply Forall_rev; assumption).
    split; [|split; assumption].
    inversion Hs' as [|? ? Hs'' Hall]; subst. inversion Hb'; subst.
    apply pdesc_of_sorted; [assumption | eapply Forall_impl; [|eassumption]; cbn; intros; lia|].
    intros w Hw. rewrite Forall_forall in Hall. specialize (Hall w Hw).
    pose proof (bf_ge2 bf Hbf). apply Z.div_le_mono; lia.
Qed.

(* the groups of a whole layer, in closed form *)
Lemma layer_groups isf v0 r : pdesc bf (v0 / bf) r ->
  groups bf isf r (Z.lor 0 (Z.shiftl 1 (v0 mod bf))) (v0 / bf) (if isf v0 then Z.lor 0 (Z.shiftl 1 (v0 mod bf)) else 0) =
  map (fun p => (bitsof bf p (v0 :: r), p, fbitsof bf isf p (v0 :: r))) (v0 / bf :: dpar bf (v0 / bf) r).
Proof.
  intros Hp. rewrite groups_spec by assumption. cbn [map].
  assert (Hm : map (fun p => (bitsof bf p r, p, fbitsof bf isf p r)) (dpar bf (v0 / bf) r) =
               map (fun p => (bitsof bf p (v0 :: r), p, fbitsof bf isf p (v0 :: r))) (dpar bf (v0 / bf) r)).
  { apply map_ext_in. intros p Hin. pose proof (dpar_lt bf r (v0 / bf) p Hp Hin). cbn [bitsof fbitsof].
    destruct (Z.eqb_spec p (v0 / bf)); [lia | reflexivity]. }
  rewrite Hm. cbn [bitsof fbitsof]. rewrite Z.eqb_refl. fold (mk bf v0). rewrite !Z.lor_0_l.
  destruct (isf v0); rewrite ?Z.lor_0_l; reflexivity.
Qed.

Lemma gpar_map (f : Z -> Z) (g : Z -> Z) l : map gpar (map (fun p => (f p, p, g p)) l) = l.
Proof. induction l as [|a l IH]; [reflexivity|]. cbn [map]. rewrite IH. reflexivity. Qed.

Lemma gfilled_filter_map (f g : Z -> Z) l :
  map gpar (filter (gfilled bf) (map (fun p => (f p, p, g p)) l)) = filter (fun p => g p =? u32_mask bf) l.
Proof.
  induction l as [|a l IH]; [reflexivity|]. cbn [map filter]. unfold gfilled at 1. cbn [snd].
  destruct (g a =? u32_mask bf); cbn [map]; rewrite IH; reflexivity.
Qed.

Lemma tonode_map (f g : Z -> Z) l :
  map (tonode bf) (map (fun p => (f p, p, g p)) l) = map (fun p => (f p, p, if g p =? u32_mask bf then 1 else 0)) l.
Proof. rewrite map_map. reflexivity. Qed.

Lemma dparents_nonneg_bound Vd : Forall (fun v => 0 <= v < U32) Vd -> forall p, In p (dparents Vd) -> 0 <= p /\ p + bf < U32.
Proof.
  intros Hb p Hin. pose proof (bf_ge2 bf Hbf). destruct Vd as [|v0 r]; [contradiction|]. unfold dparents in Hin.
  apply (dpar_in bf r (v0 / bf) p) in Hin. rewrite Forall_forall in Hb.
  assert (G : forall v, 0 <= v < U32 -> 0 <= v / bf /\ v / bf + bf < U32).
  { intros v Hv. unfold U32 in *. split; [apply Z.div_pos; lia|].
    assert (v / bf <= v / 2) by (apply Z.div_le_compat_l; lia). lia. }
  destruct Hin as [->|(v & Hv & <-)]; apply G; apply Hb; [left; reflexivity | right; assumption].
Qed.

(* create_layer, first level (empty node vector) *)
Lemma create_layer_first V filled : vals_ok V ->
  create_layer bf V filled [] = Some (par V, flist (isf_of filled) V, rawlayer (isf_of filled) V).
Proof.
  intros Hok. destruct (vals_ok_rev V Hok) as (v0 & r & Er & Hp & Hs & Hb).
  rewrite (create_layer_groups bf V filled [] v0 r Er).
  rewrite layer_groups by assumption.
  assert (Hcc : Nat.leb (length V) (length (@nil node)) = false).
  { apply Nat.leb_gt. cbn [length]. destruct Hok as (Hne & _). destruct V; [contradiction | cbn; lia]. }
  rewrite apply_groups_first by assumption.
  cbn [option_map app]. rewrite !app_nil_r.
  rewrite gpar_map, gfilled_filter_map, tonode_map.
  unfold flist, rawlayer, FPd, lfilled, lbits, par, dparents. rewrite Er.
  rewrite filter_rev. reflexivity.
Qed.

(* create_layer, later levels: the previous layer L is marked *)
Lemma create_layer_later V filled O L : vals_ok V -> Forall (fun v => v + bf < U32) V -> length L = length V ->
  create_layer bf V filled (O ++ L) =
  Some (par V, flist (isf_of filled) V,
        O ++ map (markset bf (FPd (isf_of filled) V)) L ++ rawlayer (isf_of filled) V).
Proof.
  intros Hok Hb2 HL. destruct (vals_ok_rev V Hok) as (v0 & r & Er & Hp & Hs & Hb).
  rewrite (create_layer_groups bf V filled (O ++ L) v0 r Er).
  rewrite layer_groups by assumption.
  assert (Hcc : Nat.leb (length V) (length (O ++ L)) = true) by (apply Nat.leb_le; rewrite app_length; lia).
  rewrite <- (app_nil_r L) at 2.
  rewrite (apply_groups_later bf (length V) (length (O ++ L)) O Hcc); [| rewrite !app_length; cbn [length]; lia | assumption |].
  - cbn [option_map app]. rewrite !app_nil_r.
    rewrite gpar_map, gfilled_filter_map, tonode_map.
    rewrite <- (markset_nil bf L) at 1. rewrite markfold_markset. cbn [app]. rewrite gfilled_filter_map.
    unfold flist, rawlayer, FPd, lfilled, lbits, par, dparents. rewrite Er.
    rewrite filter_rev. reflexivity.
  - apply Forall_forall. intros g Hg _. apply in_map_iff in Hg. destruct Hg as (p & <- & Hin).
    cbn [gpar fst snd].
    apply (dpar_in bf r (v0 / bf) p) in Hin.
    assert (Hb2' : Forall (fun v => v + bf < U32) (v0 :: r)) by (rewrite <- Er; apply Forall_rev; assumption).
    rewrite Forall_forall in Hb2', Hb. pose proof (bf_ge2 bf Hbf).
    assert (G : forall v, In v (v0 :: r) -> (v / bf + 1) * bf < U32).
    { intros v Hv. specialize (Hb2' v Hv). specialize (Hb v Hv). cbn beta in *. unfold U32 in *. lia. }
    destruct Hin as [->|(v & Hv & <-)]; apply G; [left; reflexivity | right; assumption].
Qed.

End Enc3.

Section Enc4.
Variable bf : Z.
Hypothesis Hbf : bf_valid bf = true.

Lemma par_in V q : V <> [] -> In q (par bf V) <-> exists v, In v V /\ v / bf = q.
Proof.
  intros Hne. unfold par. rewrite <- in_rev. destruct (rev V) as [|v0 r] eqn:E.
  { exfalso. apply Hne. rewrite <- (rev_involutive V), E. reflexivity. }
  unfold dparents. rewrite (dpar_in bf r (v0 / bf) q). split.
  - intros [->|(v & Hv & <-)].
    + exists v0. split; [|reflexivity]. apply in_rev. rewrite E. left. reflexivity.
    + exists v. split; [|reflexivity]. apply in_rev. rewrite E. right. assumption.
  - intros (v & Hv & <-). apply in_rev in Hv. rewrite E in Hv. destruct Hv as [->|Hv]; [left; reflexivity|].
    right. exists v. split; [assumption | reflexivity].
Qed.

Lemma par_ok V : vals_ok V -> vals_ok (par bf V) /\ Forall (fun p => p + bf < U32) (par bf V).
Proof.
  intros Hok. destruct (vals_ok_rev bf Hbf V Hok) as (v0 & r & Er & Hp & Hs & Hb).
  pose proof (dparents_nonneg_bound bf Hbf (rev V) ltac:(rewrite Er; assumption)) as Hdb.
  unfold par in *. rewrite Er in *. unfold dparents in *.
  split; [split; [|split]|].
  - cbn [rev]. intros E. apply app_eq_nil in E. destruct E; discriminate.
  - apply (sorted_rev_lt bf). exact (dpar_sorted bf r (v0 / bf) Hp).
  - apply Forall_rev. apply Forall_forall. intros p Hin. specialize (Hdb p Hin). pose proof (bf_ge2 bf Hbf). lia.
  - apply Forall_rev. apply Forall_forall. intros p Hin. specialize (Hdb p Hin). lia.
Qed.

Lemma rawlayer_length isf V : length (rawlayer bf isf V) = length (par bf V).
Proof. unfold rawlayer, par. rewrite map_length, rev_length. reflexivity. Qed.

Fixpoint Vk (n : nat) (S0 : list Z) : list Z :=
  match n with O => S0 | S m => par bf (Vk m S0) end.
Fixpoint Fk (n : nat) (S0 : list Z) : option (list Z) :=
  match n with O => None | S m => Some (flist bf (isf_of (Fk m S0)) (Vk m S0)) end.
Definition Rk (S0 : list Z) (k : nat) : list node := rawlayer bf (isf_of (Fk (k - 1) S0)) (Vk (k - 1) S0).
Definition FPk (S0 : list Z) (k : nat) : list Z := FPd bf (isf_of (Fk (k - 1) S0)) (Vk (k - 1) S0).

Lemma Vk_ok S0 n : vals_ok S0 -> vals_ok (Vk n S0).
Proof. intros H0. induction n as [|n IH]; [assumption|]. cbn [Vk]. apply par_ok. assumption. Qed.

Lemma Vk_bound S0 n : vals_ok S0 -> Forall (fun p => p + bf < U32) (Vk (S n) S0).
Proof. intros H0. cbn [Vk]. apply par_ok. apply Vk_ok. assumption. Qed.

Fixpoint flatT (S0 : list Z) (L : list node) (h j : nat) : list node :=
  match h with
  | O => L
  | S h' => map (markset bf (FPk S0 (S j))) L ++ flatT S0 (Rk S0 (S j)) h' (S j)
  end.

Lemma layers_later S0 : vals_ok S0 -> forall h j O L, length L = length (Vk (S j) S0) ->
  layers h bf (Vk (S j) S0) (Fk (S j) S0) (O ++ L) = Some (O ++ flatT S0 L h (S j)).
Proof.
  intros H0. induction h as [|h IH]; intros j O L HL; cbn [layers flatT]; [reflexivity|].
  rewrite create_layer_later; [|assumption | apply Vk_ok; assumption | apply Vk_bound; assumption | assumption].
  change (par bf (Vk (S j) S0)) with (Vk (S (S j)) S0).
  change (Some (flist bf (isf_of (Fk (S j) S0)) (Vk (S j) S0))) with (Fk (S (S j)) S0).
  rewrite app_assoc. rewrite IH.
  - rewrite <- app_assoc. unfold FPk, Rk. replace (S (S j) - 1)%nat with (S j) by lia. reflexivity.
  - rewrite rawlayer_length. reflexivity.
Qed.

Lemma layers_all S0 h : vals_ok S0 ->
  layers (S h) bf S0 None [] = Some (flatT S0 (Rk S0 1) h 1).
Proof.
  intros H0. cbn [layers]. rewrite create_layer_first by assumption.
  change (par bf S0) with (Vk 1 S0). change (Some (flist bf (isf_of None) S0)) with (Fk 1 S0).
  rewrite <- (app_nil_l (rawlayer bf (isf_of None) S0)).
  rewrite (layers_later S0 H0 h 0 [] (rawlayer bf (isf_of None) S0)); [reflexivity|].
  rewrite rawlayer_length. reflexivity.
Qed.

(* the marked layers, by index; the top layer is not marked *)
Definition Mk (S0 : list Z) (top k : nat) : list node :=
  map (markset bf (if Nat.eqb k top then [] else FPk S0 (S k))) (Rk S0 k).

Lemma flatT_concat S0 : forall h j L,
  flatT S0 L h j = map (markset bf (if Nat.eqb h 0 then [] else FPk S0 (S j))) L ++
                   concat (map (Mk S0 (j + h)) (seq (S j) h)).
Proof.
  induction h as [|h IH]; intros j L; cbn [flatT seq map concat Nat.eqb].
  - rewrite markset_nil, app_nil_r. reflexivity.
  - rewrite IH. f_equal. f_equal.
    + unfold Mk. replace (Nat.eqb (S j) (j + S h)) with (Nat.eqb h 0); [reflexivity|].
      destruct (Nat.eqb_spec h 0); destruct (Nat.eqb_spec (S j) (j + S h)); try reflexivity; lia.
    + replace (S j + h)%nat with (j + S h)%nat by lia. reflexivity.
Qed.

Fixpoint bfs (S0 : list Z) (top k : nat) : list node :=
  match k with O => [] | S k' => rev (Mk S0 top (S k')) ++ bfs S0 top k' end.

Lemma rev_concat_seq S0 top : forall k, rev (concat (map (Mk S0 top) (seq 1 k))) = bfs S0 top k.
Proof.
  induction k as [|k IH]; [reflexivity|].
  rewrite seq_S, map_app, concat_app, rev_app_distr. cbn [map concat bfs Nat.add]. rewrite app_nil_r, IH. reflexivity.
Qed.

Lemma layers_bfs S0 h : vals_ok S0 ->
  exists nds, layers (S h) bf S0 None [] = Some nds /\ rev nds = bfs S0 (S h) (S h).
Proof.
  intros H0. eexists. split; [apply layers_all; assumption|].
  rewrite flatT_concat. rewrite <- rev_concat_seq. f_equal.
  cbn [seq map concat]. f_equal.
  unfold Mk. replace (Nat.eqb 1 (S h)) with (Nat.eqb h 0); [reflexivity|].
  destruct (Nat.eqb_spec h 0); destruct (Nat.eqb_spec 1 (S h)); try reflexivity; lia.
Qed.

End Enc4.
