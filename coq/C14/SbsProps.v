(* C14 (codec half) — property theorems.  Only statements, [exact lemma] and Print Assumptions. *)
From Coq Require Import ZArith List Bool Sorting.Sorted.
From FV Require Import Lib.RustInt C14.SbsModel C14.SbsProofs C14.SbsSpec C14.SbsEnc C14.SbsDecInv C14.SbsChain C14.SbsPack C14.SbsRoundtrip C14.SbsClip.
Import ListNotations.
Open Scope Z_scope.

(* Decoding arbitrary bytes never panics (and the model's fuel is sufficient): for every byte string
   of any length and every bias / maximum the outcome is Ok or Err(DecodingError).  (The u32 arithmetic
   of skip_nodes cannot overflow: lemmas aloop_count / skip_safe.) *)
Theorem sbs_decode_total : forall data bias maxv,
  Forall is_byte data ->
  (exists rs rest, decode data bias maxv = Ok rs rest) \/ decode data bias maxv = Err.
Proof. exact decode_total. Qed.

(* Within the supported tree heights the decoder agrees with the specification's algorithm:
   same error condition, same unread remainder, same members after bias and maximum. *)
Theorem sbs_decode_matches_spec : forall data bias maxv,
  Forall is_byte data -> 0 <= bias -> 0 <= maxv < U32 ->
  match data with
  | h :: _ => Z.shiftr (Z.land h 124) 2 <= max_height (bf_of_bits (Z.land h 3))
  | [] => True
  end ->
  match spec_decode data with
  | SErr => decode data bias maxv = Err
  | SOk srs srest =>
      exists rs, decode data bias maxv = Ok rs srest /\
                 forall x, in_ranges x rs = in_ranges x (clip_ranges bias maxv srs)
  end.
Proof. exact decode_matches_spec. Qed.

(* Round trip, for EVERY set of u32 values (strictly ascending list) and every branch factor:
   the per-branch-factor encoder does not panic and the decoder returns exactly the set, with nothing
   left unread.  (BF 2 cannot reach values >= 2^31 and is upgraded to BF 4 by the encoder.) *)
Theorem sbs_roundtrip : forall bf S, bf_valid bf = true ->
  StronglySorted Z.lt S -> Forall (fun v => 0 <= v < U32) S ->
  exists bytes rs, encode_bf bf S = Some bytes /\ decode bytes 0 (U32 - 1) = Ok rs [] /\
                   forall x, in_ranges x rs = zmem x S.
Proof. exact roundtrip. Qed.

(* the same for to_sparse_bit_set (shortest of the admissible encodings) *)
Theorem sbs_roundtrip_auto : forall S,
  StronglySorted Z.lt S -> Forall (fun v => 0 <= v < U32) S ->
  exists bytes rs, encode_auto S = Some bytes /\ decode bytes 0 (U32 - 1) = Ok rs [] /\
                   forall x, in_ranges x rs = zmem x S.
Proof. exact roundtrip_auto. Qed.

(* The filled-node clause, decoder side.  Whenever the decoder dequeues (start, depth) and the next
   node of the stream is all zeroes, it inserts exactly the values
   start + bias .. start + BF^(H-depth+1) - 1 + bias that are <= max (at most one range; nothing when
   there is none), consumes that node only and goes on with the rest of the queue. *)
Theorem sbs_decode_filled_clipped : forall bf H bias maxv data s s' start depth q out f,
  bf_valid bf = true -> 1 <= H <= max_height bf -> 0 <= bias -> 0 <= maxv < U32 ->
  qwf bf H (start, depth) ->
  ibs_next bf data s = Some (0, s') ->
  exists r,
    dec_loop (S f) bf data H bias maxv s ((start, depth) :: q) out =
    dec_loop f bf data H bias maxv s' q (r ++ out) /\
    (length r <= 1)%nat /\
    forall x, in_ranges x r =
              (start + bias <=? x) && (x <=? start + bf ^ (H - depth + 1) - 1 + bias) && (x <=? maxv).
Proof. exact decode_filled_clipped. Qed.

(* End to end: a tree whose root node is all zeroes decodes to [0, BF^H) shifted by bias and cut at
   max, for every branch factor, supported height, bias and max (BF^H > 2^32 included), and leaves
   exactly the bytes after the node unread. *)
Theorem sbs_decode_filled_root : forall bf H bias maxv tail,
  bf_valid bf = true -> 1 <= H <= max_height bf -> 0 <= bias -> 0 <= maxv < U32 ->
  let hdr := Z.lor (Z.shiftl (Z.land H 31) 2) (bit_id bf) in
  let zero := if bf =? 32 then [0; 0; 0; 0] else [0] in
  exists rs, decode (hdr :: zero ++ tail) bias maxv = Ok rs tail /\
             forall x, in_ranges x rs = (bias <=? x) && (x <=? bf ^ H - 1 + bias) && (x <=? maxv).
Proof. exact decode_filled_root. Qed.

(* Round trip under any bias and maximum: decoding the encoding of S with (bias, max) yields exactly
   { v + bias | v in S, v + bias <= max } and leaves nothing unread. *)
Theorem sbs_roundtrip_bias_max : forall bf S0 bias maxv, bf_valid bf = true ->
  StronglySorted Z.lt S0 -> Forall (fun v => 0 <= v < U32) S0 -> 0 <= bias -> 0 <= maxv < U32 ->
  exists bytes rs, encode_bf bf S0 = Some bytes /\ decode bytes bias maxv = Ok rs [] /\
                   forall x, in_ranges x rs = zmem (x - bias) S0 && (x <=? maxv).
Proof. exact roundtrip_bias_max. Qed.

(* The filled-node clause, encoder side: the encoder's node stream (top level first; per level the
   non-skipped nodes in ascending order) has an all-zero node exactly for the filled nodes, child bits
   for the others and nothing below a filled node; and a node is filled iff its whole interval
   consists of members. *)
Theorem sbs_encode_node_stream : forall bf S0 H, bf_valid bf = true -> vals_ok S0 -> 1 <= H <= max_height bf ->
  (forall x, In x S0 -> x < bf ^ H) ->
  exists tree pad,
    encode_fixed bf S0 H = Some (Z.lor (Z.shiftl (Z.land H 31) 2) (bit_id bf) :: tree) /\
    all_nodes bf tree = streamk bf S0 (Z.to_nat H) (Z.to_nat H) ++ repeat 0 pad /\
    forall k', streamk bf S0 (Z.to_nat H) (S k') =
               flat_map (fun p => if skipL bf S0 (Z.to_nat H) k' p then []
                                  else if fillL bf S0 k' p then [0] else [bitsL bf S0 k' p])
                        (Vk bf (S k') S0) ++ streamk bf S0 (Z.to_nat H) k'.
Proof. exact encode_node_stream. Qed.

Theorem sbs_filled_iff_full : forall bf, bf_valid bf = true -> forall S0, vals_ok S0 -> forall k' p, 0 <= p ->
  fillL bf S0 k' p = true <->
  (forall x, p * bf ^ Z.of_nat (S k') <= x < (p + 1) * bf ^ Z.of_nat (S k') -> In x S0).
Proof. exact filled_iff_full. Qed.

(* Independent cross-check by complete enumeration (all subsets of [0,12), all branch factors and the
   automatic choice); superseded by the two general theorems above, kept as an evaluation of the model. *)
Theorem sbs_roundtrip_enumerated : forall m bf, 0 <= m < 4096 -> In bf [2; 4; 8; 32] ->
  rt_ok bf (subset_of_mask m) = true.
Proof. exact roundtrip_small. Qed.

Theorem sbs_roundtrip_auto_enumerated : forall m, 0 <= m < 4096 -> rt_ok 0 (subset_of_mask m) = true.
Proof. exact roundtrip_small_auto. Qed.

Print Assumptions sbs_decode_total.
Print Assumptions sbs_decode_matches_spec.
Print Assumptions sbs_roundtrip.
Print Assumptions sbs_roundtrip_auto.
Print Assumptions sbs_decode_filled_clipped.
Print Assumptions sbs_decode_filled_root.
Print Assumptions sbs_roundtrip_bias_max.
Print Assumptions sbs_encode_node_stream.
Print Assumptions sbs_filled_iff_full.
Print Assumptions sbs_roundtrip_enumerated.
Print Assumptions sbs_roundtrip_auto_enumerated.
