(* C14 (codec half) — property theorems.  Only statements, [exact lemma] and Print Assumptions. *)
From Coq Require Import ZArith List.
From FV Require Import Lib.RustInt C14.SbsModel C14.SbsProofs C14.SbsSpec C14.SbsRoundtrip.
Import ListNotations.
Open Scope Z_scope.

(* Decoding arbitrary bytes never panics (and the model's fuel is sufficient): for every byte string
   of at most 2^27 bytes and every bias / maximum the outcome is Ok or Err(DecodingError). *)
Theorem sbs_decode_total : forall data bias maxv,
  Forall is_byte data -> Z.of_nat (length data) <= 2 ^ 27 ->
  (exists rs rest, decode data bias maxv = Ok rs rest) \/ decode data bias maxv = Err.
Proof. exact decode_total. Qed.

(* Within the supported tree heights the decoder agrees with the specification's algorithm:
   same error condition, same unread remainder, same members after bias and maximum. *)
Theorem sbs_decode_matches_spec : forall data bias maxv,
  Forall is_byte data -> Z.of_nat (length data) <= 2 ^ 27 -> 0 <= bias -> 0 <= maxv < U32 ->
  match data with
  | h :: _ => Z.shiftr (Z.land h 124) 2 <= max_height (bf_of_bits (Z.land h 3))
  | [] => True
  end ->
  match spec_decode data with
  | SErr => decode data bias maxv = Err
  | SOk srs srest =>
      exists rs, decode data bias maxv = Ok rs srest /\
                 forall x, in_ranges x rs = in_ranges x (clip_ranges bias maxv srs)
  end.
Proof. exact decode_matches_spec. Qed.

(* Round trip, proved for every subset of [0,12) (characteristic mask m), every branch factor and the
   automatic choice; the general statement is in SbsRoundtrip.v and is tested, not proved. *)
Theorem sbs_roundtrip_partial : forall m bf, 0 <= m < 4096 -> In bf [2; 4; 8; 32] ->
  rt_ok bf (subset_of_mask m) = true.
Proof. exact roundtrip_small. Qed.

Theorem sbs_roundtrip_auto_partial : forall m, 0 <= m < 4096 -> rt_ok 0 (subset_of_mask m) = true.
Proof. exact roundtrip_small_auto. Qed.

Print Assumptions sbs_decode_total.
Print Assumptions sbs_decode_matches_spec.
Print Assumptions sbs_roundtrip_partial.
Print Assumptions sbs_roundtrip_auto_partial.
