From Coq Require Import ZArith List.
From FV Require Import C14.SbsModel C14.SbsProofs.
Theorem sbs_placeholder : True.
Proof. exact placeholder. Qed.
Print Assumptions sbs_placeholder.
