(* C14 (codec half) — property theorems.  Only statements, [exact lemma] and Print Assumptions. *)
From Coq Require Import ZArith List Sorting.Sorted.
From FV Require Import Lib.RustInt C14.SbsModel C14.SbsProofs C14.SbsSpec C14.SbsRoundtrip.
Import ListNotations.
Open Scope Z_scope.

(* Decoding arbitrary bytes never panics (and the model's fuel is sufficient): for every byte string
   of at most 2^27 bytes and every bias / maximum the outcome is Ok or Err(DecodingError). *)
Theorem sbs_decode_total : forall data bias maxv,
  Forall is_byte data -> Z.of_nat (length data) <= 2 ^ 27 ->
  (exists rs rest, decode data bias maxv = Ok rs rest) \/ decode data bias maxv = Err.
Proof. exact decode_total. Qed.

(* Within the supported tree heights the decoder agrees with the specification's algorithm:
   same error condition, same unread remainder, same members after bias and maximum. *)
Theorem sbs_decode_matches_spec : forall data bias maxv,
  Forall is_byte data -> Z.of_nat (length data) <= 2 ^ 27 -> 0 <= bias -> 0 <= maxv < U32 ->
  match data with
  | h :: _ => Z.shiftr (Z.land h 124) 2 <= max_height (bf_of_bits (Z.land h 3))
  | [] => True
  end ->
  match spec_decode data with
  | SErr => decode data bias maxv = Err
  | SOk srs srest =>
      exists rs, decode data bias maxv = Ok rs srest /\
                 forall x, in_ranges x rs = in_ranges x (clip_ranges bias maxv srs)
  end.
Proof. exact decode_matches_spec. Qed.

(* Round trip, for EVERY set of u32 values (strictly ascending list) and every branch factor:
   the per-branch-factor encoder does not panic and the decoder returns exactly the set, with nothing
   left unread.  (BF 2 cannot reach values >= 2^31 and is upgraded to BF 4 by the encoder.) *)
Theorem sbs_roundtrip : forall bf S, bf_valid bf = true ->
  StronglySorted Z.lt S -> Forall (fun v => 0 <= v < U32) S ->
  exists bytes rs, encode_bf bf S = Some bytes /\ decode bytes 0 (U32 - 1) = Ok rs [] /\
                   forall x, in_ranges x rs = zmem x S.
Proof. exact roundtrip. Qed.

(* the same for to_sparse_bit_set (shortest of the admissible encodings) *)
Theorem sbs_roundtrip_auto : forall S,
  StronglySorted Z.lt S -> Forall (fun v => 0 <= v < U32) S ->
  exists bytes rs, encode_auto S = Some bytes /\ decode bytes 0 (U32 - 1) = Ok rs [] /\
                   forall x, in_ranges x rs = zmem x S.
Proof. exact roundtrip_auto. Qed.

(* Independent cross-check by complete enumeration (all subsets of [0,12), all branch factors and the
   automatic choice); superseded by the two general theorems above, kept as an evaluation of the model. *)
Theorem sbs_roundtrip_enumerated : forall m bf, 0 <= m < 4096 -> In bf [2; 4; 8; 32] ->
  rt_ok bf (subset_of_mask m) = true.
Proof. exact roundtrip_small. Qed.

Theorem sbs_roundtrip_auto_enumerated : forall m, 0 <= m < 4096 -> rt_ok 0 (subset_of_mask m) = true.
Proof. exact roundtrip_small_auto. Qed.

Print Assumptions sbs_decode_total.
Print Assumptions sbs_decode_matches_spec.
Print Assumptions sbs_roundtrip.
Print Assumptions sbs_roundtrip_auto.
Print Assumptions sbs_roundtrip_enumerated.
Print Assumptions sbs_roundtrip_auto_enumerated.
