(* C14 (set half) — L0, round 7: the `!passthrough_left` half of process_L0_refines_L1 (intersect, reversed_subtract).
   (iii) merge_keep_irrelevant : dropping the left pages without a partner on the right does not change the merge
         when the left side does not pass through;
   (i)   step1_compacts_front  : step 1 of BitSet::process leaves exactly those kept entries in page_map[0..write_idx];
   (ii)  compact_renumbers     : compact() (old_index_to_page_map_index + compact_pages) keeps the abstraction of those
         slots and renumbers their page indices injectively into 0..write_idx.
   All statements are about the definitions of SetL0.v unchanged. *)
From Coq Require Import ZArith NArith List Bool Lia Arith Sorting.Sorted Sorting.Permutation.
From FV Require Import C14.Model C14.Proofs C14.SetL0 C14.SetL0Proofs.
Import ListNotations.
Local Open Scope nat_scope.

(* keep a b: the entries of a whose key occurs in b (two-pointer walk over key-ascending lists, as step 1 does) *)
Fixpoint keep {X Y} (a : list (N * X)) : list (N * Y) -> list (N * X) :=
  fix inner (b : list (N * Y)) : list (N * X) :=
    match a with
    | [] => []
    | (ka, pa) :: ta =>
        match b with
        | [] => []
        | (kb, pb) :: tb =>
            match (ka ?= kb)%N with
            | Eq => (ka, pa) :: keep ta tb
            | Lt => keep ta b
            | Gt => inner tb
            end
        end
    end.
Lemma keep_eq {X Y} (a : list (N * X)) (b : list (N * Y)) : keep a b =
  match a with
  | [] => []
  | (ka, pa) :: ta =>
      match b with
      | [] => []
      | (kb, pb) :: tb =>
          match (ka ?= kb)%N with
          | Eq => (ka, pa) :: keep ta tb
          | Lt => keep ta b
          | Gt => keep a tb
          end
      end
  end.
Proof. destruct a as [|[ka pa] ta], b as [|[kb pb] tb]; reflexivity. Qed.
Lemma keep_nil_r {X Y} (a : list (N * X)) : keep a (@nil (N * Y)) = [].
Proof. destruct a as [|[ka pa] ta]; reflexivity. Qed.

Lemma keep_In {X Y} : forall (a : list (N * X)) (b : list (N * Y)) e, In e (keep a b) -> In e a /\ In (fst e) (map fst b).
Proof.
  induction a as [|[ka pa] ta IHa]; intros b e; [rewrite keep_eq; intros []|].
  induction b as [|[kb pb] tb IHb]; [rewrite keep_eq; intros []|].
  rewrite keep_eq. destruct (N.compare_spec ka kb) as [E|E|E]; intros H.
  - subst kb. destruct H as [<-|H]; [split; left; reflexivity|]. destruct (IHa tb e H) as [H1 H2]. split; right; assumption.
  - destruct (IHa _ e H) as [H1 H2]. split; [right; exact H1|exact H2].
  - destruct (IHb H) as [H1 H2]. split; [exact H1|right; exact H2].
Qed.
Lemma keep_Forall {X Y} (P : N * X -> Prop) (a : list (N * X)) (b : list (N * Y)) : Forall P a -> Forall P (keep a b).
Proof. rewrite !Forall_forall. intros H e He. apply H. apply (keep_In a b e He). Qed.
Lemma keep_ksorted {X Y} : forall (a : list (N * X)) (b : list (N * Y)), ksorted a -> ksorted (keep a b).
Proof.
  induction a as [|[ka pa] ta IHa]; intros b S; [rewrite keep_eq; constructor|].
  induction b as [|[kb pb] tb IHb]; [rewrite keep_eq; constructor|].
  rewrite keep_eq. inversion S; subst. destruct (ka ?= kb)%N.
  - constructor; [apply IHa; assumption|apply keep_Forall; assumption].
  - apply IHa; assumption.
  - exact IHb.
Qed.
Lemma keep_map {X Y X' Y'} (g : N * X -> X') (h : N * Y -> Y') : forall (a : list (N * X)) (b : list (N * Y)),
  keep (map (fun e => (fst e, g e)) a) (map (fun e => (fst e, h e)) b) = map (fun e => (fst e, g e)) (keep a b).
Proof.
  induction a as [|[ka pa] ta IHa]; intros b; [cbn [map]; rewrite !keep_eq; reflexivity|].
  induction b as [|[kb pb] tb IHb]; [cbn [map]; rewrite !keep_nil_r; reflexivity|].
  rewrite (keep_eq ((ka, pa) :: ta) ((kb, pb) :: tb)). cbn [map fst]. rewrite keep_eq.
  destruct (ka ?= kb)%N.
  - cbn [map fst]. f_equal. apply IHa.
  - exact (IHa ((kb, pb) :: tb)).
  - exact IHb.
Qed.
Lemma keep_In_snd {X Y} (a : list (N * X)) (b : list (N * Y)) x : In x (map snd (keep a b)) -> In x (map snd a).
Proof. intros H. apply in_map_iff in H as [e [E1 E2]]. apply in_map_iff. exists e. split; [exact E1|apply (keep_In a b e E2)]. Qed.
Lemma keep_NoDup_snd {X Y} : forall (a : list (N * X)) (b : list (N * Y)), NoDup (map snd a) -> NoDup (map snd (keep a b)).
Proof.
  induction a as [|[ka pa] ta IHa]; intros b S; [rewrite keep_eq; constructor|].
  induction b as [|[kb pb] tb IHb]; [rewrite keep_eq; constructor|].
  rewrite keep_eq. cbn [map snd] in S. inversion S; subst. destruct (ka ?= kb)%N.
  - cbn [map snd]. constructor; [|apply IHa; assumption]. intros H. apply H1. eapply keep_In_snd, H.
  - apply IHa; assumption.
  - exact IHb.
Qed.

(* ---- (iii) ---- *)
Lemma merge_cons_r_gt pr f kb pb X tb : allk_gt kb X ->
  merge false pr f X ((kb, pb) :: tb) = (if pr then [(kb, pb)] else []) ++ merge false pr f X tb.
Proof.
  intros H. destruct X as [|[kx px] tx].
  - rewrite !merge_nil_l. destruct pr; reflexivity.
  - inversion H; subst. cbn [fst] in *. rewrite merge_eq. destruct (N.compare_spec kx kb); try lia. destruct pr; reflexivity.
Qed.

Lemma merge_keep_irrelevant pr f : forall A B : list (N * N), ksorted A ->
  merge false pr f (keep A B) B = merge false pr f A B.
Proof.
  induction A as [|[ka pa] ta IHA]; intros B SA; [rewrite keep_eq; reflexivity|].
  induction B as [|[kb pb] tb IHB]; [rewrite keep_eq, !merge_nil_r; reflexivity|].
  rewrite keep_eq, (merge_eq false pr f ((ka, pa) :: ta)).
  destruct (ksorted_cons_inv _ _ SA) as [St Gt]. cbn [fst] in Gt.
  destruct (N.compare_spec ka kb) as [E|E|E].
  - subst kb. rewrite merge_eq, N.compare_refl. f_equal. apply IHA, St.
  - apply IHA, St.
  - rewrite merge_cons_r_gt.
    + rewrite IHB. destruct pr; reflexivity.
    + apply keep_Forall. constructor; [exact E|]. eapply Forall_impl; [|exact Gt]. cbn. intros; lia.
Qed.

(* ---- (i) step 1 without passthrough_left ---- *)
Lemma skipn_eq_step {A} (l l' : list A) d i : skipn i l = skipn i l' -> i < length l -> length l = length l' ->
  nth i l d = nth i l' d /\ skipn (S i) l = skipn (S i) l'.
Proof.
  intros H Hi Hl. rewrite (skipn_nth_cons l d i), (skipn_nth_cons l' d i) in H by lia. injection H as H1 H2. split; assumption.
Qed.

Section Step1N.
  Variables (pr : bool) (f : N -> N -> N) (PA : list N) (A0 : list pinfo) (PB : list N) (B0 : list pinfo).
  Let A := absE PA A0.
  Let B := absE PB B0.
  Let na := length A0.
  Let nb := length B0.

  Lemma step1_npl fuel : forall pm ia ib c w, (na - ia) + (nb - ib) <= fuel -> ia <= na -> ib <= nb -> w <= ia ->
    length pm = na -> skipn ia pm = skipn ia A0 ->
    let r := step1 fuel false pr B0 na nb pm ia ib c w in
    length (fst (fst (fst (fst r)))) = na /\ snd r <= na /\
    firstn (snd r) (fst (fst (fst (fst r)))) = firstn w pm ++ keep (skipn ia A0) (skipn ib B0) /\
    snd (fst r) + (if pr then nb - snd (fst (fst r)) else 0) = c + length (merge false pr f (skipn ia A) (skipn ib B)).
  Proof.
    assert (LA : length A = na) by (unfold A, absE, na; apply map_length).
    assert (LB : length B = nb) by (unfold B, absE, nb; apply map_length).
    assert (SA0 : skipn na A = []) by (rewrite <- LA; apply skipn_all).
    assert (SB0 : skipn nb B = []) by (rewrite <- LB; apply skipn_all).
    assert (SA1 : skipn na A0 = []) by (apply skipn_all).
    assert (SB1 : skipn nb B0 = []) by (apply skipn_all).
    induction fuel as [|fuel IH]; intros pm ia ib c w Hf Ha Hb Hw Hl Hs; cbn zeta.
    - cbn [step1 fst snd]. assert (ia = na) by lia. assert (ib = nb) by lia. subst ia ib.
      rewrite SA0, SB0, SA1, merge_nil_l, keep_eq, app_nil_r. repeat split; try lia. destruct pr; cbn [length]; lia.
    - cbn [step1]. destruct (Nat.ltb_spec ia na) as [Ca|Ca]; cbn [andb]; [destruct (Nat.ltb_spec ib nb) as [Cb|Cb]|]; cbn [andb].
      + destruct (skipn_eq_step pm A0 (0%N, 0) ia Hs ltac:(lia) Hl) as [Hn Hs'].
        assert (Epm : pmaj pm ia = pmaj A0 ia) by (unfold pmaj; rewrite Hn; reflexivity).
        rewrite Epm.
        assert (EA0 : skipn ia A0 = (pmaj A0 ia, pidx A0 ia) :: skipn (S ia) A0).
        { rewrite (skipn_nth_cons A0 (0%N, 0) ia) by (fold na; lia). unfold pmaj, pidx. destruct (nth ia A0 (0%N, 0)); reflexivity. }
        assert (EB0 : skipn ib B0 = (pmaj B0 ib, pidx B0 ib) :: skipn (S ib) B0).
        { rewrite (skipn_nth_cons B0 (0%N, 0) ib) by (fold nb; lia). unfold pmaj, pidx. destruct (nth ib B0 (0%N, 0)); reflexivity. }
        assert (EA : skipn ia A = (pmaj A0 ia, page_at PA A0 ia) :: skipn (S ia) A).
        { rewrite (skipn_nth_cons A (0%N, nth 0 PA 0%N) ia) by lia. rewrite (nthA PA A0). reflexivity. }
        assert (EB : skipn ib B = (pmaj B0 ib, page_at PB B0 ib) :: skipn (S ib) B).
        { rewrite (skipn_nth_cons B (0%N, nth 0 PB 0%N) ib) by lia. rewrite (nthB' PB B0). reflexivity. }
        rewrite EA0 at 1. rewrite EB0 at 1. rewrite EA at 1. rewrite EB at 1. rewrite keep_eq, merge_eq.
        destruct (pmaj A0 ia ?= pmaj B0 ib)%N.
        * set (pm1 := if w <? ia then set_nth w (nth ia pm (0%N, 0)) pm else pm).
          assert (E1 : pm1 = set_nth w (nth ia pm (0%N, 0)) pm).
          { unfold pm1. destruct (Nat.ltb_spec w ia); [reflexivity|]. assert (w = ia) by lia. subst w. symmetry. apply set_nth_same. }
          destruct (IH pm1 (S ia) (S ib) (S c) (S w)) as (R1 & R2 & R3 & R4); try lia.
          { rewrite E1, set_nth_length. exact Hl. }
          { rewrite E1, skipn_set_nth_lt by lia. exact Hs'. }
          split; [exact R1|]. split; [exact R2|]. split; [|rewrite R4; cbn [length]; lia].
          rewrite R3. rewrite (firstn_last pm1 (0%N, 0) w) by (rewrite E1, set_nth_length; lia).
          rewrite E1, firstn_set_nth_ge, nth_set_nth_eq by lia. rewrite Hn, <- app_assoc. cbn [app]. f_equal. f_equal. f_equal.
          unfold pmaj, pidx. destruct (nth ia A0 (0%N, 0)); reflexivity.
        * destruct (IH pm (S ia) ib c w) as (R1 & R2 & R3 & R4); try lia; try assumption.
          split; [exact R1|]. split; [exact R2|]. split; [rewrite R3, EB0; reflexivity|rewrite R4, EB; reflexivity].
        * destruct (IH pm ia (S ib) (if pr then S c else c) w) as (R1 & R2 & R3 & R4); try lia; try assumption.
          split; [exact R1|]. split; [exact R2|]. split; [rewrite R3, EA0; reflexivity|]. rewrite R4, EA. destruct pr; cbn [length]; lia.
      + cbn [fst snd]. assert (ib = nb) by lia. subst ib. rewrite SB0, SB1, merge_nil_r, (@keep_nil_r nat nat), app_nil_r.
        repeat split; try lia. destruct pr; cbn [length]; lia.
      + cbn [fst snd]. assert (ia = na) by lia. subst ia. rewrite SA0, SA1, merge_nil_l, keep_eq, app_nil_r.
        repeat split; try lia. destruct pr; [rewrite skipn_length|cbn [length]]; lia.
  Qed.
End Step1N.

(* ---- (ii) compact ---- *)
Fixpoint count_some {A} (l : list (option A)) : nat :=
  match l with [] => 0 | None :: t => count_some t | Some _ :: t => S (count_some t) end.
Lemma count_some_set_nth {A} (l : list (option A)) : forall j v, count_some (set_nth j v l) <= S (count_some l).
Proof.
  induction l as [|x t IH]; intros [|j] v; cbn [set_nth]; try (cbn [count_some]; lia).
  - destruct x, v; cbn [count_some]; lia.
  - specialize (IH j v). destruct x; cbn [count_some]; lia.
Qed.
Lemma count_some_repeat {A} k : count_some (repeat (@None A) k) = 0.
Proof. induction k as [|k IH]; cbn [repeat count_some]; [reflexivity|exact IH]. Qed.
Lemma fill_old_count pm : forall k i old, count_some (fill_old pm i k old) <= k + count_some old.
Proof.
  induction k as [|k IH]; intros i old; cbn [fill_old]; [lia|].
  specialize (IH (S i) (set_nth (pidx pm i) (Some i) old)). pose proof (count_some_set_nth old (pidx pm i) (Some i)). lia.
Qed.

Lemma fill_old_spec pm m : forall k i old, length old = m ->
  (forall p, i <= p < i + k -> pidx pm p < m) ->
  (forall p1 p2, i <= p1 < i + k -> i <= p2 < i + k -> pidx pm p1 = pidx pm p2 -> p1 = p2) ->
  let r := fill_old pm i k old in
  length r = m /\
  (forall p, i <= p < i + k -> nth (pidx pm p) r None = Some p) /\
  (forall j, (forall p, i <= p < i + k -> pidx pm p <> j) -> nth j r None = nth j old None) /\
  (forall j p, nth j r None = Some p -> (i <= p < i + k /\ pidx pm p = j) \/ nth j old None = Some p).
Proof.
  induction k as [|k IH]; intros i old Hl Hb Hi; cbn zeta; cbn [fill_old].
  - split; [exact Hl|]. split; [intros; lia|]. split; [reflexivity|]. intros j p H; right; exact H.
  - destruct (IH (S i) (set_nth (pidx pm i) (Some i) old)) as (R1 & R2 & R3 & R4).
    + rewrite set_nth_length; exact Hl.
    + intros; apply Hb; lia.
    + intros p1 p2 H1 H2 E; apply Hi; [lia|lia|exact E].
    + split; [exact R1|]. split; [|split].
      * intros p Hp. destruct (Nat.eq_dec p i) as [->|Ne].
        -- rewrite R3.
           ++ apply nth_set_nth_eq. rewrite Hl. apply Hb. lia.
           ++ intros p' Hp' E. assert (p' = i) by (apply Hi; [lia|lia|exact E]). lia.
        -- apply R2. lia.
      * intros j Hj. rewrite R3 by (intros p Hp; apply Hj; lia). apply nth_set_nth_ne. apply Hj. lia.
      * intros j p H. destruct (R4 j p H) as [[H1 H2]|H1]; [left; split; [lia|exact H2]|].
        destruct (Nat.eq_dec (pidx pm i) j) as [E|E].
        -- subst j. rewrite nth_set_nth_eq in H1 by (rewrite Hl; apply Hb; lia). injection H1 as <-. left. split; [lia|reflexivity].
        -- rewrite nth_set_nth_ne in H1 by exact E. right. exact H1.
Qed.

Lemma nth_firstn_lt {A} (l : list A) d : forall k p, p < k -> nth p (firstn k l) d = nth p l d.
Proof. induction l as [|x t IH]; intros [|k] [|p] H; cbn [firstn nth]; try reflexivity; try lia. apply IH. lia. Qed.
Lemma pidx_firstn (l : list pinfo) k p : p < k -> nth p (map snd (firstn k l)) 0 = pidx l p.
Proof.
  intros H. unfold pidx. rewrite <- (nth_firstn_lt l (0%N, 0) k p H). exact (map_nth snd (firstn k l) (0%N, 0) p).
Qed.

Section Compact.
  Variables (P0 : list N) (pm0 : list pinfo) (n : nat).
  Let m := length P0.
  Local Notation d0 := (0%N, 0).

  Definition CJ (i : nat) (pages : list N) (pm : list pinfo) (w : nat) : Prop :=
    length pages = m /\ length pm = length pm0 /\ w <= i /\
    (forall j, i <= j -> nth j pages 0%N = nth j P0 0%N) /\
    (forall p, p < n -> i <= pidx pm0 p -> nth p pm d0 = nth p pm0 d0) /\
    (forall p, p < n -> pidx pm0 p < i ->
       pmaj pm p = pmaj pm0 p /\ pidx pm p < w /\ nth (pidx pm p) pages 0%N = nth (pidx pm0 p) P0 0%N) /\
    (forall p1 p2, p1 < n -> p2 < n -> pidx pm0 p1 < i -> pidx pm0 p2 < i -> pidx pm p1 = pidx pm p2 -> p1 = p2).

  Hypothesis Hn : n <= length pm0.

  Lemma compact_pages_inv : forall rest i pages pm w, i + length rest = m -> CJ i pages pm w ->
    (forall t p, nth t rest None = Some p -> p < n /\ pidx pm0 p = i + t) ->
    (forall p, p < n -> i <= pidx pm0 p -> nth (pidx pm0 p - i) rest None = Some p) ->
    let r := compact_pages rest i pages pm w in
    CJ m (fst r) (snd r) (w + count_some rest).
  Proof.
    induction rest as [|x rest IH]; intros i pages pm w Hm J R1 R2; cbn zeta.
    - cbn [compact_pages fst snd count_some length] in *. assert (E : i = m) by lia. rewrite <- E, Nat.add_0_r. exact J.
    - cbn [length] in Hm. destruct x as [q|]; cbn [compact_pages count_some].
      + destruct (R1 0 q eq_refl) as [Hq Eq0]. rewrite Nat.add_0_r in Eq0.
        destruct J as (L1 & L2 & Hw & J1 & J2 & J3 & J4).
        set (pages1 := if w <? i then set_nth w (nth i pages 0%N) pages else pages).
        set (pm1 := (set_nth q (pmaj pm q, w) pm : list pinfo)).
        assert (Uq : forall p, p < n -> pidx pm0 p = i -> p = q).
        { intros p Hp E. pose proof (R2 p Hp ltac:(lia)) as H. rewrite E, Nat.sub_diag in H. cbn [nth] in H. congruence. }
        assert (Pg : length pages1 = m /\ nth w pages1 0%N = nth i pages 0%N /\ forall j, j <> w -> nth j pages1 0%N = nth j pages 0%N).
        { unfold pages1. destruct (Nat.ltb_spec w i).
          - split; [rewrite set_nth_length; exact L1|]. split; [apply nth_set_nth_eq; lia|]. intros j Hj. apply nth_set_nth_ne. lia.
          - assert (Ew : w = i) by lia. rewrite Ew. split; [exact L1|]. split; [reflexivity|intros; reflexivity]. }
        destruct Pg as (Pg1 & Pg2 & Pg3).
        assert (Pm : forall p, p <> q -> nth p pm1 d0 = nth p pm d0) by (intros p Hp; unfold pm1; apply nth_set_nth_ne; lia).
        assert (Pq : nth q pm1 d0 = (pmaj pm q, w)) by (unfold pm1; apply nth_set_nth_eq; pose proof Hn; unfold pinfo in *; lia).
        assert (Lt_i : forall p, p < n -> p <> q -> pidx pm0 p < S i -> pidx pm0 p < i).
        { intros p Hp Ne Hi. destruct (Nat.eq_dec (pidx pm0 p) i) as [E|E]; [exfalso; apply Ne, Uq; assumption|lia]. }
        replace (w + S (count_some rest)) with (S w + count_some rest) by lia.
        apply IH.
        * lia.
        * unfold CJ. split; [exact Pg1|]. split; [unfold pm1; rewrite set_nth_length; exact L2|]. split; [lia|].
          split; [|split; [|split]].
          -- intros j Hj. rewrite Pg3 by lia. apply J1. lia.
          -- intros p Hp Hi. rewrite Pm by (intros ->; lia). apply J2; [exact Hp|lia].
          -- intros p Hp Hi. destruct (Nat.eq_dec p q) as [->|Ne].
             ++ unfold pmaj at 1. unfold pidx at 1 2. rewrite Pq. cbn [fst snd]. split; [|split; [lia|]].
                ** unfold pmaj. rewrite J2 by (assumption || lia). reflexivity.
                ** rewrite Pg2, J1 by lia. rewrite Eq0. reflexivity.
             ++ destruct (J3 p Hp (Lt_i p Hp Ne Hi)) as (K1 & K2 & K3).
                unfold pmaj at 1. unfold pidx at 1 2. rewrite Pm by exact Ne.
                split; [exact K1|]. split; [fold (pidx pm p); lia|]. fold (pidx pm p). rewrite Pg3 by lia. exact K3.
          -- intros p1 p2 H1 H2 I1 I2 E.
             destruct (Nat.eq_dec p1 q) as [E1|N1], (Nat.eq_dec p2 q) as [E2|N2]; try congruence.
             ++ exfalso. subst p1. destruct (J3 p2 H2 (Lt_i p2 H2 N2 I2)) as (_ & K2 & _).
                unfold pidx in E, K2. rewrite Pq, (Pm p2 N2) in E. cbn [snd] in E. lia.
             ++ exfalso. subst p2. destruct (J3 p1 H1 (Lt_i p1 H1 N1 I1)) as (_ & K2 & _).
                unfold pidx in E, K2. rewrite Pq, (Pm p1 N1) in E. cbn [snd] in E. lia.
             ++ apply J4; try assumption; [apply Lt_i; assumption|apply Lt_i; assumption|].
                unfold pidx in E |- *. rewrite (Pm p1 N1), (Pm p2 N2) in E. exact E.
        * intros t p H. destruct (R1 (S t) p H) as [K1 K2]. split; [exact K1|lia].
        * intros p Hp Hi. pose proof (R2 p Hp ltac:(lia)) as H.
          replace (pidx pm0 p - i) with (S (pidx pm0 p - S i)) in H by lia. exact H.
      + assert (Ui : forall p, p < n -> pidx pm0 p <> i).
        { intros p Hp E. pose proof (R2 p Hp ltac:(lia)) as H. rewrite E, Nat.sub_diag in H. cbn [nth] in H. discriminate. }
        apply IH.
        * lia.
        * destruct J as (L1 & L2 & Hw & J1 & J2 & J3 & J4).
          unfold CJ. split; [exact L1|]. split; [exact L2|]. split; [lia|]. split; [|split; [|split]].
          -- intros j Hj; apply J1; lia.
          -- intros p Hp Hi; apply J2; [assumption|lia].
          -- intros p Hp Hi; apply J3; [assumption|]. pose proof (Ui p Hp). lia.
          -- intros p1 p2 H1 H2 I1 I2; apply J4; try assumption; [pose proof (Ui p1 H1)|pose proof (Ui p2 H2)]; lia.
        * intros t p H. destruct (R1 (S t) p H) as [K1 K2]. split; [exact K1|lia].
        * intros p Hp Hi. pose proof (R2 p Hp ltac:(lia)) as H.
          replace (pidx pm0 p - i) with (S (pidx pm0 p - S i)) in H by lia. exact H.
  Qed.

  Hypothesis ND : NoDup (map snd (firstn n pm0)).
  Hypothesis FR : Forall (fun j => j < m) (map snd (firstn n pm0)).

  Lemma compact_spec :
    let r := compact n P0 pm0 in
    length (fst r) = m /\ length (snd r) = length pm0 /\
    absE (fst r) (firstn n (snd r)) = absE P0 (firstn n pm0) /\
    NoDup (map snd (firstn n (snd r))) /\ Forall (fun j => j < n) (map snd (firstn n (snd r))).
  Proof.
    assert (LL : length (map snd (firstn n pm0)) = n) by (rewrite map_length, firstn_length; lia).
    assert (Hb : forall p, p < n -> pidx pm0 p < m).
    { intros p Hp. rewrite <- (pidx_firstn pm0 n p Hp). pose proof FR as F. rewrite Forall_forall in F. apply F. apply nth_In. lia. }
    assert (Hi : forall p1 p2, p1 < n -> p2 < n -> pidx pm0 p1 = pidx pm0 p2 -> p1 = p2).
    { intros p1 p2 H1 H2 E. rewrite <- (pidx_firstn pm0 n p1 H1), <- (pidx_firstn pm0 n p2 H2) in E.
      pose proof ND as D. rewrite (NoDup_nth _ 0) in D. apply D; lia || exact E. }
    cbn zeta. unfold compact. fold m.
    destruct (fill_old_spec pm0 m n 0 (repeat None m) (repeat_length _ _)) as (O1 & O2 & O3 & O4).
    { intros p Hp. apply Hb. lia. }
    { intros p1 p2 H1 H2. apply Hi; lia. }
    pose proof (fill_old_count pm0 n 0 (repeat None m)) as OC. rewrite count_some_repeat in OC.
    set (old := fill_old pm0 0 n (repeat None m)) in *.
    assert (Ef : firstn m old = old) by (rewrite <- O1; apply firstn_all). rewrite Ef.
    pose proof (compact_pages_inv old 0 P0 pm0 0) as C. cbn zeta in C.
    destruct (compact_pages old 0 P0 pm0 0) as [pg' pm'] eqn:Ecp. cbn [fst snd] in *.
    destruct C as (L1 & L2 & _ & _ & _ & J3 & J4).
    { lia. }
    { unfold CJ. split; [reflexivity|]. split; [reflexivity|]. split; [lia|]. split; [reflexivity|]. split; [reflexivity|].
      split; intros; lia. }
    { intros t p H. destruct (O4 t p H) as [[H1 H2]|H1]; [split; [lia|exact H2]|]. rewrite nth_repeat in H1. discriminate. }
    { intros p Hp _. rewrite Nat.sub_0_r. apply O2. lia. }
    assert (LL' : length (map snd (firstn n pm')) = n) by (rewrite map_length, firstn_length; lia).
    split; [exact L1|]. split; [exact L2|]. split; [|split].
    - unfold absE. apply (nth_ext _ _ (0%N, nth 0 pg' 0%N) (0%N, nth 0 P0 0%N)).
      + rewrite !map_length, !firstn_length. lia.
      + intros k Hk. rewrite map_length, firstn_length in Hk. assert (Hk' : k < n) by lia.
        pose proof (map_nth (fun e : pinfo => (fst e, nth (snd e) pg' 0%N)) (firstn n pm') d0 k) as M1.
        pose proof (map_nth (fun e : pinfo => (fst e, nth (snd e) P0 0%N)) (firstn n pm0) d0 k) as M2.
        cbn [fst snd] in M1, M2. refine (eq_trans M1 (eq_trans _ (eq_sym M2))).
        rewrite !nth_firstn_lt by exact Hk'.
        destruct (J3 k Hk' (Hb k Hk')) as (K1 & K2 & K3). unfold pmaj, pidx in K1, K3. rewrite K1, K3. reflexivity.
    - apply (NoDup_nth _ 0). intros i j Hi' Hj' E. rewrite LL' in Hi', Hj'.
      rewrite (pidx_firstn pm' n i Hi'), (pidx_firstn pm' n j Hj') in E. apply J4; auto.
    - apply Forall_forall. intros x Hx. destruct (In_nth _ _ 0 Hx) as (k & Hk & Ek). rewrite LL' in Hk.
      rewrite (pidx_firstn pm' n k Hk) in Ek. destruct (J3 k Hk (Hb k Hk)) as (_ & K2 & _). lia.
  Qed.
End Compact.

(* ---- final state of steps 3-4: the loop invariant still holds and count = 0 (needed for Inv0 of the result) ---- *)
Lemma count_zero pl pr f PB B0 n r : WF pl pr f PB B0 n r ->
  (s_ia r = 0 \/ pl = false) -> (s_ib r = 0 \/ pr = false) -> (s_ia r = 0 \/ s_ib r = 0) -> s_count r = 0.
Proof.
  intros Wr Ha Hbr Hab. pose proof Wr as (L1 & L2 & I1 & I2 & I3 & ND & FN & NX & CT & SK & KS).
  destruct Hab as [Z|Z].
  - assert (rev (viewA r) = []) as RA by (unfold viewA; rewrite Z; reflexivity). rewrite CT, RA.
    destruct Hbr as [Zb|Zb].
    + assert (rev (viewB PB B0 r) = []) as -> by (unfold viewB; rewrite Zb; reflexivity). reflexivity.
    + rewrite Zb. rewrite bmerge_nil_l_nopr. reflexivity.
  - assert (rev (viewB PB B0 r) = []) as RB by (unfold viewB; rewrite Z; reflexivity). rewrite CT, RB.
    destruct Ha as [Za|Za].
    + assert (rev (viewA r) = []) as -> by (unfold viewA; rewrite Za; reflexivity). reflexivity.
    + rewrite Za. rewrite bmerge_nil_r_nopl. reflexivity.
Qed.

Lemma run34_final pl pr f PB B0 n (SB : ksorted (absE PB B0)) s : WF pl pr f PB B0 n s ->
  WF pl pr f PB B0 n (run34 pl pr f PB B0 s) /\ s_count (run34 pl pr f PB B0 s) = 0.
Proof.
  intros W. unfold run34.
  destruct (step3_inv pl pr f PB B0 n SB (s_ia s + s_ib s) s W) as (W1 & _ & Z1 & _ & _). specialize (Z1 (le_n _)).
  set (s1 := step3 (s_ia s + s_ib s) pl pr f PB B0 s) in *.
  destruct pl, pr; cbv iota.
  - destruct Z1 as [Z|Z].
    + assert (D1 : drain_left (s_ia s1) s1 = s1) by (rewrite Z; reflexivity). rewrite D1.
      destruct (drain_right_inv true true f PB B0 n SB (s_ib s1) s1 eq_refl W1 Z) as (W2 & _ & Z2 & Z3). specialize (Z2 (le_n _)).
      split; [exact W2|]. apply (count_zero true true f PB B0 n); [exact W2|left; exact Z3|left; exact Z2|left; exact Z3].
    + destruct (drain_left_inv true true f PB B0 n (s_ia s1) s1 eq_refl W1 Z) as (W2 & _ & Z2 & Z3). specialize (Z2 (le_n _)).
      set (s2 := drain_left (s_ia s1) s1) in *.
      assert (D2 : drain_right (s_ib s2) PB B0 s2 = s2) by (rewrite Z3; reflexivity). rewrite D2.
      split; [exact W2|]. apply (count_zero true true f PB B0 n); [exact W2|left; exact Z2|left; exact Z3|left; exact Z2].
  - destruct Z1 as [Z|Z].
    + assert (D1 : drain_left (s_ia s1) s1 = s1) by (rewrite Z; reflexivity). rewrite D1.
      split; [exact W1|]. apply (count_zero true false f PB B0 n); [exact W1|left; exact Z|right; reflexivity|left; exact Z].
    + destruct (drain_left_inv true false f PB B0 n (s_ia s1) s1 eq_refl W1 Z) as (W2 & _ & Z2 & Z3). specialize (Z2 (le_n _)).
      split; [exact W2|]. apply (count_zero true false f PB B0 n); [exact W2|left; exact Z2|right; reflexivity|left; exact Z2].
  - destruct Z1 as [Z|Z].
    + destruct (drain_right_inv false true f PB B0 n SB (s_ib s1) s1 eq_refl W1 Z) as (W2 & _ & Z2 & Z3). specialize (Z2 (le_n _)).
      split; [exact W2|]. apply (count_zero false true f PB B0 n); [exact W2|right; reflexivity|left; exact Z2|left; exact Z3].
    + assert (D2 : drain_right (s_ib s1) PB B0 s1 = s1) by (rewrite Z; reflexivity). rewrite D2.
      split; [exact W1|]. apply (count_zero false true f PB B0 n); [exact W1|right; reflexivity|left; exact Z|right; exact Z].
  - split; [exact W1|]. apply (count_zero false false f PB B0 n); [exact W1|right; reflexivity|right; reflexivity|exact Z1].
Qed.

Lemma NoDup_app_r {A} (l l' : list A) : NoDup (l ++ l') -> NoDup l'.
Proof. induction l as [|x t IH]; cbn [app]; intros H; [exact H|]. inversion H; subst. apply IH. assumption. Qed.

Lemma WF_final_indices pl pr f PB B0 n r : WF pl pr f PB B0 n r -> s_count r = 0 ->
  NoDup (map snd (s_pm r)) /\ Forall (fun j => j < n) (map snd (s_pm r)).
Proof.
  intros (L1 & L2 & I1 & I2 & I3 & ND & FN & NX & _) C0. unfold used in ND, FN. rewrite C0 in ND, FN, NX. cbn [skipn] in ND, FN.
  split; [eapply NoDup_app_r; exact ND|]. apply Forall_app in FN as [_ FN]. eapply Forall_impl; [|exact FN]. cbn. intros j Hj. lia.
Qed.

Lemma finish_inv0 pl pr f PB B0 count s0 : ksorted (absE PB B0) -> WF pl pr f PB B0 count s0 ->
  s_count s0 = count -> s_ib s0 = length B0 ->
  let r := run34 pl pr f PB B0 s0 in
  let x := mkBS0 (resize count 0%N (s_pages r)) (resize count (0%N, 0) (s_pm r)) in
  Inv0 x /\ abs0 x = merge pl pr f (viewA s0) (absE PB B0).
Proof.
  intros SB W Hc Hb r x.
  destruct (run34_spec pl pr f PB B0 count SB s0 W Hc Hb) as (R1 & R2 & R3).
  destruct (run34_final pl pr f PB B0 count SB s0 W) as (Wr & C0).
  destruct (WF_final_indices pl pr f PB B0 count _ Wr C0) as (ND & FR).
  fold r in R1, R2, R3, ND, FR.
  assert (Ex : abs0 x = merge pl pr f (viewA s0) (absE PB B0)).
  { unfold x, abs0. cbn [pages0 pm0]. rewrite (resize_eq count _ _ R2), (resize_eq count _ _ R3). exact R1. }
  split; [|exact Ex]. unfold Inv0. rewrite Ex. unfold x. cbn [pages0 pm0]. rewrite (resize_eq _ _ _ R2), (resize_eq _ _ _ R3).
  split; [lia|]. split; [exact ND|]. split; [rewrite R3; exact FR|].
  destruct W as (_ & _ & _ & _ & _ & _ & _ & _ & _ & _ & KS).
  refine (sorted_merge pl pr f _ _ _ _); [exact KS|exact SB].
Qed.

(* ---- resize facts ---- *)
Lemma nth_resize {A} (d : A) n l j : j < n -> nth j (resize n d l) d = nth j l d.
Proof.
  intros H. unfold resize. destruct (Nat.lt_ge_cases j (length (firstn n l))) as [C|C].
  - rewrite app_nth1 by exact C. rewrite firstn_length in C. apply nth_firstn_lt. lia.
  - rewrite app_nth2 by exact C. rewrite nth_repeat. rewrite firstn_length in C. symmetry. apply nth_overflow. lia.
Qed.
Lemma firstn_resize {A} (d : A) n l k : k <= n -> k <= length l -> firstn k (resize n d l) = firstn k l.
Proof.
  intros H1 H2. unfold resize. rewrite firstn_app, firstn_firstn, firstn_length.
  replace (k - Nat.min n (length l)) with 0 by lia. rewrite Nat.min_l by lia. cbn [firstn]. apply app_nil_r.
Qed.
Lemma absE_resize pages pm n : Forall (fun j => j < n) (map snd pm) -> absE (resize n 0%N pages) pm = absE pages pm.
Proof.
  intros H. unfold absE. apply map_ext_in. intros e He. f_equal. apply nth_resize.
  rewrite Forall_forall in H. apply H. apply in_map. exact He.
Qed.

(* ---- end to end for operators WITHOUT passthrough_left (intersect, reversed_subtract): UNBOUNDED ---- *)
Lemma process0_refines_npl (f : N -> N -> N) (a b : bitset0) :
  N.testbit (f 1 0)%N 0%N = false -> Inv0 a -> Inv0 b ->
  abs0 (process0 f a b) = merge false (N.testbit (f 0 1)%N 0%N) f (abs0 a) (abs0 b) /\ Inv0 (process0 f a b).
Proof.
  intros Hpl (La & NDa & Fa & Sa) (Lb & NDb & Fb & Sb).
  set (pr := N.testbit (f 0 1)%N 0%N). unfold process0. rewrite Hpl. fold pr.
  set (PA := pages0 a) in *. set (A0 := pm0 a) in *. set (PB := pages0 b) in *. set (B0 := pm0 b) in *.
  set (na := length PA). set (nb := length PB).
  assert (Ena : na = length A0) by (unfold na; lia). assert (Enb : nb = length B0) by (unfold nb; lia).
  assert (FB : firstn nb (absE PB B0) = abs0 b) by (apply firstn_all2; unfold abs0, absE; rewrite map_length; change (length B0 <= nb); lia).
  pose proof (step1_npl pr f PA A0 PB B0 (na + nb) A0 0 0 0 0) as S1. rewrite <- Ena, <- Enb in S1.
  specialize (S1 ltac:(lia) ltac:(lia) ltac:(lia) ltac:(lia) ltac:(lia) eq_refl). cbn zeta in S1.
  destruct (step1 (na + nb) false pr B0 na nb A0 0 0 0 0) as [[[[pm1 ia] ib] c] w]. cbn [fst snd] in S1.
  destruct S1 as (L1 & Hw & E1 & E2). cbn [skipn firstn app] in E1, E2.
  change (absE PA A0) with (abs0 a) in E2. change (absE PB B0) with (abs0 b) in E2.
  cbv beta iota zeta.
  assert (NDk : NoDup (map snd (firstn w pm1))) by (rewrite E1; apply keep_NoDup_snd, NDa).
  assert (FRk : Forall (fun j => j < length PA) (map snd (firstn w pm1))).
  { rewrite E1. apply Forall_forall. intros x Hx. rewrite Forall_forall in Fa. apply Fa. eapply keep_In_snd, Hx. }
  pose proof (compact_spec PA pm1 w ltac:(lia) NDk FRk) as C. cbn zeta in C.
  destruct (compact w PA pm1) as [pg2 pm2]. cbn [fst snd] in C. destruct C as (C1 & C2 & C3 & C4 & C5).
  cbv beta iota.
  set (count := if pr then c + (nb - ib) else c).
  set (KAB := keep (abs0 a) (abs0 b)).
  assert (EK : absE PA (keep A0 B0) = KAB).
  { exact (eq_sym (keep_map (fun e : pinfo => nth (snd e) PA 0%N) (fun e : pinfo => nth (snd e) PB 0%N) A0 B0)). }
  assert (SK : ksorted KAB) by (apply keep_ksorted, Sa).
  assert (Em : merge false pr f KAB (abs0 b) = merge false pr f (abs0 a) (abs0 b)) by (apply merge_keep_irrelevant, Sa).
  assert (Ec : count = length (merge false pr f KAB (abs0 b))).
  { rewrite Em. unfold count. destruct pr; lia. }
  assert (Sub : subk (rev KAB) (rev (abs0 b))).
  { intros e He. apply in_rev in He. apply keep_In in He as [_ He]. rewrite map_rev. apply in_rev. rewrite rev_involutive. exact He. }
  assert (Lw : length KAB = w).
  { rewrite <- EK. unfold absE. rewrite map_length, <- E1, firstn_length. lia. }
  assert (Hge : w <= count).
  { rewrite Ec. rewrite <- (app_nil_r (merge false pr f KAB (abs0 b))). rewrite <- (bmerge_merge false pr f _ _ [] SK Sb).
    pose proof (bmerge_len_ge false pr f (rev KAB) (rev (abs0 b)) (or_intror Sub) (kdesc_rev _ SK) (kdesc_rev _ Sb)) as H.
    rewrite rev_length, Lw in H. exact H. }
  set (s0 := mkSt (resize count 0%N pg2) (resize count (0%N, 0) pm2) w nb count w).
  unfold pinfo in *.
  assert (F1 : firstn w (resize count (0%N, 0) pm2) = firstn w pm2) by (apply firstn_resize; lia).
  assert (VA : viewA s0 = KAB).
  { unfold viewA, s0. cbn [s_pages s_pm s_ia]. unfold pinfo. rewrite F1. rewrite absE_resize by (eapply Forall_impl; [|exact C5]; cbn; intros; lia).
    rewrite C3, E1. exact EK. }
  assert (W0 : WF false pr f PB B0 count s0).
  { unfold WF. rewrite VA. unfold used, viewB, s0. cbn [s_pages s_pm s_ia s_ib s_count s_next]. unfold pinfo.
    rewrite !resize_length. split; [reflexivity|]. split; [reflexivity|]. split; [exact Hge|]. split; [lia|]. split; [lia|].
    rewrite (skipn_all2 (resize count (0%N, 0) pm2)) by (rewrite resize_length; lia).
    rewrite F1. cbn [map]. rewrite app_nil_r.
    split; [exact C4|]. split; [exact C5|]. split; [lia|].
    split.
    { rewrite FB. rewrite (bmerge_merge false pr f _ _ [] SK Sb), app_nil_r. exact Ec. }
    split; [right|exact SK]. rewrite FB. exact Sub. }
  destruct (finish_inv0 false pr f PB B0 count s0 Sb W0 eq_refl Enb) as (I1 & I2). cbn zeta in I1, I2.
  rewrite VA in I2. change (absE PB B0) with (abs0 b) in I2. rewrite Em in I2.
  split; [exact I2|exact I1].
Qed.

(* the passthrough_left case again, now with Inv0 of the result *)
Lemma process0_refines_pl_inv (f : N -> N -> N) (a b : bitset0) :
  N.testbit (f 1 0)%N 0%N = true -> Inv0 a -> Inv0 b ->
  abs0 (process0 f a b) = merge true (N.testbit (f 0 1)%N 0%N) f (abs0 a) (abs0 b) /\ Inv0 (process0 f a b).
Proof.
  intros Hpl (La & NDa & Fa & Sa) (Lb & NDb & Fb & Sb).
  set (pr := N.testbit (f 0 1)%N 0%N). unfold process0. rewrite Hpl. fold pr.
  set (PA := pages0 a) in *. set (A0 := pm0 a) in *. set (PB := pages0 b) in *. set (B0 := pm0 b) in *.
  set (na := length PA). set (nb := length PB).
  assert (Ena : na = length A0) by (unfold na; lia). assert (Enb : nb = length B0) by (unfold nb; lia).
  pose proof (step1_pl pr f PA A0 PB B0 (na + nb) 0 0 0 0) as S1. rewrite <- Ena, <- Enb in S1.
  specialize (S1 ltac:(lia) ltac:(lia) ltac:(lia)). cbn zeta in S1.
  destruct (step1 (na + nb) true pr B0 na nb A0 0 0 0 0) as [[[[pm1 ia] ib] c] w]. cbn [fst snd] in S1. destruct S1 as [E1 E2].
  subst pm1. cbn [skipn] in E2. change (absE PA A0) with (abs0 a) in E2. change (absE PB B0) with (abs0 b) in E2.
  cbv beta iota zeta.
  set (count := if pr then c + (na - ia) + (nb - ib) else c + (na - ia)).
  assert (Ec : count = length (merge true pr f (abs0 a) (abs0 b))).
  { unfold count. destruct pr; lia. }
  assert (Hge : na <= count).
  { rewrite Ec. rewrite <- (app_nil_r (merge true pr f (abs0 a) (abs0 b))). rewrite <- (bmerge_merge true pr f _ _ [] Sa Sb).
    pose proof (bmerge_len_ge true pr f (rev (abs0 a)) (rev (abs0 b)) (or_introl eq_refl) (kdesc_rev _ Sa) (kdesc_rev _ Sb)) as H.
    assert (Hl : length (rev (abs0 a)) = na).
    { rewrite rev_length. unfold abs0. rewrite map_length. exact (eq_sym Ena). }
    rewrite Hl in H. exact H. }
  set (s0 := mkSt (resize count 0%N PA) (resize count (0%N, 0) A0) na nb count na).
  assert (VA : viewA s0 = abs0 a).
  { unfold viewA, s0. cbn [s_pages s_pm s_ia]. rewrite (resize_grow count _ A0) by lia. rewrite Ena, firstn_app_exact.
    rewrite (resize_grow count _ PA) by (fold na; lia). apply absE_pages_app. exact Fa. }
  assert (W0 : WF true pr f PB B0 count s0).
  { unfold WF. rewrite VA. unfold used, viewB, s0. cbn [s_pages s_pm s_ia s_ib s_count s_next].
    rewrite !resize_length. split; [reflexivity|]. split; [reflexivity|]. split; [exact Hge|]. split; [lia|]. split; [lia|].
    rewrite (skipn_all2 (resize count (0%N, 0) A0)) by (rewrite resize_length; lia).
    rewrite (resize_grow count _ A0) by lia. rewrite Ena, firstn_app_exact. cbn [map]. rewrite app_nil_r.
    split; [exact NDa|]. split; [rewrite <- Ena; exact Fa|]. split; [lia|].
    split.
    { rewrite Enb. change (absE PB B0) with (abs0 b). rewrite <- (map_length (fun e : pinfo => (fst e, nth (snd e) PB 0%N)) B0).
      change (map (fun e : pinfo => (fst e, nth (snd e) PB 0%N)) B0) with (abs0 b). rewrite firstn_all.
      rewrite (bmerge_merge true pr f _ _ [] Sa Sb), app_nil_r. exact Ec. }
    split; [left; reflexivity|exact Sa]. }
  destruct (finish_inv0 true pr f PB B0 count s0 Sb W0 eq_refl Enb) as (I1 & I2). cbn zeta in I1, I2.
  rewrite VA in I2. change (absE PB B0) with (abs0 b) in I2.
  split; [exact I2|exact I1].
Qed.

(* ---- process_L0_refines_L1, all operators ---- *)
Lemma process0_refines_all (f : N -> N -> N) (a b : bitset0) : Inv0 a -> Inv0 b ->
  abs0 (process0 f a b) = merge (N.testbit (f 1 0)%N 0%N) (N.testbit (f 0 1)%N 0%N) f (abs0 a) (abs0 b) /\
  Inv0 (process0 f a b).
Proof.
  intros Ia Ib. destruct (N.testbit (f 1 0)%N 0%N) eqn:H.
  - apply process0_refines_pl_inv; assumption.
  - apply process0_refines_npl; assumption.
Qed.
Lemma process0_refines_process (f : N -> N -> N) (a b : bitset0) la lb : Inv0 a -> Inv0 b ->
  abs0 (process0 f a b) = pgs (process f (mkBS (abs0 a) la) (mkBS (abs0 b) lb)).
Proof. intros Ia Ib. unfold process. cbn [pgs]. apply (process0_refines_all f a b Ia Ib). Qed.
Lemma process0_preserves_inv0 (f : N -> N -> N) (a b : bitset0) : Inv0 a -> Inv0 b -> Inv0 (process0 f a b).
Proof. intros Ia Ib. apply (process0_refines_all f a b Ia Ib). Qed.
Lemma process0_intersect_refines a b la lb : Inv0 a -> Inv0 b ->
  abs0 (process0 N.land a b) = pgs (bs_intersect (mkBS (abs0 a) la) (mkBS (abs0 b) lb)).
Proof. apply process0_refines_process. Qed.
Lemma process0_reversed_subtract_refines a b la lb : Inv0 a -> Inv0 b ->
  abs0 (process0 (fun x y => N.ldiff y x) a b) = pgs (bs_reversed_subtract (mkBS (abs0 a) la) (mkBS (abs0 b) lb)).
Proof. apply process0_refines_process. Qed.

(* (i) at the initial call of BitSet::process *)
Lemma step1_compacts_front pr f PA A0 PB B0 :
  let r := step1 (length A0 + length B0) false pr B0 (length A0) (length B0) A0 0 0 0 0 in
  length (fst (fst (fst (fst r)))) = length A0 /\ snd r <= length A0 /\
  firstn (snd r) (fst (fst (fst (fst r)))) = keep A0 B0 /\
  snd (fst r) + (if pr then length B0 - snd (fst (fst r)) else 0) = length (merge false pr f (absE PA A0) (absE PB B0)).
Proof.
  pose proof (step1_npl pr f PA A0 PB B0 (length A0 + length B0) A0 0 0 0 0
                ltac:(lia) ltac:(lia) ltac:(lia) ltac:(lia) eq_refl eq_refl) as H.
  cbn zeta in H. cbn [skipn firstn app] in H. exact H.
Qed.
