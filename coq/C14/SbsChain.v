(* C14 (codec half) — semantics of the encoder's levels and the level-by-level run of the decoder
   on the encoder's breadth-first node list. *)
From Coq Require Import ZArith List Bool Lia Arith PeanoNat ZifyNat ZifyBool Sorting.Sorted.
From FV Require Import Lib.RustInt C14.SbsModel C14.SbsProofs C14.SbsSpec C14.SbsEnc C14.SbsDecInv.
Import ListNotations.
Open Scope Z_scope.
Ltac Zify.zify_post_hook ::= Z.to_euclidean_division_equations.

Lemma zmem_in v l : zmem v l = true <-> In v l.
Proof.
  unfold zmem. rewrite existsb_exists. split.
  - intros (x & Hx & E). apply Z.eqb_eq in E. subst. assumption.
  - intros Hin. exists v. split; [assumption | apply Z.eqb_refl].
Qed.

Lemma sorted_ext : forall l1 l2 : list Z, StronglySorted Z.lt l1 -> StronglySorted Z.lt l2 ->
  (forall x, In x l1 <-> In x l2) -> l1 = l2.
Proof.
  induction l1 as [|a l1 IH]; intros l2 H1 H2 Hx.
  - destruct l2 as [|b l2]; [reflexivity|]. exfalso. apply (Hx b). left. reflexivity.
  - destruct l2 as [|b l2]. { exfalso. apply (Hx a). left. reflexivity. }
    inversion H1 as [|? ? H1' Ha]; subst. inversion H2 as [|? ? H2' Hb]; subst.
    rewrite Forall_forall in Ha, Hb.
    assert (a = b).
    { destruct (proj1 (Hx a) (or_introl eq_refl)) as [E|Hin]; [auto|].
      destruct (proj2 (Hx b) (or_introl eq_refl)) as [E|Hin2]; [auto|].
      specialize (Ha b Hin2). specialize (Hb a Hin). lia. }
    subst b. f_equal. apply IH; try assumption.
    intros x. split; intros Hin.
    + destruct (proj1 (Hx x) (or_intror Hin)) as [E|]; [|assumption]. specialize (Ha x Hin). lia.
    + destruct (proj2 (Hx x) (or_intror Hin)) as [E|]; [|assumption]. specialize (Hb x Hin). lia.
Qed.

Lemma sorted_filter (f : Z -> bool) l : StronglySorted Z.lt l -> StronglySorted Z.lt (filter f l).
Proof.
  induction 1 as [|a l Hs IH Ha]; cbn [filter]; [constructor|].
  destruct (f a); [|assumption]. constructor; [assumption|].
  rewrite Forall_forall in *. intros x Hx. apply filter_In in Hx. apply Ha. tauto.
Qed.

Lemma sorted_app (l1 l2 : list Z) : StronglySorted Z.lt l1 -> StronglySorted Z.lt l2 ->
  (forall x y, In x l1 -> In y l2 -> x < y) -> StronglySorted Z.lt (l1 ++ l2).
Proof.
  induction l1 as [|a l1 IH]; intros H1 H2 H12; cbn [app]; [assumption|].
  inversion H1 as [|? ? H1' Ha]; subst.
  constructor; [apply IH; [assumption | assumption | intros; apply H12; [right|]; assumption]|].
  apply Forall_app. split; [assumption|]. apply Forall_forall. intros y Hy. apply H12; [left; reflexivity | assumption].
Qed.

Lemma sorted_flat_map (bf : Z) (f : Z -> list Z) ps : 0 < bf -> StronglySorted Z.lt ps ->
  (forall p, StronglySorted Z.lt (f p)) -> (forall p x, In x (f p) -> p * bf <= x < (p + 1) * bf) ->
  StronglySorted Z.lt (flat_map f ps).
Proof.
  intros Hbf Hs Hf Hr. induction Hs as [|p ps Hs IH Hp]; cbn [flat_map]; [constructor|].
  apply sorted_app; [apply Hf | assumption|].
  intros x y Hx Hy. apply in_flat_map in Hy. destruct Hy as (q & Hq & Hy).
  rewrite Forall_forall in Hp. specialize (Hp q Hq). specialize (Hr p x Hx) as Hrx. specialize (Hr q y Hy). nia.
Qed.

Lemma set_bits_from_in_iff n : forall i v j, In j (set_bits_from n i v) <-> i <= j < i + Z.of_nat n /\ Z.testbit v j = true.
Proof.
  induction n as [|n IH]; intros i v j; cbn [set_bits_from].
  - split; [contradiction | lia].
  - destruct (Z.testbit v i) eqn:E; cbn [In]; rewrite IH.
    + split.
      * intros [<-|(Hr & Ht)]; [split; [lia | assumption] | split; [lia | assumption]].
      * intros (Hr & Ht). destruct (Z.eq_dec i j); [left; assumption | right; split; [lia | assumption]].
    + split.
      * intros (Hr & Ht). split; [lia | assumption].
      * intros (Hr & Ht). destruct (Z.eq_dec i j) as [<-|]; [congruence | split; [lia | assumption]].
Qed.

Lemma set_bits_in_iff v j : In j (set_bits v) <-> 0 <= j < 32 /\ Z.testbit v j = true.
Proof. rewrite set_bits_unfold, set_bits_from_in_iff. change (Z.of_nat 32) with 32. rewrite Z.add_0_l. reflexivity. Qed.

Lemma u32_mask_ones bf : bf_valid bf = true -> u32_mask bf = Z.ones bf.
Proof. intros Hbf. destruct (bf_cases _ Hbf) as [-> | [-> | [-> | ->]]]; reflexivity. Qed.

Lemma divmod_pj bf p j : 0 <= j < bf -> (p * bf + j) / bf = p /\ (p * bf + j) mod bf = j.
Proof.
  intros Hj. split.
  - symmetry. apply (Z.div_unique (p * bf + j) bf p j); [left; assumption | lia].
  - symmetry. apply (Z.mod_unique (p * bf + j) bf p j); [left; assumption | lia].
Qed.

Section Sem.
Variable bf : Z.
Hypothesis Hbf : bf_valid bf = true.
Variable S0 : list Z.
Hypothesis H0 : vals_ok S0.

Definition bitsL (k' : nat) (p : Z) : Z := lbits bf (Vk bf k' S0) p.
Definition fillL (k' : nat) (p : Z) : bool := lfilled bf (isf_of (Fk bf k' S0)) (Vk bf k' S0) p.

Lemma Vk_ne k : Vk bf k S0 <> [].
Proof. destruct (Vk_ok bf Hbf S0 k H0) as (Hne & _). assumption. Qed.

Lemma Vk_sorted k : StronglySorted Z.lt (Vk bf k S0).
Proof. destruct (Vk_ok bf Hbf S0 k H0) as (_ & Hs & _). assumption. Qed.

Lemma Vk_range k v : In v (Vk bf k S0) -> 0 <= v < U32.
Proof. destruct (Vk_ok bf Hbf S0 k H0) as (_ & _ & Hb). rewrite Forall_forall in Hb. apply Hb. Qed.

Lemma Vk_in k : forall q, In q (Vk bf k S0) <-> exists x, In x S0 /\ x / bf ^ Z.of_nat k = q.
Proof.
  pose proof (bf_ge2 bf Hbf) as Hb2.
  induction k as [|k IH]; intros q.
  - cbn [Vk]. change (Z.of_nat 0) with 0. rewrite Z.pow_0_r. split.
    + intros Hq. exists q. split; [assumption | apply Z.div_1_r].
    + intros (x & Hx & <-). rewrite Z.div_1_r. assumption.
  - cbn [Vk]. rewrite (par_in bf (Vk bf k S0) q (Vk_ne k)). split.
    + intros (v & Hv & <-). apply IH in Hv. destruct Hv as (x & Hx & <-). exists x. split; [assumption|].
      rewrite Nat2Z.inj_succ, Z.pow_succ_r by lia. rewrite Z.div_div by (try apply Z.pow_pos_nonneg; lia).
      f_equal. lia.
    + intros (x & Hx & <-). exists (x / bf ^ Z.of_nat k). split; [apply IH; exists x; split; [assumption | reflexivity]|].
      rewrite Nat2Z.inj_succ, Z.pow_succ_r by lia. rewrite Z.div_div by (try apply Z.pow_pos_nonneg; lia).
      f_equal. lia.
Qed.

(* bits of a node = which children exist *)
Lemma bitsL_bit k' p j : 0 <= j < bf -> Z.testbit (bitsL k' p) j = true <-> In (p * bf + j) (Vk bf k' S0).
Proof.
  intros Hj. unfold bitsL, lbits. rewrite (bitsof_bits bf Hbf) by lia. rewrite existsb_exists. split.
  - intros (v & Hv & Hc). rewrite <- in_rev in Hv. replace (p * bf + j) with v by lia. assumption.
  - intros Hin. exists (p * bf + j). split; [rewrite <- in_rev; assumption|].
    destruct (divmod_pj bf p j Hj) as (E1 & E2). rewrite E1, E2, !Z.eqb_refl. reflexivity.
Qed.

Lemma bitsL_bound k' p : 0 <= bitsL k' p < 2 ^ bf.
Proof. apply (bitsof_bound bf Hbf). Qed.

Lemma isf_succ k' v : isf_of (Fk bf (S k') S0) v = true <-> In v (Vk bf (S k') S0) /\ fillL k' v = true.
Proof.
  cbn [Fk isf_of]. rewrite zmem_in. unfold flist. rewrite filter_In. cbn [Vk]. unfold fillL. reflexivity.
Qed.

Lemma fillL_iff k' p : fillL k' p = true <->
  forall j, 0 <= j < bf -> In (p * bf + j) (Vk bf k' S0) /\ isf_of (Fk bf k' S0) (p * bf + j) = true.
Proof.
  pose proof (bf_ge2 bf Hbf) as Hb2.
  unfold fillL, lfilled. rewrite (u32_mask_ones bf Hbf). rewrite Z.eqb_eq.
  set (isf := isf_of (Fk bf k' S0)). set (l := rev (Vk bf k' S0)).
  assert (Hbit : forall j, 0 <= j < bf -> Z.testbit (fbitsof bf isf p l) j = true <->
                 In (p * bf + j) (Vk bf k' S0) /\ isf (p * bf + j) = true).
  { intros j Hj. rewrite (fbitsof_bits bf Hbf) by lia. rewrite existsb_exists. split.
    - intros (v & Hv & Hc). unfold l in Hv. rewrite <- in_rev in Hv.
      apply andb_true_iff in Hc. destruct Hc as (Hc1 & Hc2). replace (p * bf + j) with v by lia.
      split; assumption.
    - intros (Hin & Hf). exists (p * bf + j). split; [unfold l; rewrite <- in_rev; assumption|].
      destruct (divmod_pj bf p j Hj) as (E1 & E2). rewrite Hf, E1, E2, !Z.eqb_refl. reflexivity. }
  split.
  - intros E j Hj. apply Hbit; [assumption|]. rewrite E. apply Z.ones_spec_low. lia.
  - intros Hall. apply Z.bits_inj'. intros n Hn. destruct (Z_lt_le_dec n bf).
    + rewrite Z.ones_spec_low by lia. apply Hbit; [lia|]. apply Hall. lia.
    + rewrite Z.ones_spec_high by lia. apply (testbit_small _ bf); [apply (fbitsof_bound bf Hbf) | assumption].
Qed.

(* a filled node covers only members *)
Lemma full_sem : forall k' p, In p (Vk bf (S k') S0) -> fillL k' p = true ->
  forall x, p * bf ^ Z.of_nat (S k') <= x < (p + 1) * bf ^ Z.of_nat (S k') -> In x S0.
Proof.
  pose proof (bf_ge2 bf Hbf) as Hb2.
  induction k' as [|k' IH]; intros p Hp Hf x Hx.
  - change (Z.of_nat 1) with 1 in Hx. rewrite Z.pow_1_r in Hx.
    rewrite fillL_iff in Hf. specialize (Hf (x - p * bf) ltac:(lia)). destruct Hf as (Hin & _).
    cbn [Vk] in Hin. replace (p * bf + (x - p * bf)) with x in Hin by lia. assumption.
  - rewrite fillL_iff in Hf.
    set (B := bf ^ Z.of_nat (S k')) in *.
    assert (HB : 0 < B) by (apply Z.pow_pos_nonneg; lia).
    assert (HB2 : bf ^ Z.of_nat (S (S k')) = bf * B).
    { unfold B. rewrite (Nat2Z.inj_succ (S k')), Z.pow_succ_r by lia. reflexivity. }
    rewrite HB2 in Hx.
    set (c := x / B). assert (Hc : c * B <= x < (c + 1) * B) by (unfold c; nia).
    assert (Hcj : 0 <= c - p * bf < bf) by nia.
    specialize (Hf (c - p * bf) Hcj). replace (p * bf + (c - p * bf)) with c in Hf by lia.
    destruct Hf as (Hcin & Hcf). apply isf_succ in Hcf. destruct Hcf as (_ & Hcf).
    apply (IH c Hcin Hcf x). fold B. exact Hc.
Qed.

(* a node whose parent is filled is itself filled *)
Lemma fill_down k' p : In p (Vk bf (S k') S0) -> fillL (S k') (p / bf) = true -> fillL k' p = true.
Proof.
  intros Hp Hf. pose proof (bf_ge2 bf Hbf) as Hb2. pose proof (Vk_range _ _ Hp).
  rewrite fillL_iff in Hf. specialize (Hf (p mod bf) ltac:(apply Z.mod_pos_bound; lia)).
  replace (p / bf * bf + p mod bf) with p in Hf by lia.
  destruct Hf as (_ & Hf). apply isf_succ in Hf. tauto.
Qed.

End Sem.

Lemma flat_map_map {A B C} (f : A -> list B) (g : B -> C) l :
  flat_map (fun a => map g (f a)) l = map g (flat_map f l).
Proof. induction l as [|a l IH]; [reflexivity|]. cbn [flat_map]. rewrite map_app, IH. reflexivity. Qed.

Lemma flat_map_ext_in {A B} (f g : A -> list B) l : (forall a, In a l -> f a = g a) -> flat_map f l = flat_map g l.
Proof.
  induction l as [|a l IH]; intros Hfg; [reflexivity|]. cbn [flat_map].
  rewrite (Hfg a (or_introl eq_refl)), IH; [reflexivity|]. intros b Hb. apply Hfg. right. assumption.
Qed.

Lemma flat_map_of_map {A B C} (f : B -> list C) (g : A -> B) l : flat_map f (map g l) = flat_map (fun a => f (g a)) l.
Proof. induction l as [|a l IH]; [reflexivity|]. cbn [map flat_map]. rewrite IH. reflexivity. Qed.

Lemma ne_has_elem {A} (l : list A) : l <> [] -> exists x, In x l.
Proof. destruct l as [|a l]; [contradiction | intros _; exists a; left; reflexivity]. Qed.

Definition nodeval (n : node) : list Z :=
  let '(b, _, ty) := n in if ty =? 0 then [b] else if ty =? 1 then [0] else [].

Section Chain.
Variable bf : Z.
Hypothesis Hbf : bf_valid bf = true.
Variable S0 : list Z.
Hypothesis H0 : vals_ok S0.
Variable top : nat.
Hypothesis Htop : (1 <= top)%nat.
Hypothesis HH : Z.of_nat top <= max_height bf.
Hypothesis Hmax : forall x, In x S0 -> x < bf ^ Z.of_nat top.

Let Ht : Z := Z.of_nat top.

Definition inrng (p q : Z) : bool := (q * bf <=? p) && (p <? (q + 1) * bf).
Definition skipL (k' : nat) (p : Z) : bool :=
  if Nat.eqb (S k') top then false else existsb (inrng p) (FPk bf S0 (S (S k'))).
Definition serL (k' : nat) : Z -> list Z := serp (bitsL bf S0 k') (fillL bf S0 k') (skipL k').
Definition streamk (k : nat) : list Z := flat_map nodeval (bfs bf S0 top k).
Definition coverL (k' : nat) (x : Z) : bool := zmem x S0 && negb (skipL k' (x / bf ^ Z.of_nat (S k'))).

Lemma rev_Mk k' :
  rev (Mk bf S0 top (S k')) =
  map (fun p => markset bf (if Nat.eqb (S k') top then [] else FPk bf S0 (S (S k')))
                        (bitsL bf S0 k' p, p, if fillL bf S0 k' p then 1 else 0)) (Vk bf (S k') S0).
Proof.
  unfold Mk, Rk, rawlayer. replace (S k' - 1)%nat with k' by lia.
  rewrite <- map_rev, <- map_rev, map_map. cbn [Vk]. unfold par. reflexivity.
Qed.

Lemma ser_Mk k' : flat_map nodeval (rev (Mk bf S0 top (S k'))) = flat_map (serL k') (Vk bf (S k') S0).
Proof.
  rewrite rev_Mk, flat_map_of_map. apply flat_map_ext_in. intros p _.
  unfold serL, serp, skipL, markset, nodeval. fold (inrng p).
  destruct (Nat.eqb (S k') top); cbn [existsb].
  - destruct (fillL bf S0 k' p); reflexivity.
  - change (fun p0 : Z => (p0 * bf <=? p) && (p <? (p0 + 1) * bf)) with (inrng p).
    destruct (existsb (inrng p) (FPk bf S0 (S (S k')))); [reflexivity|].
    destruct (fillL bf S0 k' p); reflexivity.
Qed.

Lemma streamk_S k' : streamk (S k') = flat_map (serL k') (Vk bf (S k') S0) ++ streamk k'.
Proof. unfold streamk. cbn [bfs]. rewrite flat_map_app, ser_Mk. reflexivity. Qed.

Lemma inrng_iff p q : 0 <= p -> inrng p q = true <-> q = p / bf.
Proof. intros Hp. pose proof (bf_ge2 bf Hbf). unfold inrng. split; intros Hq; [nia|]. subst q. nia. Qed.

Lemma skipL_iff k' p : In p (Vk bf (S k') S0) ->
  skipL k' p = true <-> S k' <> top /\ fillL bf S0 (S k') (p / bf) = true.
Proof.
  intros Hp. pose proof (Vk_range bf Hbf S0 H0 _ _ Hp) as Hr. unfold skipL.
  destruct (Nat.eqb_spec (S k') top) as [E|NE]; [split; [discriminate | intros (? & _); contradiction]|].
  rewrite existsb_exists. unfold FPk, FPd. replace (S (S k') - 1)%nat with (S k') by lia.
  split.
  - intros (q & Hq & Hi). apply inrng_iff in Hi; [|lia]. subst q. apply filter_In in Hq. destruct Hq as (_ & Hf).
    split; [assumption | exact Hf].
  - intros (_ & Hf). exists (p / bf). split; [|apply inrng_iff; [lia | reflexivity]].
    apply filter_In. split; [|exact Hf].
    assert (Hin : In (p / bf) (par bf (Vk bf (S k') S0))).
    { apply (par_in bf (Vk bf (S k') S0) (p / bf) (Vk_ne bf Hbf S0 H0 (S k'))). exists p. split; [assumption | reflexivity]. }
    unfold par in Hin. rewrite <- in_rev in Hin. exact Hin.
Qed.

Lemma skip_fill k' p : In p (Vk bf (S k') S0) -> skipL k' p = true -> fillL bf S0 k' p = true.
Proof.
  intros Hp Hs. apply skipL_iff in Hs; [|assumption]. destruct Hs as (_ & Hf).
  apply (fill_down bf Hbf S0 H0); assumption.
Qed.

Lemma pow_top k : (k <= top)%nat -> bf ^ Ht = bf ^ Z.of_nat k * bf ^ (Ht - Z.of_nat k).
Proof. intros Hk. unfold Ht. rewrite <- Z.pow_add_r by lia. f_equal. lia. Qed.

Lemma pokL k' p : (S k' <= top)%nat -> In p (Vk bf (S k') S0) ->
  pok bf Ht (Z.of_nat (S k')) (bitsL bf S0 k') (fillL bf S0 k') p.
Proof.
  intros Hk Hp. pose proof (bf_ge2 bf Hbf) as Hb2. pose proof (Vk_range bf Hbf S0 H0 _ _ Hp) as Hr.
  unfold pok. split; [lia|]. split.
  - apply (Vk_in bf Hbf S0 H0) in Hp. destruct Hp as (x & Hx & <-). pose proof (Hmax x Hx) as Hmx. fold Ht in Hmx.
    rewrite (pow_top (S k') Hk) in Hmx |- *.
    assert (0 < bf ^ Z.of_nat (S k')) by (apply Z.pow_pos_nonneg; lia).
    assert (0 < bf ^ (Ht - Z.of_nat (S k'))) by (apply Z.pow_pos_nonneg; unfold Ht; lia).
    assert (x / bf ^ Z.of_nat (S k') < bf ^ (Ht - Z.of_nat (S k'))) by (apply Z.div_lt_upper_bound; lia).
    nia.
  - intros _. pose proof (bitsL_bound bf Hbf S0 k' p) as Hb. split; [|lia].
    cbn [Vk] in Hp. apply (par_in bf (Vk bf k' S0) p (Vk_ne bf Hbf S0 H0 k')) in Hp. destruct Hp as (v & Hv & Ev).
    pose proof (Vk_range bf Hbf S0 H0 _ _ Hv).
    assert (Hbit : Z.testbit (bitsL bf S0 k' p) (v mod bf) = true).
    { apply (bitsL_bit bf Hbf S0); [apply Z.mod_pos_bound; lia|]. replace (p * bf + v mod bf) with v by lia. assumption. }
    destruct (Z.eq_dec (bitsL bf S0 k' p) 0) as [E|]; [rewrite E, Z.bits_0 in Hbit; discriminate | lia].
Qed.

Lemma x_range x : In x S0 -> 0 <= x < U32.
Proof. intros Hx. apply (Vk_range bf Hbf S0 H0 0%nat x). exact Hx. Qed.

Lemma anc_in k x : In x S0 -> In (x / bf ^ Z.of_nat k) (Vk bf k S0).
Proof. intros Hx. apply (Vk_in bf Hbf S0 H0). exists x. split; [assumption | reflexivity]. Qed.

Lemma div_range x B : 0 < B -> (x / B) * B <= x < (x / B + 1) * B.
Proof. intros HB. nia. Qed.

Lemma fcover_sound k' x : (S k' <= top)%nat ->
  fcover bf Ht (Z.of_nat (S k')) (fillL bf S0 k') (skipL k') x (Vk bf (S k') S0) = true -> In x S0.
Proof.
  intros Hk Hc. unfold fcover in Hc. apply existsb_exists in Hc. destruct Hc as (p & Hp & Hc).
  unfold inr, dep in Hc. replace (Ht - (Ht - Z.of_nat (S k') + 1) + 1) with (Z.of_nat (S k')) in Hc by lia.
  apply andb_true_iff in Hc. destruct Hc as (Hc1 & Hc2). apply andb_true_iff in Hc1. destruct Hc1 as (_ & Hf).
  apply (full_sem bf Hbf S0 k' p Hp Hf). lia.
Qed.

Lemma cover_step k'' x : (S (S k'') <= top)%nat -> coverL (S k'') x = true ->
  fcover bf Ht (Z.of_nat (S (S k''))) (fillL bf S0 (S k'')) (skipL (S k'')) x (Vk bf (S (S k'')) S0) || coverL k'' x = true.
Proof.
  intros Hk Hc. pose proof (bf_ge2 bf Hbf) as Hb2. unfold coverL in Hc. apply andb_true_iff in Hc. destruct Hc as (Hz & Hs).
  apply zmem_in in Hz as Hx. pose proof (x_range x Hx) as Hxr.
  set (K := Z.of_nat (S (S k''))) in *. set (a := x / bf ^ K) in *.
  assert (Ha : In a (Vk bf (S (S k'')) S0)) by (apply anc_in; assumption).
  assert (HB : 0 < bf ^ K) by (apply Z.pow_pos_nonneg; unfold K; lia).
  destruct (fillL bf S0 (S k'') a) eqn:Ef.
  - apply orb_true_iff. left. unfold fcover. apply existsb_exists. exists a. split; [assumption|].
    rewrite Hs, Ef. cbn [andb]. unfold inr, dep. replace (Ht - (Ht - K + 1) + 1) with K by lia.
    pose proof (div_range x (bf ^ K) HB). fold a in H. unfold U32 in *. lia.
  - apply orb_true_iff. right. unfold coverL. rewrite Hz. cbn [andb]. apply negb_true_iff.
    apply not_true_is_false. intros Hsk.
    set (c := x / bf ^ Z.of_nat (S k'')) in *.
    assert (Hc : In c (Vk bf (S k'') S0)) by (apply anc_in; assumption).
    apply (skipL_iff k'' c Hc) in Hsk. destruct Hsk as (_ & Hf).
    assert (Eca : c / bf = a).
    { unfold c, a, K. rewrite Z.div_div by (try apply Z.pow_pos_nonneg; lia). f_equal.
      rewrite (Nat2Z.inj_succ (S k'')), Z.pow_succ_r by lia. lia. }
    rewrite Eca in Hf. congruence.
Qed.

Lemma leaf_step x : coverL 0 x = true ->
  fcover bf Ht (Z.of_nat 1) (fillL bf S0 0) (skipL 0) x (Vk bf 1 S0) ||
  lcover bf (Z.of_nat 1) (bitsL bf S0 0) (fillL bf S0 0) (skipL 0) x (Vk bf 1 S0) = true.
Proof.
  intros Hc. pose proof (bf_ge2 bf Hbf) as Hb2. unfold coverL in Hc. apply andb_true_iff in Hc. destruct Hc as (Hz & Hs).
  apply zmem_in in Hz as Hx. pose proof (x_range x Hx) as Hxr.
  change (Z.of_nat 1) with 1 in *. rewrite Z.pow_1_r in Hs. set (a := x / bf) in *.
  assert (Ha : In a (Vk bf 1 S0)).
  { pose proof (anc_in 1 x Hx) as Hin. change (Z.of_nat 1) with 1 in Hin. rewrite Z.pow_1_r in Hin. exact Hin. }
  apply negb_true_iff in Hs.
  destruct (fillL bf S0 0 a) eqn:Ef.
  - apply orb_true_iff. left. unfold fcover. apply existsb_exists. exists a. split; [assumption|].
    rewrite Hs, Ef. cbn [negb andb]. unfold inr, dep. replace (Ht - (Ht - 1 + 1) + 1) with 1 by lia.
    rewrite Z.pow_1_r. unfold a, U32 in *. lia.
  - apply orb_true_iff. right. unfold lcover. apply existsb_exists. exists a. split; [assumption|].
    rewrite Hs, Ef. cbn [negb andb]. apply existsb_exists. exists (x mod bf). split.
    + apply set_bits_in_iff. split; [pose proof (Z.mod_pos_bound x bf ltac:(lia)); lia|].
      apply (bitsL_bit bf Hbf S0); [apply Z.mod_pos_bound; lia|]. cbn [Vk].
      replace (a * bf + x mod bf) with x by (unfold a; lia). assumption.
    + rewrite Z.pow_1_r. unfold a. lia.
Qed.

Lemma lcover_sound x :
  lcover bf (Z.of_nat 1) (bitsL bf S0 0) (fillL bf S0 0) (skipL 0) x (Vk bf 1 S0) = true -> In x S0.
Proof.
  intros Hc. pose proof (bf_ge2 bf Hbf) as Hb2. unfold lcover in Hc. apply existsb_exists in Hc. destruct Hc as (p & Hp & Hc).
  apply andb_true_iff in Hc. destruct Hc as (_ & Hc). apply existsb_exists in Hc. destruct Hc as (j & Hj & Ej).
  change (Z.of_nat 1) with 1 in Ej. rewrite Z.pow_1_r in Ej.
  pose proof (bitsL_bound bf Hbf S0 0 p) as Hb.
  pose proof (set_bits_in (bitsL bf S0 0 p) bf j ltac:(lia) Hb Hj) as (Hjr & _).
  apply set_bits_in_iff in Hj. destruct Hj as (_ & Ht').
  apply (bitsL_bit bf Hbf S0 0 p j Hjr) in Ht'. cbn [Vk] in Ht'. replace x with (p * bf + j) by lia. assumption.
Qed.

(* the children queued while processing one level are the non-skipped nodes of the next level *)
Definition chL (k : nat) (p : Z) : list Z :=
  if skipL k p || fillL bf S0 k p then [] else map (fun j => p * bf + j) (set_bits (bitsL bf S0 k p)).

Lemma kids_chL k'' : (S (S k'') <= top)%nat ->
  kids bf Ht (Z.of_nat (S (S k''))) (bitsL bf S0 (S k'')) (fillL bf S0 (S k'')) (skipL (S k'')) (Vk bf (S (S k'')) S0) =
  map (mkq bf Ht (Z.of_nat (S k''))) (flat_map (chL (S k'')) (Vk bf (S (S k'')) S0)).
Proof.
  intros Hk. pose proof (bf_ge2 bf Hbf) as Hb2.
  unfold kids. rewrite <- flat_map_map. apply flat_map_ext_in.
  intros p _. unfold chL. destruct (skipL (S k'') p || fillL bf S0 (S k'') p); [reflexivity|].
  rewrite map_map. apply map_ext. intros j. unfold mkq, dep.
  replace (Ht - (Ht - Z.of_nat (S (S k'')) + 1)) with (Z.of_nat (S k'')) by lia.
  rewrite (Nat2Z.inj_succ (S k'')), Z.pow_succ_r by lia. f_equal; lia.
Qed.

Lemma chL_spec k p x : In x (chL k p) ->
  p * bf <= x < (p + 1) * bf /\ skipL k p = false /\ fillL bf S0 k p = false /\
  exists j, 0 <= j < bf /\ x = p * bf + j /\ Z.testbit (bitsL bf S0 k p) j = true.
Proof.
  pose proof (bf_ge2 bf Hbf) as Hb2. unfold chL.
  destruct (skipL k p || fillL bf S0 k p) eqn:E.
  - intros [].
  - intros Hx. apply orb_false_iff in E. destruct E as (Es & Ef).
    apply in_map_iff in Hx. destruct Hx as (j & <- & Hj).
    pose proof (bitsL_bound bf Hbf S0 k p) as Hb.
    pose proof (set_bits_in _ bf j ltac:(lia) Hb Hj) as (Hjr & _).
    apply set_bits_in_iff in Hj. destruct Hj as (_ & Ht').
    split; [lia|]. split; [assumption|]. split; [assumption|]. exists j. split; [lia|]. split; [reflexivity | assumption].
Qed.

Lemma map_add_sorted p l : StronglySorted Z.lt l -> StronglySorted Z.lt (map (fun j => p * bf + j) l).
Proof.
  induction 1 as [|a l Hs IHs Ha]; cbn [map]; constructor; [assumption|].
  rewrite Forall_forall in *. intros y Hy. apply in_map_iff in Hy. destruct Hy as (j & <- & Hj). specialize (Ha j Hj). lia.
Qed.

Lemma chL_sorted k p : StronglySorted Z.lt (chL k p).
Proof.
  unfold chL. destruct (skipL k p || fillL bf S0 k p); [constructor|].
  destruct (set_bits_sorted bf (bitsL bf S0 k p)) as (Hs & _).
  apply Sorted_StronglySorted in Hs; [|intros a b c; lia].
  apply map_add_sorted. assumption.
Qed.

Lemma chL_intro k p x : 0 <= x < U32 -> p = x / bf -> skipL k p = false -> fillL bf S0 k p = false ->
  In x (Vk bf k S0) -> In x (chL k p).
Proof.
  intros Hxr Ep Hsk Hfl Hx. pose proof (bf_ge2 bf Hbf) as Hb2.
  unfold chL. replace (skipL k p || fillL bf S0 k p) with false by (rewrite Hsk, Hfl; reflexivity).
  apply in_map_iff.
  exists (x mod bf). split; [subst p; lia|].
  apply set_bits_in_iff. split; [pose proof (Z.mod_pos_bound x bf ltac:(lia)); lia|].
  apply (bitsL_bit bf Hbf S0); [apply Z.mod_pos_bound; lia|].
  replace (p * bf + x mod bf) with x by (subst p; lia). assumption.
Qed.

Lemma flat_chL k'' : (S (S k'') <= top)%nat ->
  flat_map (chL (S k'')) (Vk bf (S (S k'')) S0) = filter (fun p => negb (skipL k'' p)) (Vk bf (S k'') S0).
Proof.
  intros Hk. pose proof (bf_ge2 bf Hbf) as Hb2.
  apply sorted_ext.
  - apply (sorted_flat_map bf); [lia | apply Vk_sorted; assumption | apply chL_sorted |].
    intros p x Hx. apply (chL_spec _ _ _ Hx).
  - apply sorted_filter. apply Vk_sorted; assumption.
  - intros x. rewrite in_flat_map, filter_In. split.
    + intros (p & Hp & Hx). destruct (chL_spec _ _ _ Hx) as (_ & Hsk & Hfl & j & Hj & -> & Hbit).
      apply (bitsL_bit bf Hbf S0 (S k'') p j Hj) in Hbit. split; [assumption|].
      apply negb_true_iff. apply not_true_is_false. intros Hs.
      apply (skipL_iff k'' _ Hbit) in Hs. destruct Hs as (_ & Hf).
      destruct (divmod_pj bf p j Hj) as (E1 & _). rewrite E1 in Hf. congruence.
    + intros (Hx & Hs). apply negb_true_iff in Hs. pose proof (Vk_range bf Hbf S0 H0 _ _ Hx) as Hxr.
      assert (Hp : In (x / bf) (Vk bf (S (S k'')) S0)).
      { cbn [Vk]. apply (par_in bf (Vk bf (S k'') S0) (x / bf) (Vk_ne bf Hbf S0 H0 (S k''))). exists x. split; [assumption | reflexivity]. }
      assert (Hfl : fillL bf S0 (S k'') (x / bf) = false).
      { apply not_true_is_false. intros Hf. assert (Hsk : skipL k'' x = true) by (apply (skipL_iff k'' x Hx); split; [lia | exact Hf]). congruence. }
      assert (Hsk : skipL (S k'') (x / bf) = false).
      { apply not_true_is_false. intros Hsk. pose proof (skip_fill (S k'') (x / bf) Hp Hsk). congruence. }
      exists (x / bf). split; [assumption|]. apply chL_intro; try assumption; reflexivity.
Qed.

Lemma kids_next k'' : (S (S k'') <= top)%nat ->
  kids bf Ht (Z.of_nat (S (S k''))) (bitsL bf S0 (S k'')) (fillL bf S0 (S k'')) (skipL (S k'')) (Vk bf (S (S k'')) S0) =
  map (mkq bf Ht (Z.of_nat (S k''))) (filter (fun p => negb (skipL k'' p)) (Vk bf (S k'') S0)).
Proof. intros Hk. rewrite kids_chL, flat_chL by assumption. reflexivity. Qed.

Lemma HHt : 1 <= Ht <= max_height bf.
Proof. unfold Ht. lia. Qed.

Lemma chain : forall k', (S k' <= top)%nat -> forall i out rest,
  (forall x, in_ranges x out || coverL k' x = zmem x S0) ->
  exists out',
    aloop bf Ht 0 (U32 - 1) (streamk (S k') ++ rest) i
          (map (mkq bf Ht (Z.of_nat (S k'))) (filter (fun p => negb (skipL k' p)) (Vk bf (S k') S0))) out =
    ADone (i + length (streamk (S k'))) [] out' /\
    forall x, in_ranges x out' = zmem x S0.
Proof.
  pose proof (bf_ge2 bf Hbf) as Hb2.
  induction k' as [|k'' IH]; intros Hk i out rest Hinv.
  - (* leaf level *)
    rewrite streamk_S. change (streamk 0) with (@nil Z). rewrite app_nil_r.
    assert (Hall : Forall (fun p => skipL 0 p = false ->
                     pok bf Ht (Z.of_nat 1) (bitsL bf S0 0) (fillL bf S0 0) p /\
                     (fillL bf S0 0 p = false -> forall j, In j (set_bits (bitsL bf S0 0 p)) -> p * bf ^ Z.of_nat 1 + j < U32))
                   (Vk bf 1 S0)).
    { apply Forall_forall. intros p Hp _. split; [apply pokL; assumption|].
      intros _ j Hj. pose proof (bitsL_bound bf Hbf S0 0 p) as Hb.
      pose proof (set_bits_in _ bf j ltac:(lia) Hb Hj) as (Hjr & _).
      apply set_bits_in_iff in Hj. destruct Hj as (_ & Ht').
      apply (bitsL_bit bf Hbf S0 0 p j Hjr) in Ht'. cbn [Vk] in Ht'.
      change (Z.of_nat 1) with 1. rewrite Z.pow_1_r. pose proof (x_range _ Ht'). lia. }
    destruct (level_leaf bf Ht Hbf HHt (Z.of_nat 1) ltac:(unfold Ht; lia) (bitsL bf S0 0) (fillL bf S0 0) (skipL 0)
                eq_refl (Vk bf 1 S0) Hall i out rest) as (out' & Hm & E).
    exists out'. split; [exact E|].
    intros x. rewrite Hm. specialize (Hinv x).
    destruct (zmem x S0) eqn:Ez.
    + destruct (in_ranges x out); [reflexivity|]. cbn [orb] in *. apply leaf_step. assumption.
    + apply orb_false_iff in Hinv. destruct Hinv as (Ho & _). rewrite Ho. cbn [orb].
      apply orb_false_iff. split; apply not_true_is_false; intros Hc.
      * apply fcover_sound in Hc; [|lia]. apply zmem_in in Hc. congruence.
      * apply lcover_sound in Hc. apply zmem_in in Hc. congruence.
  - (* inner level *)
    rewrite streamk_S. rewrite <- app_assoc.
    assert (Hall : Forall (fun p => skipL (S k'') p = false ->
                     pok bf Ht (Z.of_nat (S (S k''))) (bitsL bf S0 (S k'')) (fillL bf S0 (S k'')) p)
                   (Vk bf (S (S k'')) S0)).
    { apply Forall_forall. intros p Hp _. apply pokL; assumption. }
    rewrite <- (app_nil_r (map _ (filter _ (Vk bf (S (S k'')) S0)))).
    destruct (level_inner bf Ht Hbf HHt (Z.of_nat (S (S k''))) ltac:(unfold Ht; lia) (bitsL bf S0 (S k'')) (fillL bf S0 (S k''))
                (skipL (S k'')) ltac:(lia) (Vk bf (S (S k'')) S0) Hall i [] out (streamk (S k'') ++ rest)) as (out1 & Hm & E).
    unfold serL. rewrite E. cbn [app]. rewrite kids_next by assumption.
    assert (Hinv1 : forall x, in_ranges x out1 || coverL k'' x = zmem x S0).
    { intros x. rewrite Hm. specialize (Hinv x). destruct (zmem x S0) eqn:Ez.
      - destruct (in_ranges x out); [reflexivity|]. cbn [orb] in *. apply cover_step; assumption.
      - apply orb_false_iff in Hinv. destruct Hinv as (Ho & _). rewrite Ho. cbn [orb].
        apply orb_false_iff. split.
        + apply not_true_is_false. intros Hc. apply fcover_sound in Hc; [|lia]. apply zmem_in in Hc. congruence.
        + unfold coverL. rewrite Ez. reflexivity. }
    destruct (IH ltac:(lia) (i + length (flat_map (serp (bitsL bf S0 (S k'')) (fillL bf S0 (S k'')) (skipL (S k''))) (Vk bf (S (S k'')) S0)))%nat
                 out1 rest Hinv1) as (out' & E2 & Hm2).
    exists out'. split; [|exact Hm2]. rewrite E2. f_equal. rewrite app_length. lia.
Qed.

Lemma Vk_top : Vk bf top S0 = [0].
Proof.
  pose proof (bf_ge2 bf Hbf) as Hb2.
  apply sorted_ext; [apply Vk_sorted; assumption | constructor; constructor|].
  assert (HB : 0 < bf ^ Z.of_nat top) by (apply Z.pow_pos_nonneg; lia).
  intros q. rewrite (Vk_in bf Hbf S0 H0). split.
  - intros (x & Hx & <-). pose proof (Hmax x Hx). pose proof (x_range x Hx). left. symmetry. apply Z.div_small. lia.
  - intros [<-|[]]. destruct (ne_has_elem S0 (Vk_ne bf Hbf S0 H0 0%nat)) as (x & Hx).
    exists x. split; [assumption|]. pose proof (Hmax x Hx). pose proof (x_range x Hx). apply Z.div_small. lia.
Qed.

Lemma decode_bfs rest : exists out',
  aloop bf Ht 0 (U32 - 1) (streamk top ++ rest) 0 [(0, 1)] [] = ADone (length (streamk top)) [] out' /\
  forall x, in_ranges x out' = zmem x S0.
Proof.
  assert (E : top = S (top - 1)) by lia. set (t' := (top - 1)%nat) in *.
  assert (Hsk : forall p, skipL t' p = false).
  { intros p. unfold skipL. replace (Nat.eqb (S t') top) with true by (symmetry; apply Nat.eqb_eq; lia). reflexivity. }
  assert (Hinv : forall x, in_ranges x [] || coverL t' x = zmem x S0).
  { intros x. unfold coverL. rewrite Hsk. cbn. apply andb_true_r. }
  destruct (chain t' ltac:(lia) 0%nat [] rest Hinv) as (out' & Ec & Hm).
  rewrite <- E in Ec. cbn [Nat.add] in Ec.
  exists out'. split; [|exact Hm].
  rewrite <- Ec. f_equal.
  rewrite Vk_top. cbn [filter]. rewrite Hsk. cbn [negb map]. unfold mkq, dep.
  f_equal. f_equal. unfold Ht. lia.
Qed.

End Chain.
