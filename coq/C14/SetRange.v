(* C14 (set half) — RangeSet.  The unbounded theorems of DESIGN §C14 (rangeset_canonical,
   rangeset_intersection) are NOT proved here; what is proved is their restriction to a complete finite
   domain (every insert sequence of length <= 3 over all 36 ranges with bounds in [0,5], resp. every pair
   of sequences of length <= 2 over the 16 ranges with bounds in [0,3]) by evaluation of the model, the
   bound being part of the statement.  The unbounded property is tied to the implementation by the
   correspondence check and the independent sort-and-sweep oracle in the harness. *)
From Coq Require Import ZArith NArith List Bool Lia.
From FV Require Import C14.Model.
Import ListNotations.
Open Scope N_scope.

(* sorted by start, every range non-empty, consecutive ranges neither overlapping nor adjacent *)
Fixpoint canonical (l : list (N * N)) : bool :=
  match l with
  | [] => true
  | (s, e) :: t => (s <=? e) && (match t with [] => true | (s2, _) :: _ => e + 1 <? s2 end) && canonical t
  end.
Definition covered (l : list (N * N)) (v : N) : bool := existsb (fun r => (fst r <=? v) && (v <=? snd r)) l.

Definition nseq (m : N) : list N := map N.of_nat (seq 0 (S (N.to_nat m))).
Definition all_ranges (m : N) : list (N * N) := list_prod (nseq m) (nseq m).
(* all sequences of length <= n over the given alphabet *)
Fixpoint all_seqs {A} (n : nat) (alpha : list A) : list (list A) :=
  match n with
  | O => [[]]
  | S n' => [] :: flat_map (fun s => map (fun a => a :: s) alpha) (all_seqs n' alpha)
  end.

Definition canon_ok (m : N) (ins : list (N * N)) : bool :=
  let r := rs_extend [] ins in
  canonical r && forallb (fun v => Bool.eqb (covered r v) (covered ins v)) (nseq (m + 1)).
Definition inter_ok (m : N) (p : list (N * N) * list (N * N)) : bool :=
  let a := rs_extend [] (fst p) in
  let b := rs_extend [] (snd p) in
  let r := rs_intersection a b in
  canonical r && forallb (fun v => Bool.eqb (covered r v) (covered a v && covered b v)) (nseq (m + 1)).

Lemma rangeset_canonical_bounded_all : forall ins, In ins (all_seqs 3 (all_ranges 5)) -> canon_ok 5 ins = true.
Proof. apply forallb_forall. vm_compute. reflexivity. Qed.

Lemma rangeset_intersection_bounded_all : forall p,
  In p (list_prod (all_seqs 2 (all_ranges 3)) (all_seqs 2 (all_ranges 3))) -> inter_ok 3 p = true.
Proof. apply forallb_forall. vm_compute. reflexivity. Qed.
