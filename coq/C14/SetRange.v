(* C14 (set half) — RangeSet proofs *)
From Coq Require Import ZArith NArith List Bool Lia.
From FV Require Import C14.Model.
Import ListNotations.
Open Scope N_scope.
