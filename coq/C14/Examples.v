(* C14 (set half) — non-vacuity examples for Props.v *)
From Coq Require Import NArith List Bool Lia Sorting.Sorted.
From FV Require Import C14.Model C14.Proofs C14.SetObs C14.SetDom C14.SetRange C14.SetRangeU C14.SetL0 C14.SetL0Proofs.
Import ListNotations.
Open Scope N_scope.

(* a non-trivial operation sequence crossing page edges, with inversion and mixed-mode set operations *)
Definition ex_ops : list op :=
  [OInsertRange false 510 1025; OInsert true 4294967295; OInvert true; ORemove true 512;
   OIntersect false; OInsert true 7; OSubtract true; OUnion false; ORemoveRange false 1000 1023; OInvert false].

Example c14_ex_modes : is_inverted (fst (run ex_ops)) = false /\ is_inverted (snd (run ex_ops)) = true.
Proof. vm_compute. split; reflexivity. Qed.
Example c14_ex_members :
  map (is_contains (fst (run ex_ops))) [509; 510; 511; 512; 513; 999; 1000; 1023; 1024; 1025; 1026; 4294967295]
  = [false; false; false; true; false; false; true; true; false; false; false; true].
Proof. vm_compute. reflexivity. Qed.
Example c14_ex_spec_agrees :
  map (fst (run_spec ex_ops)) [509; 510; 511; 512; 513; 999; 1000; 1023; 1024; 1025; 1026; 4294967295]
  = map (is_contains (fst (run ex_ops))) [509; 510; 511; 512; 513; 999; 1000; 1023; 1024; 1025; 1026; 4294967295].
Proof. vm_compute. reflexivity. Qed.
Example c14_ex_len : is_len 4294967295 (fst (run ex_ops)) = 26 /\ is_len 4294967295 (snd (run ex_ops)) = 4294967296 - 517.
Proof. vm_compute. split; reflexivity. Qed.

(* the inclusive-set observation theorems have inhabited hypotheses: after ex_ops set A is inclusive *)
Example c14_ex_incl : exists s, fst (run ex_ops) = Incl s /\ is_first 4294967295 (Incl s) = Some 512 /\
  is_last 4294967295 (Incl s) = Some 4294967295 /\ is_iter 4294967295 (Incl s) 3 = [512; 1000; 1001].
Proof. eexists. split; [vm_compute; reflexivity|]. vm_compute. repeat split; reflexivity. Qed.
(* inverted set B: first / last / ranges through the exclusive-mode iterator of the model (tested, not proved) *)
Example c14_ex_excl : is_first 4294967295 (snd (run ex_ops)) = Some 0 /\ is_last 4294967295 (snd (run ex_ops)) = Some 4294967294 /\
  is_iter_ranges 4294967295 (snd (run ex_ops)) = [(0, 509); (1026, 4294967294)].
Proof. vm_compute. repeat split; reflexivity. Qed.
(* RangeSet: adjacent and overlapping ranges merge, reversed ranges are ignored *)
Example c14_ex_rangeset : rs_extend [] [(10, 12); (20, 25); (13, 13); (5, 3); (24, 30); (4294967295, 4294967295); (0, 8)]
  = [(0, 8); (10, 13); (20, 30); (4294967295, 4294967295)].
Proof. vm_compute. reflexivity. Qed.
Example c14_ex_rangeset_inter : rs_intersection [(0, 8); (10, 13); (20, 30)] [(5, 11); (13, 22)] = [(5, 8); (10, 11); (13, 13); (20, 22)].
Proof. vm_compute. reflexivity. Qed.
(* the bounded RangeSet theorems quantify over a non-trivial complete domain *)
Example c14_ex_bounded_nonvacuous : (46000 <? N.of_nat (length (all_seqs 3 (all_ranges 5)))) = true /\
  existsb (fun ins => match rs_extend [] ins with [(1, 5)] => true | _ => false end) (all_seqs 3 (all_ranges 5)) = true.
Proof. vm_compute. split; reflexivity. Qed.

(* the round-1 bounded RangeSet statements, kept as evaluated examples (complete finite domains) *)
Example c14_ex_rangeset_canonical_bounded : forall ins, In ins (all_seqs 3 (all_ranges 5)) -> canon_ok 5 ins = true.
Proof. exact rangeset_canonical_bounded_all. Qed.
Example c14_ex_rangeset_intersection_bounded : forall p,
  In p (list_prod (all_seqs 2 (all_ranges 3)) (all_seqs 2 (all_ranges 3))) -> inter_ok 3 p = true.
Proof. exact rangeset_intersection_bounded_all. Qed.
(* hypotheses of the unbounded RangeSet theorems are inhabited by a non-trivial instance *)
Example c14_ex_canon : canon [(0, 8); (10, 13); (20, 30)] /\ cov [(0, 8); (10, 13); (20, 30)] 12 = true /\ cov [(0, 8); (10, 13); (20, 30)] 9 = false.
Proof.
  split; [|split; reflexivity]. split.
  - repeat constructor; unfold far; cbn; reflexivity.
  - repeat constructor; unfold okr; cbn; discriminate.
Qed.
(* domain-relative observation theorems: members / domain_list on a small domain; the inverted set B of ex_ops *)
Example c14_ex_members_list : members 7 (fun v => negb (v =? 3)) = [0; 1; 2; 4; 5; 6; 7].
Proof. vm_compute. reflexivity. Qed.
Example c14_ex_ops_in_dom : Forall (op_in_dom 4294967295) ex_ops.
Proof. repeat constructor; cbn; lia. Qed.

(* L0: the hypotheses of the in-place refinement theorems hold of states with scrambled page indices *)
Example c14_ex_inv0 : Inv0 exA /\ Inv0 exB.
Proof.
  split; (split; [reflexivity|]); (split; [repeat constructor; cbn; intuition discriminate|]);
    (split; [repeat constructor; cbn; lia|]); repeat constructor; unfold klt'; cbn; reflexivity.
Qed.
Example c14_ex_process0 : abs0 (process0 N.ldiff exA exB) = [(2, 1); (4, 4); (7, 7); (9, 2)] /\ length (pages0 (process0 N.ldiff exA exB)) = 4%nat.
Proof. vm_compute. split; reflexivity. Qed.
