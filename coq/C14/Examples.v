(* C14 (set half) — non-vacuity examples for Props.v *)
From Coq Require Import NArith List Bool.
From FV Require Import C14.Model C14.Proofs.
Import ListNotations.
Open Scope N_scope.

(* a non-trivial operation sequence crossing page edges, with inversion and mixed-mode set operations *)
Definition ex_ops : list op :=
  [OInsertRange false 510 1025; OInsert true 4294967295; OInvert true; ORemove true 512;
   OIntersect false; OInsert true 7; OSubtract true; OUnion false; ORemoveRange false 1000 1023; OInvert false].

Example c14_ex_modes : is_inverted (fst (run ex_ops)) = true /\ is_inverted (snd (run ex_ops)) = false.
Proof. vm_compute. split; reflexivity. Qed.
Example c14_ex_members :
  map (is_contains (fst (run ex_ops))) [509; 510; 511; 512; 513; 999; 1000; 1023; 1024; 1025; 1026; 4294967295]
  = [false; false; false; true; false; false; true; true; true; true; false; true].
Proof. vm_compute. reflexivity. Qed.
Example c14_ex_spec_agrees :
  map (fst (run_spec ex_ops)) [509; 510; 511; 512; 513; 999; 1000; 1023; 1024; 1025; 1026; 4294967295]
  = map (is_contains (fst (run ex_ops))) [509; 510; 511; 512; 513; 999; 1000; 1023; 1024; 1025; 1026; 4294967295].
Proof. vm_compute. reflexivity. Qed.
Example c14_ex_len : is_len 4294967295 (fst (run ex_ops)) = 4294967296 - 490 /\ is_len 4294967295 (snd (run ex_ops)) = 2.
Proof. vm_compute. split; reflexivity. Qed.
