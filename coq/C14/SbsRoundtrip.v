(* C14 (codec half) — round trip, bounded-exhaustive part.
   FULL STATEMENT (not proved in general; tested by the harness on every run):
     forall S bf, strictly sorted S -> all members in [0, 2^32) -> bf in {2,4,8,32} ->
       exists bytes rs, encode_bf bf S = Some bytes /\ decode bytes 0 (2^32-1) = Ok rs [] /\
                        forall x, in_ranges x rs = zmem x S
   and the same for encode_auto.
   PROVED HERE: the statement for every S that is a subset of [0, 12) (all 4096 of them, given by
   their characteristic bit mask m), for every branch factor and for the automatic choice, by
   complete enumeration (vm_compute over the finite domain, lifted with forallb_forall). *)
From Coq Require Import ZArith List Bool Lia.
From Coq Require Import Arith PeanoNat ZifyNat ZifyBool Sorting.Sorted.
From FV Require Import Lib.RustInt C14.SbsModel C14.SbsProofs C14.SbsSpec C14.SbsEnc C14.SbsDecInv C14.SbsChain C14.SbsPack.
Ltac Zify.zify_post_hook ::= Z.to_euclidean_division_equations.
Import ListNotations.
Open Scope Z_scope.

Definition rt_ok (bf : Z) (S : list Z) : bool :=
  match (if bf =? 0 then encode_auto S else encode_bf bf S) with
  | Some bytes =>
      match decode bytes 0 (U32 - 1) with
      | Ok rs [] => eqb_ranges (canon rs) (canon (map (fun v => (v, v)) S))
      | _ => false
      end
  | None => false
  end.

Definition subset_of_mask (m : Z) : list Z := set_bits_from 12 0 m.

Lemma roundtrip_small_all :
  forallb (fun m => forallb (fun bf => rt_ok bf (subset_of_mask m)) [2; 4; 8; 32; 0]) (zseq 0 4096) = true.
Proof. vm_compute. reflexivity. Qed.

Theorem roundtrip_small m bf : 0 <= m < 4096 -> In bf [2; 4; 8; 32] ->
  rt_ok bf (subset_of_mask m) = true.
Proof.
  intros Hm Hbf. pose proof roundtrip_small_all as Hall. rewrite forallb_forall in Hall.
  specialize (Hall m). rewrite forallb_forall in Hall. apply Hall.
  - apply zseq_in. lia.
  - destruct Hbf as [<-|[<-|[<-|[<-|[]]]]]; unfold In; tauto.
Qed.

Theorem roundtrip_small_auto m : 0 <= m < 4096 -> rt_ok 0 (subset_of_mask m) = true.
Proof.
  intros Hm. pose proof roundtrip_small_all as Hall. rewrite forallb_forall in Hall.
  specialize (Hall m). rewrite forallb_forall in Hall. apply Hall.
  - apply zseq_in. lia.
  - unfold In; tauto.
Qed.

(* ------------------------------------------------------------------------------------------ *)
(* the general round trip *)

Lemma streamk_bound bf S0 top : bf_valid bf = true -> (1 <= top)%nat ->
  (forall x, In x S0 -> x < bf ^ Z.of_nat top) ->
  forall k, Forall (fun v => 0 <= v < 2 ^ bf) (streamk bf S0 top k).
Proof.
  intros Hbf Htop Hmax. pose proof (bf_ge2 bf Hbf) as Hb2.
  assert (H2 : 0 < 2 ^ bf) by (apply Z.pow_pos_nonneg; lia).
  induction k as [|k IH]; [constructor|].
  rewrite (streamk_S bf S0 top Htop Hmax). apply Forall_app. split; [|assumption].
  apply Forall_forall. intros v Hv. apply in_flat_map in Hv. destruct Hv as (p & _ & Hv).
  unfold serL, serp in Hv. destruct (skipL bf S0 top k p); [contradiction|].
  destruct (fillL bf S0 k p); destruct Hv as [<-|[]]; [lia | apply (bitsL_bound bf Hbf)].
Qed.

Lemma encode_fixed_decode bf S0 H : bf_valid bf = true -> vals_ok S0 -> 1 <= H <= max_height bf ->
  (forall x, In x S0 -> x < bf ^ H) ->
  exists bytes rs, encode_fixed bf S0 H = Some bytes /\ decode bytes 0 (U32 - 1) = Ok rs [] /\
                   forall x, in_ranges x rs = zmem x S0.
Proof.
  intros Hbf Hok HH Hmax. pose proof (bf_ge2 bf Hbf) as Hb2.
  assert (Hmh : max_height bf <= 31) by (destruct (bf_cases _ Hbf) as [-> | [-> | [-> | ->]]]; unfold max_height; cbn; lia).
  set (top := Z.to_nat H). assert (Etop : Z.of_nat top = H) by (unfold top; lia).
  assert (Htop : (1 <= top)%nat) by lia.
  assert (Hmax' : forall x, In x S0 -> x < bf ^ Z.of_nat top) by (rewrite Etop; assumption).
  unfold encode_fixed, obs_new. destruct (Z.ltb_spec 31 H); [lia|].
  assert (Es : top = S (top - 1)) by lia.
  destruct (layers_bfs bf Hbf S0 (top - 1) Hok) as (nds & El & Er). rewrite <- Es in El, Er.
  fold top. rewrite El.
  set (hdr := Z.lor (Z.shiftl (Z.land H 31) 2) (bit_id bf)).
  destruct (pack_all bf (streamk bf S0 top top) [hdr] Hbf (streamk_bound bf S0 top Hbf Htop Hmax' top))
    as (tree & pad & Ef & Ean & Elen).
  assert (Ebytes : obs_into_bytes (emit bf (rev nds) ([hdr], 0)) = hdr :: tree).
  { rewrite Er, emit_fold.
    change (flat_map nodeval' (bfs bf S0 top top)) with (streamk bf S0 top top).
    unfold obs_into_bytes. rewrite Ef, rev_app_distr, rev_involutive. reflexivity. }
  destruct (decode_bfs bf Hbf S0 Hok top Htop ltac:(lia) Hmax' (repeat 0 pad)) as (out' & Ea & Hm).
  exists (hdr :: tree), (rev out'). split; [rewrite Ebytes; reflexivity|]. split.
  2:{ intros x. rewrite in_ranges_rev. apply Hm. }
  unfold decode. destruct (header_roundtrip bf H Hbf ltac:(lia)) as (Eb & Eh). fold hdr in Eb, Eh.
  rewrite Eb, Eh. destruct (Z.ltb_spec (max_height bf) H); [lia|].
  unfold decode_nodes. destruct (Z.eqb_spec H 0); [lia|].
  rewrite <- (st_of_index_0 bf).
  pose proof (all_nodes_length bf tree Hbf) as HL.
  rewrite dec_loop_aloop by (try assumption; cbn [length]; nia).
  cbn [skipn]. rewrite Ean.
  rewrite Etop in Ea. rewrite Ea. cbn [lift length].
  change (Z.of_nat 0 mod U32) with 0.
  destruct (skip_consumed bf (length (streamk bf S0 top top)) 0 Hbf ltac:(lia)) as (s2 & Esk & Ec).
  { intros _. unfold st_of_index, U32. destruct (bf =? 2); [cbn [snd]; lia|]. destruct (bf =? 4); [cbn [snd]; lia|].
    destruct (bf =? 8); cbn [snd]; lia. }
  rewrite Esk, Ec.
  replace (Z.to_nat (((Z.of_nat (length (streamk bf S0 top top)) + 0) * bf + 7) / 8)) with (length tree)
    by (rewrite Z.add_0_r, <- Elen; lia).
  change (S (length tree)) with (length (hdr :: tree)).
  rewrite Nat.leb_refl, skipn_all. reflexivity.
Qed.

Lemma last_max : forall (l : list Z), l <> [] -> StronglySorted Z.lt l ->
  In (last l 0) l /\ forall x, In x l -> x <= last l 0.
Proof.
  induction l as [|a l IH]; intros Hne Hs; [contradiction|].
  inversion Hs as [|? ? Hs' Ha]; subst. destruct l as [|b l'].
  - cbn. split; [left; reflexivity|]. intros x [<-|[]]. lia.
  - destruct (IH ltac:(discriminate) Hs') as (Hin & Hle). change (last (a :: b :: l') 0) with (last (b :: l') 0).
    split; [right; assumption|]. intros x [<-|Hx]; [|apply Hle; assumption].
    rewrite Forall_forall in Ha. specialize (Ha _ Hin). lia.
Qed.

Lemma decode_empty bf : bf_valid bf = true ->
  decode [Z.lor (Z.shiftl (Z.land 0 31) 2) (bit_id bf)] 0 (U32 - 1) = Ok [] [].
Proof. intros Hbf. destruct (bf_cases _ Hbf) as [-> | [-> | [-> | ->]]]; reflexivity. Qed.

Theorem roundtrip bf S0 : bf_valid bf = true -> StronglySorted Z.lt S0 -> Forall (fun v => 0 <= v < U32) S0 ->
  exists bytes rs, encode_bf bf S0 = Some bytes /\ decode bytes 0 (U32 - 1) = Ok rs [] /\
                   forall x, in_ranges x rs = zmem x S0.
Proof.
  intros Hbf Hs Hb. destruct S0 as [|a l] eqn:ES.
  - exists [Z.lor (Z.shiftl (Z.land 0 31) 2) (bit_id bf)], []. split; [reflexivity|]. split; [apply decode_empty; assumption | reflexivity].
  - rewrite <- ES in *. assert (Hne : S0 <> []) by (rewrite ES; discriminate).
    assert (Hok : vals_ok S0) by (split; [|split]; assumption).
    destruct (last_max S0 Hne Hs) as (Hlin & Hlmax).
    set (m := last S0 0) in *.
    assert (Hm : 0 <= m < U32) by (rewrite Forall_forall in Hb; apply Hb; assumption).
    assert (Eenc : encode_bf bf S0 =
                   (let height := tree_height_for bf m in
                    if max_height bf <? height then
                      if bf =? 2 then let h4 := tree_height_for 4 m in
                                      if max_height 4 <? h4 then None else encode_fixed 4 S0 h4
                      else None
                    else encode_fixed bf S0 height)).
    { unfold encode_bf. rewrite ES. fold m. rewrite <- ES. reflexivity. }
    rewrite Eenc. cbv zeta. clear Eenc.
    destruct (tree_height_spec bf m Hbf Hm) as (T1 & T2 & _).
    destruct (Z.ltb_spec (max_height bf) (tree_height_for bf m)) as [Hgt|Hle].
    + destruct (tree_height_max bf m Hbf Hm) as [E2|Hc]; [|lia]. subst bf. cbn [Z.eqb Pos.eqb].
      assert (Hbf4 : bf_valid 4 = true) by reflexivity.
      destruct (tree_height_spec 4 m Hbf4 Hm) as (U1 & U2 & _).
      destruct (tree_height_max 4 m Hbf4 Hm) as [E|Hc]; [discriminate|].
      destruct (Z.ltb_spec (max_height 4) (tree_height_for 4 m)); [lia|].
      apply encode_fixed_decode; try assumption; [lia|].
      intros x Hx. specialize (Hlmax x Hx). lia.
    + apply encode_fixed_decode; try assumption; [lia|].
      intros x Hx. specialize (Hlmax x Hx). lia.
Qed.

Lemma min_by_len_in : forall l best, In (min_by_len best l) (best :: l).
Proof.
  induction l as [|c r IH]; intros best; cbn [min_by_len]; [left; reflexivity|].
  destruct (length c <? length best)%nat.
  - destruct (IH c) as [E|Hin]; [right; left; assumption | right; right; assumption].
  - destruct (IH best) as [E|Hin]; [left; assumption | right; right; assumption].
Qed.

Theorem roundtrip_auto S0 : StronglySorted Z.lt S0 -> Forall (fun v => 0 <= v < U32) S0 ->
  exists bytes rs, encode_auto S0 = Some bytes /\ decode bytes 0 (U32 - 1) = Ok rs [] /\
                   forall x, in_ranges x rs = zmem x S0.
Proof.
  intros Hs Hb. destruct S0 as [|a l] eqn:ES.
  - exists [0], []. repeat split.
  - rewrite <- ES in *.
    assert (Eauto : encode_auto S0 =
      (let maxv := last S0 0 in
       let cands := flat_map (fun bf => if tree_height_for bf maxv <=? max_height bf then [encode_bf bf S0] else []) [2; 4; 8; 32] in
       match sequence_opt cands with
       | None => None | Some [] => None | Some (c :: r) => Some (min_by_len c r) end)).
    { unfold encode_auto. rewrite ES. reflexivity. }
    rewrite Eauto. cbv zeta. clear Eauto. set (m := last S0 0).
    assert (Hne : S0 <> []) by (rewrite ES; discriminate).
    destruct (last_max S0 Hne Hs) as (Hlin & _). fold m in Hlin.
    assert (Hm : 0 <= m < U32) by (rewrite Forall_forall in Hb; apply Hb; assumption).
    (* every candidate is a round-tripping encoding *)
    set (good := fun bytes : list Z => exists rs, decode bytes 0 (U32 - 1) = Ok rs [] /\ forall x, in_ranges x rs = zmem x S0).
    assert (Hc : forall bf, bf_valid bf = true -> exists bytes, encode_bf bf S0 = Some bytes /\ good bytes).
    { intros bf Hbf. destruct (roundtrip bf S0 Hbf Hs Hb) as (bytes & rs & E1 & E2 & E3). exists bytes. split; [assumption|]. exists rs. split; assumption. }
    destruct (Hc 2 eq_refl) as (b2 & E2 & G2). destruct (Hc 4 eq_refl) as (b4 & E4 & G4).
    destruct (Hc 8 eq_refl) as (b8 & E8 & G8). destruct (Hc 32 eq_refl) as (b32 & E32 & G32).
    destruct (tree_height_max 4 m eq_refl Hm) as [E|H4]; [discriminate|].
    cbn [flat_map]. rewrite E2, E4, E8, E32.
    destruct (Z.leb_spec (tree_height_for 4 m) (max_height 4)); [|lia].
    destruct (tree_height_for 2 m <=? max_height 2); destruct (tree_height_for 8 m <=? max_height 8);
      destruct (tree_height_for 32 m <=? max_height 32); cbn [app sequence_opt];
      match goal with |- exists bytes rs, Some (min_by_len ?c ?r) = Some bytes /\ _ =>
        pose proof (min_by_len_in r c) as Hin;
        assert (Hg : Forall good (c :: r)) by (repeat constructor; assumption);
        rewrite Forall_forall in Hg; destruct (Hg _ Hin) as (rs & D1 & D2);
        exists (min_by_len c r), rs; repeat split; assumption end.
Qed.
