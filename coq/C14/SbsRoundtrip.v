(* C14 (codec half) — round trip, bounded-exhaustive part.
   FULL STATEMENT (not proved in general; tested by the harness on every run):
     forall S bf, strictly sorted S -> all members in [0, 2^32) -> bf in {2,4,8,32} ->
       exists bytes rs, encode_bf bf S = Some bytes /\ decode bytes 0 (2^32-1) = Ok rs [] /\
                        forall x, in_ranges x rs = zmem x S
   and the same for encode_auto.
   PROVED HERE: the statement for every S that is a subset of [0, 12) (all 4096 of them, given by
   their characteristic bit mask m), for every branch factor and for the automatic choice, by
   complete enumeration (vm_compute over the finite domain, lifted with forallb_forall). *)
From Coq Require Import ZArith List Bool Lia.
From FV Require Import Lib.RustInt C14.SbsModel C14.SbsProofs C14.SbsSpec.
Import ListNotations.
Open Scope Z_scope.

Definition rt_ok (bf : Z) (S : list Z) : bool :=
  match (if bf =? 0 then encode_auto S else encode_bf bf S) with
  | Some bytes =>
      match decode bytes 0 (U32 - 1) with
      | Ok rs [] => eqb_ranges (canon rs) (canon (map (fun v => (v, v)) S))
      | _ => false
      end
  | None => false
  end.

Definition subset_of_mask (m : Z) : list Z := set_bits_from 12 0 m.

Lemma roundtrip_small_all :
  forallb (fun m => forallb (fun bf => rt_ok bf (subset_of_mask m)) [2; 4; 8; 32; 0]) (zseq 0 4096) = true.
Proof. vm_compute. reflexivity. Qed.

Theorem roundtrip_small m bf : 0 <= m < 4096 -> In bf [2; 4; 8; 32] ->
  rt_ok bf (subset_of_mask m) = true.
Proof.
  intros Hm Hbf. pose proof roundtrip_small_all as Hall. rewrite forallb_forall in Hall.
  specialize (Hall m). rewrite forallb_forall in Hall. apply Hall.
  - apply zseq_in. lia.
  - destruct Hbf as [<-|[<-|[<-|[<-|[]]]]]; unfold In; tauto.
Qed.

Theorem roundtrip_small_auto m : 0 <= m < 4096 -> rt_ok 0 (subset_of_mask m) = true.
Proof.
  intros Hm. pose proof roundtrip_small_all as Hall. rewrite forallb_forall in Hall.
  specialize (Hall m). rewrite forallb_forall in Hall. apply Hall.
  - apply zseq_in. lia.
  - unfold In; tauto.
Qed.
