(* C14 (set half) — Ord for IntSet = lexicographic order of the ascending member sequences, all mode pairs *)
From Coq Require Import ZArith NArith List Bool Lia Sorting.Sorted.
From FV Require Import C14.Model C14.Proofs C14.SetObs C14.SetAfter C14.SetDom C14.SetRangeU C14.SetEq.
Import ListNotations.
Open Scope N_scope.

(* the specification: lexicographic comparison of two lists, a proper prefix being smaller *)
Fixpoint lexc (a b : list N) : comparison :=
  match a, b with
  | [], [] => Eq
  | [], _ :: _ => Lt
  | _ :: _, [] => Gt
  | x :: ta, y :: tb => match x ?= y with Eq => lexc ta tb | c => c end
  end.

Lemma lexc_prefix p : forall a b, lexc (p ++ a) (p ++ b) = lexc a b.
Proof. induction p as [|x t IH]; intros a b; cbn [app lexc]; [reflexivity|]. rewrite N.compare_refl. apply IH. Qed.

(* BitSet::cmp *)
Lemma lex_cmp_lexc la : forall lb,
  match lex_cmp la lb with Some c => c | None => N.of_nat (length la) ?= N.of_nat (length lb) end = lexc la lb.
Proof.
  induction la as [|x ta IH]; intros [|y tb]; cbn [lex_cmp lexc length]; try reflexivity.
  - destruct (N.compare_spec x y); try reflexivity. rewrite <- IH. destruct (lex_cmp ta tb); [reflexivity|].
    rewrite !Nat2N.inj_succ.
    destruct (N.compare_spec (N.succ (N.of_nat (length ta))) (N.succ (N.of_nat (length tb)))), (N.compare_spec (N.of_nat (length ta)) (N.of_nat (length tb))); try reflexivity; lia.
Qed.

(* the elements of a range list *)
Definition span (r : N * N) : list N := upto (fst r) (N.to_nat (snd r + 1 - fst r)).
Definition expand (R : list (N * N)) : list N := flat_map span R.

Lemma span_in r v : In v (span r) <-> fst r <= v <= snd r.
Proof. unfold span. rewrite upto_in. lia. Qed.
Lemma expand_in R v : In v (expand R) <-> cov R v = true.
Proof.
  unfold expand. rewrite in_flat_map, cov_true. split; intros [r [H1 H2]]; exists r; split; try assumption; apply span_in; exact H2.
Qed.
Lemma expand_sorted R : canon R -> StronglySorted N.lt (expand R).
Proof.
  induction R as [|r t IH]; intros C; [constructor|]. pose proof C as C0. apply canon_cons_iff in C as (O & Ct & F).
  cbn [expand flat_map]. apply sorted_app; [apply upto_sorted|apply IH, Ct|].
  intros x y Hx Hy. apply span_in in Hx. apply expand_in in Hy. apply (cov_tail_gt _ _ y C0) in Hy. lia.
Qed.
Lemma expand_runs l : StronglySorted N.lt l -> expand (runs l) = l.
Proof.
  intros Hs. destruct (ranges_of_spec l Hs) as [C V]. apply sorted_ext; [apply expand_sorted, C|exact Hs|].
  intros v. rewrite expand_in. unfold runs. rewrite V. apply memb_in.
Qed.

Lemma upto_split n m : forall s, upto s (n + m) = upto s n ++ upto (s + N.of_nat n) m.
Proof.
  induction n as [|n IH]; intros s; cbn [upto app plus].
  - rewrite N.add_0_r. reflexivity.
  - rewrite IH. do 3 f_equal. lia.
Qed.
Lemma span_split s e1 e2 : s <= e1 -> e1 < e2 -> span (s, e2) = span (s, e1) ++ span (e1 + 1, e2).
Proof.
  intros H1 H2. unfold span. cbn [fst snd].
  replace (N.to_nat (e2 + 1 - s)) with (N.to_nat (e1 + 1 - s) + N.to_nat (e2 + 1 - (e1 + 1)))%nat by lia.
  rewrite upto_split. do 2 f_equal. lia.
Qed.
Lemma span_head s e : s <= e -> exists t, span (s, e) = s :: t.
Proof.
  intros H. unfold span. cbn [fst snd]. destruct (N.to_nat (e + 1 - s)) eqn:E; [lia|]. cbn [upto]. eauto.
Qed.

(* Ord on range sequences (the non Inclusive/Inclusive arm) *)
Lemma ranges_cmp_lexc R1 : forall R2, canon R1 -> canon R2 -> ranges_cmp R1 R2 = lexc (expand R1) (expand R2).
Proof.
  induction R1 as [|[s1 e1] t1 IH]; intros R2 C1 C2.
  - destruct R2 as [|[s2 e2] t2]; [reflexivity|]. apply canon_cons_iff in C2 as (O & _ & _). unfold okr in O. cbn [fst snd] in O.
    cbn [ranges_cmp expand flat_map]. destruct (span_head s2 e2 O) as [t ->]. reflexivity.
  - pose proof C1 as C1'. apply canon_cons_iff in C1 as (O1 & T1 & F1). unfold okr in O1. cbn [fst snd] in O1.
    destruct R2 as [|[s2 e2] t2].
    + cbn [ranges_cmp expand flat_map]. destruct (span_head s1 e1 O1) as [t ->]. reflexivity.
    + pose proof C2 as C2'. apply canon_cons_iff in C2 as (O2 & T2 & F2). unfold okr in O2. cbn [fst snd] in O2.
      cbn [ranges_cmp]. change (expand ((s1, e1) :: t1)) with (span (s1, e1) ++ expand t1).
      change (expand ((s2, e2) :: t2)) with (span (s2, e2) ++ expand t2).
      destruct (N.compare_spec s1 s2) as [Es|Ls|Ls].
      * subst s2. destruct (N.compare_spec e1 e2) as [Ee|Le|Le].
        -- subst e2. rewrite lexc_prefix. apply IH; assumption.
        -- rewrite (span_split s1 e1 e2) by lia. rewrite <- app_assoc, lexc_prefix.
           destruct (span_head (e1 + 1) e2 ltac:(lia)) as [u ->]. cbn [app].
           destruct t1 as [|[s3 e3] t3]; [reflexivity|].
           pose proof (F1 (s3, e3) (or_introl eq_refl)) as Ff. unfold far in Ff. cbn [fst snd] in Ff.
           apply canon_cons_iff in T1 as (O3 & _ & _). unfold okr in O3. cbn [fst snd] in O3.
           change (expand ((s3, e3) :: t3)) with (span (s3, e3) ++ expand t3). destruct (span_head s3 e3 O3) as [w ->].
           cbn [app lexc]. destruct (N.compare_spec s3 (e1 + 1)); try lia. reflexivity.
        -- rewrite (span_split s1 e2 e1) by lia. rewrite <- app_assoc, lexc_prefix.
           destruct (span_head (e2 + 1) e1 ltac:(lia)) as [u ->]. cbn [app].
           destruct t2 as [|[s3 e3] t3]; [reflexivity|].
           pose proof (F2 (s3, e3) (or_introl eq_refl)) as Ff. unfold far in Ff. cbn [fst snd] in Ff.
           apply canon_cons_iff in T2 as (O3 & _ & _). unfold okr in O3. cbn [fst snd] in O3.
           change (expand ((s3, e3) :: t3)) with (span (s3, e3) ++ expand t3). destruct (span_head s3 e3 O3) as [w ->].
           cbn [app lexc]. destruct (N.compare_spec (e2 + 1) s3); try lia. reflexivity.
      * destruct (span_head s1 e1 O1) as [u ->]. destruct (span_head s2 e2 O2) as [w ->]. cbn [app lexc].
        destruct (N.compare_spec s1 s2); try lia. reflexivity.
      * destruct (span_head s1 e1 O1) as [u ->]. destruct (span_head s2 e2 O2) as [w ->]. cbn [app lexc].
        destruct (N.compare_spec s1 s2); try lia. reflexivity.
Qed.

(* ord_is_lex_on_members *)
Lemma ord_is_lex_on_members d x y f g (HRx : Rep x f) (HWx : wfi x) (HDx : indom d x)
      (HRy : Rep y g) (HWy : wfi y) (HDy : indom d y) :
  is_cmp d x y = lexc (members d f) (members d g).
Proof.
  assert (Mixed : ranges_cmp (is_iter_ranges d x) (is_iter_ranges d y) = lexc (members d f) (members d g)).
  { rewrite (iter_ranges_spec d x f), (iter_ranges_spec d y g) by assumption.
    rewrite ranges_cmp_lexc by (apply runs_members). rewrite !expand_runs by apply members_sorted. reflexivity. }
  destruct x as [a|a] eqn:Ex, y as [b|b] eqn:Ey; cbn [is_cmp]; try exact Mixed.
  unfold bs_cmp. destruct (bs_iter_spec a HWx) as (_ & _ & La). destruct (bs_iter_spec b HWy) as (_ & _ & Lb).
  rewrite La, Lb. rewrite lex_cmp_lexc.
  rewrite (incl_stored_members d _ f HRx HWx HDx a eq_refl), (incl_stored_members d _ g HRy HWy HDy b eq_refl). reflexivity.
Qed.
