(* C14 (set half) — iter_ranges = maximal runs of members (both modes), intersects_range / intersects_set =
   non-emptiness of the meet, equality of sets <=> same mathematical set (same and mixed modes). *)
From Coq Require Import ZArith NArith List Bool Lia Sorting.Sorted.
From FV Require Import C14.Model C14.Proofs C14.SetObs C14.SetAfter C14.SetDom C14.SetRangeU.
Import ListNotations.
Open Scope N_scope.
Ltac Zify.zify_post_hook ::= Z.to_euclidean_division_equations.

Definition memb (v : N) (l : list N) : bool := existsb (N.eqb v) l.
Lemma memb_in v l : memb v l = true <-> In v l.
Proof. apply existsb_eqb_in. Qed.
Lemma memb_members d f v : memb v (members d f) = (v <=? d) && f v.
Proof.
  destruct (memb v (members d f)) eqn:E.
  - apply memb_in, members_in in E as [H1 H2]. rewrite H2. apply N.leb_le in H1. rewrite H1. reflexivity.
  - destruct (N.leb_spec v d); cbn [andb]; [|reflexivity]. destruct (f v) eqn:Ef; [|reflexivity].
    assert (memb v (members d f) = true) by (apply memb_in, members_in; tauto). congruence.
Qed.

(* ------------------------------------------------------------------------------------------ *)
(* ranges_of: the maximal runs of a strictly ascending list                                    *)
(* ------------------------------------------------------------------------------------------ *)
Lemma ranges_of_some l : forall s e, StronglySorted N.lt l -> s <= e -> Forall (fun x => e < x) l ->
  canon (ranges_of l (Some (s, e))) /\ Forall (fun q => s <= fst q) (ranges_of l (Some (s, e))) /\
  forall v, cov (ranges_of l (Some (s, e))) v = inr (s, e) v || memb v l.
Proof.
  induction l as [|x t IH]; intros s e Hs Hse Hf; cbn [ranges_of].
  - split; [|split].
    + apply canon_cons_iff. split; [exact Hse|]. split; [apply canon_nil|intros b []].
    + constructor; [cbn; lia|constructor].
    + intros v. cbn. rewrite !orb_false_r. reflexivity.
  - inversion Hs; subst. inversion Hf; subst.
    destruct (N.eqb_spec x (e + 1)) as [E|E].
    + subst x. destruct (IH s (e + 1) H1) as (C & F & V); [lia|exact H2|]. split; [exact C|]. split; [exact F|].
      intros v. rewrite V. unfold memb. cbn [existsb]. unfold inr. cbn [fst snd].
      destruct (N.leb_spec s v), (N.leb_spec v (e + 1)), (N.leb_spec v e), (N.eqb_spec v (e + 1)); cbn [andb orb]; try reflexivity; lia.
    + destruct (IH x x H1) as (C & F & V); [lia|exact H2|]. split; [|split].
      * apply canon_cons_iff. split; [exact Hse|]. split; [exact C|]. intros b Hb. rewrite Forall_forall in F.
        specialize (F b Hb). unfold far. cbn [fst snd]. lia.
      * constructor; [cbn; lia|]. eapply Forall_impl; [|exact F]. cbn. intros; lia.
      * intros v. rewrite cov_cons, V. unfold memb. cbn [existsb]. unfold inr. cbn [fst snd].
        destruct (N.leb_spec x v), (N.leb_spec v x), (N.eqb_spec v x); cbn [andb orb]; try reflexivity; lia.
Qed.
Lemma ranges_of_spec l : StronglySorted N.lt l ->
  canon (ranges_of l None) /\ forall v, cov (ranges_of l None) v = memb v l.
Proof.
  intros Hs. destruct l as [|x t]; cbn [ranges_of]; [split; [apply canon_nil|reflexivity]|].
  inversion Hs; subst. destruct (ranges_of_some t x x H1) as (C & _ & V); [lia|exact H2|].
  split; [exact C|]. intros v. rewrite V. unfold memb, inr. cbn [existsb fst snd].
  destruct (N.leb_spec x v), (N.leb_spec v x), (N.eqb_spec v x); cbn [andb orb]; try reflexivity; lia.
Qed.

(* a canonical range list is determined by what it covers *)
Lemma cov_true l v : cov l v = true <-> exists r, In r l /\ fst r <= v <= snd r.
Proof.
  unfold cov. rewrite existsb_exists. split; intros [r [H1 H2]]; exists r; split; try assumption; unfold inr in *.
  - apply andb_prop in H2 as [A B]. apply N.leb_le in A, B. lia.
  - apply andb_true_intro. split; apply N.leb_le; lia.
Qed.
Lemma canon_cov_lb r l v : canon (r :: l) -> cov (r :: l) v = true -> fst r <= v.
Proof.
  intros C H. apply cov_true in H as [q [[<-|Hq] Hv]]; [lia|].
  apply canon_cons_iff in C as (O & _ & F). specialize (F q Hq). unfold far, okr in *. lia.
Qed.
Lemma inr_true s e v : s <= v <= e -> inr (s, e) v = true.
Proof. intros H. unfold inr. cbn [fst snd]. apply andb_true_intro. split; apply N.leb_le; lia. Qed.
Lemma cov_head_start s e t : s <= e -> cov ((s, e) :: t) s = true.
Proof. intros H. rewrite cov_cons, inr_true by lia. reflexivity. Qed.
Lemma canon_ext l1 : forall l2, canon l1 -> canon l2 -> (forall v, cov l1 v = cov l2 v) -> l1 = l2.
Proof.
  induction l1 as [|[s1 e1] t1 IH]; intros l2 C1 C2 E.
  - destruct l2 as [|[s2 e2] t2]; [reflexivity|]. apply canon_cons_iff in C2 as (O & _ & _). unfold okr in O. cbn [fst snd] in O.
    specialize (E s2). rewrite (cov_head_start s2 e2 t2 O) in E. discriminate.
  - destruct l2 as [|[s2 e2] t2].
    + apply canon_cons_iff in C1 as (O & _ & _). unfold okr in O. cbn [fst snd] in O.
      specialize (E s1). rewrite (cov_head_start s1 e1 t1 O) in E. discriminate.
    + pose proof C1 as C1'. pose proof C2 as C2'.
      apply canon_cons_iff in C1 as (O1 & T1 & F1). apply canon_cons_iff in C2 as (O2 & T2 & F2).
      unfold okr in O1, O2. cbn [fst snd] in O1, O2.
      pose proof inr_true as Hin.
      assert (Es : s1 = s2).
      { assert (A : cov ((s1, e1) :: t1) s1 = true) by (rewrite cov_cons, Hin by lia; reflexivity).
        assert (B : cov ((s2, e2) :: t2) s2 = true) by (rewrite cov_cons, Hin by lia; reflexivity).
        pose proof A as A'. rewrite E in A'. apply (canon_cov_lb _ _ _ C2') in A'.
        pose proof B as B'. rewrite <- E in B'. apply (canon_cov_lb _ _ _ C1') in B'. cbn [fst] in *. lia. }
      subst s2.
      assert (Tgt1 : forall v, cov t1 v = true -> e1 + 1 < v) by (intros v; apply (cov_tail_gt _ _ v C1')).
      assert (Tgt2 : forall v, cov t2 v = true -> e2 + 1 < v) by (intros v; apply (cov_tail_gt _ _ v C2')).
      assert (Ee : e1 = e2).
      { destruct (N.lt_trichotomy e1 e2) as [L|[Q|L]]; [|exact Q|]; exfalso.
        - pose proof (E (e1 + 1)) as X. rewrite !cov_cons in X. rewrite (Hin s1 e2) in X by lia.
          unfold inr in X at 1. cbn [fst snd] in X. destruct (N.leb_spec (e1 + 1) e1); [lia|]. rewrite andb_false_r in X.
          cbn [orb] in X. apply Tgt1 in X. lia.
        - pose proof (E (e2 + 1)) as X. rewrite !cov_cons in X. rewrite (Hin s1 e1) in X by lia.
          unfold inr in X at 1. cbn [fst snd] in X. destruct (N.leb_spec (e2 + 1) e2); [lia|]. rewrite andb_false_r in X.
          cbn [orb] in X. symmetry in X. apply Tgt2 in X. lia. }
      subst e2. f_equal. apply IH; [exact T1|exact T2|]. intros v. specialize (E v). rewrite !cov_cons in E.
      destruct (cov t1 v) eqn:A, (cov t2 v) eqn:B; try reflexivity; exfalso.
      * apply Tgt1 in A. unfold inr in E. cbn [fst snd] in E. destruct (N.leb_spec v e1); [lia|]. rewrite andb_false_r in E. discriminate.
      * apply Tgt2 in B. unfold inr in E. cbn [fst snd] in E. destruct (N.leb_spec v e1); [lia|]. rewrite andb_false_r in E. discriminate.
Qed.

(* RangeIter::next_exclusive: the gaps of a canonical range list inside [mn, mx] *)
Lemma excl_ranges_spec R : forall mn mx, canon R -> Forall (fun r => mn <= fst r /\ snd r <= mx) R -> mn <= mx ->
  canon (excl_ranges R mn mx) /\ Forall (fun q => mn <= fst q) (excl_ranges R mn mx) /\
  forall v, cov (excl_ranges R mn mx) v = (mn <=? v) && (v <=? mx) && negb (cov R v).
Proof.
  induction R as [|[s e] rest IH]; intros mn mx C F Hm; cbn [excl_ranges].
  - split; [|split].
    + apply canon_cons_iff. split; [exact Hm|]. split; [apply canon_nil|intros b []].
    + constructor; [cbn; lia|constructor].
    + intros v. cbn. rewrite orb_false_r, andb_true_r. reflexivity.
  - pose proof C as C0. apply canon_cons_iff in C as (O & Cr & Fr). unfold okr in O. cbn [fst snd] in O.
    inversion F; subst. cbn [fst snd] in H1. destruct H1 as [L1 L2].
    assert (Frest : forall m', e + 1 <= m' -> m' <= e + 1 -> Forall (fun r => m' <= fst r /\ snd r <= mx) rest).
    { intros m' _ Hm'. apply Forall_forall. intros r Hr. rewrite Forall_forall in H2. specialize (H2 r Hr).
      specialize (Fr r Hr). unfold far in Fr. cbn [fst snd] in Fr. lia. }
    assert (Hnc : forall v, v <= e -> cov rest v = false).
    { intros v Hv. destruct (cov rest v) eqn:X; [|reflexivity]. apply (cov_tail_gt _ _ v C0) in X. cbn [snd] in X. lia. }
    destruct (N.leb_spec s mn) as [A|A]; [destruct (N.leb_spec mn e) as [B|B]; [|lia]|]; cbn [andb].
    + assert (s = mn) by lia. subst s. destruct (N.leb_spec mx e) as [D|D].
      * split; [apply canon_nil|]. split; [constructor|]. intros v. change (cov [] v) with false. rewrite cov_cons. unfold inr. cbn [fst snd].
        destruct (N.leb_spec mn v), (N.leb_spec v mx), (N.leb_spec v e); cbn [andb orb negb]; try reflexivity; lia.
      * destruct (IH (e + 1) mx Cr (Frest (e + 1) ltac:(lia) ltac:(lia)) ltac:(lia)) as (C1 & F1 & V1).
        split; [exact C1|]. split; [eapply Forall_impl; [|exact F1]; cbn; intros; lia|].
        intros v. rewrite V1, cov_cons. unfold inr. cbn [fst snd].
        destruct (N.leb_spec (e + 1) v), (N.leb_spec v mx), (N.leb_spec mn v), (N.leb_spec v e); cbn [andb orb negb]; try reflexivity; try lia; try (rewrite Hnc by lia; reflexivity).
    + destruct (N.ltb_spec e mx) as [D|D].
      * destruct (IH (e + 1) mx Cr (Frest (e + 1) ltac:(lia) ltac:(lia)) ltac:(lia)) as (C1 & F1 & V1). split; [|split].
        -- apply canon_cons_iff. split; [unfold okr; cbn [fst snd]; lia|]. split; [exact C1|].
           intros b Hb. rewrite Forall_forall in F1. specialize (F1 b Hb). unfold far. cbn [fst snd]. lia.
        -- constructor; [cbn; lia|]. eapply Forall_impl; [|exact F1]. cbn. intros; lia.
        -- intros v. rewrite !cov_cons, V1. unfold inr. cbn [fst snd].
           destruct (N.leb_spec mn v), (N.leb_spec v (s - 1)), (N.leb_spec (e + 1) v), (N.leb_spec v mx), (N.leb_spec s v), (N.leb_spec v e);
             cbn [andb orb negb]; try reflexivity; try lia; try (rewrite Hnc by lia; reflexivity).
      * split; [|split].
        -- apply canon_cons_iff. split; [unfold okr; cbn [fst snd]; lia|]. split; [apply canon_nil|intros b []].
        -- constructor; [cbn; lia|constructor].
        -- intros v. rewrite !cov_cons. change (cov [] v) with false. unfold inr. cbn [fst snd].
           destruct (N.leb_spec mn v), (N.leb_spec v (s - 1)), (N.leb_spec v mx), (N.leb_spec s v), (N.leb_spec v e);
             cbn [andb orb negb]; try reflexivity; try lia; try (rewrite Hnc by lia; reflexivity).
Qed.

(* ------------------------------------------------------------------------------------------ *)
(* IntSet::iter_ranges / iter_excluded_ranges = the maximal runs of members / non-members      *)
(* ------------------------------------------------------------------------------------------ *)
Definition runs (l : list N) : list (N * N) := ranges_of l None.

(* what "maximal runs" means: canonical (sorted, disjoint, non-adjacent) and covering exactly the members *)
Lemma runs_members d f :
  canon (runs (members d f)) /\ forall v, cov (runs (members d f)) v = (v <=? d) && f v.
Proof.
  destruct (ranges_of_spec _ (members_sorted d f)) as [C V]. split; [exact C|]. intros v. unfold runs. rewrite V. apply memb_members.
Qed.

Lemma iter_ranges_spec d x f (HR : Rep x f) (HW : wfi x) (HD : indom d x) : is_iter_ranges d x = runs (members d f).
Proof.
  unfold is_iter_ranges, is_iter_ranges_inv. destruct x as [s|s] eqn:Ex.
  - unfold bs_iter_ranges. rewrite (incl_stored_members d _ f HR HW HD s eq_refl). reflexivity.
  - unfold bs_iter_ranges. destruct (bs_iter_spec _ HW) as (H1 & H2 & _). cbn [storage] in *.
    destruct (ranges_of_spec _ H1) as [C V].
    assert (F : Forall (fun r => 0 <= fst r /\ snd r <= d) (ranges_of (bs_iter s) None)).
    { apply Forall_forall. intros r Hr. split; [lia|].
      assert (O : okr r) by (destruct C as [_ O]; rewrite Forall_forall in O; apply O, Hr).
      assert (Cv : cov (ranges_of (bs_iter s) None) (snd r) = true).
      { apply cov_true. exists r. split; [exact Hr|]. unfold okr in O. lia. }
      rewrite V in Cv. apply memb_in, H2 in Cv. apply HD. exact Cv. }
    destruct (excl_ranges_spec _ 0 d C F ltac:(lia)) as (C1 & _ & V1).
    destruct (runs_members d f) as [C2 V2].
    apply canon_ext; [exact C1|exact C2|]. intros v. rewrite V1, V2, V.
    replace (0 <=? v) with true by (symmetry; apply N.leb_le; lia). cbn [andb]. f_equal.
    rewrite <- (excl_pred _ f HR HW s v eq_refl). reflexivity.
Qed.

Lemma Rep_invert' x f : Rep x f -> Rep (is_invert x) (fun w => negb (f w)).
Proof. apply Rep_invert. Qed.
Lemma iter_excluded_ranges_spec d x f (HR : Rep x f) (HW : wfi x) (HD : indom d x) :
  is_iter_excluded_ranges d x = runs (members d (fun w => negb (f w))).
Proof.
  rewrite <- (iter_ranges_spec d (is_invert x) (fun w => negb (f w))).
  - destruct x; reflexivity.
  - apply Rep_invert, HR.
  - destruct x; exact HW.
  - destruct x; exact HD.
Qed.

(* ------------------------------------------------------------------------------------------ *)
(* intersects_range / intersects_set = non-emptiness of the meet                               *)
(* ------------------------------------------------------------------------------------------ *)
Lemma sorted_hd_le_existsb l b : StronglySorted N.lt l ->
  match hd_error l with Some n => n <=? b | None => false end = existsb (fun v => v <=? b) l.
Proof.
  intros Hs. destruct l as [|n t]; [reflexivity|]. cbn [hd_error existsb].
  destruct (N.leb_spec n b); [reflexivity|]. cbn [orb]. symmetry. apply not_true_iff_false. intros E.
  apply existsb_exists in E as [x [Hx Hb]]. inversion Hs; subst. rewrite Forall_forall in H3. specialize (H3 x Hx).
  apply N.leb_le in Hb. lia.
Qed.
Lemma existsb_filter {A} (P Q : A -> bool) l : existsb Q (filter P l) = existsb (fun x => P x && Q x) l.
Proof. induction l as [|a t IH]; cbn [filter existsb]; [reflexivity|]. destruct (P a); cbn [existsb andb orb]; rewrite IH; reflexivity. Qed.

Lemma intersects_range_spec d x f (HR : Rep x f) (HW : wfi x) (HD : indom d x) a b :
  is_intersects_range d x a b = existsb (fun v => (a <=? v) && (v <=? b)) (members d f).
Proof.
  unfold is_intersects_range.
  assert (E : (if a =? 0 then is_first d x else hd_error (is_iter_after d x (a - 1) 1))
              = hd_error (filter (fun v => a <=? v) (members d f))).
  { destruct (N.eqb_spec a 0) as [->|Ha].
    - rewrite (first_spec d x f) by assumption. f_equal. symmetry. apply filter_all. intros v _. apply N.leb_le. lia.
    - rewrite (iter_after_spec d x f) by assumption. rewrite hd_firstn1. f_equal. apply filter_ext. intros v.
      destruct (N.ltb_spec (a - 1) v), (N.leb_spec a v); try reflexivity; lia. }
  rewrite E. rewrite (sorted_hd_le_existsb _ b) by (apply filter_sorted, members_sorted). apply existsb_filter.
Qed.

Lemma intersects_set_half d x y f g (HRx : Rep x f) (HWx : wfi x) (HDx : indom d x)
      (HRy : Rep y g) (HWy : wfi y) (HDy : indom d y) :
  existsb (fun r => is_intersects_range d x (fst r) (snd r)) (is_iter_ranges d y) = true <->
  exists v, v <= d /\ f v = true /\ g v = true.
Proof.
  rewrite (iter_ranges_spec d y g) by assumption. destruct (runs_members d g) as [_ V]. rewrite existsb_exists. split.
  - intros [r [Hr Hi]]. rewrite (intersects_range_spec d x f) in Hi by assumption. apply existsb_exists in Hi as [v [Hv Hb]].
    apply members_in in Hv as [Hv1 Hv2]. exists v. split; [exact Hv1|]. split; [exact Hv2|].
    assert (Cv : cov (runs (members d g)) v = true).
    { apply cov_true. exists r. split; [exact Hr|]. apply andb_prop in Hb as [A B]. apply N.leb_le in A, B. lia. }
    rewrite V in Cv. apply andb_prop in Cv as [_ Cv]. exact Cv.
  - intros [v (Hv & Hf & Hg)].
    assert (Cv : cov (runs (members d g)) v = true) by (rewrite V, Hg; apply andb_true_intro; split; [apply N.leb_le, Hv|reflexivity]).
    apply cov_true in Cv as [r [Hr Hin]]. exists r. split; [exact Hr|].
    rewrite (intersects_range_spec d x f) by assumption. apply existsb_exists. exists v. split; [apply members_in; tauto|].
    apply andb_true_intro. split; apply N.leb_le; lia.
Qed.

Lemma intersects_set_spec d x y f g (HRx : Rep x f) (HWx : wfi x) (HDx : indom d x)
      (HRy : Rep y g) (HWy : wfi y) (HDy : indom d y) :
  is_intersects_set d x y = true <-> exists v, v <= d /\ f v = true /\ g v = true.
Proof.
  unfold is_intersects_set.
  destruct (N.of_nat (length (pgs (storage y))) <? N.of_nat (length (pgs (storage x)))).
  - apply intersects_set_half; assumption.
  - rewrite (intersects_set_half d y x g f) by assumption. split; intros [v H]; exists v; tauto.
Qed.

(* ------------------------------------------------------------------------------------------ *)
(* PartialEq: model equality <=> same mathematical set (inside the domain)                     *)
(* ------------------------------------------------------------------------------------------ *)
Lemma pairs_eqb_eq a : forall b, pairs_eqb a b = true <-> a = b.
Proof.
  induction a as [|[x1 y1] ta IH]; intros [|[x2 y2] tb]; cbn [pairs_eqb]; try (split; [discriminate|discriminate]); [tauto|].
  rewrite !andb_true_iff, !N.eqb_eq, IH. split; [intros [[-> ->] ->]; reflexivity|intros [= -> -> ->]; tauto].
Qed.

Definition nz (kp : N * N) : bool := negb (snd kp =? 0).
Lemma pget_filter_nz l m : sorted l -> pget (filter nz l) m = pget l m.
Proof.
  induction l as [|[k p] t IH]; intros Hs; [reflexivity|].
  apply sorted_inv in Hs as [Ht Hf]. cbn [filter]. unfold nz at 1. cbn [snd].
  destruct (N.eqb_spec p 0) as [->|Hp]; cbn [negb].
  - rewrite pget_cons, IH by exact Ht. destruct (N.eqb_spec m k) as [->|]; [|reflexivity].
    apply pget_lt. exact Hf.
  - rewrite !pget_cons, IH by exact Ht. reflexivity.
Qed.
Lemma sorted_filter_nz l : sorted l -> sorted (filter nz l).
Proof.
  induction l as [|[k p] t IH]; intros Hs; [constructor|]. apply sorted_inv in Hs as [Ht Hf]. cbn [filter].
  destruct (nz (k, p)); [|auto]. apply sorted_cons; [auto|].
  apply Forall_forall. intros x Hx. apply filter_In in Hx as [Hx _]. rewrite Forall_forall in Hf. apply Hf, Hx.
Qed.
Lemma sorted_nz_ext l1 : forall l2, sorted l1 -> sorted l2 -> Forall (fun kp => snd kp <> 0) l1 -> Forall (fun kp => snd kp <> 0) l2 ->
  (forall m, pget l1 m = pget l2 m) -> l1 = l2.
Proof.
  induction l1 as [|[k1 p1] t1 IH]; intros l2 S1 S2 Z1 Z2 E.
  - destruct l2 as [|[k2 p2] t2]; [reflexivity|]. inversion Z2; subst. cbn [snd] in *.
    specialize (E k2). rewrite pget_nil, pget_cons, N.eqb_refl in E. congruence.
  - destruct l2 as [|[k2 p2] t2].
    + inversion Z1; subst. cbn [snd] in *. specialize (E k1). rewrite pget_nil, pget_cons, N.eqb_refl in E. congruence.
    + pose proof S1 as S1'. pose proof S2 as S2'.
      apply sorted_inv in S1 as [T1 F1]. apply sorted_inv in S2 as [T2 F2].
      inversion Z1; subst. inversion Z2; subst. cbn [snd] in *.
      assert (k1 = k2).
      { destruct (N.lt_trichotomy k1 k2) as [L|[Q|L]]; [|exact Q|]; exfalso.
        - specialize (E k1). rewrite pget_cons, N.eqb_refl in E. rewrite (pget_lt k1 ((k2, p2) :: t2)) in E; [congruence|].
          constructor; [exact L|]. eapply Forall_lt_trans; eassumption.
        - specialize (E k2). rewrite (pget_cons k2), N.eqb_refl in E. rewrite (pget_lt k2 ((k1, p1) :: t1)) in E; [congruence|].
          constructor; [exact L|]. eapply Forall_lt_trans; eassumption. }
      subst k2. pose proof (E k1) as Ek. rewrite !pget_cons, N.eqb_refl in Ek. subst p2. f_equal.
      apply IH; try assumption. intros m. specialize (E m). rewrite !pget_cons in E.
      destruct (N.eqb_spec m k1) as [Em|Em]; [|exact E]. rewrite Em. rewrite !pget_lt by assumption. reflexivity.
Qed.

Lemma pget_ext_contains a b : pb (pgs a) -> pb (pgs b) ->
  ((forall m, pget (pgs a) m = pget (pgs b) m) <-> (forall v, bs_contains a v = bs_contains b v)).
Proof.
  intros Ba Bb. split.
  - intros E v. rewrite !bs_contains_pget, E. reflexivity.
  - intros E m. apply N.bits_inj. intros i. destruct (N.lt_ge_cases i 512) as [Hi|Hi].
    + specialize (E (m * 512 + i)). rewrite !bs_contains_pget in E.
      replace ((m * 512 + i) / 512) with m in E by lia. replace ((m * 512 + i) mod 512) with i in E by lia. exact E.
    + rewrite (pget_bounded _ m Ba i Hi), (pget_bounded _ m Bb i Hi). reflexivity.
Qed.

Lemma bs_eqb_spec a b : wfb a -> wfb b -> (bs_eqb a b = true <-> forall v, bs_contains a v = bs_contains b v).
Proof.
  intros (Sa & Ba & _) (Sb & Bb & _). unfold bs_eqb. rewrite pairs_eqb_eq, <- (pget_ext_contains a b Ba Bb).
  change (nonempty_pages a) with (filter nz (pgs a)). change (nonempty_pages b) with (filter nz (pgs b)). split.
  - intros E m. rewrite <- (pget_filter_nz _ m Sa), <- (pget_filter_nz _ m Sb), E. reflexivity.
  - intros E. apply sorted_nz_ext; try (apply sorted_filter_nz; assumption).
    + apply Forall_forall. intros kp H. apply filter_In in H as [_ H]. unfold nz in H. apply negb_true_iff, N.eqb_neq in H. exact H.
    + apply Forall_forall. intros kp H. apply filter_In in H as [_ H]. unfold nz in H. apply negb_true_iff, N.eqb_neq in H. exact H.
    + intros m. rewrite !pget_filter_nz by assumption. apply E.
Qed.

Lemma members_ext d f g : members d f = members d g <-> forall v, v <= d -> f v = g v.
Proof.
  split.
  - intros E v Hv. pose proof (memb_members d f v) as A. pose proof (memb_members d g v) as B. rewrite E in A. rewrite A in B.
    apply N.leb_le in Hv. rewrite Hv in B. exact B.
  - intros E. apply filter_ext_in. intros v Hv. apply E, domain_list_in, Hv.
Qed.

(* eq_iff_members: same-mode and mixed-mode *)
Lemma eq_iff_members d x y f g (HRx : Rep x f) (HWx : wfi x) (HDx : indom d x)
      (HRy : Rep y g) (HWy : wfi y) (HDy : indom d y) :
  is_eqb d x y = true <-> forall v, v <= d -> f v = g v.
Proof.
  assert (Same : forall a b, wfb a -> wfb b -> indomb d a -> indomb d b ->
            (bs_eqb a b = true <-> forall v, v <= d -> bs_contains a v = bs_contains b v)).
  { intros a b Wa Wb Da Db. rewrite (bs_eqb_spec a b Wa Wb). split; [intros E v _; apply E|].
    intros E v. destruct (N.le_gt_cases v d) as [H|H]; [apply E, H|].
    destruct (bs_contains a v) eqn:A; [apply Da in A; lia|]. destruct (bs_contains b v) eqn:B; [apply Db in B; lia|reflexivity]. }
  assert (Mixed : (if is_len d x =? is_len d y then pairs_eqb (is_iter_ranges d x) (is_iter_ranges d y) else false) = true
                  <-> forall v, v <= d -> f v = g v).
  { rewrite (len_full d x f), (len_full d y g), (iter_ranges_spec d x f), (iter_ranges_spec d y g) by assumption.
    rewrite <- members_ext. split.
    - destruct (_ =? _); [|discriminate]. intros E. apply pairs_eqb_eq in E.
      destruct (runs_members d f) as [_ Vf]. destruct (runs_members d g) as [_ Vg].
      apply members_ext. intros v Hv. specialize (Vf v). specialize (Vg v). rewrite E, Vg in Vf.
      apply N.leb_le in Hv. rewrite Hv in Vf. symmetry. exact Vf.
    - intros ->. rewrite N.eqb_refl. apply pairs_eqb_eq. reflexivity. }
  destruct HRx as [_ Cx], HRy as [_ Cy].
  destruct x as [a|a], y as [b|b]; cbn [is_eqb]; try exact Mixed; unfold wfi, indom in *; cbn [storage] in *.
  - rewrite (Same a b) by assumption. split; intros E v Hv; specialize (E v Hv).
    + rewrite <- Cx, <- Cy. exact E.
    + rewrite <- Cx, <- Cy in E. exact E.
  - rewrite (Same a b) by assumption. split; intros E v Hv; specialize (E v Hv).
    + rewrite <- Cx, <- Cy. cbn [is_contains]. rewrite E. reflexivity.
    + rewrite <- Cx, <- Cy in E. cbn [is_contains] in E. destruct (bs_contains a v), (bs_contains b v); cbn in E; congruence.
Qed.
