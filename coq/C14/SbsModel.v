(* C14 (codec half) — executable model of the sparse-bit-set codec
   read-fonts/src/collections/int_set/{sparse_bit_set,input_bit_stream,output_bit_stream}.rs,
   hand-written from the source statement by statement, plus an independent transcription of the
   IFT specification's decoding algorithm ([spec_decode]).  No proofs in this file.
   Integers are unbounded Z; every Rust panic site (checked u32/u64/usize arithmetic under
   overflow-checks, slicing, explicit panic!) is an explicit [Panic]/[None] outcome.
   Sets are sorted lists of Z; decoder output is the list of inserted inclusive ranges
   (a single [insert v] is the range (v,v)), compared up to set equality. *)
From Coq Require Import ZArith List Bool.
Import ListNotations.
Open Scope Z_scope.

(* ---------------- BranchFactor (sparse_bit_set.rs / output_bit_stream.rs impl BranchFactor) ---- *)
Definition bf_valid (bf : Z) : bool := (bf =? 2) || (bf =? 4) || (bf =? 8) || (bf =? 32).
(* InputBitStream::decode_header: match bf_bits *)
Definition bf_of_bits (c : Z) : Z := if c =? 0 then 2 else if c =? 1 then 4 else if c =? 2 then 8 else 32.
Definition bit_id (bf : Z) : Z := if bf =? 2 then 0 else if bf =? 4 then 1 else if bf =? 8 then 2 else 3.
Definition max_height (bf : Z) : Z := if bf =? 2 then 31 else if bf =? 4 then 16 else if bf =? 8 then 11 else 7.
Definition node_size_log2 (bf : Z) : Z := if bf =? 2 then 1 else if bf =? 4 then 2 else if bf =? 8 then 3 else 5.
Definition byte_mask (bf : Z) : Z := if bf =? 2 then 3 else if bf =? 4 then 15 else 255.
Definition u32_mask (bf : Z) : Z := if bf =? 2 then 3 else if bf =? 4 then 15 else if bf =? 8 then 255 else 4294967295.
Definition nodes_per_byte (bf : Z) : Z := if bf =? 2 then 4 else if bf =? 4 then 2 else 1.
Definition bytes_per_node (bf : Z) : Z := if bf =? 32 then 4 else 1.

Definition U32 : Z := 4294967296.
Definition U64 : Z := 18446744073709551616.

(* BranchFactor::tree_height_for: loop { height += 1; max_value >>= log2; if max_value == 0 break } *)
Fixpoint thf_loop (fuel : nat) (lg h m : Z) : Z :=
  match fuel with
  | O => h
  | S f => let h' := h + 1 in let m' := Z.shiftr m lg in
           if m' =? 0 then h' else thf_loop f lg h' m'
  end.
Definition tree_height_for (bf maxv : Z) : Z := thf_loop 33 (node_size_log2 bf) 0 maxv.

(* ---------------- InputBitStream<BF> (input_bit_stream.rs) ---------------- *)
(* state = (byte_index, sub_index) *)
Definition ibs := (nat * Z)%type.

(* InputBitStream::from *)
Definition ibs_init : ibs := (1%nat, 0).

(* Iterator::next *)
Definition ibs_next (bf : Z) (data : list Z) (s : ibs) : option (Z * ibs) :=
  let '(bi, si) := s in
  if (bf =? 2) || (bf =? 4) then
    let mask := 2 ^ bf - 1 in
    match nth_error data bi with
    | None => None
    | Some byte =>
        let val := Z.shiftr (Z.land byte (Z.shiftl mask si)) si in
        let si' := (si + bf) mod 8 in
        Some (val, (if si' =? 0 then S bi else bi, si'))
    end
  else if bf =? 8 then
    match nth_error data bi with
    | None => None
    | Some r => Some (r, (S bi, si))
    end
  else
    match nth_error data bi, nth_error data (bi + 1), nth_error data (bi + 2), nth_error data (bi + 3) with
    | Some b1, Some b2, Some b3, Some b4 =>
        Some (Z.lor (Z.lor (Z.lor b1 (Z.shiftl b2 8)) (Z.shiftl b3 16)) (Z.shiftl b4 24), ((bi + 4)%nat, si))
    | _, _, _, _ => None
    end.

(* bytes_consumed *)
Definition bytes_consumed (s : ibs) : nat := (fst s + (if (0 <? snd s)%Z then 1 else 0))%nat.

(* skip_nodes(n : u32): the new state, None = u32 overflow panic of [n * BF] / [sub_index + ..].
   (usize additions on byte_index are far below 2^64 and not modelled as panics.) *)
Definition ibs_skip (bf : Z) (s : ibs) (n : Z) : option ibs :=
  let '(bi, si) := s in
  if (bf =? 2) || (bf =? 4) then
    if U32 <=? n * bf then None else
    let bit_index := si + n * bf in
    if U32 <=? bit_index then None else
    Some ((bi + Z.to_nat (bit_index / 8))%nat, bit_index mod 8)
  else if bf =? 8 then Some ((bi + Z.to_nat n)%nat, si)
  else Some ((bi + 4 * Z.to_nat n)%nat, si).

(* ---------------- decoder (sparse_bit_set.rs) ---------------- *)
Inductive outcome :=
| Ok (ranges : list (Z * Z)) (rest : list Z)
| Err
| Panic
| OutOfFuel.   (* model artefact; proved unreachable *)

(* u64::pow under overflow-checks *)
Definition pow_u64 (b e : Z) : option Z := let r := b ^ e in if r <? U64 then Some r else None.

(* u32::try_from(start).ok().and_then(|s| s.checked_add(a)).and_then(|s| s.checked_add(bias)).filter(<= max) *)
Definition clip_start (start a bias maxv : Z) : option Z :=
  if (start <? U32) && (start + a <? U32) && (start + a + bias <? U32) && (start + a + bias <=? maxv)
  then Some (start + a + bias) else None.

(* the [bits == 0] arm.  None = panic; Some None = `continue` without insertion *)
Definition filled_range (bf height bias maxv start depth : Z) : option (option (Z * Z)) :=
  if height <? depth then None else
  let exp := height - depth + 1 in
  match pow_u64 bf exp with
  | None => None
  | Some node_size =>
      match clip_start start 0 bias maxv with
      | None => Some None
      | Some st =>
          let e0 := start + node_size in
          if U64 <=? e0 then None else
          let e1 := if e0 - 1 <? U32 then e0 - 1 else U32 - 1 in
          let e2 := Z.min (e1 + bias) (U32 - 1) in
          Some (Some (st, Z.min e2 maxv))
      end
  end.

(* the indices produced by the trailing_zeros / clear-lowest-bit loop: set bits, ascending *)
Fixpoint set_bits_from (n : nat) (i : Z) (bits : Z) : list Z :=
  match n with
  | O => []
  | S m => if Z.testbit bits i then i :: set_bits_from m (i + 1) bits else set_bits_from m (i + 1) bits
  end.
Definition set_bits (bits : Z) : list Z := set_bits_from 32 0 bits.

(* body of the inner `loop` for the given remaining bit indices.
   result: None = panic; Some (broke, queue, out).  [out] is accumulated in reverse. *)
Fixpoint bits_loop (idxs : list Z) (height bias maxv start depth nns : Z)
         (queue out : list (Z * Z)) : option (bool * list (Z * Z) * list (Z * Z)) :=
  match idxs with
  | [] => Some (false, queue, out)
  | j :: r =>
      if depth =? height then
        match clip_start start j bias maxv with
        | None => Some (true, queue, out)                       (* break 'outer *)
        | Some v => bits_loop r height bias maxv start depth nns queue ((v, v) :: out)
        end
      else
        let delta := j * nns in
        if U64 <=? delta then None else
        if U64 <=? start + delta then None else
        bits_loop r height bias maxv start depth nns (queue ++ [(start + delta, depth + 1)]) out
  end.

Inductive lres :=
| LDone (s : ibs) (queue : list (Z * Z)) (out : list (Z * Z))
| LErr | LPanic | LFuel.

(* 'outer: while let Some(next) = queue.pop_front() *)
Fixpoint dec_loop (fuel : nat) (bf : Z) (data : list Z) (height bias maxv : Z)
         (s : ibs) (queue out : list (Z * Z)) : lres :=
  match queue with
  | [] => LDone s [] out
  | (start, depth) :: q =>
      match fuel with
      | O => LFuel
      | S f =>
          match ibs_next bf data s with
          | None => LErr
          | Some (bits, s') =>
              if bits =? 0 then
                match filled_range bf height bias maxv start depth with
                | None => LPanic
                | Some None => dec_loop f bf data height bias maxv s' q out
                | Some (Some r) => dec_loop f bf data height bias maxv s' q (r :: out)
                end
              else
                if height <? depth then LPanic else
                match pow_u64 bf (height - depth) with
                | None => LPanic
                | Some nns =>
                    match bits_loop (set_bits bits) height bias maxv start depth nns q out with
                    | None => LPanic
                    | Some (true, q', out') => LDone s' q' out'
                    | Some (false, q', out') => dec_loop f bf data height bias maxv s' q' out'
                    end
                end
          end
      end
  end.

(* decode_sparse_bit_set_nodes::<BF> *)
Definition decode_nodes (bf : Z) (data : list Z) (height bias maxv : Z) : outcome :=
  if height =? 0 then
    match data with
    | [] => Panic                 (* &data[1..] on empty data *)
    | _ :: rest => Ok [] rest
    end
  else
    match dec_loop (S (length data * 8)) bf data height bias maxv ibs_init [(0, 1)] [] with
    | LErr => Err
    | LPanic => Panic
    | LFuel => OutOfFuel
    | LDone s q out =>
        let n := Z.of_nat (length q) mod U32 in       (* queue.len() as u32 *)
        match ibs_skip bf s n with
        | None => Panic
        | Some s2 =>
            if (bytes_consumed s2 <=? length data)%nat
            then Ok (rev out) (skipn (bytes_consumed s2) data)
            else Err
        end
    end.

(* InputBitStream::decode_header + IntSet::<u32>::from_sparse_bit_set_bounded *)
Definition decode (data : list Z) (bias maxv : Z) : outcome :=
  match data with
  | [] => Err
  | first :: _ =>
      let bf := bf_of_bits (Z.land first 3) in
      let height := Z.shiftr (Z.land first 124) 2 in
      if max_height bf <? height then Err
      else decode_nodes bf data height bias maxv
  end.

(* IntSet::<u32>::from_sparse_bit_set *)
Definition decode_unbounded (data : list Z) : outcome := decode data 0 (U32 - 1).

(* ---------------- OutputBitStream (output_bit_stream.rs) ---------------- *)
(* state = (bytes in reverse order, sub_index) *)
Definition obs := (list Z * Z)%type.

(* OutputBitStream::new (+ write_header); None = panic (height > MAX_HEIGHT) *)
Definition obs_new (bf height : Z) : option obs :=
  if 31 <? height then None
  else Some ([Z.lor (Z.shiftl (Z.land height 31) 2) (bit_id bf)], 0).

(* one iteration of the [for byte_index in 0..bytes_per_node] loop of write_node *)
Definition obs_write_byte (bf bits byte_index : Z) (o : obs) : obs :=
  let '(d, sub) := o in
  let d1 := if (nodes_per_byte bf =? 1) || (sub =? 0) then 0 :: d else d in
  let b := Z.land (Z.shiftr bits (byte_index * 8)) (byte_mask bf) in
  let b := (Z.shiftl b (sub * bf)) mod 256 in
  let d2 := match d1 with [] => [] | l :: r => Z.lor l b :: r end in
  (d2, if 1 <? nodes_per_byte bf then (sub + 1) mod nodes_per_byte bf else sub).

Definition obs_write_node (bf bits : Z) (o : obs) : obs :=
  if bf =? 32 then
    obs_write_byte bf bits 3 (obs_write_byte bf bits 2 (obs_write_byte bf bits 1 (obs_write_byte bf bits 0 o)))
  else obs_write_byte bf bits 0 o.

Definition obs_into_bytes (o : obs) : list Z := rev (fst o).

(* ---------------- encoder (sparse_bit_set.rs) ---------------- *)
(* Node { bits, parent_index, node_type }: node_type 0 = Standard, 1 = Filled, 2 = Skip *)
Definition node := (Z * Z * Z)%type.

(* CreateLayerState: upper_indices / upper_filled_indices are IntSets receiving strictly descending
   inserts, kept as ascending lists (insert = cons); nodes is the Vec in push order. *)
Record cls := mkcls {
  up : list Z; upf : list Z; cur : option (Z * Z) (* bits, parent_index *); fb : Z;
  nodes : list node }.

(* the `for child in &mut nodes[start..end]` marking loop *)
Fixpoint mark_children (bf p : Z) (i lo hi : nat) (l : list node) : list node :=
  match l with
  | [] => []
  | (bits, pi, ty) :: r =>
      (if (Nat.leb lo i) && (Nat.ltb i hi) && (p * bf <=? pi) && (pi <? (p + 1) * bf)
       then (bits, pi, 2) else (bits, pi, ty)) :: mark_children bf p (S i) lo hi r
  end.

(* CreateLayerState::commit_current_node; None = u32 overflow panic in the child-range test
   (coarser than the code: the model panics whenever the marking branch is entered with an
   overflowing bound, the code only if some child is actually compared) *)
Definition commit (bf : Z) (child_count init_len : nat) (st : cls) : option cls :=
  match cur st with
  | None => Some st
  | Some (bits, p) =>
      let up' := p :: up st in
      if fb st =? u32_mask bf then
        if Nat.leb child_count init_len then
          if U32 <=? (p + 1) * bf then None else
          Some (mkcls up' (p :: upf st) None 0
                  (mark_children bf p 0 (init_len - child_count) init_len (nodes st) ++ [(bits, p, 1)]))
        else Some (mkcls up' (p :: upf st) None 0 (nodes st ++ [(bits, p, 1)]))
      else Some (mkcls up' (upf st) None 0 (nodes st ++ [(bits, p, 0)]))
  end.

Definition zmem (v : Z) (l : list Z) : bool := existsb (Z.eqb v) l.

(* body of `for v in values.iter().rev()`; filled = None stands for IntSet::all() *)
Definition layer_step (bf : Z) (filled : option (list Z)) (child_count init_len : nat)
           (v : Z) (st : cls) : option cls :=
  let parent_index := v / bf in
  let prev := match cur st with Some (_, p) => p | None => parent_index end in
  match (if prev =? parent_index then Some st else commit bf child_count init_len st) with
  | None => None
  | Some st1 =>
      let '(cbits, cp) := match cur st1 with Some n => n | None => (0, parent_index) end in
      let mask := Z.shiftl 1 (v mod bf) in
      let isf := match filled with None => true | Some f => zmem v f end in
      Some (mkcls (up st1) (upf st1) (Some (Z.lor cbits mask, cp))
                  (if isf then Z.lor (fb st1) mask else fb st1) (nodes st1))
  end.

Fixpoint layer_fold (bf : Z) (filled : option (list Z)) (child_count init_len : nat)
         (vs : list Z) (st : cls) : option cls :=
  match vs with
  | [] => Some st
  | v :: r => match layer_step bf filled child_count init_len v st with
              | None => None
              | Some st' => layer_fold bf filled child_count init_len r st'
              end
  end.

(* create_layer: values ascending; returns (upper_indices, upper_filled_indices, nodes) *)
Definition create_layer (bf : Z) (values : list Z) (filled : option (list Z)) (nds : list node)
  : option (list Z * list Z * list node) :=
  let cc := length values in
  let il := length nds in
  match layer_fold bf filled cc il (rev values) (mkcls [] [] None 0 nds) with
  | None => None
  | Some st => match commit bf cc il st with
               | None => None
               | Some st' => Some (up st', upf st', nodes st')
               end
  end.

(* while height > 0 { (indices, filled) = create_layer(..); height -= 1 } *)
Fixpoint layers (h : nat) (bf : Z) (indices : list Z) (filled : option (list Z)) (nds : list node)
  : option (list node) :=
  match h with
  | O => Some nds
  | S h' => match create_layer bf indices filled nds with
            | None => None
            | Some (i', f', n') => layers h' bf i' (Some f') n'
            end
  end.

(* for node in nodes.iter().rev() { match node_type .. } *)
Fixpoint emit (bf : Z) (rev_nodes : list node) (o : obs) : obs :=
  match rev_nodes with
  | [] => o
  | (bits, _, ty) :: r =>
      emit bf r (if ty =? 0 then obs_write_node bf bits o
                 else if ty =? 1 then obs_write_node bf 0 o else o)
  end.

(* body of to_sparse_bit_set_with_bf once the branch factor is settled; None = panic *)
Definition encode_fixed (bf : Z) (set : list Z) (height : Z) : option (list Z) :=
  match obs_new bf height with
  | None => None
  | Some o =>
      match layers (Z.to_nat height) bf set None [] with
      | None => None
      | Some nds => Some (obs_into_bytes (emit bf (rev nds) o))
      end
  end.

(* to_sparse_bit_set_with_bf::<BF>; set ascending; None = panic *)
Definition encode_bf (bf : Z) (set : list Z) : option (list Z) :=
  match set with
  | [] => match obs_new bf 0 with Some o => Some (obs_into_bytes o) | None => None end
  | _ =>
      let maxv := last set 0 in
      let height := tree_height_for bf maxv in
      if max_height bf <? height then
        if bf =? 2 then
          (* return to_sparse_bit_set_with_bf::<4>(set) *)
          let h4 := tree_height_for 4 maxv in
          if max_height 4 <? h4 then None else encode_fixed 4 set h4
        else None
      else encode_fixed bf set height
  end.

(* candidates.into_iter().min_by_key(|f| f.len()): first minimal element *)
Fixpoint min_by_len (best : list Z) (l : list (list Z)) : list Z :=
  match l with
  | [] => best
  | c :: r => if (length c <? length best)%nat then min_by_len c r else min_by_len best r
  end.

Fixpoint sequence_opt {A} (l : list (option A)) : option (list A) :=
  match l with
  | [] => Some []
  | None :: _ => None
  | Some a :: r => match sequence_opt r with Some r' => Some (a :: r') | None => None end
  end.

(* IntSet::<u32>::to_sparse_bit_set; None = panic *)
Definition encode_auto (set : list Z) : option (list Z) :=
  match set with
  | [] => match obs_new 2 0 with Some o => Some (obs_into_bytes o) | None => None end
  | _ =>
      let maxv := last set 0 in
      let cands := flat_map (fun bf => if tree_height_for bf maxv <=? max_height bf
                                       then [encode_bf bf set] else []) [2; 4; 8; 32] in
      match sequence_opt cands with
      | None => None
      | Some [] => None                  (* .unwrap() on an empty candidate list *)
      | Some (c :: r) => Some (min_by_len c r)
      end
  end.

(* ---------------- the IFT specification's decoding algorithm, transcribed independently -------
   https://w3c.github.io/IFT/Overview.html#sparse-bit-set-decoding
   header: bits 0-1 branch factor code, bits 2-6 height H, bit 7 reserved.
   treeData is read as a bit string, first byte to last, least significant bit first.
   Q := [(0,1)]; repeat: remove the next tuple (start, depth); remove the next B bits v1..vB
   (fewer than B left: invalid); all zero: add [start, start + B^(H-depth+1)) to S; otherwise for
   each vi = 1: depth = H: add start+i-1 to S, else append (start + (i-1)*B^(H-depth), depth+1).
   The unread remainder starts after the last byte any bit was taken from. *)
Definition byte_bits (b : Z) : list bool := map (Z.testbit b) [0; 1; 2; 3; 4; 5; 6; 7].
Definition bit_string (bytes : list Z) : list bool := flat_map byte_bits bytes.

Fixpoint chunks (fuel : nat) (B : nat) (bits : list bool) : list (list bool) :=
  match fuel with
  | O => []
  | S f => if (length bits <? B)%nat then [] else firstn B bits :: chunks f B (skipn B bits)
  end.

(* 0-based positions of the true bits *)
Fixpoint true_positions (i : Z) (v : list bool) : list Z :=
  match v with
  | [] => []
  | b :: r => if b then i :: true_positions (i + 1) r else true_positions (i + 1) r
  end.

Inductive spec_outcome := SOk (ranges : list (Z * Z)) (rest : list Z) | SErr.

(* returns the member ranges and the number of B-bit groups removed *)
Fixpoint spec_loop (B H : Z) (groups : list (list bool)) (used : Z) (Q Sm : list (Z * Z))
  : option (list (Z * Z) * Z) :=
  match Q with
  | [] => Some (Sm, used)
  | (start, depth) :: Q' =>
      match groups with
      | [] => None
      | v :: groups' =>
          if forallb negb v then
            spec_loop B H groups' (used + 1) Q' (Sm ++ [(start, start + B ^ (H - depth + 1) - 1)])
          else if depth =? H then
            spec_loop B H groups' (used + 1) Q'
                      (Sm ++ map (fun i => (start + i, start + i)) (true_positions 0 v))
          else
            spec_loop B H groups' (used + 1)
                      (Q' ++ map (fun i => (start + i * B ^ (H - depth), depth + 1)) (true_positions 0 v)) Sm
      end
  end.

Definition spec_decode (data : list Z) : spec_outcome :=
  match data with
  | [] => SErr
  | header :: tree =>
      let B := match Z.testbit header 1, Z.testbit header 0 with
               | false, false => 2 | false, true => 4 | true, false => 8 | true, true => 32 end in
      let H := (header / 4) mod 32 in
      if H =? 0 then SOk [] tree else
      let bits := bit_string tree in
      match spec_loop B H (chunks (length bits) (Z.to_nat B) bits) 0 [(0, 1)] [] with
      | None => SErr
      | Some (Sm, used) => SOk Sm (skipn (Z.to_nat ((used * B + 7) / 8)) tree)
      end
  end.

(* members of the specification's result after bias and maximum *)
Definition in_ranges (x : Z) (rs : list (Z * Z)) : bool :=
  existsb (fun r => (fst r <=? x) && (x <=? snd r)) rs.
Definition clip_ranges (bias maxv : Z) (rs : list (Z * Z)) : list (Z * Z) :=
  flat_map (fun r => let lo := fst r + bias in let hi := Z.min (snd r + bias) maxv in
                     if lo <=? hi then [(lo, hi)] else []) rs.

(* ---------------- correspondence ---------------- *)
(* canonical form of a list of inclusive ranges: sorted, disjoint, non-adjacent *)
Fixpoint ins_range (r : Z * Z) (l : list (Z * Z)) : list (Z * Z) :=
  match l with
  | [] => [r]
  | x :: t => if fst r <=? fst x then r :: l else x :: ins_range r t
  end.
Fixpoint merge_sorted (acc : list (Z * Z)) (l : list (Z * Z)) : list (Z * Z) :=
  (* acc reversed *)
  match l with
  | [] => rev acc
  | (lo, hi) :: t =>
      match acc with
      | (alo, ahi) :: at' => if lo <=? ahi + 1 then merge_sorted ((alo, Z.max ahi hi) :: at') t
                             else merge_sorted ((lo, hi) :: acc) t
      | [] => merge_sorted [(lo, hi)] t
      end
  end.
Definition canon (rs : list (Z * Z)) : list (Z * Z) :=
  merge_sorted [] (fold_right ins_range [] (filter (fun r => fst r <=? snd r) rs)).

Definition eqb_zlist (a b : list Z) : bool :=
  (length a =? length b)%nat && forallb (fun p => fst p =? snd p) (combine a b).
Definition eqb_ranges (a b : list (Z * Z)) : bool :=
  (length a =? length b)%nat &&
  forallb (fun p => (fst (fst p) =? fst (snd p)) && (snd (fst p) =? snd (snd p))) (combine a b).

Fixpoint expand_ranges (rs : list (Z * Z)) : list Z :=
  match rs with
  | [] => []
  | (lo, hi) :: t => map (fun k => lo + Z.of_nat k) (seq 0 (Z.to_nat (hi - lo + 1))) ++ expand_ranges t
  end.

Inductive case :=
(* decoder: data, bias, max; what the implementation returned: cls 0 = Ok (canonical ranges of the
   set, remainder), 1 = Err(DecodingError), 2 = panic *)
| CDec (data : list Z) (bias maxv : Z) (cls : Z) (ranges : list (Z * Z)) (rest : list Z)
(* encoder: bf (0 = to_sparse_bit_set), the set as canonical ranges; panicked?, bytes *)
| CEnc (bf : Z) (set : list (Z * Z)) (panicked : bool) (bytes : list Z).

Definition check_case (c : case) : bool :=
  match c with
  | CDec data bias maxv cls ranges rest =>
      match decode data bias maxv with
      | Ok rs rest' => (cls =? 0) && eqb_ranges (canon rs) ranges && eqb_zlist rest' rest
                       (* and the specification's algorithm agrees, whenever the height is supported *)
                       && match spec_decode data with
                          | SOk srs srest => eqb_ranges (canon (clip_ranges bias maxv srs)) ranges
                                             && eqb_zlist srest rest
                          | SErr => false
                          end
      | Err => (cls =? 1) &&
               match data with
               | [] => true
               | h :: _ => if max_height (bf_of_bits (Z.land h 3)) <? Z.shiftr (Z.land h 124) 2 then true
                           else match spec_decode data with SErr => true | _ => false end
               end
      | Panic => cls =? 2
      | OutOfFuel => false
      end
  | CEnc bf set panicked bytes =>
      let s := expand_ranges set in
      match (if bf =? 0 then encode_auto s else encode_bf bf s) with
      | None => panicked
      | Some b => negb panicked && eqb_zlist b bytes
      end
  end.
