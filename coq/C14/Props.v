(* C14 (set half) — property theorems.  Only statements, [exact lemma] and Print Assumptions. *)
From Coq Require Import NArith List Bool Sorting.Sorted.
From FV Require Import C14.Model C14.Proofs C14.SetObs C14.SetAfter C14.SetRange.
Import ListNotations.
Open Scope N_scope.

(* For EVERY operation sequence (insert, remove, insert_range, remove_range, extend, remove_all, union,
   intersect, subtract, invert, clear, assign; on either of two evolving sets), both model sets are well
   formed and their membership functions are exactly the mathematical sets the operations define
   (run_spec: pointwise boolean algebra on N -> bool; invert = complement), in inclusive and inverted mode. *)
Theorem c14_intset_refines : forall ops,
  wf (fst (run ops)) /\ wf (snd (run ops)) /\
  forall v, is_contains (fst (run ops)) v = fst (run_spec ops) v /\
            is_contains (snd (run ops)) v = snd (run_spec ops) v.
Proof. exact intset_refines_all. Qed.

(* one step from any represented state (the induction step of the above, usable from any state) *)
Theorem c14_step_refines : forall st sp o, Rep2 st sp -> Rep2 (fst (apply_op st o)) (spec_op sp o).
Proof. exact apply_op_refines. Qed.

(* insert returns "newly inserted", remove returns "was present" *)
Theorem c14_insert_returns_newly : forall st sp t v, Rep2 st sp ->
  snd (apply_op st (OInsert t v)) = Some (negb (sel t sp v)).
Proof. exact insert_returns_newly. Qed.
Theorem c14_remove_returns_present : forall st sp t v, Rep2 st sp ->
  snd (apply_op st (ORemove t v)) = Some (sel t sp v).
Proof. exact remove_returns_present. Qed.

(* every operation sequence also keeps the stronger representation invariant (pages are 512-bit, majors strictly
   ascending, cached length = sum of page populations), so the observation theorems below apply to fst/snd (run ops) *)
Theorem c14_run_invariants : forall ops,
  Rep (fst (run ops)) (fst (run_spec ops)) /\ wfi (fst (run ops)) /\
  Rep (snd (run ops)) (snd (run_spec ops)) /\ wfi (snd (run ops)).
Proof. exact run_rep_wfi. Qed.

(* the stored bit set, iterated, is the strictly ascending enumeration of exactly the members (inclusive mode) or
   exactly the non-members (inverted mode), and the cached length is the length of that enumeration *)
Theorem c14_stored_enumeration : forall x f, Rep x f -> wfi x ->
  StronglySorted N.lt (bs_iter (storage x)) /\
  (forall v, In v (bs_iter (storage x)) <-> f v = negb (is_inverted x)) /\
  blen (storage x) = N.of_nat (length (bs_iter (storage x))).
Proof. exact stored_enumeration. Qed.

(* inclusive sets: forward / backward iteration (every prefix), and len = number of members *)
Theorem c14_inclusive_iteration : forall dmax s f k, Rep (Incl s) f -> wfi (Incl s) ->
  is_iter dmax (Incl s) k = firstn k (bs_iter s) /\
  is_iter_back dmax (Incl s) k = firstn k (rev (bs_iter s)) /\
  StronglySorted N.lt (bs_iter s) /\ (forall v, In v (bs_iter s) <-> f v = true) /\
  is_len dmax (Incl s) = N.of_nat (length (bs_iter s)).
Proof. exact incl_iter_spec. Qed.

(* iter_after(v) of an inclusive set: every prefix is a prefix of the ascending members greater than v *)
Theorem c14_inclusive_iter_after : forall dmax s f v k, Rep (Incl s) f -> wfi (Incl s) ->
  is_iter_after dmax (Incl s) v k = firstn k (filter (fun x => v <? x) (bs_iter s)) /\
  StronglySorted N.lt (bs_iter s) /\ (forall w, In w (bs_iter s) <-> f w = true).
Proof. exact incl_iter_after_spec. Qed.

(* first = minimum, last = maximum, None iff empty (inclusive sets) *)
Theorem c14_inclusive_first_is_min : forall dmax s f, Rep (Incl s) f -> wfi (Incl s) ->
  match is_first dmax (Incl s) with
  | Some m => f m = true /\ forall v, f v = true -> m <= v
  | None => forall v, f v = false
  end.
Proof. exact incl_first_spec. Qed.
Theorem c14_inclusive_last_is_max : forall dmax s f, Rep (Incl s) f -> wfi (Incl s) ->
  match is_last dmax (Incl s) with
  | Some m => f m = true /\ forall v, f v = true -> v <= m
  | None => forall v, f v = false
  end.
Proof. exact incl_last_spec. Qed.
Theorem c14_inclusive_is_empty : forall dmax s f, Rep (Incl s) f -> wfi (Incl s) ->
  (is_is_empty dmax (Incl s) = true <-> forall v, f v = false).
Proof. exact incl_is_empty_spec. Qed.

(* len, both modes: there is a strictly ascending list of exactly the members (inclusive) / exactly the excluded
   values (inverted) and len is its length, resp. count - its length.
   PARTIAL for inverted sets: the full statement "len = number of members inside the domain" additionally needs
   "every excluded value lies in [0,dmax]" (true when all operation arguments lie in the domain; not proved). *)
Theorem c14_len_partial : forall dmax x f, Rep x f -> wfi x ->
  exists l, StronglySorted N.lt l /\ (forall v, In v l <-> f v = negb (is_inverted x)) /\
            is_len dmax x = if is_inverted x then dmax + 1 - N.of_nat (length l) else N.of_nat (length l).
Proof. exact len_spec. Qed.

(* RangeSet, BOUNDED (complete finite domain, by evaluation of the model): every insert sequence of length <= 3 over
   all ranges with bounds in [0,5] (reversed ones included) yields a sorted, disjoint, non-adjacent list covering
   exactly the union of the well-formed inserted ranges; every intersection of two such sets (length <= 2, bounds in
   [0,3]) is canonical and covers exactly the pointwise meet.  The unbounded statements are not proved. *)
Theorem c14_rangeset_canonical_bounded : forall ins, In ins (all_seqs 3 (all_ranges 5)) -> canon_ok 5 ins = true.
Proof. exact rangeset_canonical_bounded_all. Qed.
Theorem c14_rangeset_intersection_bounded : forall p,
  In p (list_prod (all_seqs 2 (all_ranges 3)) (all_seqs 2 (all_ranges 3))) -> inter_ok 3 p = true.
Proof. exact rangeset_intersection_bounded_all. Qed.

Print Assumptions c14_intset_refines.
Print Assumptions c14_step_refines.
Print Assumptions c14_insert_returns_newly.
Print Assumptions c14_remove_returns_present.
Print Assumptions c14_run_invariants.
Print Assumptions c14_stored_enumeration.
Print Assumptions c14_inclusive_iteration.
Print Assumptions c14_inclusive_first_is_min.
Print Assumptions c14_inclusive_last_is_max.
Print Assumptions c14_inclusive_is_empty.
Print Assumptions c14_len_partial.
Print Assumptions c14_rangeset_canonical_bounded.
Print Assumptions c14_rangeset_intersection_bounded.
Print Assumptions c14_inclusive_iter_after.
