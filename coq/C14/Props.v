(* C14 (set half) — property theorems.  Only statements, [exact lemma] and Print Assumptions. *)
From Coq Require Import NArith List Bool.
From FV Require Import C14.Model C14.Proofs.
Import ListNotations.
Open Scope N_scope.

(* For EVERY operation sequence (insert, remove, insert_range, remove_range, extend, remove_all, union,
   intersect, subtract, invert, clear, assign; on either of two evolving sets), both model sets are well
   formed and their membership functions are exactly the mathematical sets the operations define
   (run_spec: pointwise boolean algebra on N -> bool; invert = complement), in inclusive and inverted mode. *)
Theorem c14_intset_refines : forall ops,
  wf (fst (run ops)) /\ wf (snd (run ops)) /\
  forall v, is_contains (fst (run ops)) v = fst (run_spec ops) v /\
            is_contains (snd (run ops)) v = snd (run_spec ops) v.
Proof. exact intset_refines_all. Qed.

(* one step from any represented state (the induction step of the above, usable from any state) *)
Theorem c14_step_refines : forall st sp o, Rep2 st sp -> Rep2 (fst (apply_op st o)) (spec_op sp o).
Proof. exact apply_op_refines. Qed.

(* insert returns "newly inserted", remove returns "was present" *)
Theorem c14_insert_returns_newly : forall st sp t v, Rep2 st sp ->
  snd (apply_op st (OInsert t v)) = Some (negb (sel t sp v)).
Proof. exact insert_returns_newly. Qed.
Theorem c14_remove_returns_present : forall st sp t v, Rep2 st sp ->
  snd (apply_op st (ORemove t v)) = Some (sel t sp v).
Proof. exact remove_returns_present. Qed.

Print Assumptions c14_intset_refines.
Print Assumptions c14_step_refines.
Print Assumptions c14_insert_returns_newly.
Print Assumptions c14_remove_returns_present.
