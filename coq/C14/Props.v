(* C14 (set half) — property theorems.  Only statements, [exact lemma] and Print Assumptions. *)
From Coq Require Import NArith List Bool Sorting.Sorted.
From FV Require Import C14.Model C14.Proofs C14.SetObs C14.SetAfter C14.SetDom C14.SetRangeU C14.SetEq C14.SetOrd C14.SetL0 C14.SetL0Proofs C14.ProcessNP.
Import ListNotations.
Open Scope N_scope.

(* For EVERY operation sequence (insert, remove, insert_range, remove_range, extend, remove_all, union,
   intersect, subtract, invert, clear, assign; on either of two evolving sets), both model sets are well
   formed and their membership functions are exactly the mathematical sets the operations define
   (run_spec: pointwise boolean algebra on N -> bool; invert = complement), in inclusive and inverted mode. *)
Theorem c14_intset_refines : forall ops,
  wf (fst (run ops)) /\ wf (snd (run ops)) /\
  forall v, is_contains (fst (run ops)) v = fst (run_spec ops) v /\
            is_contains (snd (run ops)) v = snd (run_spec ops) v.
Proof. exact intset_refines_all. Qed.

(* one step from any represented state (the induction step of the above, usable from any state) *)
Theorem c14_step_refines : forall st sp o, Rep2 st sp -> Rep2 (fst (apply_op st o)) (spec_op sp o).
Proof. exact apply_op_refines. Qed.

(* insert returns "newly inserted", remove returns "was present" *)
Theorem c14_insert_returns_newly : forall st sp t v, Rep2 st sp ->
  snd (apply_op st (OInsert t v)) = Some (negb (sel t sp v)).
Proof. exact insert_returns_newly. Qed.
Theorem c14_remove_returns_present : forall st sp t v, Rep2 st sp ->
  snd (apply_op st (ORemove t v)) = Some (sel t sp v).
Proof. exact remove_returns_present. Qed.

(* every operation sequence also keeps the stronger representation invariant (pages are 512-bit, majors strictly
   ascending, cached length = sum of page populations), so the observation theorems below apply to fst/snd (run ops) *)
Theorem c14_run_invariants : forall ops,
  Rep (fst (run ops)) (fst (run_spec ops)) /\ wfi (fst (run ops)) /\
  Rep (snd (run ops)) (snd (run_spec ops)) /\ wfi (snd (run ops)).
Proof. exact run_rep_wfi. Qed.

(* the stored bit set, iterated, is the strictly ascending enumeration of exactly the members (inclusive mode) or
   exactly the non-members (inverted mode), and the cached length is the length of that enumeration *)
Theorem c14_stored_enumeration : forall x f, Rep x f -> wfi x ->
  StronglySorted N.lt (bs_iter (storage x)) /\
  (forall v, In v (bs_iter (storage x)) <-> f v = negb (is_inverted x)) /\
  blen (storage x) = N.of_nat (length (bs_iter (storage x))).
Proof. exact stored_enumeration. Qed.

(* inclusive sets: forward / backward iteration (every prefix), and len = number of members *)
Theorem c14_inclusive_iteration : forall dmax s f k, Rep (Incl s) f -> wfi (Incl s) ->
  is_iter dmax (Incl s) k = firstn k (bs_iter s) /\
  is_iter_back dmax (Incl s) k = firstn k (rev (bs_iter s)) /\
  StronglySorted N.lt (bs_iter s) /\ (forall v, In v (bs_iter s) <-> f v = true) /\
  is_len dmax (Incl s) = N.of_nat (length (bs_iter s)).
Proof. exact incl_iter_spec. Qed.

(* iter_after(v) of an inclusive set: every prefix is a prefix of the ascending members greater than v *)
Theorem c14_inclusive_iter_after : forall dmax s f v k, Rep (Incl s) f -> wfi (Incl s) ->
  is_iter_after dmax (Incl s) v k = firstn k (filter (fun x => v <? x) (bs_iter s)) /\
  StronglySorted N.lt (bs_iter s) /\ (forall w, In w (bs_iter s) <-> f w = true).
Proof. exact incl_iter_after_spec. Qed.

(* first = minimum, last = maximum, None iff empty (inclusive sets) *)
Theorem c14_inclusive_first_is_min : forall dmax s f, Rep (Incl s) f -> wfi (Incl s) ->
  match is_first dmax (Incl s) with
  | Some m => f m = true /\ forall v, f v = true -> m <= v
  | None => forall v, f v = false
  end.
Proof. exact incl_first_spec. Qed.
Theorem c14_inclusive_last_is_max : forall dmax s f, Rep (Incl s) f -> wfi (Incl s) ->
  match is_last dmax (Incl s) with
  | Some m => f m = true /\ forall v, f v = true -> v <= m
  | None => forall v, f v = false
  end.
Proof. exact incl_last_spec. Qed.
Theorem c14_inclusive_is_empty : forall dmax s f, Rep (Incl s) f -> wfi (Incl s) ->
  (is_is_empty dmax (Incl s) = true <-> forall v, f v = false).
Proof. exact incl_is_empty_spec. Qed.

(* ---- both membership modes, against the mathematical set restricted to the domain [0,dmax] ----
   [members dmax f] (SetDom.v) = filter f [0; 1; ...; dmax] : the members of the domain in ascending order. *)

(* the missing invariant of round 1: for EVERY operation sequence whose arguments lie in the domain, every value
   stored in either bit set (= member of an inclusive set / excluded value of an inverted set) lies in [0,dmax] *)
Theorem c14_domain_invariant : forall dmax ops, Forall (op_in_dom dmax) ops ->
  indom dmax (fst (run ops)) /\ indom dmax (snd (run ops)).
Proof. exact run_indom. Qed.

(* forward / backward iteration (every prefix), inclusive AND inverted sets *)
Theorem c14_iteration : forall dmax x f, Rep x f -> wfi x -> indom dmax x ->
  forall k, is_iter dmax x k = firstn k (members dmax f).
Proof. exact iter_spec. Qed.
Theorem c14_iteration_backward : forall dmax x f, Rep x f -> wfi x -> indom dmax x ->
  forall k, is_iter_back dmax x k = firstn k (rev (members dmax f)).
Proof. exact iter_back_spec. Qed.
(* iter_after(v): the members greater than v, ascending *)
Theorem c14_iter_after : forall dmax x f, Rep x f -> wfi x -> indom dmax x ->
  forall v k, is_iter_after dmax x v k = firstn k (filter (fun w => v <? w) (members dmax f)).
Proof. exact iter_after_spec. Qed.
(* first = least member of the domain, last = greatest, None iff no member *)
Theorem c14_first_is_min : forall dmax x f, Rep x f -> wfi x -> indom dmax x ->
  match is_first dmax x with
  | Some m => m <= dmax /\ f m = true /\ forall v, v <= dmax -> f v = true -> m <= v
  | None => forall v, v <= dmax -> f v = false
  end.
Proof. exact first_is_min. Qed.
Theorem c14_last_is_max : forall dmax x f, Rep x f -> wfi x -> indom dmax x ->
  match is_last dmax x with
  | Some m => m <= dmax /\ f m = true /\ forall v, v <= dmax -> f v = true -> v <= m
  | None => forall v, v <= dmax -> f v = false
  end.
Proof. exact last_is_max. Qed.
(* len = the number of members of the domain (inverted sets: count - excluded), is_empty *)
Theorem c14_len : forall dmax x f, Rep x f -> wfi x -> indom dmax x ->
  is_len dmax x = N.of_nat (length (members dmax f)).
Proof. exact len_full. Qed.
Theorem c14_is_empty : forall dmax x f, Rep x f -> wfi x -> indom dmax x ->
  (is_is_empty dmax x = true <-> forall v, v <= dmax -> f v = false).
Proof. exact is_empty_full. Qed.

(* iter_ranges / iter_excluded_ranges (both modes) = the maximal runs of members / non-members of the domain:
   [runs l] = ranges_of l None; by c14_runs_are_maximal it is the unique sorted, disjoint, non-adjacent range list
   covering exactly the members (uniqueness: SetEq.canon_ext) *)
Theorem c14_runs_are_maximal : forall dmax f,
  canon (runs (members dmax f)) /\ forall v, cov (runs (members dmax f)) v = (v <=? dmax) && f v.
Proof. exact runs_members. Qed.
Theorem c14_iter_ranges : forall dmax x f, Rep x f -> wfi x -> indom dmax x ->
  is_iter_ranges dmax x = runs (members dmax f).
Proof. exact iter_ranges_spec. Qed.
Theorem c14_iter_excluded_ranges : forall dmax x f, Rep x f -> wfi x -> indom dmax x ->
  is_iter_excluded_ranges dmax x = runs (members dmax (fun w => negb (f w))).
Proof. exact iter_excluded_ranges_spec. Qed.
(* intersects_range / intersects_set = non-emptiness of the meet *)
Theorem c14_intersects_range : forall dmax x f, Rep x f -> wfi x -> indom dmax x -> forall a b,
  is_intersects_range dmax x a b = existsb (fun v => (a <=? v) && (v <=? b)) (members dmax f).
Proof. exact intersects_range_spec. Qed.
Theorem c14_intersects_set : forall dmax x y f g, Rep x f -> wfi x -> indom dmax x -> Rep y g -> wfi y -> indom dmax y ->
  (is_intersects_set dmax x y = true <-> exists v, v <= dmax /\ f v = true /\ g v = true).
Proof. exact intersects_set_spec. Qed.
(* eq_iff_members: PartialEq of the model (same-mode page comparison and mixed-mode len + ranges comparison)
   holds exactly when the two sets have the same members in the domain *)
Theorem c14_eq_iff_members : forall dmax x y f g, Rep x f -> wfi x -> indom dmax x -> Rep y g -> wfi y -> indom dmax y ->
  (is_eqb dmax x y = true <-> forall v, v <= dmax -> f v = g v).
Proof. exact eq_iff_members. Qed.

(* ord_is_lex_on_members: Ord of the model (BitSet::cmp for Inclusive/Inclusive, the range-sequence comparison
   otherwise) is the lexicographic order [lexc] of the ascending member sequences, a proper prefix being smaller *)
Theorem c14_ord_is_lex_on_members : forall dmax x y f g, Rep x f -> wfi x -> indom dmax x -> Rep y g -> wfi y -> indom dmax y ->
  is_cmp dmax x y = lexc (members dmax f) (members dmax g).
Proof. exact ord_is_lex_on_members. Qed.

(* L0 (SetL0.v): the in-place BitSet::process over (pages vector, page_map), index by index (step 1 estimate + left
   compaction, compact, resize, step 3 back-to-front merge, step 4 drains).  BOUNDED (complete finite domain, by evaluation):
   for every pair of L0 states over the majors {0,1,2} (all subsets, all index permutations, pages in {0,1,3}) and the four
   operators, the abstraction of the in-place result is the L1 ordered merge and pages/page_map keep equal lengths. *)
Theorem c14_process_L0_refines_L1_bounded :
  forall a b, In a (states_over [0; 1; 2]) -> In b (states_over [0; 1; 2]) -> refines_on a b = true.
Proof. exact process_L0_refines_L1_bounded_all. Qed.

(* L0, UNBOUNDED parts (SetL0Proofs.v).  [Inv0 x]: |page_map| = |pages|, page indices distinct and in range, majors ascending.
   [WF .. s]: the loop invariant of steps 3-4 (indices in use distinct and below next_page, idx_a <= count, exact count,
   next_page + pending right pages = new size, left keys matched when the left side does not pass through). *)
(* merging from the last page to the first (the order of steps 3-4) yields the forward L1 merge *)
Theorem c14_backward_merge_is_merge : forall pl pr f A B out, ksorted A -> ksorted B ->
  bmerge pl pr f (rev A) (rev B) out = merge pl pr f A B ++ out.
Proof. exact bmerge_merge. Qed.
(* steps 3 + 4 (in-place, aliasing page_map slots and pages) from ANY prepared state, all four operators:
   the final (pages, page_map) abstracts to the L1 merge of the prepared left entries with the right set *)
Theorem c14_process_L0_steps34 : forall pl pr f PB B0 n, ksorted (absE PB B0) -> forall s,
  WF pl pr f PB B0 n s -> s_count s = n -> s_ib s = length B0 ->
  absE (s_pages (run34 pl pr f PB B0 s)) (s_pm (run34 pl pr f PB B0 s)) = merge pl pr f (viewA s) (absE PB B0) /\
  length (s_pm (run34 pl pr f PB B0 s)) = n /\ length (s_pages (run34 pl pr f PB B0 s)) = n.
Proof. exact run34_spec. Qed.
(* process_L0_refines_L1, PARTIAL: end to end (steps 1-4, resize) for every operator that passes the left side through
   (union, subtract).  For intersect / reversed_subtract the front-compaction of step 1 and `compact` (step 2) are not
   proved for arbitrary sizes: covered by c14_process_L0_steps34 from the prepared state and by the bounded theorem. *)
Theorem c14_process_L0_refines_L1_partial : forall f a b la lb,
  N.testbit (f 1 0) 0 = true -> Inv0 a -> Inv0 b ->
  abs0 (process0 f a b) = pgs (process f (mkBS (abs0 a) la) (mkBS (abs0 b) lb)).
Proof. exact process0_refines_process_pl. Qed.
Theorem c14_process_L0_union : forall a b la lb, Inv0 a -> Inv0 b ->
  abs0 (process0 N.lor a b) = pgs (bs_union (mkBS (abs0 a) la) (mkBS (abs0 b) lb)).
Proof. exact process0_union_refines. Qed.
Theorem c14_process_L0_subtract : forall a b la lb, Inv0 a -> Inv0 b ->
  abs0 (process0 N.ldiff a b) = pgs (bs_subtract (mkBS (abs0 a) la) (mkBS (abs0 b) lb)).
Proof. exact process0_subtract_refines. Qed.

(* Round 7 (ProcessNP.v): the `!passthrough_left` half (intersect, reversed_subtract), UNBOUNDED, and Inv0 of the result.
   [keep A B]: the entries of A whose key occurs in B (the pages step 1 keeps when the left side does not pass through). *)
(* (iii) the left pages without a partner on the right are irrelevant to the merge when the left side does not pass through *)
Theorem c14_merge_keep_irrelevant : forall pr f (A B : list (N * N)), ksorted A ->
  merge false pr f (keep A B) B = merge false pr f A B.
Proof. exact merge_keep_irrelevant. Qed.
(* (i) step 1 (size estimate + front compaction of page_map): the first write_idx slots hold exactly keep A0 B0, in order,
   page_map keeps its length, and the estimated count is the exact size of the L1 merge *)
Theorem c14_step1_compacts_front : forall pr f PA A0 PB B0,
  let r := step1 (length A0 + length B0) false pr B0 (length A0) (length B0) A0 0 0 0 0 in
  length (fst (fst (fst (fst r)))) = length A0 /\ (snd r <= length A0)%nat /\
  firstn (snd r) (fst (fst (fst (fst r)))) = keep A0 B0 /\
  (snd (fst r) + (if pr then length B0 - snd (fst (fst r)) else 0))%nat = length (merge false pr f (absE PA A0) (absE PB B0)).
Proof. exact step1_compacts_front. Qed.
(* (ii) compact(new_len) (old_index_to_page_map_index + compact_pages, in place): for a front of n page_map entries with
   distinct in-range page indices, lengths are kept, the abstraction of the front is unchanged, and the new page indices
   are pairwise distinct and all < n (a permutation of 0..n) *)
Theorem c14_compact_renumbers : forall (P0 : list N) (pm0 : list pinfo) (n : nat), (n <= length pm0)%nat ->
  NoDup (map snd (firstn n pm0)) -> Forall (fun j => (j < length P0)%nat) (map snd (firstn n pm0)) ->
  let r := compact n P0 pm0 in
  length (fst r) = length P0 /\ length (snd r) = length pm0 /\
  absE (fst r) (firstn n (snd r)) = absE P0 (firstn n pm0) /\
  NoDup (map snd (firstn n (snd r))) /\ Forall (fun j => (j < n)%nat) (map snd (firstn n (snd r))).
Proof. exact compact_spec. Qed.
(* steps 3-4 end with the loop invariant still holding and count = 0 (every output slot written exactly once) *)
Theorem c14_process_L0_steps34_final : forall pl pr f PB B0 n, ksorted (absE PB B0) -> forall s,
  WF pl pr f PB B0 n s ->
  WF pl pr f PB B0 n (run34 pl pr f PB B0 s) /\ s_count (run34 pl pr f PB B0 s) = 0%nat.
Proof. exact run34_final. Qed.
(* process_L0_refines_L1, FULL: for EVERY operator f (all four passthrough combinations) and all well-formed L0 states,
   the in-place process (steps 1-4, compact, resizes) abstracts to Model.process (the L1 merge the shards evaluate) *)
Theorem c14_process_L0_refines_L1 : forall f a b la lb, Inv0 a -> Inv0 b ->
  abs0 (process0 f a b) = pgs (process f (mkBS (abs0 a) la) (mkBS (abs0 b) lb)).
Proof. exact process0_refines_process. Qed.
Theorem c14_process_L0_intersect : forall a b la lb, Inv0 a -> Inv0 b ->
  abs0 (process0 N.land a b) = pgs (bs_intersect (mkBS (abs0 a) la) (mkBS (abs0 b) lb)).
Proof. exact process0_intersect_refines. Qed.
Theorem c14_process_L0_reversed_subtract : forall a b la lb, Inv0 a -> Inv0 b ->
  abs0 (process0 (fun x y => N.ldiff y x) a b) = pgs (bs_reversed_subtract (mkBS (abs0 a) la) (mkBS (abs0 b) lb)).
Proof. exact process0_reversed_subtract_refines. Qed.
(* the representation invariant is preserved: |page_map| = |pages|, page indices distinct and in range, majors ascending *)
Theorem c14_process_L0_preserves_inv : forall f a b, Inv0 a -> Inv0 b -> Inv0 (process0 f a b).
Proof. exact process0_preserves_inv0. Qed.

(* ---- RangeSet, UNBOUNDED (SetRangeU.v).  [canon l]: sorted by start, every range non-empty, every later range
   starts beyond end + 1 of every earlier one (disjoint and non-adjacent); [cov l v]: v lies in some range of l
   (for a list of inserted ranges: in some well-formed one; reversed ranges cover nothing and are ignored). ---- *)
Theorem c14_rangeset_insert : forall l a b, canon l ->
  canon (rs_insert l a b) /\ forall v, cov (rs_insert l a b) v = cov l v || inr (a, b) v.
Proof. exact rs_insert_spec. Qed.
(* rangeset_canonical: after ANY insert sequence (insert / extend / FromIterator) *)
Theorem c14_rangeset_canonical : forall ins,
  canon (rs_extend [] ins) /\ forall v, cov (rs_extend [] ins) v = cov ins v.
Proof. exact rangeset_canonical_all. Qed.
(* rangeset_intersection: the iterator yields the canonical form of the pointwise meet *)
Theorem c14_rangeset_intersection : forall a b, canon a -> canon b ->
  canon (rs_intersection a b) /\ forall v, cov (rs_intersection a b) v = cov a v && cov b v.
Proof. exact rs_intersection_spec. Qed.

Print Assumptions c14_intset_refines.
Print Assumptions c14_step_refines.
Print Assumptions c14_insert_returns_newly.
Print Assumptions c14_remove_returns_present.
Print Assumptions c14_run_invariants.
Print Assumptions c14_stored_enumeration.
Print Assumptions c14_inclusive_iteration.
Print Assumptions c14_inclusive_first_is_min.
Print Assumptions c14_inclusive_last_is_max.
Print Assumptions c14_inclusive_is_empty.
Print Assumptions c14_rangeset_insert.
Print Assumptions c14_rangeset_canonical.
Print Assumptions c14_rangeset_intersection.
Print Assumptions c14_inclusive_iter_after.
Print Assumptions c14_domain_invariant.
Print Assumptions c14_iteration.
Print Assumptions c14_iteration_backward.
Print Assumptions c14_iter_after.
Print Assumptions c14_first_is_min.
Print Assumptions c14_last_is_max.
Print Assumptions c14_len.
Print Assumptions c14_is_empty.
Print Assumptions c14_runs_are_maximal.
Print Assumptions c14_iter_ranges.
Print Assumptions c14_iter_excluded_ranges.
Print Assumptions c14_intersects_range.
Print Assumptions c14_intersects_set.
Print Assumptions c14_eq_iff_members.
Print Assumptions c14_ord_is_lex_on_members.
Print Assumptions c14_process_L0_refines_L1_bounded.
Print Assumptions c14_backward_merge_is_merge.
Print Assumptions c14_process_L0_steps34.
Print Assumptions c14_process_L0_refines_L1_partial.
Print Assumptions c14_process_L0_union.
Print Assumptions c14_process_L0_subtract.
Print Assumptions c14_merge_keep_irrelevant.
Print Assumptions c14_step1_compacts_front.
Print Assumptions c14_compact_renumbers.
Print Assumptions c14_process_L0_steps34_final.
Print Assumptions c14_process_L0_refines_L1.
Print Assumptions c14_process_L0_intersect.
Print Assumptions c14_process_L0_reversed_subtract.
Print Assumptions c14_process_L0_preserves_inv.
