(* C14 (set half), round 7 — non-vacuity of the ProcessNP theorems: concrete scrambled-index states (SetL0.exA / exB) *)
From Coq Require Import ZArith NArith List Bool Lia Arith Sorting.Sorted.
From FV Require Import C14.Model C14.Proofs C14.SetL0 C14.SetL0Proofs C14.ProcessNP.
Import ListNotations.
Local Open Scope nat_scope.

(* (iii): keep drops the left pages 2 and 7, which have no partner on the right; the merge is unchanged *)
Example c14_ex_keep : keep (abs0 exA) (abs0 exB) = [(4, 5); (9, 6)]%N /\ ksorted (abs0 exA) /\
  merge false true (fun x y => N.ldiff y x) (keep (abs0 exA) (abs0 exB)) (abs0 exB)
  = merge false true (fun x y => N.ldiff y x) (abs0 exA) (abs0 exB).
Proof. split; [vm_compute; reflexivity|]. split; [repeat constructor; unfold klt'; cbn; reflexivity|vm_compute; reflexivity]. Qed.

(* (i): step 1 of intersect on exA/exB moves the entries of majors 4 and 9 to slots 0,1; write_idx = 2, count = 2 *)
Example c14_ex_step1 :
  step1 7 false false (pm0 exB) 4 3 (pm0 exA) 0 0 0 0 = ([(4%N, 0); (9%N, 1); (7%N, 2); (9%N, 1)], 4, 3, 2, 2)
  /\ keep (pm0 exA) (pm0 exB) = [(4%N, 0); (9%N, 1)].
Proof. vm_compute. split; reflexivity. Qed.

(* (ii): compact on a front with scrambled page indices 3 and 1: the pages move to 0,1 in index order, the abstraction is kept *)
Example c14_ex_compact :
  let pm := [(4%N, 3); (9%N, 1); (7%N, 2); (9%N, 1)] in
  let P := [5; 6; 7; 1]%N in
  compact 2 P pm = ([6; 1; 7; 1]%N, [(4%N, 1); (9%N, 0); (7%N, 2); (9%N, 1)]) /\
  absE (fst (compact 2 P pm)) (firstn 2 (snd (compact 2 P pm))) = absE P (firstn 2 pm) /\
  NoDup (map snd (firstn 2 pm)) /\ Forall (fun j => j < length P) (map snd (firstn 2 pm)).
Proof.
  cbn zeta. split; [vm_compute; reflexivity|]. split; [vm_compute; reflexivity|]. split.
  - cbn. repeat constructor; cbn; intuition discriminate.
  - cbn. repeat constructor.
Qed.

(* end to end, the two operators without passthrough_left, and Inv0 of the results *)
Example c14_ex_process0_intersect :
  abs0 (process0 N.land exA exB) = [(4, 1); (9, 4)]%N /\ pm0 (process0 N.land exA exB) = [(4%N, 0); (9%N, 1)].
Proof. vm_compute. split; reflexivity. Qed.
Example c14_ex_process0_rsub :
  abs0 (process0 (fun x y => N.ldiff y x) exA exB) = [(1, 10); (4, 2); (9, 8)]%N.
Proof. vm_compute. reflexivity. Qed.
Example c14_ex_inv0_result : Inv0 (process0 N.land exA exB) /\ Inv0 (process0 (fun x y => N.ldiff y x) exA exB).
Proof.
  split; (split; [vm_compute; reflexivity|]); (split; [vm_compute; repeat constructor; cbn; intuition discriminate|]);
    (split; [vm_compute; repeat constructor|]); vm_compute; repeat constructor.
Qed.
