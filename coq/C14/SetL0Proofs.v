(* C14 (set half) — process_L0_refines_L1: the in-place BitSet::process (SetL0.v) computes the L1 ordered merge.
   Part A: list-level facts (dropping unmatched left pages, merging from the back, counting). *)
From Coq Require Import ZArith NArith List Bool Lia Arith Sorting.Sorted Sorting.Permutation.
From FV Require Import C14.Model C14.Proofs C14.SetL0.
Import ListNotations.
Local Open Scope nat_scope.

Definition klt' {X} (a b : N * X) : Prop := (fst a < fst b)%N.
Definition ksorted {X} (l : list (N * X)) : Prop := StronglySorted klt' l.
Definition allk_lt {X} (k : N) (l : list (N * X)) : Prop := Forall (fun e => (fst e < k)%N) l.
Definition allk_gt {X} (k : N) (l : list (N * X)) : Prop := Forall (fun e => (k < fst e)%N) l.

Lemma ksorted_snoc {X} (l : list (N * X)) e : ksorted (l ++ [e]) -> ksorted l /\ allk_lt (fst e) l.
Proof.
  induction l as [|x t IH]; cbn [app]; intros H; [split; constructor|].
  inversion H; subst. destruct (IH H2) as [S1 S2]. rewrite Forall_app in H3. destruct H3 as [F1 F2]. inversion F2; subst.
  split; [constructor; assumption|constructor; assumption].
Qed.
Lemma ksorted_cons_inv {X} (x : N * X) t : ksorted (x :: t) -> ksorted t /\ allk_gt (fst x) t.
Proof. intros H. inversion H; subst. split; assumption. Qed.

Lemma merge_nil_l pl pr f b : merge pl pr f [] b = if pr then b else [].
Proof. rewrite merge_eq. reflexivity. Qed.
Lemma merge_nil_r pl pr f a : merge pl pr f a [] = if pl then a else [].
Proof. rewrite merge_eq. destruct a as [|[k p] t]; [destruct pr, pl; reflexivity|reflexivity]. Qed.

Section Snoc.
  Variables (pl pr : bool) (f : N -> N -> N).

  Lemma merge_snoc_eq k pa pb : forall A B, allk_lt k A -> allk_lt k B ->
    merge pl pr f (A ++ [(k, pa)]) (B ++ [(k, pb)]) = merge pl pr f A B ++ [(k, f pa pb)].
  Proof.
    induction A as [|[ka pa'] ta IHA]; intros B HA HB.
    - induction B as [|[kb pb'] tb IHB]; cbn [app].
      + rewrite merge_eq, N.compare_refl, !merge_nil_l. destruct pr; reflexivity.
      + inversion HB; subst. cbn [fst] in *. rewrite merge_eq. destruct (N.compare_spec k kb); try lia.
        change (merge pl pr f [(k, pa)] (tb ++ [(k, pb)])) with (merge pl pr f ([] ++ [(k, pa)]) (tb ++ [(k, pb)])).
        rewrite IHB by assumption. rewrite !merge_nil_l. destruct pr; reflexivity.
    - inversion HA; subst. cbn [fst] in *. induction B as [|[kb pb'] tb IHB]; cbn [app].
      + rewrite merge_eq. destruct (N.compare_spec ka k); try lia.
        change [(k, pb)] with ([] ++ [(k, pb)]). rewrite (IHA [] H2 HB). rewrite !merge_nil_r. destruct pl; reflexivity.
      + inversion HB; subst. cbn [fst] in *. rewrite merge_eq, (merge_eq pl pr f ((ka, pa') :: ta) ((kb, pb') :: tb)).
        destruct (ka ?= kb)%N.
        * rewrite (IHA tb) by assumption. reflexivity.
        * change ((kb, pb') :: tb ++ [(k, pb)]) with (((kb, pb') :: tb) ++ [(k, pb)]).
          rewrite (IHA ((kb, pb') :: tb)) by assumption. destruct pl; reflexivity.
        * change ((ka, pa') :: ta ++ [(k, pa)]) with (((ka, pa') :: ta) ++ [(k, pa)]) in *.
          rewrite IHB by assumption. destruct pr; reflexivity.
  Qed.

  Lemma merge_snoc_l k pa : forall A B, allk_lt k A -> allk_lt k B ->
    merge pl pr f (A ++ [(k, pa)]) B = merge pl pr f A B ++ (if pl then [(k, pa)] else []).
  Proof.
    induction A as [|[ka pa'] ta IHA]; intros B HA HB.
    - induction B as [|[kb pb'] tb IHB]; cbn [app].
      + rewrite merge_nil_r, merge_nil_l. destruct pl, pr; reflexivity.
      + inversion HB; subst. cbn [fst] in *. rewrite merge_eq. destruct (N.compare_spec k kb); try lia.
        change [(k, pa)] with ([] ++ [(k, pa)]). rewrite IHB by assumption. rewrite !merge_nil_l. destruct pr; reflexivity.
    - inversion HA; subst. cbn [fst] in *. induction B as [|[kb pb'] tb IHB]; cbn [app].
      + rewrite !merge_nil_r. destruct pl; [reflexivity|reflexivity].
      + inversion HB; subst. cbn [fst] in *. rewrite merge_eq, (merge_eq pl pr f ((ka, pa') :: ta) ((kb, pb') :: tb)).
        destruct (ka ?= kb)%N.
        * rewrite (IHA tb) by assumption. reflexivity.
        * rewrite (IHA ((kb, pb') :: tb)) by assumption. destruct pl; reflexivity.
        * change ((ka, pa') :: ta ++ [(k, pa)]) with (((ka, pa') :: ta) ++ [(k, pa)]) in *.
          rewrite IHB by assumption. destruct pr; reflexivity.
  Qed.

  Lemma merge_snoc_r k pb : forall A B, allk_lt k A -> allk_lt k B ->
    merge pl pr f A (B ++ [(k, pb)]) = merge pl pr f A B ++ (if pr then [(k, pb)] else []).
  Proof.
    induction A as [|[ka pa'] ta IHA]; intros B HA HB.
    - rewrite !merge_nil_l. destruct pr; [reflexivity|reflexivity].
    - inversion HA; subst. cbn [fst] in *. induction B as [|[kb pb'] tb IHB]; cbn [app].
      + rewrite merge_eq. destruct (N.compare_spec ka k); try lia. change [(k, pb)] with ([] ++ [(k, pb)]).
        rewrite (IHA [] H2 HB). rewrite !merge_nil_r. destruct pl, pr; reflexivity.
      + inversion HB; subst. cbn [fst] in *. rewrite merge_eq, (merge_eq pl pr f ((ka, pa') :: ta) ((kb, pb') :: tb)).
        destruct (ka ?= kb)%N.
        * rewrite (IHA tb) by assumption. reflexivity.
        * change ((kb, pb') :: tb ++ [(k, pb)]) with (((kb, pb') :: tb) ++ [(k, pb)]).
          rewrite (IHA ((kb, pb') :: tb)) by assumption. destruct pl; reflexivity.
        * rewrite IHB by assumption. destruct pr; reflexivity.
  Qed.
End Snoc.

(* merging from the back: the list-level shape of steps 3 and 4 *)
Fixpoint bmerge (pl pr : bool) (f : N -> N -> N) (ra : list (N * N)) : list (N * N) -> list (N * N) -> list (N * N) :=
  fix inner (rb out : list (N * N)) : list (N * N) :=
    match ra with
    | [] => match rb with
            | [] => out
            | (kb, pb) :: tb => if pr then inner tb ((kb, pb) :: out) else out
            end
    | (ka, pa) :: ta =>
        match rb with
        | [] => if pl then bmerge pl pr f ta [] ((ka, pa) :: out) else out
        | (kb, pb) :: tb =>
            match (ka ?= kb)%N with
            | Eq => bmerge pl pr f ta tb ((ka, f pa pb) :: out)
            | Gt => if pl then bmerge pl pr f ta rb ((ka, pa) :: out) else bmerge pl pr f ta rb out
            | Lt => if pr then inner tb ((kb, pb) :: out) else inner tb out
            end
        end
    end.
Lemma bmerge_eq pl pr f ra rb out : bmerge pl pr f ra rb out =
    match ra with
    | [] => match rb with
            | [] => out
            | (kb, pb) :: tb => if pr then bmerge pl pr f [] tb ((kb, pb) :: out) else out
            end
    | (ka, pa) :: ta =>
        match rb with
        | [] => if pl then bmerge pl pr f ta [] ((ka, pa) :: out) else out
        | (kb, pb) :: tb =>
            match (ka ?= kb)%N with
            | Eq => bmerge pl pr f ta tb ((ka, f pa pb) :: out)
            | Gt => if pl then bmerge pl pr f ta rb ((ka, pa) :: out) else bmerge pl pr f ta rb out
            | Lt => if pr then bmerge pl pr f ra tb ((kb, pb) :: out) else bmerge pl pr f ra tb out
            end
        end
    end.
Proof. destruct ra as [|[ka pa] ta], rb as [|[kb pb] tb]; reflexivity. Qed.

Lemma bmerge_nil_l_nopr pl f rb out : bmerge pl false f [] rb out = out.
Proof. destruct rb as [|[kb pb] tb]; reflexivity. Qed.
Lemma bmerge_nil_r_nopl pr f ra out : bmerge false pr f ra [] out = out.
Proof. destruct ra as [|[ka pa] ta]; reflexivity. Qed.

Lemma bmerge_merge pl pr f : forall A B out, ksorted A -> ksorted B ->
  bmerge pl pr f (rev A) (rev B) out = merge pl pr f A B ++ out.
Proof.
  induction A as [|[ka pa] A IHA] using rev_ind; intros B out SA SB.
  - cbn [rev]. revert out. induction B as [|[kb pb] B IHB] using rev_ind; intros out.
    + rewrite merge_nil_l. destruct pr; reflexivity.
    + apply ksorted_snoc in SB as [SB LB]. rewrite rev_app_distr. cbn [rev app]. rewrite bmerge_eq.
      rewrite !merge_nil_l. destruct pr; [|reflexivity]. rewrite (IHB SB), merge_nil_l, <- app_assoc. reflexivity.
  - apply ksorted_snoc in SA as [SA LA]. cbn [fst] in LA. rewrite rev_app_distr. cbn [rev app].
    revert out. induction B as [|[kb pb] B IHB] using rev_ind; intros out.
    + cbn [rev]. rewrite bmerge_eq, !merge_nil_r. destruct pl; [|reflexivity].
      change (@nil (N * N)) with (rev (@nil (N * N))) at 1. rewrite (IHA [] _ SA SB), merge_nil_r, <- app_assoc. reflexivity.
    + pose proof SB as SB0. apply ksorted_snoc in SB as [SB LB]. cbn [fst] in LB. rewrite rev_app_distr. cbn [rev app].
      rewrite bmerge_eq. destruct (N.compare_spec ka kb) as [E|E|E].
      * subst kb. rewrite (IHA B _ SA SB), merge_snoc_eq by assumption. rewrite <- app_assoc. reflexivity.
      * assert (LA' : allk_lt kb A) by (eapply Forall_impl; [|exact LA]; cbn; intros; lia).
        assert (E2 : merge pl pr f (A ++ [(ka, pa)]) (B ++ [(kb, pb)]) = merge pl pr f (A ++ [(ka, pa)]) B ++ (if pr then [(kb, pb)] else [])).
        { apply merge_snoc_r; [|exact LB]. apply Forall_app. split; [exact LA'|constructor; [exact E|constructor]]. }
        rewrite E2. destruct pr; rewrite (IHB SB); rewrite <- app_assoc; reflexivity.
      * assert (LB' : allk_lt ka (B ++ [(kb, pb)])).
        { apply Forall_app. split; [eapply Forall_impl; [|exact LB]; cbn; intros; lia|constructor; [exact E|constructor]]. }
        rewrite (merge_snoc_l pl pr f ka pa A (B ++ [(kb, pb)]) LA LB').
        change ((kb, pb) :: rev B) with (rev [(kb, pb)] ++ rev B). rewrite <- rev_app_distr.
        destruct pl; rewrite (IHA (B ++ [(kb, pb)]) _ SA SB0); rewrite <- app_assoc; reflexivity.
Qed.

(* ------------------------------------------------------------------------------------------ *)
(* vector lemmas                                                                               *)
(* ------------------------------------------------------------------------------------------ *)
Lemma set_nth_length {A} (l : list A) : forall i v, length (set_nth i v l) = length l.
Proof. induction l as [|x t IH]; intros [|i] v; cbn [set_nth length]; try reflexivity. rewrite IH. reflexivity. Qed.
Lemma nth_set_nth_eq {A} (l : list A) : forall i v d, i < length l -> nth i (set_nth i v l) d = v.
Proof. induction l as [|x t IH]; intros [|i] v d H; cbn [set_nth nth length] in *; try lia; [reflexivity|]. apply IH. lia. Qed.
Lemma nth_set_nth_ne {A} (l : list A) : forall i j v d, i <> j -> nth j (set_nth i v l) d = nth j l d.
Proof.
  induction l as [|x t IH]; intros [|i] [|j] v d H; cbn [set_nth nth]; try reflexivity; try lia. apply IH. lia.
Qed.
Lemma firstn_set_nth_ge {A} (l : list A) : forall i k v, k <= i -> firstn k (set_nth i v l) = firstn k l.
Proof.
  induction l as [|x t IH]; intros [|i] [|k] v H; cbn [set_nth firstn]; try reflexivity; try lia. f_equal. apply IH. lia.
Qed.
Lemma skipn_set_nth_lt {A} (l : list A) : forall i k v, i < k -> skipn k (set_nth i v l) = skipn k l.
Proof.
  induction l as [|x t IH]; intros [|i] [|k] v H; cbn [set_nth skipn]; try reflexivity; try lia. apply IH. lia.
Qed.
Lemma skipn_set_nth_at {A} (l : list A) : forall i v, i < length l -> skipn i (set_nth i v l) = v :: skipn (S i) l.
Proof.
  induction l as [|x t IH]; intros [|i] v H; cbn [set_nth skipn length] in *; try lia; [reflexivity|]. apply IH. lia.
Qed.
Lemma firstn_last {A} (l : list A) d : forall k, k < length l -> firstn (S k) l = firstn k l ++ [nth k l d].
Proof.
  induction l as [|x t IH]; intros [|k] H; cbn [length firstn nth app] in *; try lia; [reflexivity|]. f_equal. apply IH. lia.
Qed.

(* abstraction of a slice of the page map *)
Definition absE (pages : list N) (pm : list pinfo) : list (N * N) := map (fun e => (fst e, nth (snd e) pages 0%N)) pm.
Lemma absE_set_pages pages pm j v : ~ In j (map snd pm) -> absE (set_nth j v pages) pm = absE pages pm.
Proof.
  intros H. unfold absE. apply map_ext_in. intros e He. f_equal. apply nth_set_nth_ne. intros E. apply H.
  apply in_map_iff. exists e. split; [symmetry; exact E|exact He].
Qed.
Lemma absE_app pages a b : absE pages (a ++ b) = absE pages a ++ absE pages b.
Proof. apply map_app. Qed.

(* lengths of backward merges *)
Lemma bmerge_out pl pr f : forall ra rb out, bmerge pl pr f ra rb out = bmerge pl pr f ra rb [] ++ out.
Proof.
  induction ra as [|[ka pa] ta IHa]; intros rb.
  - induction rb as [|[kb pb] tb IHb]; intros out; rewrite bmerge_eq, (bmerge_eq pl pr f [] _ []); [reflexivity|].
    destruct pr; [|reflexivity]. rewrite IHb, (IHb [(kb, pb)]), <- app_assoc. reflexivity.
  - induction rb as [|[kb pb] tb IHb]; intros out; rewrite bmerge_eq, (bmerge_eq pl pr f (_ :: _) _ []).
    + destruct pl; [|reflexivity]. rewrite IHa, (IHa [] [(ka, pa)]), <- app_assoc. reflexivity.
    + destruct (ka ?= kb)%N.
      * rewrite IHa, (IHa tb [_]), <- app_assoc. reflexivity.
      * destruct pr; [rewrite IHb, (IHb [_]), <- app_assoc; reflexivity|apply IHb].
      * destruct pl; [rewrite IHa, (IHa _ [_]), <- app_assoc; reflexivity|apply IHa].
Qed.

(* every key of ra occurs in rb *)
Definition subk (ra rb : list (N * N)) : Prop := forall e, In e ra -> In (fst e) (map fst rb).
Definition kdesc (l : list (N * N)) : Prop := StronglySorted (fun a b => (fst b < fst a)%N) l.

Lemma bmerge_len_ge pl pr f : forall ra rb, (pl = true \/ subk ra rb) -> kdesc ra -> kdesc rb ->
  length ra <= length (bmerge pl pr f ra rb []).
Proof.
  induction ra as [|[ka pa] ta IHa]; intros rb Hs Da Db; [cbn; lia|].
  induction rb as [|[kb pb] tb IHb]; rewrite bmerge_eq.
  - destruct Hs as [->|Hs]; [|destruct (Hs (ka, pa) (or_introl eq_refl))].
    rewrite bmerge_out, app_length. inversion Da; subst. specialize (IHa [] (or_introl eq_refl) H1 Db). cbn [length]. lia.
  - inversion Da; subst. inversion Db; subst. rewrite Forall_forall in H2, H4.
    destruct (N.compare_spec ka kb) as [E|E|E].
    + subst kb. rewrite bmerge_out, app_length. cbn [length].
      assert (Hs' : pl = true \/ subk ta tb).
      { destruct Hs as [Hs|Hs]; [left; exact Hs|right]. intros e He. specialize (Hs e (or_intror He)). cbn [map In] in Hs.
        destruct Hs as [Hs|Hs]; [|exact Hs]. specialize (H2 e He). cbn [fst] in *. lia. }
      specialize (IHa tb Hs' H1 H3). lia.
    + assert (Hs' : pl = true \/ subk ((ka, pa) :: ta) tb).
      { destruct Hs as [Hs|Hs]; [left; exact Hs|right]. intros e He. specialize (Hs e He). cbn [map In] in Hs.
        destruct Hs as [Hs|Hs]; [|exact Hs]. destruct He as [<-|He]; [cbn [fst] in *; lia|]. specialize (H2 e He). cbn [fst] in *. lia. }
      specialize (IHb Hs' H3). destruct pr; [rewrite bmerge_out, app_length; cbn [length] in *; lia|exact IHb].
    + destruct Hs as [->|Hs].
      * rewrite bmerge_out, app_length. specialize (IHa ((kb, pb) :: tb) (or_introl eq_refl) H1 Db). cbn [length]. lia.
      * exfalso. specialize (Hs (ka, pa) (or_introl eq_refl)). cbn [fst map In] in Hs. destruct Hs as [Hs|Hs]; [lia|].
        apply in_map_iff in Hs as [e [E1 E2]]. specialize (H4 e E2). cbn [fst] in *. lia.
Qed.

(* ------------------------------------------------------------------------------------------ *)
(* Part B: steps 3 and 4 (the in-place merge from the back) simulate bmerge                    *)
(* ------------------------------------------------------------------------------------------ *)
Lemma set_nth_same {A} (l : list A) d : forall i, set_nth i (nth i l d) l = l.
Proof. induction l as [|x t IH]; intros [|i]; cbn [set_nth nth]; try reflexivity. f_equal. apply IH. Qed.
Lemma rev_firstn_S {A} (l : list A) d k : k < length l -> rev (firstn (S k) l) = nth k l d :: rev (firstn k l).
Proof. intros H. rewrite (firstn_last l d k H), rev_app_distr. reflexivity. Qed.
Lemma in_firstn {A} (l : list A) : forall k x, In x (firstn k l) -> In x l.
Proof. induction l as [|a t IH]; intros [|k] x H; cbn [firstn In] in *; try tauto. destruct H as [H|H]; [left; exact H|right; eapply IH, H]. Qed.
Lemma ksorted_firstn {X} (l : list (N * X)) k : ksorted l -> ksorted (firstn k l).
Proof.
  revert k. induction l as [|x t IH]; intros [|k] H; cbn [firstn]; try constructor.
  - inversion H; subst. apply IH, H2.
  - inversion H; subst. apply Forall_forall. intros y Hy. rewrite Forall_forall in H3. apply H3. eapply in_firstn, Hy.
Qed.
Lemma kdesc_rev (l : list (N * N)) : ksorted l -> kdesc (rev l).
Proof.
  induction 1 as [|a t Hs IH Hf]; cbn [rev]; [constructor|].
  rewrite Forall_forall in Hf. revert IH. generalize (rev t) (fun x (H : In x (rev t)) => Hf x (proj2 (in_rev t x) H)).
  intros r. induction r as [|b u IHu]; intros Hlt Hr; cbn [app].
  - constructor; constructor.
  - inversion Hr; subst. constructor.
    + apply IHu; [intros x Hx; apply Hlt; right; exact Hx|assumption].
    + apply Forall_forall. intros x Hx. apply in_app_iff in Hx as [Hx|[<-|[]]].
      * rewrite Forall_forall in H2. apply H2, Hx.
      * apply (Hlt b). left. reflexivity.
Qed.

Section Step34.
  Variables (pl pr : bool) (f : N -> N -> N) (PB : list N) (B0 : list pinfo) (n : nat).
  Let B := absE PB B0.
  Hypothesis SB : ksorted B.

  Definition viewA (s : st34) := absE (s_pages s) (firstn (s_ia s) (s_pm s)).
  Definition viewB (s : st34) := firstn (s_ib s) B.
  Definition viewO (s : st34) := absE (s_pages s) (skipn (s_count s) (s_pm s)).
  Definition used (s : st34) := map snd (firstn (s_ia s) (s_pm s)) ++ map snd (skipn (s_count s) (s_pm s)).
  Definition G (s : st34) := bmerge pl pr f (rev (viewA s)) (rev (viewB s)) (viewO s).

  Definition WF (s : st34) : Prop :=
    length (s_pm s) = n /\ length (s_pages s) = n /\ s_ia s <= s_count s /\ s_count s <= n /\ s_ib s <= length B0 /\
    NoDup (used s) /\ Forall (fun j => j < s_next s) (used s) /\ s_next s + (s_count s - s_ia s) = n /\
    s_count s = length (bmerge pl pr f (rev (viewA s)) (rev (viewB s)) []) /\
    (pl = true \/ subk (rev (viewA s)) (rev (viewB s))) /\ ksorted (viewA s).

  Lemma lenB : length B = length B0.
  Proof. unfold B, absE. apply map_length. Qed.
  Lemma nthB i : nth i B (0%N, nth 0 PB 0%N) = (pmaj B0 i, page_at PB B0 i).
  Proof. unfold B, absE, pmaj, page_at, pidx. apply (map_nth (fun e : pinfo => (fst e, nth (snd e) PB 0%N)) B0 (0%N, 0)). Qed.
  Lemma rev_viewB s : 0 < s_ib s -> s_ib s <= length B0 ->
    rev (viewB s) = (pmaj B0 (pred (s_ib s)), page_at PB B0 (pred (s_ib s))) :: rev (firstn (pred (s_ib s)) B).
  Proof.
    intros H1 H2. unfold viewB. replace (s_ib s) with (S (pred (s_ib s))) at 1 by lia.
    rewrite (rev_firstn_S B (0%N, nth 0 PB 0%N)) by (rewrite lenB; lia). rewrite nthB. reflexivity.
  Qed.
  Lemma rev_viewA s : 0 < s_ia s -> s_ia s <= length (s_pm s) ->
    rev (viewA s) = (pmaj (s_pm s) (pred (s_ia s)), page_at (s_pages s) (s_pm s) (pred (s_ia s)))
                    :: rev (absE (s_pages s) (firstn (pred (s_ia s)) (s_pm s))).
  Proof.
    intros H1 H2. unfold viewA. replace (s_ia s) with (S (pred (s_ia s))) at 1 by lia.
    rewrite (firstn_last (s_pm s) (0%N, 0)) by lia. rewrite absE_app, rev_app_distr. reflexivity.
  Qed.

  (* keys of a descending list below its head; dropping the head of rb keeps the sub-key relation *)
  Lemma subk_drop_b ra kb pb rb' : subk ra ((kb, pb) :: rb') -> (forall e, In e ra -> (fst e < kb)%N) -> subk ra rb'.
  Proof.
    intros Hs Hlt e He. specialize (Hs e He). cbn [map In fst] in Hs. destruct Hs as [Hs|Hs]; [|exact Hs].
    specialize (Hlt e He). lia.
  Qed.

  (* copy the last unprocessed left entry to the output slot, giving its page the value v *)
  Lemma emit_left s v ib' : WF s -> 0 < s_ia s ->
    let e := nth (pred (s_ia s)) (s_pm s) (0%N, 0) in
    let s' := mkSt (set_nth (snd e) v (s_pages s)) (set_nth (pred (s_count s)) e (s_pm s)) (pred (s_ia s)) ib' (pred (s_count s)) (s_next s) in
    viewA s' = absE (s_pages s) (firstn (pred (s_ia s)) (s_pm s)) /\
    viewO s' = (fst e, v) :: viewO s /\
    used s' = used s /\ length (s_pm s') = n /\ length (s_pages s') = n /\
    pidx (s_pm s') (pred (s_count s)) = snd e /\ pidx (s_pm s') (pred (s_ia s)) = snd e.
  Proof.
    intros (L1 & L2 & I1 & I2 & I3 & ND & FN & NX & CT & SK & KS) Hia e s'.
    assert (Ec : S (pred (s_count s)) = s_count s) by lia.
    assert (Ea : firstn (s_ia s) (s_pm s) = firstn (pred (s_ia s)) (s_pm s) ++ [e]).
    { replace (s_ia s) with (S (pred (s_ia s))) at 1 by lia. apply firstn_last. lia. }
    assert (Hj : snd e < n).
    { rewrite Forall_forall in FN. assert (snd e < s_next s); [|lia]. apply FN. unfold used. rewrite Ea, map_app. cbn [map].
      apply in_app_iff. left. apply in_app_iff. right. left. reflexivity. }
    unfold used in ND. rewrite Ea, map_app in ND. cbn [map] in ND. rewrite <- app_assoc in ND. cbn [app] in ND.
    assert (N1 : ~ In (snd e) (map snd (firstn (pred (s_ia s)) (s_pm s)))).
    { intros H. apply NoDup_remove_2 in ND. apply ND. apply in_app_iff. left. exact H. }
    assert (N2 : ~ In (snd e) (map snd (skipn (s_count s) (s_pm s)))).
    { intros H. apply NoDup_remove_2 in ND. apply ND. apply in_app_iff. right. exact H. }
    subst s'. unfold viewA, viewO, used. cbn [s_pages s_pm s_ia s_count s_next].
    rewrite firstn_set_nth_ge by lia. rewrite skipn_set_nth_at by lia. rewrite Ec.
    repeat split.
    - apply absE_set_pages, N1.
    - cbn [absE map]. rewrite nth_set_nth_eq by lia. fold (absE (set_nth (snd e) v (s_pages s)) (skipn (s_count s) (s_pm s))).
      rewrite absE_set_pages by exact N2. reflexivity.
    - rewrite Ea, map_app. cbn [map]. rewrite <- app_assoc. reflexivity.
    - rewrite set_nth_length. exact L1.
    - rewrite set_nth_length. exact L2.
    - unfold pidx. rewrite nth_set_nth_eq by lia. reflexivity.
    - unfold pidx. destruct (Nat.eq_dec (pred (s_count s)) (pred (s_ia s))) as [E|E].
      + rewrite E. rewrite nth_set_nth_eq by lia. reflexivity.
      + rewrite nth_set_nth_ne by exact E. reflexivity.
  Qed.

  (* append a clone of the right page idx_b as a new page (fresh index next_page) in the output slot *)
  Lemma emit_right s ib : WF s -> s_ia s < s_count s ->
    let s' := put_right PB B0 s ib in
    viewA s' = viewA s /\
    viewO s' = (pmaj B0 ib, page_at PB B0 ib) :: viewO s /\
    s_ia s' = s_ia s /\ s_ib s' = ib /\ s_count s' = pred (s_count s) /\ s_next s' = S (s_next s) /\
    length (s_pm s') = n /\ length (s_pages s') = n /\
    NoDup (used s') /\ Forall (fun j => j < s_next s') (used s').
  Proof.
    intros (L1 & L2 & I1 & I2 & I3 & ND & FN & NX & CT & SK & KS) Hc s'.
    assert (Ec : S (pred (s_count s)) = s_count s) by lia.
    assert (Hnx : s_next s < n) by lia.
    assert (Nu : ~ In (s_next s) (used s)).
    { intros H. rewrite Forall_forall in FN. specialize (FN _ H). lia. }
    unfold used in Nu. rewrite in_app_iff in Nu.
    subst s'. unfold put_right, viewA, viewO, used. cbn [s_pages s_pm s_ia s_ib s_count s_next].
    rewrite firstn_set_nth_ge by lia. rewrite skipn_set_nth_at by lia. rewrite Ec.
    split; [apply absE_set_pages; tauto|].
    split.
    { cbn [absE map fst snd]. rewrite nth_set_nth_eq by lia.
      fold (absE (set_nth (s_next s) (page_at PB B0 ib) (s_pages s)) (skipn (s_count s) (s_pm s))).
      rewrite absE_set_pages by tauto. reflexivity. }
    repeat (split; [reflexivity|]).
    split; [rewrite set_nth_length; exact L1|]. split; [rewrite set_nth_length; exact L2|].
    cbn [map snd]. split.
    - eapply Permutation_NoDup; [apply Permutation_middle|]. constructor; [|exact ND].
      intros H. apply in_app_iff in H. tauto.
    - apply Forall_forall. intros j Hj. apply in_app_iff in Hj. rewrite Forall_forall in FN.
      destruct Hj as [Hj|[<-|Hj]]; [|lia|]; (assert (j < s_next s); [apply FN; unfold used; apply in_app_iff; tauto|lia]).
  Qed.

  (* one iteration of the step-3 loop preserves the invariant and the value G *)
  Definition cond3 (s : st34) : bool := (0 <? s_ia s) && (0 <? s_ib s).

  Lemma step3_unfold fuel s : step3 (S fuel) pl pr f PB B0 s =
    if cond3 s then
      let ia := pred (s_ia s) in
      let ib := pred (s_ib s) in
      match (pmaj (s_pm s) ia ?= pmaj B0 ib)%N with
      | Eq =>
          let count := pred (s_count s) in
          let pm' := set_nth count (nth ia (s_pm s) (0%N, O)) (s_pm s) in
          let pages' := set_nth (pidx pm' count) (f (page_at (s_pages s) pm' ia) (page_at PB B0 ib)) (s_pages s) in
          step3 fuel pl pr f PB B0 (mkSt pages' pm' ia ib count (s_next s))
      | Gt =>
          if pl then
            let count := pred (s_count s) in
            step3 fuel pl pr f PB B0 (mkSt (s_pages s) (set_nth count (nth ia (s_pm s) (0%N, O)) (s_pm s)) ia (s_ib s) count (s_next s))
          else step3 fuel pl pr f PB B0 (mkSt (s_pages s) (s_pm s) ia (s_ib s) (s_count s) (s_next s))
      | Lt =>
          if pr then step3 fuel pl pr f PB B0 (put_right PB B0 s ib)
          else step3 fuel pl pr f PB B0 (mkSt (s_pages s) (s_pm s) (s_ia s) ib (s_count s) (s_next s))
      end
    else s.
  Proof. reflexivity. Qed.

  Lemma kdesc_head_gt k p t e : kdesc ((k, p) :: t) -> In e t -> (fst e < k)%N.
  Proof. intros H He. inversion H; subst. rewrite Forall_forall in H3. apply (H3 e He). Qed.

  Lemma subk_eq k pa pb ra' rb' : kdesc ((k, pa) :: ra') -> subk ((k, pa) :: ra') ((k, pb) :: rb') -> subk ra' rb'.
  Proof.
    intros D Hs e He. specialize (Hs e (or_intror He)). cbn [map In fst] in Hs. destruct Hs as [Hs|Hs]; [|exact Hs].
    pose proof (kdesc_head_gt _ _ _ _ D He). lia.
  Qed.
  Lemma subk_gt_false ka pa ra' kb pb rb' : kdesc ((kb, pb) :: rb') -> (kb < ka)%N ->
    subk ((ka, pa) :: ra') ((kb, pb) :: rb') -> False.
  Proof.
    intros D L Hs. specialize (Hs (ka, pa) (or_introl eq_refl)). cbn [map In fst] in Hs. destruct Hs as [Hs|Hs]; [lia|].
    apply in_map_iff in Hs as [e [E1 E2]]. pose proof (kdesc_head_gt _ _ _ _ D E2). lia.
  Qed.

  (* facts available at the top of a loop iteration *)
  Lemma iter_facts s : WF s -> 0 < s_ia s ->
    let e := nth (pred (s_ia s)) (s_pm s) (0%N, 0) in
    let pa := nth (snd e) (s_pages s) 0%N in
    let A' := absE (s_pages s) (firstn (pred (s_ia s)) (s_pm s)) in
    rev (viewA s) = (fst e, pa) :: rev A' /\ viewA s = A' ++ [(fst e, pa)] /\ ksorted A' /\ kdesc (rev (viewA s)) /\
    pmaj (s_pm s) (pred (s_ia s)) = fst e /\ page_at (s_pages s) (s_pm s) (pred (s_ia s)) = pa.
  Proof.
    intros (L1 & L2 & I1 & I2 & I3 & ND & FN & NX & CT & SK & KS) Hia e pa A'.
    assert (E : viewA s = A' ++ [(fst e, pa)]).
    { unfold viewA. replace (s_ia s) with (S (pred (s_ia s))) at 1 by lia. rewrite (firstn_last (s_pm s) (0%N, 0)) by lia.
      rewrite absE_app. reflexivity. }
    split; [rewrite E, rev_app_distr; reflexivity|]. split; [exact E|].
    split; [rewrite E in KS; apply ksorted_snoc in KS; tauto|]. split; [apply kdesc_rev, KS|]. split; reflexivity.
  Qed.
  Lemma iterB_facts s : WF s -> 0 < s_ib s ->
    let kb := pmaj B0 (pred (s_ib s)) in
    let pb := page_at PB B0 (pred (s_ib s)) in
    rev (viewB s) = (kb, pb) :: rev (firstn (pred (s_ib s)) B) /\ kdesc (rev (viewB s)).
  Proof.
    intros (L1 & L2 & I1 & I2 & I3 & _) Hib kb pb. split; [apply rev_viewB; lia|].
    apply kdesc_rev. unfold viewB. apply ksorted_firstn, SB.
  Qed.

  Lemma step3_inv fuel : forall s, WF s ->
    let r := step3 fuel pl pr f PB B0 s in
    WF r /\ G r = G s /\ (s_ia s + s_ib s <= fuel -> s_ia r = 0 \/ s_ib r = 0) /\ s_ia r <= s_ia s /\ s_ib r <= s_ib s.
  Proof.
    induction fuel as [|fuel IH]; intros s W; cbn zeta.
    - cbn [step3]. split; [exact W|]. split; [reflexivity|]. split; [lia|]. split; lia.
    - rewrite step3_unfold. unfold cond3. destruct (Nat.ltb_spec 0 (s_ia s)) as [Hia|Hia]; cbn [andb];
        [destruct (Nat.ltb_spec 0 (s_ib s)) as [Hib|Hib]|]; cbn [andb];
        try (split; [exact W|]; split; [reflexivity|]; split; [lia|]; split; lia).
      cbn zeta.
      destruct (iter_facts s W Hia) as (RA & VA & KA' & DA & PM & PG).
      destruct (iterB_facts s W Hib) as (RB & DB).
      set (e := nth (pred (s_ia s)) (s_pm s) (0%N, 0)) in *.
      set (pa := nth (snd e) (s_pages s) 0%N) in *.
      set (A' := absE (s_pages s) (firstn (pred (s_ia s)) (s_pm s))) in *.
      set (kb := pmaj B0 (pred (s_ib s))) in *. set (pb := page_at PB B0 (pred (s_ib s))) in *.
      pose proof W as (L1 & L2 & I1 & I2 & I3 & ND & FN & NX & CT & SK & KS).
      rewrite PM.
      destruct (N.compare_spec (fst e) kb) as [E|E|E].
      + (* Equal *)
        destruct (emit_left s (f pa pb) (pred (s_ib s)) W Hia) as (V1 & V2 & V3 & V4 & V5 & V6 & V7).
        cbn [s_pm s_pages] in V4, V5, V6, V7. fold e in V1, V2, V3, V4, V5, V6, V7.
        set (pm' := set_nth (pred (s_count s)) e (s_pm s)) in *.
        assert (Epg : page_at (s_pages s) pm' (pred (s_ia s)) = pa) by (unfold page_at; rewrite V7; reflexivity).
        rewrite V6, Epg.
        set (s1 := mkSt (set_nth (snd e) (f pa pb) (s_pages s)) pm' (pred (s_ia s)) (pred (s_ib s)) (pred (s_count s)) (s_next s)) in *.
        assert (W1 : WF s1).
        { unfold WF. rewrite V1, V3. cbn [s_pm s_pages s_ia s_ib s_count s_next s1].
          split; [exact V4|]. split; [exact V5|]. split; [lia|]. split; [lia|]. split; [lia|]. split; [exact ND|].
          split; [exact FN|]. split; [lia|].
          assert (VB1 : viewB s1 = firstn (pred (s_ib s)) B) by reflexivity. rewrite VB1.
          split.
          { assert (C2 : s_count s = length (bmerge pl pr f (rev A') (rev (firstn (pred (s_ib s)) B)) []) + 1).
            { rewrite CT, RA, RB, bmerge_eq. subst kb. rewrite <- E, N.compare_refl, bmerge_out, app_length. reflexivity. }
            fold A'. lia. }
          split; [|exact KA'].
          destruct SK as [SK|SK]; [left; exact SK|right]. rewrite RA, RB in SK. rewrite <- E in SK.
          apply (subk_eq (fst e) pa pb (rev A') (rev (firstn (pred (s_ib s)) B))); [rewrite <- RA; exact DA|exact SK]. }
        assert (G1 : G s1 = G s).
        { unfold G. rewrite V1, V2, RA, RB. change (viewB s1) with (firstn (pred (s_ib s)) B).
          rewrite (bmerge_eq pl pr f ((fst e, pa) :: rev A')). rewrite <- E, N.compare_refl. reflexivity. }
        destruct (IH s1 W1) as (R1 & R2 & R3 & R4 & R5). cbn [s_ia s_ib s1] in R3, R4, R5.
        split; [exact R1|]. split; [rewrite R2; exact G1|]. split; [intros; apply R3; lia|]. split; lia.
      + (* Less: a right-only page *)
        assert (Hlt : forall x, In x (rev (viewA s)) -> (fst x < kb)%N).
        { intros x Hx. rewrite RA in Hx. destruct Hx as [<-|Hx]; [exact E|].
          rewrite RA in DA. pose proof (kdesc_head_gt _ _ _ _ DA Hx). cbn [fst] in *. lia. }
        assert (SK' : pl = true \/ subk (rev (viewA s)) (rev (firstn (pred (s_ib s)) B))).
        { destruct SK as [SK|SK]; [left; exact SK|right]. rewrite RB in SK. apply (subk_drop_b _ kb pb); assumption. }
        assert (DB' : kdesc (rev (firstn (pred (s_ib s)) B))) by (apply kdesc_rev, ksorted_firstn, SB).
        destruct pr eqn:Epr.
        * assert (Hc : s_ia s < s_count s).
          { rewrite CT, RB, RA, bmerge_eq. destruct (N.compare_spec (fst e) kb); try lia. rewrite <- RA.
            rewrite bmerge_out, app_length. cbn [length]. try rewrite Epr.
            pose proof (bmerge_len_ge pl true f _ _ SK' DA DB'). rewrite rev_length in H0. unfold viewA in H0 at 1.
            unfold absE in H0. rewrite map_length, firstn_length in H0. lia. }
          destruct (emit_right s (pred (s_ib s)) W Hc) as (V1 & V2 & V3 & V4 & V5 & V6 & V7 & V8 & V9 & V10).
          set (s1 := put_right PB B0 s (pred (s_ib s))) in *.
          assert (W1 : WF s1).
          { unfold WF. rewrite V1, V3, V4, V5, V6. split; [exact V7|]. split; [exact V8|]. split; [lia|]. split; [lia|]. split; [lia|].
            split; [exact V9|]. split; [rewrite <- V6; exact V10|]. split; [lia|].
            assert (VB1 : viewB s1 = firstn (pred (s_ib s)) B) by (unfold viewB; rewrite V4; reflexivity). rewrite VB1.
            split.
            { assert (C2 : s_count s = length (bmerge pl true f (rev (viewA s)) (rev (firstn (pred (s_ib s)) B)) []) + 1).
              { rewrite CT, RB, RA, bmerge_eq. destruct (N.compare_spec (fst e) kb); try lia.
                rewrite ?Epr. rewrite bmerge_out, app_length. reflexivity. }
              rewrite ?Epr. lia. }
            split; [exact SK'|exact KS]. }
          assert (G1 : G s1 = G s).
          { unfold G. rewrite V1, V2. unfold viewB at 1. rewrite V4. rewrite RB, RA.
            rewrite (bmerge_eq pl pr f ((fst e, pa) :: rev A') ((kb, pb) :: _)). destruct (N.compare_spec (fst e) kb); try lia.
            try rewrite Epr. reflexivity. }
          destruct (IH s1 W1) as (R1 & R2 & R3 & R4 & R5). rewrite V3 in R3, R4. rewrite V4 in R3, R5.
          split; [exact R1|]. split; [rewrite R2; exact G1|]. split; [intros; apply R3; lia|]. split; lia.
        * set (s1 := mkSt (s_pages s) (s_pm s) (s_ia s) (pred (s_ib s)) (s_count s) (s_next s)) in *.
          assert (W1 : WF s1).
          { unfold WF. cbn [s_pm s_pages s_ia s_ib s_count s_next s1]. change (viewA s1) with (viewA s). change (used s1) with (used s).
            change (viewB s1) with (firstn (pred (s_ib s)) B).
            split; [exact L1|]. split; [exact L2|]. split; [lia|]. split; [lia|]. split; [lia|]. split; [exact ND|].
            split; [exact FN|]. split; [lia|]. split.
            { rewrite CT, RB, RA, bmerge_eq. destruct (N.compare_spec (fst e) kb); try lia. rewrite <- RA; try rewrite Epr. reflexivity. }
            split; [exact SK'|exact KS]. }
          assert (G1 : G s1 = G s).
          { unfold G. change (viewA s1) with (viewA s). change (viewO s1) with (viewO s). change (viewB s1) with (firstn (pred (s_ib s)) B).
            rewrite RB, RA. rewrite (bmerge_eq pl pr f ((fst e, pa) :: rev A') ((kb, pb) :: _)).
            destruct (N.compare_spec (fst e) kb); try lia. try rewrite Epr. reflexivity. }
          destruct (IH s1 W1) as (R1 & R2 & R3 & R4 & R5). cbn [s_ia s_ib s1] in R3, R4, R5.
          split; [exact R1|]. split; [rewrite R2; exact G1|]. split; [intros; apply R3; lia|]. split; lia.
      + (* Greater: a left-only page *)
        destruct pl eqn:Epl.
        * destruct (emit_left s pa (s_ib s) W Hia) as (V1 & V2 & V3 & V4 & V5 & V6 & V7).
          cbn [s_pm s_pages] in V4, V5, V6, V7. fold e in V1, V2, V3, V4, V5, V6, V7.
          assert (Esame : set_nth (snd e) pa (s_pages s) = s_pages s) by (apply set_nth_same). rewrite Esame in V1, V2, V3, V5.
          set (s1 := mkSt (s_pages s) (set_nth (pred (s_count s)) e (s_pm s)) (pred (s_ia s)) (s_ib s) (pred (s_count s)) (s_next s)) in *.
          assert (W1 : WF s1).
          { unfold WF. rewrite V1, V3. cbn [s_pm s_pages s_ia s_ib s_count s_next s1].
            split; [exact V4|]. split; [exact L2|]. split; [lia|]. split; [lia|]. split; [lia|]. split; [exact ND|].
            split; [exact FN|]. split; [lia|]. change (viewB s1) with (viewB s).
            split.
            { assert (C2 : s_count s = length (bmerge true pr f (rev A') (rev (viewB s)) []) + 1).
              { rewrite CT, RA, RB, bmerge_eq. destruct (N.compare_spec (fst e) kb); try lia.
                rewrite ?Epl. rewrite bmerge_out, app_length. reflexivity. }
              fold A'. rewrite ?Epl. lia. }
            split; [left; exact Epl|exact KA']. }
          assert (G1 : G s1 = G s).
          { unfold G. rewrite V1, V2. change (viewB s1) with (viewB s). rewrite RA, RB.
            rewrite ?Epl. rewrite (bmerge_eq true pr f ((fst e, pa) :: rev A')). destruct (N.compare_spec (fst e) kb); try lia. reflexivity. }
          destruct (IH s1 W1) as (R1 & R2 & R3 & R4 & R5). cbn [s_ia s_ib s1] in R3, R4, R5.
          split; [exact R1|]. split; [rewrite R2; exact G1|]. split; [intros; apply R3; lia|]. split; lia.
        * exfalso. destruct SK as [SK|SK]; [discriminate|]. rewrite RA, RB in SK. rewrite RB in DB.
          apply (subk_gt_false _ _ _ _ _ _ DB E SK).
  Qed.

  (* Step 4, left drain (passthrough_left, right side exhausted) *)
  Lemma drain_left_inv k : forall s, pl = true -> WF s -> s_ib s = 0 ->
    let r := drain_left k s in
    WF r /\ G r = G s /\ (s_ia s <= k -> s_ia r = 0) /\ s_ib r = 0.
  Proof.
    induction k as [|k IH]; intros s Epl W Hib; cbn zeta; cbn [drain_left].
    - split; [exact W|]. split; [reflexivity|]. split; [lia|exact Hib].
    - destruct (Nat.ltb_spec 0 (s_ia s)) as [Hia|Hia]; [|split; [exact W|]; split; [reflexivity|]; split; [lia|exact Hib]].
      destruct (iter_facts s W Hia) as (RA & VA & KA' & DA & PM & PG).
      set (e := nth (pred (s_ia s)) (s_pm s) (0%N, 0)) in *.
      set (pa := nth (snd e) (s_pages s) 0%N) in *.
      set (A' := absE (s_pages s) (firstn (pred (s_ia s)) (s_pm s))) in *.
      pose proof W as (L1 & L2 & I1 & I2 & I3 & ND & FN & NX & CT & SK & KS).
      assert (RB : rev (viewB s) = []) by (unfold viewB; rewrite Hib; reflexivity).
      destruct (emit_left s pa (s_ib s) W Hia) as (V1 & V2 & V3 & V4 & V5 & V6 & V7).
      cbn [s_pm s_pages] in V4, V5, V6, V7. fold e in V1, V2, V3, V4, V5, V6, V7.
      assert (Esame : set_nth (snd e) pa (s_pages s) = s_pages s) by (apply set_nth_same). rewrite Esame in V1, V2, V3, V5.
      set (s1 := mkSt (s_pages s) (set_nth (pred (s_count s)) e (s_pm s)) (pred (s_ia s)) (s_ib s) (pred (s_count s)) (s_next s)) in *.
      assert (W1 : WF s1).
      { unfold WF. rewrite V1, V3. cbn [s_pm s_pages s_ia s_ib s_count s_next s1].
        split; [exact V4|]. split; [exact L2|]. split; [lia|]. split; [lia|]. split; [lia|]. split; [exact ND|].
        split; [exact FN|]. split; [lia|]. change (viewB s1) with (viewB s).
        split.
        { assert (C2 : s_count s = length (bmerge pl pr f (rev A') (rev (viewB s)) []) + 1).
          { rewrite CT, RA, RB, bmerge_eq. rewrite Epl. rewrite bmerge_out, app_length. reflexivity. }
          fold A'. lia. }
        split; [left; exact Epl|exact KA']. }
      assert (G1 : G s1 = G s).
      { unfold G. rewrite V1, V2. change (viewB s1) with (viewB s). rewrite RA, RB.
        rewrite (bmerge_eq pl pr f ((fst e, pa) :: rev A')). rewrite Epl. reflexivity. }
      destruct (IH s1 Epl W1 Hib) as (R1 & R2 & R3 & R4). cbn [s_ia s1] in R3.
      split; [exact R1|]. split; [rewrite R2; exact G1|]. split; [intros; apply R3; lia|exact R4].
  Qed.

  (* Step 4, right drain (passthrough_right, left side exhausted) *)
  Lemma drain_right_inv k : forall s, pr = true -> WF s -> s_ia s = 0 ->
    let r := drain_right k PB B0 s in
    WF r /\ G r = G s /\ (s_ib s <= k -> s_ib r = 0) /\ s_ia r = 0.
  Proof.
    induction k as [|k IH]; intros s Epr W Hia; cbn zeta; cbn [drain_right].
    - split; [exact W|]. split; [reflexivity|]. split; [lia|exact Hia].
    - destruct (Nat.ltb_spec 0 (s_ib s)) as [Hib|Hib]; [|split; [exact W|]; split; [reflexivity|]; split; [lia|exact Hia]].
      destruct (iterB_facts s W Hib) as (RB & DB).
      set (kb := pmaj B0 (pred (s_ib s))) in *. set (pb := page_at PB B0 (pred (s_ib s))) in *.
      pose proof W as (L1 & L2 & I1 & I2 & I3 & ND & FN & NX & CT & SK & KS).
      assert (RA : rev (viewA s) = []) by (unfold viewA; rewrite Hia; reflexivity).
      assert (C2 : s_count s = length (bmerge pl pr f [] (rev (firstn (pred (s_ib s)) B)) []) + 1).
      { rewrite CT, RA, RB, bmerge_eq. rewrite Epr. rewrite bmerge_out, app_length. reflexivity. }
      assert (Hc : s_ia s < s_count s) by lia.
      destruct (emit_right s (pred (s_ib s)) W Hc) as (V1 & V2 & V3 & V4 & V5 & V6 & V7 & V8 & V9 & V10).
      set (s1 := put_right PB B0 s (pred (s_ib s))) in *.
      assert (W1 : WF s1).
      { unfold WF. rewrite V1, V3, V4, V5, V6. split; [exact V7|]. split; [exact V8|]. split; [lia|]. split; [lia|]. split; [lia|].
        split; [exact V9|]. split; [rewrite <- V6; exact V10|]. split; [lia|].
        assert (VB1 : viewB s1 = firstn (pred (s_ib s)) B) by (unfold viewB; rewrite V4; reflexivity). rewrite VB1, RA.
        split; [lia|]. split; [|exact KS]. right. intros x []. }
      assert (G1 : G s1 = G s).
      { unfold G. rewrite V1, V2. unfold viewB at 1. rewrite V4. rewrite RB, RA.
        rewrite (bmerge_eq pl pr f [] ((kb, pb) :: _)). rewrite Epr. reflexivity. }
      assert (Hia1 : s_ia s1 = 0) by lia.
      destruct (IH s1 Epr W1 Hia1) as (R1 & R2 & R3 & R4). rewrite V4 in R3.
      split; [exact R1|]. split; [rewrite R2; exact G1|]. split; [intros; apply R3; lia|exact R4].
  Qed.

  (* steps 3 + 4 from a state prepared by steps 1 + 2 *)
  Definition run34 (s : st34) : st34 :=
    let s := step3 (s_ia s + s_ib s) pl pr f PB B0 s in
    let s := if pl then drain_left (s_ia s) s else s in
    if pr then drain_right (s_ib s) PB B0 s else s.

  Lemma run34_spec s : WF s -> s_count s = n -> s_ib s = length B0 ->
    absE (s_pages (run34 s)) (s_pm (run34 s)) = merge pl pr f (viewA s) B /\
    length (s_pm (run34 s)) = n /\ length (s_pages (run34 s)) = n.
  Proof.
    intros W Hc Hb. unfold run34.
    destruct (step3_inv (s_ia s + s_ib s) s W) as (W1 & G1 & Z1 & _ & _). specialize (Z1 (le_n _)).
    set (s1 := step3 (s_ia s + s_ib s) pl pr f PB B0 s) in *.
    assert (Gs : G s = merge pl pr f (viewA s) B).
    { unfold G. assert (viewO s = []) as ->.
      { unfold viewO. rewrite Hc. destruct W as (L1 & _). rewrite <- L1, skipn_all. reflexivity. }
      assert (viewB s = B) as ->.
      { unfold viewB. rewrite Hb, <- lenB. apply firstn_all. }
      rewrite bmerge_merge; [apply app_nil_r|apply W|exact SB]. }
    (* after the drains the remaining work is empty *)
    assert (Fin : forall r, WF r -> G r = G s ->
              (s_ia r = 0 \/ pl = false) -> (s_ib r = 0 \/ pr = false) -> (s_ia r = 0 \/ s_ib r = 0) ->
              absE (s_pages r) (s_pm r) = merge pl pr f (viewA s) B /\ length (s_pm r) = n /\ length (s_pages r) = n).
    { intros r Wr Gr Ha Hbr Hab. pose proof Wr as (L1 & L2 & I1 & I2 & I3 & ND & FN & NX & CT & SK & KS).
      assert (E0 : bmerge pl pr f (rev (viewA r)) (rev (viewB r)) (viewO r) = viewO r /\ s_count r = 0).
      { destruct Hab as [Z|Z].
        - assert (rev (viewA r) = []) as RA by (unfold viewA; rewrite Z; reflexivity). rewrite CT, RA.
          destruct Hbr as [Zb|Zb].
          + assert (rev (viewB r) = []) as -> by (unfold viewB; rewrite Zb; reflexivity). split; reflexivity.
          + rewrite Zb. rewrite !bmerge_nil_l_nopr. split; reflexivity.
        - assert (rev (viewB r) = []) as RB by (unfold viewB; rewrite Z; reflexivity). rewrite CT, RB.
          destruct Ha as [Za|Za].
          + assert (rev (viewA r) = []) as -> by (unfold viewA; rewrite Za; reflexivity). split; reflexivity.
          + rewrite Za. rewrite !bmerge_nil_r_nopl. split; reflexivity. }
      destruct E0 as [E0 C0].
      assert (Er : G r = absE (s_pages r) (s_pm r)) by (unfold G; rewrite E0; unfold viewO; rewrite C0; reflexivity).
      rewrite <- Er, Gr, Gs. tauto. }
    destruct pl eqn:Epl, pr eqn:Epr.
    - destruct Z1 as [Z|Z].
      + (* left exhausted: only the right drain works *)
        assert (D1 : drain_left (s_ia s1) s1 = s1) by (rewrite Z; reflexivity). rewrite D1.
        destruct (drain_right_inv (s_ib s1) s1 Epr W1 Z) as (W2 & G2 & Z2 & Z3). specialize (Z2 (le_n _)).
        apply Fin; [exact W2|rewrite G2; exact G1|left; exact Z3|left; exact Z2|left; exact Z3].
      + destruct (drain_left_inv (s_ia s1) s1 Epl W1 Z) as (W2 & G2 & Z2 & Z3). specialize (Z2 (le_n _)).
        set (s2 := drain_left (s_ia s1) s1) in *.
        assert (D2 : drain_right (s_ib s2) PB B0 s2 = s2) by (rewrite Z3; reflexivity). rewrite D2.
        apply Fin; [exact W2|rewrite G2; exact G1|left; exact Z2|left; exact Z3|left; exact Z2].
    - destruct Z1 as [Z|Z].
      + assert (D1 : drain_left (s_ia s1) s1 = s1) by (rewrite Z; reflexivity). rewrite D1.
        apply Fin; [exact W1|exact G1|left; exact Z|right; reflexivity|left; exact Z].
      + destruct (drain_left_inv (s_ia s1) s1 Epl W1 Z) as (W2 & G2 & Z2 & Z3). specialize (Z2 (le_n _)).
        apply Fin; [exact W2|rewrite G2; exact G1|left; exact Z2|right; reflexivity|left; exact Z2].
    - destruct Z1 as [Z|Z].
      + destruct (drain_right_inv (s_ib s1) s1 Epr W1 Z) as (W2 & G2 & Z2 & Z3). specialize (Z2 (le_n _)).
        apply Fin; [exact W2|rewrite G2; exact G1|right; reflexivity|left; exact Z2|left; exact Z3].
      + assert (D2 : drain_right (s_ib s1) PB B0 s1 = s1) by (rewrite Z; reflexivity). rewrite D2.
        apply Fin; [exact W1|exact G1|right; reflexivity|left; exact Z|right; exact Z].
    - apply Fin; [exact W1|exact G1|right; reflexivity|right; reflexivity|exact Z1].
  Qed.
End Step34.

(* ------------------------------------------------------------------------------------------ *)
(* Part C: step 1 (size estimate) and the end-to-end refinement for passthrough_left operators *)
(* ------------------------------------------------------------------------------------------ *)
Lemma skipn_nth_cons {A} (l : list A) d : forall i, i < length l -> skipn i l = nth i l d :: skipn (S i) l.
Proof. induction l as [|x t IH]; intros [|i] H; cbn [length skipn nth] in *; try lia; [reflexivity|]. apply IH. lia. Qed.
Lemma resize_length {A} n (d : A) l : length (resize n d l) = n.
Proof. unfold resize. rewrite app_length, firstn_length, repeat_length. lia. Qed.
Lemma resize_id {A} (d : A) l : resize (length l) d l = l.
Proof. unfold resize. rewrite firstn_all, Nat.sub_diag. apply app_nil_r. Qed.
Lemma resize_grow {A} n (d : A) l : length l <= n -> resize n d l = l ++ repeat d (n - length l).
Proof. intros H. unfold resize. rewrite firstn_all2 by exact H. reflexivity. Qed.

(* representation invariant of an L0 bit set *)
Definition Inv0 (x : bitset0) : Prop :=
  length (pm0 x) = length (pages0 x) /\ NoDup (map snd (pm0 x)) /\
  Forall (fun j => j < length (pages0 x)) (map snd (pm0 x)) /\ ksorted (abs0 x).

Lemma absE_pages_app pages extra pm : Forall (fun j => j < length pages) (map snd pm) ->
  absE (pages ++ extra) pm = absE pages pm.
Proof.
  intros H. unfold absE. apply map_ext_in. intros e He. f_equal. apply app_nth1.
  rewrite Forall_forall in H. apply H. apply in_map. exact He.
Qed.

Section Step1.
  Variables (pr : bool) (f : N -> N -> N) (PA : list N) (A0 : list pinfo) (PB : list N) (B0 : list pinfo).
  Let A := absE PA A0.
  Let B := absE PB B0.
  Let na := length A0.
  Let nb := length B0.

  Lemma nthA i : nth i A (0%N, nth 0 PA 0%N) = (pmaj A0 i, page_at PA A0 i).
  Proof. unfold A, absE, pmaj, page_at, pidx. apply (map_nth (fun e : pinfo => (fst e, nth (snd e) PA 0%N)) A0 (0%N, 0)). Qed.
  Lemma nthB' i : nth i B (0%N, nth 0 PB 0%N) = (pmaj B0 i, page_at PB B0 i).
  Proof. unfold B, absE, pmaj, page_at, pidx. apply (map_nth (fun e : pinfo => (fst e, nth (snd e) PB 0%N)) B0 (0%N, 0)). Qed.

  (* with passthrough_left the page map is untouched and the estimate is the exact size of the merge *)
  Lemma step1_pl fuel : forall ia ib c w, (na - ia) + (nb - ib) <= fuel -> ia <= na -> ib <= nb ->
    let r := step1 fuel true pr B0 na nb A0 ia ib c w in
    fst (fst (fst (fst r))) = A0 /\
    snd (fst r) + (na - snd (fst (fst (fst r)))) + (if pr then nb - snd (fst (fst r)) else 0)
      = c + length (merge true pr f (skipn ia A) (skipn ib B)).
  Proof.
    assert (LA : length A = na) by (unfold A, absE, na; apply map_length).
    assert (LB : length B = nb) by (unfold B, absE, nb; apply map_length).
    assert (SA0 : skipn na A = []) by (rewrite <- LA; apply skipn_all).
    assert (SB0 : skipn nb B = []) by (rewrite <- LB; apply skipn_all).
    induction fuel as [|fuel IH]; intros ia ib c w Hf Ha Hb; cbn zeta.
    - cbn [step1 fst snd]. split; [reflexivity|]. assert (ia = na) by lia. assert (ib = nb) by lia. subst ia ib.
      rewrite SA0, SB0, merge_nil_l. destruct pr; cbn [length]; lia.
    - cbn [step1]. destruct (Nat.ltb_spec ia na) as [Ca|Ca]; cbn [andb]; [destruct (Nat.ltb_spec ib nb) as [Cb|Cb]|]; cbn [andb].
      + rewrite (skipn_nth_cons A (0%N, nth 0 PA 0%N) ia) by lia. rewrite (skipn_nth_cons B (0%N, nth 0 PB 0%N) ib) by lia.
        rewrite nthA, nthB'. rewrite merge_eq.
        destruct (pmaj A0 ia ?= pmaj B0 ib)%N.
        * destruct (IH (S ia) (S ib) (S c) w) as [E1 E2]; try lia. split; [exact E1|]. rewrite E2. cbn [length]. lia.
        * destruct (IH (S ia) ib (S c) w) as [E1 E2]; try lia. split; [exact E1|]. rewrite E2.
          rewrite (skipn_nth_cons B (0%N, nth 0 PB 0%N) ib) by lia. rewrite nthB'. cbn [length]. lia.
        * destruct (IH ia (S ib) (if pr then S c else c) w) as [E1 E2]; try lia. split; [exact E1|]. rewrite E2.
          rewrite (skipn_nth_cons A (0%N, nth 0 PA 0%N) ia) by lia. rewrite nthA. destruct pr; cbn [length]; lia.
      + cbn [fst snd]. split; [reflexivity|]. assert (ib = nb) by lia. subst ib.
        rewrite SB0, merge_nil_r. rewrite skipn_length. destruct pr; lia.
      + cbn [fst snd]. split; [reflexivity|]. assert (ia = na) by lia. subst ia.
        rewrite SA0, merge_nil_l. destruct pr; [rewrite skipn_length|cbn [length]]; lia.
  Qed.
End Step1.

Lemma firstn_app_exact {A} (l1 l2 : list A) : firstn (length l1) (l1 ++ l2) = l1.
Proof. rewrite firstn_app, Nat.sub_diag, firstn_all. cbn [firstn]. apply app_nil_r. Qed.

Lemma resize_eq {A} n (d : A) l : length l = n -> resize n d l = l.
Proof. intros <-. apply resize_id. Qed.

(* process_L0_refines_L1 for operators that pass the left side through (union, subtract): UNBOUNDED *)
Lemma process0_refines_pl (f : N -> N -> N) (a b : bitset0) :
  N.testbit (f 1 0)%N 0%N = true -> Inv0 a -> Inv0 b ->
  abs0 (process0 f a b) = merge true (N.testbit (f 0 1)%N 0%N) f (abs0 a) (abs0 b) /\
  length (pages0 (process0 f a b)) = length (pm0 (process0 f a b)).
Proof.
  intros Hpl (La & NDa & Fa & Sa) (Lb & NDb & Fb & Sb).
  set (pr := N.testbit (f 0 1)%N 0%N). unfold process0. rewrite Hpl. fold pr.
  set (PA := pages0 a) in *. set (A0 := pm0 a) in *. set (PB := pages0 b) in *. set (B0 := pm0 b) in *.
  set (na := length PA). set (nb := length PB).
  assert (Ena : na = length A0) by (unfold na; lia). assert (Enb : nb = length B0) by (unfold nb; lia).
  pose proof (step1_pl pr f PA A0 PB B0 (na + nb) 0 0 0 0) as S1. rewrite <- Ena, <- Enb in S1.
  specialize (S1 ltac:(lia) ltac:(lia) ltac:(lia)). cbn zeta in S1.
  destruct (step1 (na + nb) true pr B0 na nb A0 0 0 0 0) as [[[[pm1 ia] ib] c] w]. cbn [fst snd] in S1. destruct S1 as [E1 E2].
  subst pm1. cbn [skipn] in E2. fold (abs0 a) (abs0 b) in E2. change (absE PA A0) with (abs0 a) in E2. change (absE PB B0) with (abs0 b) in E2.
  set (count := if pr then c + (na - ia) + (nb - ib) else c + (na - ia)).
  assert (Ec : count = length (merge true pr f (abs0 a) (abs0 b))).
  { unfold count. destruct pr; lia. }
  assert (Hge : na <= count).
  { rewrite Ec. rewrite <- (app_nil_r (merge true pr f (abs0 a) (abs0 b))). rewrite <- (bmerge_merge true pr f _ _ [] Sa Sb).
    pose proof (bmerge_len_ge true pr f (rev (abs0 a)) (rev (abs0 b)) (or_introl eq_refl) (kdesc_rev _ Sa) (kdesc_rev _ Sb)) as H.
    assert (Hl : length (rev (abs0 a)) = na).
    { rewrite rev_length. unfold abs0. rewrite map_length. exact (eq_sym Ena). }
    rewrite Hl in H. exact H. }
  set (s0 := mkSt (resize count 0%N PA) (resize count (0%N, 0) A0) na nb count na).
  assert (VA : viewA s0 = abs0 a).
  { unfold viewA, s0. cbn [s_pages s_pm s_ia]. rewrite (resize_grow count _ A0) by lia. rewrite Ena, firstn_app_exact.
    rewrite (resize_grow count _ PA) by (fold na; lia). apply absE_pages_app. exact Fa. }
  assert (W0 : WF true pr f PB B0 count s0).
  { unfold WF. rewrite VA. unfold used, viewB, s0. cbn [s_pages s_pm s_ia s_ib s_count s_next].
    rewrite !resize_length. split; [reflexivity|]. split; [reflexivity|]. split; [exact Hge|]. split; [lia|]. split; [lia|].
    rewrite (skipn_all2 (resize count (0%N, 0) A0)) by (rewrite resize_length; lia).
    rewrite (resize_grow count _ A0) by lia. rewrite Ena, firstn_app_exact. cbn [map]. rewrite app_nil_r.
    split; [exact NDa|]. split; [rewrite <- Ena; exact Fa|]. split; [lia|].
    split.
    { rewrite Enb. change (absE PB B0) with (abs0 b). rewrite <- (map_length (fun e : pinfo => (fst e, nth (snd e) PB 0%N)) B0).
      change (map (fun e : pinfo => (fst e, nth (snd e) PB 0%N)) B0) with (abs0 b). rewrite firstn_all.
      rewrite (bmerge_merge true pr f _ _ [] Sa Sb), app_nil_r. exact Ec. }
    split; [left; reflexivity|exact Sa]. }
  destruct (run34_spec true pr f PB B0 count Sb s0 W0 eq_refl Enb) as (R1 & R2 & R3).
  unfold run34 in R1, R2, R3. cbn [s_ia s_ib s0] in R1, R2, R3. rewrite VA in R1. change (absE PB B0) with (abs0 b) in R1.
  fold s0.
  set (r := (if pr then drain_right _ PB B0 _ else _)) in *.
  unfold abs0. cbn [pages0 pm0]. rewrite (resize_eq count _ _ R2), (resize_eq count _ _ R3).
  split; [exact R1|]. rewrite R2, R3. reflexivity.
Qed.

(* stated against Model.process (L1): the page list of the in-place result is the page list of the L1 result *)
Lemma process0_refines_process_pl (f : N -> N -> N) (a b : bitset0) la lb :
  N.testbit (f 1 0)%N 0%N = true -> Inv0 a -> Inv0 b ->
  abs0 (process0 f a b) = pgs (process f (mkBS (abs0 a) la) (mkBS (abs0 b) lb)).
Proof.
  intros H Ia Ib. unfold process. cbn [pgs]. rewrite H. apply (process0_refines_pl f a b H Ia Ib).
Qed.
Lemma process0_union_refines a b la lb : Inv0 a -> Inv0 b ->
  abs0 (process0 N.lor a b) = pgs (bs_union (mkBS (abs0 a) la) (mkBS (abs0 b) lb)).
Proof. apply process0_refines_process_pl. reflexivity. Qed.
Lemma process0_subtract_refines a b la lb : Inv0 a -> Inv0 b ->
  abs0 (process0 N.ldiff a b) = pgs (bs_subtract (mkBS (abs0 a) la) (mkBS (abs0 b) lb)).
Proof. apply process0_refines_process_pl. reflexivity. Qed.
