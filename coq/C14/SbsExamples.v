From Coq Require Import ZArith List.
From FV Require Import C14.SbsModel C14.SbsProofs.
