(* C14 (codec half) — non-vacuity examples for the hypotheses of SbsProps.v and concrete behaviour *)
From Coq Require Import ZArith List Bool Lia Sorting.Sorted.
From FV Require Import Lib.RustInt C14.SbsModel C14.SbsProofs C14.SbsSpec C14.SbsRoundtrip C14.SbsClip.
Import ListNotations.
Open Scope Z_scope.

Lemma bytes_ok l : forallb is_byteb l = true -> Forall is_byte l.
Proof.
  intros Hl. apply Forall_forall. intros b Hb. rewrite forallb_forall in Hl. specialize (Hl b Hb).
  unfold is_byteb, is_byte in *. lia.
Qed.

(* specification example 2: {2, 33, 323} with BF 8, height 3 *)
Example sbs_spec_example_2 :
  decode [14; 33; 17; 1; 4; 2; 8] 0 (U32 - 1) = Ok [(2, 2); (33, 33); (323, 323)] [] /\
  spec_decode [14; 33; 17; 1; 4; 2; 8] = SOk [(2, 2); (33, 33); (323, 323)] [] /\
  encode_bf 8 [2; 33; 323] = Some [14; 33; 17; 1; 4; 2; 8].
Proof. repeat split; vm_compute; reflexivity. Qed.

(* the hypotheses of sbs_decode_matches_spec are met by an input that exercises a filled node,
   early termination at the maximum, a bias and a non-empty remainder *)
Example sbs_matches_spec_nonvacuous :
  let data := [13; 3; 49; 77; 78] in     (* BF 4, height 3: filled node [0,16) then 16, 17; tail 77 78 *)
  Forall is_byte data /\ Z.of_nat (length data) <= 2 ^ 27 /\
  spec_decode data = SOk [(0, 15); (16, 16); (17, 17)] [77; 78] /\
  decode data 5 21 = Ok [(5, 20); (21, 21)] [77; 78] /\
  decode data 0 (U32 - 1) = Ok [(0, 15); (16, 16); (17, 17)] [77; 78].
Proof.
  cbv zeta. split; [apply bytes_ok; reflexivity|]. repeat split; vm_compute; try reflexivity; discriminate.
Qed.

(* truncated input and unsupported height are errors, not panics *)
Example sbs_errors :
  decode [31; 0; 0; 0] 0 (U32 - 1) = Err /\ decode [35] 0 (U32 - 1) = Err /\ decode [] 0 0 = Err /\
  spec_decode [31; 0; 0; 0] = SErr.
Proof. repeat split; vm_compute; reflexivity. Qed.

(* extreme members; BF 2 cannot reach 2^32-1 and is upgraded to BF 4 *)
Example sbs_extremes :
  encode_bf 2 [4294967295] = Some [65; 136; 136; 136; 136; 136; 136; 136; 136] /\
  decode [65; 136; 136; 136; 136; 136; 136; 136; 136] 0 (U32 - 1) = Ok [(4294967295, 4294967295)] [] /\
  rt_ok 32 [0; 4294967295] = true /\ rt_ok 0 [] = true.
Proof. repeat split; vm_compute; reflexivity. Qed.

(* sbs_roundtrip_enumerated covers sets with filled nodes, e.g. m = 255 = {0..7}: a single filled BF-8 node *)
Example sbs_roundtrip_nonvacuous :
  subset_of_mask 255 = [0; 1; 2; 3; 4; 5; 6; 7] /\ encode_bf 8 (subset_of_mask 255) = Some [6; 0].
Proof. split; vm_compute; reflexivity. Qed.

(* the hypotheses of sbs_roundtrip are met by a set with a completely filled BF-4 subtree, a straggler
   and the extreme value 2^32-1; the encoder output is the one the theorem speaks about *)
Example sbs_roundtrip_general_nonvacuous :
  let S0 := [0; 1; 2; 3; 4; 5; 6; 7; 8; 9; 10; 11; 12; 13; 14; 15; 77; 4294967295] in
  StronglySorted Z.lt S0 /\ Forall (fun v => 0 <= v < U32) S0 /\
  (exists bytes, encode_bf 4 S0 = Some bytes /\
     decode bytes 0 (U32 - 1) = Ok [(0, 15); (77, 77); (4294967295, 4294967295)] []) /\
  (exists bytes, encode_bf 2 S0 = Some bytes /\ Z.land (hd 0 bytes) 3 = 1).   (* BF 2 upgraded to BF 4 *)
Proof.
  cbv zeta. split; [|split; [|split]].
  - repeat (constructor; [|repeat (constructor; [lia|]); constructor]). constructor.
  - repeat (constructor; [unfold U32; lia|]). constructor.
  - eexists. split; [vm_compute; reflexivity | vm_compute; reflexivity].
  - eexists. split; [vm_compute; reflexivity | vm_compute; reflexivity].
Qed.

(* the filled-node clause on concrete inputs: BF 8 / H 11 root filled (2^33 values) with bias 2^31 keeps
   [2^31, 2^32-1]; the same with max = 2^31 + 5; a bias that pushes every value past max gives the empty set;
   the two trailing bytes stay unread *)
Example sbs_filled_root_examples :
  decode [46; 0; 7; 9] 2147483648 (U32 - 1) = Ok [(2147483648, 4294967295)] [7; 9] /\
  decode [46; 0; 7; 9] 2147483648 2147483653 = Ok [(2147483648, 2147483653)] [7; 9] /\
  decode [46; 0; 7; 9] 100 99 = Ok [] [7; 9] /\
  decode [31; 0; 0; 0; 0] 5 (U32 - 1) = Ok [(5, 4294967295)] [].
Proof. repeat split; vm_compute; reflexivity. Qed.
